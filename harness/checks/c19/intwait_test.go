package c19

import (
	"context"
	"fmt"
	"strings"
	"time"

	"github.com/cloudwego/eino/compose"

	"verifharness/internal/gspec"
	"verifharness/internal/mon"
)

// END becomes ready while an eager run waits on the interrupt path.
//
// A Workflow compiled with a checkpoint store and interrupt-before / interrupt-after nodes. Streaming
// feeders f1..fm (control+data) feed a node x; x (or the end of the chain x -> x2) hands its value,
// data-only, to a node a forced branch outcome skips. The path q -> w (-> t) -> END is delayed. When the
// last feeder completes, x is the next task; it is an interrupt-before node (or a feeder / x is an
// interrupt-after node), so the run loop waits for everything that still runs before it interrupts. If
// the tail of the END path is among those, END becomes ready during the wait and the run returns its
// result instead of interrupting - the prepared task (x or x2) is never started.
//
// A run that interrupts is outside the premise of the property (it did not complete): counted, not
// judged. A run that completes is judged like every other run: nothing may stay blocked.

type intWaitPlan struct {
	Top      *gspec.GraphSpec
	Inner    *gspec.GraphSpec
	Nested   bool
	Choices  map[string][]string
	Roles    map[string]string
	Feeders  []string
	Prepared string // the node that is prepared and, in the runs we are after, never started
	EndPath  []string
	Tail     string
	Skipped  []string
	Config   string
	Shape    string
}

const (
	iwFeeder   = "feeder-of-the-prepared-node"
	iwPrepared = "prepared-node"
	iwUpstream = "node-upstream-of-the-prepared-node"
	iwOther    = "node-on-the-path-to-end"
)

func genIntWait(rng *mon.Rand) *intWaitPlan {
	p := &intWaitPlan{Roles: map[string]string{}}
	mk := func(k string) gspec.NodeSpec {
		return gspec.NodeSpec{Key: k, Kind: gspec.Hash, Para: []int{gspec.PS, gspec.PT, gspec.PS | gspec.PT}[rng.Intn(3)],
			PipeCap: []int{0, 0, 1, 3}[rng.Intn(4)], Pad: 2 + rng.Intn(6), Chunk: rng.Uint64(), Wide: rng.Prob(0.3)}
	}
	anyNode := func(k string) gspec.NodeSpec {
		n := mk(k)
		if rng.Prob(0.4) {
			n.Kind, n.Para, n.Wide = gspec.Rename, gspec.PT, false
		}
		return n
	}
	g := &gspec.GraphSpec{Mode: gspec.Workflow}
	add := func(n gspec.NodeSpec, role string) string {
		g.Nodes = append(g.Nodes, n)
		p.Roles[n.Key] = role
		return n.Key
	}
	edge := func(e gspec.EdgeSpec) { g.Edges = append(g.Edges, e) }

	// the branch source, the selected side, the skipped side
	add(anyNode("q"), iwOther)
	add(anyNode("w"), iwOther)
	edge(gspec.EdgeSpec{From: gspec.START, To: "q"})
	edge(gspec.EdgeSpec{From: "q", To: "w", NoControl: true})
	p.EndPath, p.Tail = []string{"q", "w"}, "w"
	if rng.Prob(0.3) {
		add(anyNode("t"), iwOther)
		edge(gspec.EdgeSpec{From: "w", To: "t"})
		p.EndPath, p.Tail = append(p.EndPath, "t"), "t"
	}
	edge(gspec.EdgeSpec{From: p.Tail, To: gspec.END})
	add(anyNode("h"), iwOther)
	p.Skipped = []string{"h"}
	last := "h"
	if rng.Prob(0.3) {
		add(anyNode("ha"), iwOther)
		edge(gspec.EdgeSpec{From: "h", To: "ha"})
		p.Skipped = append(p.Skipped, "ha")
		last = "ha"
	}
	edge(gspec.EdgeSpec{From: last, To: gspec.END})
	bt := []string{"w", "h"}
	if rng.Bool() {
		bt = []string{"h", "w"}
	}
	g.Branches = []gspec.BranchSpec{{ID: "s1", From: "q", Targets: bt, Multi: rng.Bool(), Stream: rng.Prob(0.7), Prefix: rng.Prob(0.7)}}
	p.Choices = map[string][]string{"s1": {"w"}}

	// the feeders and the node they feed
	m := 1 + rng.Intn(3)
	for i := 1; i <= m; i++ {
		fk := fmt.Sprintf("f%d", i)
		add(mk(fk), iwFeeder)
		if rng.Prob(0.2) {
			edge(gspec.EdgeSpec{From: "q", To: fk})
		} else {
			edge(gspec.EdgeSpec{From: gspec.START, To: fk})
		}
		edge(gspec.EdgeSpec{From: fk, To: "x"})
		p.Feeders = append(p.Feeders, fk)
		if rng.Prob(0.15) {
			// one more copy of the feeder's output is consumed on the path to END
			edge(gspec.EdgeSpec{From: fk, To: "w", NoControl: true})
		}
	}
	add(anyNode("x"), iwPrepared)
	chain := rng.Prob(0.45)
	out := "x"
	if chain {
		add(anyNode("x2"), iwPrepared)
		edge(gspec.EdgeSpec{From: "x", To: "x2"})
		out = "x2"
	}
	// the declared consumer of the chain's value: a node of the skipped side
	edge(gspec.EdgeSpec{From: out, To: p.Skipped[rng.Intn(len(p.Skipped))], NoControl: true})

	f := p.Feeders[rng.Intn(len(p.Feeders))]
	p.Prepared = "x"
	var cfgs []string
	cfgs = append(cfgs, "before-x", "after-feeder", "before-x+after-feeder")
	if chain {
		cfgs = append(cfgs, "after-x", "before-x2", "after-x+before-x2")
	}
	p.Config = cfgs[rng.Intn(len(cfgs))]
	switch p.Config {
	case "before-x":
		g.IntBefore = []string{"x"}
	case "after-feeder":
		g.IntAfter = []string{f}
	case "before-x+after-feeder":
		g.IntBefore, g.IntAfter = []string{"x"}, []string{f}
	case "after-x":
		g.IntAfter, p.Prepared = []string{"x"}, "x2"
	case "before-x2":
		g.IntBefore, p.Prepared = []string{"x2"}, "x2"
	case "after-x+before-x2":
		g.IntAfter, g.IntBefore, p.Prepared = []string{"x"}, []string{"x2"}, "x2"
	}
	if p.Prepared == "x2" {
		p.Roles["x"] = iwUpstream
		for _, k := range p.Feeders {
			p.Roles[k] = iwUpstream
		}
	}
	fixInputs(rng, g)
	p.Inner, p.Top = g, g
	if rng.Prob(0.2) {
		p.Nested = true
		outer := &gspec.GraphSpec{Mode: []gspec.Mode{gspec.DAG, gspec.Workflow, gspec.Pregel}[rng.Intn(3)],
			Nodes: []gspec.NodeSpec{mk("oa"), {Key: "og", Kind: gspec.Sub, Sub: g, PipeCap: -1}, anyNode("ob")},
			Edges: []gspec.EdgeSpec{{From: gspec.START, To: "oa"}, {From: "oa", To: "og"}, {From: "og", To: "ob"}, {From: "ob", To: gspec.END}}}
		p.Roles["oa"], p.Roles["ob"] = iwOther, iwOther
		p.Top = outer
	}
	gspec.FixNames(p.Top, "")
	p.Shape = fmt.Sprintf("m%d chain%v tail%s skipped%d cfg:%s nested%v", m, chain, p.Tail, len(p.Skipped), p.Config, p.Nested)
	return p
}

// intWaitDelays: mostly "the feeders finish while only the tail of the END path is still running".
func intWaitDelays(rng *mon.Rand, p *intWaitPlan) (string, map[string]time.Duration, map[string][]time.Duration) {
	body := map[string]time.Duration{}
	chunk := map[string][]time.Duration{}
	names := []string{"tail-late", "tail-late", "staggered-feeders", "race", "no-delays"}
	sc := rng.Intn(len(names))
	switch sc {
	case 0, 1:
		for _, k := range p.EndPath {
			body[k] = us(rng.Intn(80))
		}
		for _, k := range p.Feeders {
			body[k] = us(300 + rng.Intn(700))
		}
		body["x"] = us(rng.Intn(300))
		body[p.Tail] = us(2500 + rng.Intn(2500))
	case 2:
		for _, k := range p.EndPath {
			body[k] = us(rng.Intn(200))
		}
		for _, k := range p.Feeders {
			body[k] = us(rng.Intn(2000))
			if rng.Bool() {
				chunk[k] = []time.Duration{us(rng.Intn(600))}
			}
		}
		body[p.Tail] = us(1000 + rng.Intn(2500))
	case 3:
		for _, k := range append(append([]string{"x", "x2"}, p.Feeders...), p.EndPath...) {
			body[k] = us(rng.Intn(700))
		}
	}
	return names[sc], body, chunk
}

func intWaitCase(ctx context.Context, rep *mon.Reporter, rng *mon.Rand, cfg mon.Config) {
	p := genIntWait(rng)
	if ok, k := everyNodeHasDeclaredConsumer(p.Top); !ok {
		rep.Violation(ID+"/harness/interrupt-wait-generator-built-a-dead-end", "node "+k+" has no data successor", p.Top)
		return
	}
	var in gspec.V = gspec.V{"in": rng.Str(2, 8), "in2": rng.Str(1, 4)}
	env := &gspec.RefEnv{Choices: p.Choices}
	ref := gspec.EvalGraph(p.Top, in, env)
	if ref.Err != "" {
		rep.Count("skipped_precondition_interrupt-wait_reference-fails", 1)
		return
	}
	store := gspec.NewByteStore()
	r, err := gspec.Build(ctx, p.Top, gspec.BuildOpts{Store: store})
	if err != nil {
		rep.Violation(ID+"/build-error", err.Error(), p.Top)
		return
	}
	rep.Count("interrupt_wait_cases", 1)
	rep.Count("interrupt_wait_cases_"+p.Config, 1)
	if p.Nested {
		rep.Count("interrupt_wait_cases_nested_in_"+p.Top.Mode.String(), 1)
	}
	rep.Distinct("interrupt_wait_shapes", p.Shape)
	rep.Distinct("shapes", p.Top.Shape())
	forced = p.Choices
	defer func() { forced = nil; clearHooks() }()
	stops := []int{-1, 0, 1, 2}
	if cfg.Thorough() {
		stops = append(stops, 3, -1)
	}
	for i, stop := range stops {
		scen, body, chunk := intWaitDelays(rng, p)
		runHooks.body, runHooks.chunk = body, chunk
		runHooks.opts = []compose.Option{compose.WithCheckPointID(fmt.Sprintf("cp%d", i))}
		runHooks.witness = map[string]any{"delay_scenario": scen, "body_delays": body, "chunk_delays": chunk, "roles": p.Roles,
			"forced_branch_outcome": p.Choices, "interrupt_before": p.Inner.IntBefore, "interrupt_after": p.Inner.IntAfter, "prepared_node": p.Prepared}
		interrupted := false
		runHooks.onErr = func(err error) {
			if _, ok := compose.ExtractInterruptInfo(err); ok || gspec.IsInterruptErrorText(err) {
				interrupted = true
				rep.Count("interrupt_wait_runs_interrupted_not_judged", 1)
				return
			}
			rep.Count("interrupt_wait_runs_failed_otherwise", 1)
		}
		runHooks.classify = func(unreleased []string) string {
			pre := "end-during-interrupt-wait/"
			if len(unreleased) == 0 {
				return pre + "framework-goroutine-parked"
			}
			have := map[string]bool{}
			for _, u := range unreleased {
				n := u
				if j := strings.IndexByte(u, '('); j > 0 {
					n = u[:j]
				}
				role := p.Roles[n]
				if role == "" {
					role = "unknown-node"
				}
				have[role] = true
			}
			for _, role := range []string{iwFeeder, iwPrepared, iwUpstream, iwOther, "unknown-node"} {
				if have[role] {
					return pre + role
				}
			}
			return pre + "unknown-node"
		}
		runHooks.after = func(execs []gspec.Exec, prods []gspec.Producer) {
			// a completed run. Was the prepared node ready (all its control predecessors had returned)
			// before the tail of the END path returned, and yet never started?
			rep.Count("interrupt_wait_runs_completed", 1)
			rep.Count("interrupt_wait_runs_completed_"+scen, 1)
			end := map[string]int64{}
			started := map[string]bool{}
			for _, e := range execs {
				started[e.Node] = true
				end[e.Node] = e.EndSeq
			}
			preds := p.Feeders
			if p.Prepared == "x2" {
				preds = []string{"x"}
			}
			ready := end[p.Tail] > 0
			for _, k := range preds {
				if end[k] == 0 || end[k] > end[p.Tail] {
					ready = false
				}
			}
			if ready && !started[p.Prepared] {
				rep.Count("interrupt_wait_runs_completed_with_the_prepared_node_ready_and_never_started", 1)
				rep.Count("interrupt_wait_runs_completed_ready_never_started_"+p.Config, 1)
			}
			if started[p.Prepared] {
				rep.Count("interrupt_wait_runs_completed_with_the_prepared_node_started", 1)
			}
		}
		para := []string{"S", "T"}[rng.Intn(2)]
		if _, ok := oneRun(ctx, rep, p.Top, r, in, ref, para, stop, handlerMode(rng.Intn(4)), rng.Uint64(), false); !ok && !interrupted {
			return
		}
	}
}
