package c19

import (
	"context"
	"fmt"
	"sort"
	"strings"
	"time"

	"github.com/cloudwego/eino/compose"

	"verifharness/internal/gspec"
	"verifharness/internal/mon"
)

// Eager execution and completion orders.
//
// A Workflow returns its result as soon as END is ready. Nodes that do not feed END may then still be
// running, or have finished without having been collected by the run loop: streaming producers whose
// only consumers (data-only inputs) were skipped by a branch, chains of such producers, producers one
// copy of whose output is consumed while the other belongs to a skipped node. Whether such a producer
// is released must not depend on which of {the producer, the branch source, the path to END} finishes
// first: every run is executed under a PRNG-chosen plan of delays (time.Sleep in node bodies, before
// the stream is returned, and in the producer goroutines, before single chunks).
//
// Premise of the property: every produced value has a declared consumer. The generator never builds a
// dead-end node (checked statically on every generated spec: every node has a data successor), and the
// reference run must succeed.

// runHooks: per-run additions to oneRun (set by the case that is being executed, like `forced`).
var runHooks struct {
	body     map[string]time.Duration   // node key -> delay at the start of the body
	chunk    map[string][]time.Duration // node key -> delay before the i-th chunk is sent
	classify func(unreleased []string) string
	after    func(execs []gspec.Exec, prods []gspec.Producer)
	witness  map[string]any
	opts     []compose.Option // extra call options (intwait_test.go: the checkpoint id)
	onErr    func(err error)  // told about the error of a run that failed (is it an interrupt?)
}

func clearHooks() {
	runHooks.body, runHooks.chunk, runHooks.classify, runHooks.after, runHooks.witness = nil, nil, nil, nil, nil
	runHooks.opts, runHooks.onErr = nil, nil
}

func installDelays(ctl *gspec.RunCtl) {
	if body := runHooks.body; body != nil {
		ctl.OnBody = func(ctx context.Context, node string, in any) {
			if d := body[node]; d > 0 {
				time.Sleep(d)
			}
		}
	}
	if chunk := runHooks.chunk; chunk != nil {
		ctl.OnChunk = func(node string, i int) {
			if ds := chunk[node]; i < len(ds) && ds[i] > 0 {
				time.Sleep(ds[i])
			}
		}
	}
}

type eagerPlan struct {
	Top      *gspec.GraphSpec
	Inner    *gspec.GraphSpec // the Workflow (== Top unless nested)
	Nested   bool
	Choices  map[string][]string
	Roles    map[string]string // node key -> structural role (signature class)
	Prods    []string          // producers and intermediates (never on the path to END unless fanned out)
	EndPath  []string          // q, w, (t)
	Tail     string            // the node whose output END takes from the selected side
	Skipped  []string          // nodes the forced branch outcome skips
	Shape    string
	HasFan   bool
	HasChain bool
	HasInter bool
	HasMerge bool
	HasSide  bool
}

const (
	roleDirect = "producer-of-skipped-consumers"
	roleFan    = "producer-with-one-consumed-copy"
	roleBehind = "producer-behind-intermediate"
	roleInter  = "intermediate-of-skipped-consumers"
	roleOther  = "node-on-the-path-to-end"
	roleMerged = "producer-behind-merging-intermediate"
	roleSide   = "end-path-node-with-a-side-successor"
	roleSideN  = "side-successor-of-the-end-path"
)

func genEager(rng *mon.Rand) *eagerPlan {
	p := &eagerPlan{Roles: map[string]string{}}
	mk := func(k string) gspec.NodeSpec {
		return gspec.NodeSpec{Key: k, Kind: gspec.Hash, Para: []int{gspec.PS, gspec.PT, gspec.PS | gspec.PT}[rng.Intn(3)],
			PipeCap: []int{0, 0, 1, 3}[rng.Intn(4)], Pad: 2 + rng.Intn(6), Chunk: rng.Uint64(), Wide: rng.Prob(0.3)}
	}
	lazy := func(k string) gspec.NodeSpec {
		n := mk(k)
		n.Kind, n.Para, n.Wide = gspec.Rename, gspec.PT, false
		return n
	}
	anyNode := func(k string) gspec.NodeSpec {
		if rng.Prob(0.4) {
			return lazy(k)
		}
		return mk(k)
	}
	g := &gspec.GraphSpec{Mode: gspec.Workflow}
	add := func(n gspec.NodeSpec, role string) string {
		g.Nodes = append(g.Nodes, n)
		p.Roles[n.Key] = role
		return n.Key
	}
	edge := func(e gspec.EdgeSpec) { g.Edges = append(g.Edges, e) }

	// the branch source and the selected side
	add(anyNode("q"), roleOther)
	add(anyNode("w"), roleOther)
	edge(gspec.EdgeSpec{From: gspec.START, To: "q"})
	edge(gspec.EdgeSpec{From: "q", To: "w", NoControl: true})
	p.EndPath = []string{"q", "w"}
	p.Tail = "w"
	if rng.Prob(0.4) {
		add(anyNode("t"), roleOther)
		edge(gspec.EdgeSpec{From: "w", To: "t"})
		p.EndPath = append(p.EndPath, "t")
		p.Tail = "t"
	}
	edge(gspec.EdgeSpec{From: p.Tail, To: gspec.END})

	// the other targets of the branch, each the head of a chain
	k := 1 + rng.Intn(3)
	multi := rng.Bool()
	var heads []string
	chainOf := map[string][]string{}
	for j := 1; j <= k; j++ {
		h := fmt.Sprintf("x%d", j)
		add(anyNode(h), roleOther)
		heads = append(heads, h)
		chain := []string{h}
		if rng.Prob(0.4) {
			a := add(anyNode(h+"a"), roleOther)
			edge(gspec.EdgeSpec{From: h, To: a})
			chain = append(chain, a)
			p.HasChain = true
			if rng.Prob(0.35) {
				b := add(anyNode(h+"b"), roleOther)
				edge(gspec.EdgeSpec{From: a, To: b})
				chain = append(chain, b)
			}
		}
		chainOf[h] = chain
		edge(gspec.EdgeSpec{From: chain[len(chain)-1], To: gspec.END})
		if rng.Prob(0.4) {
			// fan-out of the branch source: one copy is consumed by w, this one belongs to a branch target
			edge(gspec.EdgeSpec{From: "q", To: h, NoControl: true})
		}
	}
	chosen := []string{"w"}
	selected := map[string]bool{}
	if multi && k > 1 {
		for _, h := range heads[1:] { // heads[0] is always skipped
			if rng.Prob(0.3) {
				chosen = append(chosen, h)
				selected[h] = true
			}
		}
	}
	var skippedNodes, selectedNodes []string
	for _, h := range heads {
		if selected[h] {
			selectedNodes = append(selectedNodes, chainOf[h]...)
		} else {
			skippedNodes = append(skippedNodes, chainOf[h]...)
		}
	}
	p.Skipped = skippedNodes
	targets := append([]string{"w"}, heads...)
	perm := rng.Perm(len(targets))
	bt := make([]string, len(targets))
	for i, j := range perm {
		bt[i] = targets[j]
	}
	g.Branches = []gspec.BranchSpec{{ID: "s1", From: "q", Targets: bt, Multi: multi, Stream: rng.Prob(0.7), Prefix: rng.Prob(0.7)}}
	p.Choices = map[string][]string{"s1": chosen}

	// the producers
	m := 1 + rng.Intn(3)
	for i := 1; i <= m; i++ {
		pk := fmt.Sprintf("p%d", i)
		var pn gspec.NodeSpec
		if rng.Prob(0.25) {
			pn = lazy(pk)
		} else {
			pn = mk(pk)
		}
		if rng.Prob(0.25) {
			edge(gspec.EdgeSpec{From: "q", To: pk}) // starts once the branch source has finished
		} else {
			edge(gspec.EdgeSpec{From: gspec.START, To: pk})
		}
		// consumers: at least one skipped node, possibly more (skipped or selected ones)
		cands := append(append([]string{}, skippedNodes...), selectedNodes...)
		nt := 1 + rng.Intn(3)
		seen := map[string]bool{}
		first := skippedNodes[rng.Intn(len(skippedNodes))]
		tg := []string{first}
		seen[first] = true
		for len(tg) < nt && len(tg) < len(cands) {
			c := cands[rng.Intn(len(cands))]
			if !seen[c] {
				seen[c] = true
				tg = append(tg, c)
			}
		}
		sort.Strings(tg)
		consumedCopy := false
		for _, t := range tg {
			for _, s := range selectedNodes {
				if s == t {
					consumedCopy = true
				}
			}
		}
		src := pk
		role := roleDirect
		switch x := rng.Intn(10); {
		case x < 5:
		case x < 8:
			// an intermediate node (control+data from the producer) hands the value on
			yk := fmt.Sprintf("y%d", i)
			add(anyNode(yk), roleInter)
			add(pn, roleBehind)
			edge(gspec.EdgeSpec{From: pk, To: yk})
			src, role = yk, ""
			p.Prods = append(p.Prods, yk)
			p.HasInter = true
			if rng.Prob(0.35) {
				// the intermediate merges two producers: one of them may be parked in its channel while
				// the other is still running when END becomes ready
				zk := fmt.Sprintf("pz%d", i)
				add(mk(zk), roleMerged)
				p.Roles[pk] = roleMerged
				edge(gspec.EdgeSpec{From: gspec.START, To: zk})
				edge(gspec.EdgeSpec{From: zk, To: yk})
				p.Prods = append(p.Prods, zk)
				p.HasMerge = true
			}
		default:
			// one copy is consumed on the path to END
			edge(gspec.EdgeSpec{From: pk, To: "w", NoControl: true})
			consumedCopy = true
		}
		if role != "" {
			if consumedCopy {
				role = roleFan
				p.HasFan = true
			}
			add(pn, role)
		} else if consumedCopy {
			p.Roles[src] = roleFan
			p.HasFan = true
		}
		p.Prods = append(p.Prods, pk)
		for _, t := range tg {
			edge(gspec.EdgeSpec{From: src, To: t, NoControl: true})
		}
	}
	if rng.Prob(0.2) {
		// a successor of the END path that becomes ready together with END; its own consumer is skipped
		add(anyNode("z"), roleSideN)
		p.Roles[p.Tail] = roleSide
		edge(gspec.EdgeSpec{From: p.Tail, To: "z"})
		edge(gspec.EdgeSpec{From: "z", To: skippedNodes[rng.Intn(len(skippedNodes))], NoControl: true})
		p.HasSide = true
	}
	fixInputs(rng, g)
	p.Inner, p.Top = g, g
	if rng.Prob(0.25) {
		// the Workflow is a nested graph of an outer graph of any mode
		p.Nested = true
		outer := &gspec.GraphSpec{Mode: []gspec.Mode{gspec.DAG, gspec.Workflow, gspec.Pregel}[rng.Intn(3)],
			Nodes: []gspec.NodeSpec{mk("oa"), {Key: "og", Kind: gspec.Sub, Sub: g, PipeCap: -1}, anyNode("ob")},
			Edges: []gspec.EdgeSpec{{From: gspec.START, To: "oa"}, {From: "oa", To: "og"}, {From: "og", To: "ob"}, {From: "ob", To: gspec.END}}}
		p.Roles["oa"], p.Roles["ob"] = roleOther, roleOther
		p.Top = outer
	}
	gspec.FixNames(p.Top, "")
	p.Shape = fmt.Sprintf("k%d multi%v sel%d prods%d chain%v inter%v fan%v merge%v side%v nested%v", k, multi, len(chosen)-1, m, p.HasChain, p.HasInter, p.HasFan, p.HasMerge, p.HasSide, p.Nested)
	return p
}

// fixInputs: a Workflow node takes either one whole-value input or only field-mapped inputs (sources
// with statically known keys: Hash nodes).
func fixInputs(rng *mon.Rand, g *gspec.GraphSpec) {
	keysOf := func(n *gspec.NodeSpec) []string {
		ks := []string{n.Key}
		if n.Wide && rng.Bool() {
			ks = append(ks, n.Key+"_w")
		}
		return ks
	}
	targets := []string{gspec.END}
	for _, n := range g.Nodes {
		targets = append(targets, n.Key)
	}
	for _, t := range targets {
		var idx []int
		for i, e := range g.Edges {
			if e.To == t && !e.NoData {
				idx = append(idx, i)
			}
		}
		for _, i := range idx {
			e := &g.Edges[i]
			if e.From == gspec.START {
				continue
			}
			src := g.Node(e.From)
			if len(idx) == 1 {
				if src.Kind == gspec.Hash && rng.Prob(0.4) {
					e.Fields = keysOf(src)
				}
				continue
			}
			if src.Kind != gspec.Hash {
				src.Kind, src.Para = gspec.Hash, []int{gspec.PS, gspec.PT, gspec.PS | gspec.PT}[rng.Intn(3)]
			}
			e.Fields = keysOf(src)
		}
	}
}

// everyNodeHasDeclaredConsumer: the premise, statically: no dead-end node anywhere in the spec tree.
func everyNodeHasDeclaredConsumer(g *gspec.GraphSpec) (bool, string) {
	for i := range g.Nodes {
		n := &g.Nodes[i]
		has := false
		for _, e := range g.Edges {
			if e.From == n.Key && !e.NoData {
				has = true
			}
		}
		if g.Mode != gspec.Workflow {
			for _, b := range g.Branches {
				if b.From == n.Key {
					has = true
				}
			}
		}
		if !has {
			return false, n.Key
		}
		if n.Sub != nil {
			if ok, k := everyNodeHasDeclaredConsumer(n.Sub); !ok {
				return false, k
			}
		}
	}
	return true, ""
}

func us(n int) time.Duration { return time.Duration(n) * time.Microsecond }

// delayPlan chooses which side finishes first.
func delayPlan(rng *mon.Rand, p *eagerPlan) (string, map[string]time.Duration, map[string][]time.Duration) {
	body := map[string]time.Duration{}
	chunk := map[string][]time.Duration{}
	small := func() time.Duration { return us(rng.Intn(250)) }
	large := func() time.Duration { return us(1500 + rng.Intn(2500)) }
	names := []string{"producers-late", "end-path-late", "close-race", "slow-chunks", "no-delays"}
	sc := rng.Intn(len(names))
	switch sc {
	case 0:
		for _, k := range p.Prods {
			body[k] = large()
		}
		for _, k := range p.EndPath {
			body[k] = small()
		}
	case 1:
		for _, k := range p.Prods {
			body[k] = small()
		}
		slow := p.EndPath[rng.Intn(len(p.EndPath))]
		for _, k := range p.EndPath {
			body[k] = small()
		}
		body[slow] = large()
	case 2:
		for _, k := range append(append([]string{}, p.Prods...), p.EndPath...) {
			body[k] = us(rng.Intn(700))
		}
	case 3:
		for _, k := range append(append([]string{}, p.Prods...), p.EndPath...) {
			if rng.Bool() {
				body[k] = us(rng.Intn(400))
			}
			n := 1 + rng.Intn(3)
			for i := 0; i < n; i++ {
				chunk[k] = append(chunk[k], us(200+rng.Intn(1300)))
			}
		}
	}
	return names[sc], body, chunk
}

func eagerEndCase(ctx context.Context, rep *mon.Reporter, rng *mon.Rand, cfg mon.Config) {
	p := genEager(rng)
	if ok, k := everyNodeHasDeclaredConsumer(p.Top); !ok {
		rep.Violation(ID+"/harness/eager-generator-built-a-dead-end", "node "+k+" has no data successor", p.Top)
		return
	}
	var in gspec.V = gspec.V{"in": rng.Str(2, 8), "in2": rng.Str(1, 4)}
	env := &gspec.RefEnv{Choices: p.Choices}
	ref := gspec.EvalGraph(p.Top, in, env)
	if ref.Err != "" {
		rep.Count("skipped_precondition_eager_reference-fails", 1)
		return
	}
	// the inner reference: which nodes the forced outcome skips
	iref := ref
	if p.Nested {
		sin := ref.SubIn["og"]
		if len(sin) != 1 {
			rep.Count("skipped_precondition_eager_nested-not-run-once", 1)
			return
		}
		iref = gspec.EvalGraph(p.Inner, sin[0], env)
	}
	for _, k := range p.Skipped {
		if iref.Ran[k] {
			rep.Violation(ID+"/harness/eager-reference-runs-a-skipped-node", k, p.Top)
			return
		}
	}
	for _, k := range p.Prods {
		if !iref.Ran[k] {
			rep.Violation(ID+"/harness/eager-reference-skips-a-producer", k, p.Top)
			return
		}
	}
	r, err := gspec.Build(ctx, p.Top, gspec.BuildOpts{})
	if err != nil {
		rep.Violation(ID+"/build-error", err.Error(), p.Top)
		return
	}
	rep.Count("eager_end_cases", 1)
	if p.Nested {
		rep.Count("eager_end_cases_nested_in_"+p.Top.Mode.String(), 1)
	}
	for _, f := range []struct {
		on   bool
		name string
	}{{p.HasChain, "skipped_chain"}, {p.HasInter, "intermediate"}, {p.HasFan, "consumed_copy"}, {p.HasMerge, "merging_intermediate"}, {p.HasSide, "side_successor_of_end_path"}} {
		if f.on {
			rep.Count("eager_end_cases_with_"+f.name, 1)
		}
	}
	rep.Distinct("eager_end_shapes", p.Shape)
	rep.Distinct("shapes", p.Top.Shape())
	forced = p.Choices
	defer func() { forced = nil; clearHooks() }()
	stops := []int{-1, 0, 1, 2}
	if cfg.Thorough() {
		stops = append(stops, 3, 5, -1)
	}
	for _, stop := range stops {
		scen, body, chunk := delayPlan(rng, p)
		runHooks.body, runHooks.chunk = body, chunk
		runHooks.witness = map[string]any{"delay_scenario": scen, "body_delays": body, "chunk_delays": chunk, "roles": p.Roles, "forced_branch_outcome": p.Choices}
		runHooks.classify = func(unreleased []string) string {
			pre := "eager-end/" // same root causes whether or not the Workflow is a nested graph: one signature
			if len(unreleased) == 0 {
				return pre + "framework-goroutine-parked"
			}
			// the most specific role among the unreleased producers (fixed order)
			have := map[string]bool{}
			for _, u := range unreleased {
				n := u
				if i := strings.IndexByte(u, '('); i > 0 {
					n = u[:i]
				}
				role := p.Roles[n]
				if role == "" {
					role = "unknown-node"
				}
				have[role] = true
			}
			for _, role := range []string{roleDirect, roleBehind, roleInter, roleFan, roleMerged, roleSide, roleSideN, roleOther, "unknown-node"} {
				if have[role] {
					return pre + role
				}
			}
			return pre + "unknown-node"
		}
		runHooks.after = func(execs []gspec.Exec, prods []gspec.Producer) {
			// which order did this run take? (body exits are numbered in one global sequence)
			var tailEnd int64
			started := map[string]bool{}
			late, early := 0, 0
			for _, e := range execs {
				if e.Node == p.Tail {
					tailEnd = e.EndSeq
				}
			}
			for _, e := range execs {
				started[e.Node] = true
				for _, k := range p.Prods {
					if e.Node == k && tailEnd > 0 {
						if e.EndSeq > tailEnd || e.EndSeq == 0 {
							late++
						} else {
							early++
						}
					}
				}
			}
			if late > 0 {
				rep.Count("eager_end_runs_with_a_producer_returning_after_the_end_path", 1)
			}
			if early > 0 {
				rep.Count("eager_end_runs_with_a_producer_returning_before_the_end_path", 1)
			}
			for _, k := range p.Prods {
				if !started[k] {
					rep.Count("eager_end_producers_never_started", 1)
				}
			}
			rep.Count("eager_end_runs_"+scen, 1)
		}
		para := []string{"S", "T"}[rng.Intn(2)]
		if _, ok := oneRun(ctx, rep, p.Top, r, in, ref, para, stop, handlerMode(rng.Intn(4)), rng.Uint64(), false); !ok {
			return
		}
	}
}
