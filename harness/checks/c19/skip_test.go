package c19

import (
	"context"

	"verifharness/internal/gspec"
	"verifharness/internal/mon"
)

// workflowSkipCase: a Workflow in which streaming nodes hand their output, through data-only inputs,
// to the targets of a branch; the branch (forced) skips some of these targets. The copies the engine
// made for the skipped targets are streams "the framework created internally": they must be closed,
// whether the value arrives after the skip (data from the branching node itself) or before it (data
// from an earlier node p, control from the later branch). The selected target forwards lazily, so
// nobody drains the producers unless the caller does.
func workflowSkipCase(ctx context.Context, rep *mon.Reporter, rng *mon.Rand, cfg mon.Config) {
	mk := func(k string) gspec.NodeSpec {
		return gspec.NodeSpec{Key: k, Kind: gspec.Hash, Para: []int{gspec.PS, gspec.PT, gspec.PS | gspec.PT}[rng.Intn(3)], PipeCap: []int{0, 1, 3}[rng.Intn(3)], Pad: 2 + rng.Intn(6), Chunk: rng.Uint64()}
	}
	lazy := func(k string) gspec.NodeSpec {
		n := mk(k)
		n.Kind, n.Para = gspec.Rename, gspec.PT
		return n
	}
	// late: p -> a (control+data); a branches over {b, c}; b and c take data-only inputs from a (the value
	// arrives after the skip); END takes b's whole output.
	// early: b and c take their data from p, which finished long before a's branch decides (the value
	// is already stored when the skip is reported); a only depends on p and takes its data from START.
	// nodata: the branch targets take no data from anybody (zero-value input): the copy the engine makes
	// for the selected target has no reader at all; a's value is consumed lazily by e.
	variant := rng.Intn(3)
	early := variant == 1
	var spec *gspec.GraphSpec
	if variant == 2 {
		spec = &gspec.GraphSpec{Mode: gspec.Workflow, Nodes: []gspec.NodeSpec{mk("p"), mk("a"), mk("b"), mk("c"), lazy("e")},
			Edges: []gspec.EdgeSpec{{From: gspec.START, To: "p"}, {From: "p", To: "a", Fields: []string{"p"}},
				{From: "a", To: "e"}, {From: "e", To: gspec.END, Fields: []string{"e.a"}}, {From: "b", To: gspec.END, Fields: []string{"b"}}}}
	} else if !early {
		spec = &gspec.GraphSpec{Mode: gspec.Workflow, Nodes: []gspec.NodeSpec{mk("p"), mk("a"), lazy("b"), lazy("c")},
			Edges: []gspec.EdgeSpec{{From: gspec.START, To: "p"}, {From: "p", To: "a", Fields: []string{"p"}},
				{From: "a", To: "b", NoControl: true}, {From: "a", To: "c", NoControl: true}, {From: "b", To: gspec.END}}}
	} else {
		spec = &gspec.GraphSpec{Mode: gspec.Workflow, Nodes: []gspec.NodeSpec{mk("p"), mk("a"), lazy("b"), lazy("c")},
			Edges: []gspec.EdgeSpec{{From: gspec.START, To: "p"}, {From: "p", To: "a", NoData: true}, {From: gspec.START, To: "a", NoControl: true, Fields: []string{"in"}},
				{From: "p", To: "b", NoControl: true}, {From: "p", To: "c", NoControl: true},
				{From: "b", To: gspec.END, Fields: []string{"b.p"}}, {From: "a", To: gspec.END, Fields: []string{"a"}}}}
	}
	spec.Branches = []gspec.BranchSpec{{ID: "s1", From: "a", Targets: []string{"b", "c"}, Multi: rng.Bool(), Stream: true, Prefix: rng.Prob(0.8)}}
	if rng.Bool() {
		// a successor of the skipped node: the skip propagates
		spec.Nodes = append(spec.Nodes, lazy("d"))
		spec.Edges = append(spec.Edges, gspec.EdgeSpec{From: "c", To: "d"})
	}
	gspec.FixNames(spec, "")
	choices := map[string][]string{"s1": {"b"}}
	in := gspec.V{"in": rng.Str(2, 8)}
	ref := gspec.EvalGraph(spec, in, &gspec.RefEnv{Choices: choices})
	if ok, why := consumedEverywhere(spec, ref); !ok {
		rep.Count("skipped_precondition_"+why, 1)
		return
	}
	r, err := gspec.Build(ctx, spec, gspec.BuildOpts{})
	if err != nil {
		rep.Violation(ID+"/build-error", err.Error(), spec)
		return
	}
	rep.Count("workflow_skipped_data_target_cases", 1)
	forced = choices
	defer func() { forced = nil }()
	for _, stop := range []int{-1, 0, 1, 2} {
		if _, ok := oneRun(ctx, rep, spec, r, in, ref, []string{"S", "T"}[rng.Intn(2)], stop, handlerMode(rng.Intn(4)), rng.Uint64(), false); !ok {
			return
		}
	}
}
