// Package c19: a finished streaming run leaves no blocked producer or goroutine behind.
package c19

import (
	"context"
	"fmt"
	"io"
	"sort"
	"strings"
	"testing"
	"time"

	"github.com/cloudwego/eino/callbacks"
	"github.com/cloudwego/eino/compose"
	"github.com/cloudwego/eino/schema"

	"verifharness/internal/gspec"
	"verifharness/internal/mon"
)

const ID = "C19"

func genOpts(r *mon.Rand, cfg mon.Config, mode gspec.Mode) gspec.GenOpts {
	o := gspec.GenOpts{
		Mode: mode, MinNodes: 2, MaxNodes: cfg.Pick(7, 9),
		Branches: 0.55, Multi: 0.5, StreamCond: 0.6, AllowEmpty: 0.3,
		Nest: 1, NestProb: 0.1, State: 0.2, StreamState: 0.6,
		Streamy: true, PipeOnly: true, Keys: 0.2, Renames: 0.2, Passthrough: 0.12, Wide: 0.4,
		CtrlOnly: 0.2, DataOnly: 0.3, Fields: 0.5, TwoBranches: 0.25,
		SubModes: []gspec.Mode{gspec.DAG, gspec.Workflow},
	}
	return o
}

// streamify: every body node natively streams (S and/or T), pads its output, prefix-reading branches.
func streamify(r *mon.Rand, g *gspec.GraphSpec) {
	for i := range g.Nodes {
		n := &g.Nodes[i]
		if n.Sub != nil {
			streamify(r, n.Sub)
			continue
		}
		if n.Kind == gspec.Passthrough {
			continue
		}
		if n.Kind == gspec.Rename {
			n.Para = gspec.PT
		} else {
			n.Para = []int{gspec.PS, gspec.PT, gspec.PS | gspec.PT, gspec.PS | gspec.PT | gspec.PI}[r.Intn(4)]
		}
		n.Pad = r.Intn(8)
		n.PipeCap = []int{0, 1, 3}[r.Intn(3)]
	}
	for i := range g.Branches {
		b := &g.Branches[i]
		if b.Stream && r.Prob(0.5) {
			b.Prefix = true // decides from its salt, reads only the first chunk, then closes its copy
		}
	}
}

func TestCheck(t *testing.T) {
	cfg := mon.Load(ID)
	rep := mon.NewReporter(cfg, "exploration",
		"generated acyclic graph-AllPredecessor / Workflow specs and qualifying Pregel specs (END reached with no other node scheduled) in which every body natively streams from a Pipe(cap 0/1/3)+goroutine producer with padded outputs, with fan-out copies, fan-in merges, single/multi/stream/prefix-reading branch conditions, two branches per source, stream state handlers, key nodes, field mappings, nested graphs and callback handlers that close their stream copies at once, after a prefix, or read them fully; called through Stream and Transform; the caller reads j = 0,1,2,..,all chunks and closes. Oracle: after the run the process is driven to quiescence (goroutine-state monitor); no goroutine with an eino frame or a harness producer frame may remain parked, and every producer must have seen `closed` or finished. Precondition (from the statement) enforced on the reference run: every produced value has a consumer. A share of the cases (eager_test.go) are Workflows executed under PRNG-chosen delay plans (sleeps in node bodies and before single chunks: producers late / END path late / close race / slow chunks / none) in which streaming producers feed, through data-only inputs, nodes that a forced branch outcome skips (several skipped consumers, skipped chains, intermediates, merging intermediates, one copy consumed on the END path, a successor of the END path that becomes ready together with END; alone or nested in a DAG/Workflow/Pregel graph): the run returns at END while such producers are running, finished but not collected, or not started. Another share (intwait_test.go) are Workflows compiled with a checkpoint store and interrupt-before/after nodes (the node that 1-3 streaming feeders feed, a feeder, or the next node of the chain) while the tail of the END path is delayed: END becomes ready while the run loop waits before interrupting; runs that interrupt are counted and not judged, runs that complete are judged like all others. Non-trivial: a run with >=2 goroutine-backed producers where the caller stopped before EOF or a branch/handler closed a copy early; distinct = (spec, input, stop point, handler mode).",
		[]string{"the harness starts no timers (quiescence is state based)", "each reader is driven by one goroutine and closed once", "runs whose reference has a produced value without any consumer are skipped and counted"},
		100)
	defer func() {
		if err := rep.Flush(); err != nil {
			t.Fatalf("flush: %v", err)
		}
	}()
	ctx := context.Background()
	n := int64(cfg.Pick(600, 4000))
	rep.Require("leak_checks_settled", 50)
	rep.Require("eager_end_runs_with_a_producer_returning_after_the_end_path", 20)
	rep.Require("eager_end_runs_with_a_producer_returning_before_the_end_path", 20)
	rep.Require("interrupt_wait_runs_completed_with_the_prepared_node_ready_and_never_started", 10)
	rep.Cases(n, func(idx int64, rng *mon.Rand) {
		if idx%8 == 7 {
			surplusCase(ctx, rep, rng, cfg)
			return
		}
		if idx%8 == 3 {
			workflowSkipCase(ctx, rep, rng, cfg)
			return
		}
		if idx%8 == 5 || idx%8 == 1 {
			eagerEndCase(ctx, rep, rng, cfg)
			return
		}
		if idx%16 == 14 {
			intWaitCase(ctx, rep, rng, cfg)
			return
		}
		mode := []gspec.Mode{gspec.DAG, gspec.Workflow, gspec.Pregel}[idx%3]
		spec := gspec.Gen(rng, genOpts(rng, cfg, mode))
		streamify(rng, spec)
		specCase(ctx, rep, rng, cfg, spec, idx < 3)
	})
}

// everyValueConsumed: the statement's precondition, decided on the reference run.
func everyValueConsumed(spec *gspec.GraphSpec, ref *gspec.RefResult) (bool, string) {
	if ref.Err != "" {
		return false, "reference-fails"
	}
	if spec.Mode == gspec.Pregel {
		if ref.OthersAtEnd {
			return false, "pregel-others-scheduled-at-end"
		}
		return true, ""
	}
	ran := func(k string) bool { return k == gspec.END || k == gspec.START || ref.Ran[k] }
	// a node that ran must hand its value to at least one consumer that runs. A copy the engine makes
	// for a data successor that a branch then skips is a stream "the framework created internally":
	// closing it is the framework's business, the value itself has its consumer.
	for k := range ref.Ran {
		if k == gspec.END {
			continue
		}
		has := false
		for _, e := range spec.Edges {
			if e.From == k && !e.NoData && ran(e.To) {
				has = true
			}
		}
		if spec.Mode != gspec.Workflow {
			for _, b := range spec.Branches {
				if b.From == k && len(ref.Branch[b.ID]) > 0 {
					has = true
				}
			}
		}
		if !has {
			return false, "value-without-consumer"
		}
	}
	return true, ""
}

// consumedEverywhere applies the precondition to the spec and, recursively, to every execution
// of every nested graph (on the inputs the reference fed it).
func consumedEverywhere(spec *gspec.GraphSpec, ref *gspec.RefResult) (bool, string) {
	if ok, why := everyValueConsumed(spec, ref); !ok {
		return false, why
	}
	for i := range spec.Nodes {
		n := &spec.Nodes[i]
		if n.Sub == nil {
			continue
		}
		for _, sin := range ref.SubIn[n.Key] {
			sref := gspec.EvalGraph(n.Sub, sin, nil)
			sref.SubIn = ref.SubIn
			if ok, why := consumedEverywhere(n.Sub, sref); !ok {
				return false, "nested-" + why
			}
		}
	}
	return true, ""
}

type handlerMode int

const (
	noHandler handlerMode = iota
	closeAtOnce
	readPrefix
	readAll
)

func (h handlerMode) String() string {
	return [...]string{"no-handler", "handler-closes-at-once", "handler-reads-prefix", "handler-reads-all"}[h]
}

func verifCallbackReader(sr *schema.StreamReader[callbacks.CallbackOutput], n int) {
	defer sr.Close()
	for i := 0; n < 0 || i < n; i++ {
		_, err := sr.Recv()
		if err != nil {
			return
		}
	}
}

func verifCallbackInReader(sr *schema.StreamReader[callbacks.CallbackInput], n int) {
	defer sr.Close()
	for i := 0; n < 0 || i < n; i++ {
		_, err := sr.Recv()
		if err != nil {
			return
		}
	}
}

func handler(mode handlerMode) callbacks.Handler {
	hb := callbacks.NewHandlerBuilder()
	hb.OnEndWithStreamOutputFn(func(ctx context.Context, info *callbacks.RunInfo, out *schema.StreamReader[callbacks.CallbackOutput]) context.Context {
		switch mode {
		case closeAtOnce:
			out.Close()
		case readPrefix:
			go verifCallbackReader(out, 1)
		default:
			go verifCallbackReader(out, -1)
		}
		return ctx
	})
	hb.OnStartWithStreamInputFn(func(ctx context.Context, info *callbacks.RunInfo, in *schema.StreamReader[callbacks.CallbackInput]) context.Context {
		switch mode {
		case closeAtOnce:
			in.Close()
		case readPrefix:
			go verifCallbackInReader(in, 1)
		default:
			go verifCallbackInReader(in, -1)
		}
		return ctx
	})
	return hb.Build()
}

func specCase(ctx context.Context, rep *mon.Reporter, rng *mon.Rand, cfg mon.Config, spec *gspec.GraphSpec, sample bool) {
	in := gspec.V{"in": rng.Str(2, 8), "in2": rng.Str(1, 4)}
	ref := gspec.EvalGraph(spec, in, nil)
	if ok, why := consumedEverywhere(spec, ref); !ok {
		rep.Count("skipped_precondition_"+why, 1)
		return
	}
	r, err := gspec.Build(ctx, spec, gspec.BuildOpts{})
	if err != nil {
		rep.Violation(ID+"/build-error", err.Error(), spec)
		return
	}
	rep.Distinct("shapes", spec.Shape())
	// how many chunks does the full output have? (one full read first)
	total, ok := oneRun(ctx, rep, spec, r, in, ref, "S", -1, noHandler, rng.Uint64(), sample)
	if !ok {
		return
	}
	stops := []int{0, 1, 2}
	if total > 3 {
		stops = append(stops, total/2, total-1)
	}
	if cfg.Thorough() {
		stops = nil
		for j := 0; j <= total; j++ {
			stops = append(stops, j)
		}
	}
	for _, j := range stops {
		if j > total {
			continue
		}
		para := []string{"S", "T"}[rng.Intn(2)]
		hm := handlerMode(rng.Intn(4))
		if _, ok := oneRun(ctx, rep, spec, r, in, ref, para, j, hm, rng.Uint64(), false); !ok {
			return
		}
	}
}

// oneRun: stop < 0 reads to EOF; otherwise reads `stop` chunks and closes. Returns the number of chunks read.
func oneRun(ctx context.Context, rep *mon.Reporter, spec *gspec.GraphSpec, r compose.Runnable[gspec.V, gspec.V], in gspec.V, ref *gspec.RefResult, para string, stop int, hm handlerMode, seed uint64, sample bool) (int, bool) {
	ctl := gspec.NewCtl("r")
	ctl.Choices = forced
	installDelays(ctl) // completion orders (eager_test.go); no delays unless the case asked for them
	rctx := gspec.WithCtl(ctx, ctl)
	var opts []compose.Option
	if hm != noHandler {
		opts = append(opts, compose.WithCallbacks(handler(hm)))
	}
	opts = append(opts, runHooks.opts...)
	wit := map[string]any{"spec": spec, "input": in, "paradigm": para, "stop_after_chunks": stop, "handler": hm.String()}
	for k, v := range runHooks.witness {
		wit[k] = v
	}
	before := map[int]bool{}
	for _, g := range mon.Dump() {
		before[g.ID] = true // goroutines an earlier (already reported) leak left behind are not counted again
	}
	done := make(chan struct{})
	read := 0
	var runErr error
	var pnc *mon.Panic
	go func() {
		defer close(done)
		pnc = mon.Safe(func() {
			var sr *schema.StreamReader[gspec.V]
			var err error
			if para == "S" {
				sr, err = r.Stream(rctx, gspec.CopyV(in).(gspec.V), opts...)
			} else {
				sr, err = r.Transform(rctx, gspec.InputStream(in, seed, []int{-1, 0, 1}[seed%3]), opts...)
			}
			if err != nil {
				runErr = err
				return
			}
			defer sr.Close()
			for stop < 0 || read < stop {
				_, err := sr.Recv()
				if err == io.EOF {
					return
				}
				if err != nil {
					runErr = err
					return
				}
				read++
			}
		})
	}()
	wres, dump := mon.WaitDone(done, 120*time.Second)
	rep.AddEvaluations(1)
	extra := fmt.Sprintf("paradigm=%s stop-after=%d handler=%s input=%s\nreference: %s", para, stop, hm, gspec.Canon(in), ref.String())
	if wres == mon.Stuck {
		where, detail := gspec.StuckSignature(dump)
		rep.Violation(ID+"/hang/"+where, "the streaming run (or reading its output) can never finish\n"+detail+"\n"+extra, wit)
		return 0, false
	}
	if wres == mon.Inconclusive {
		rep.Inconclusive("watchdog fired while goroutines were active")
		return 0, false
	}
	if pnc != nil || runErr != nil {
		// result correctness is C04's business; a failing run is not judged for leaks here
		rep.Count("runs_failed_not_judged", 1)
		if runErr != nil && runHooks.onErr != nil {
			runHooks.onErr(runErr)
		}
		mon.Settle(3, 400)
		return 0, false
	}
	// ---- the run is over and its output stream read to EOF / closed: drive the process to quiescence
	gs, settled := mon.Settle(4, 2000)
	if !settled {
		rep.Count("leak_checks_not_settled", 1)
		return read, true
	}
	rep.Count("leak_checks_settled", 1)
	execs, prods, _, _ := ctl.Log.Snapshot()
	rep.Count("producers_observed", int64(len(prods)))
	if runHooks.after != nil {
		runHooks.after(execs, prods)
	}
	var parked []mon.G
	for _, g := range mon.Parked(gs, "github.com/cloudwego/eino/", "verifProducer", "verifLazyTransform", "verifRenameForward", "verifInputProducer", "verifCallbackReader", "verifCallbackInReader") {
		if !before[g.ID] {
			parked = append(parked, g)
		}
	}
	var unreleased []string
	for _, p := range prods {
		if !p.SawClose && !p.Finished {
			unreleased = append(unreleased, fmt.Sprintf("%s(sent %d/%d)", p.Node, p.Sent, p.Total))
		}
	}
	if len(parked) > 0 || len(unreleased) > 0 {
		var sigs []string
		var raw strings.Builder
		for _, g := range parked {
			sigs = append(sigs, g.Signature())
			raw.WriteString(g.Raw + "\n\n")
		}
		sort.Strings(sigs)
		cause := classify(spec, ref, unreleased)
		if runHooks.classify != nil {
			cause = runHooks.classify(unreleased)
		}
		rep.Violation(ID+"/leak/"+cause, fmt.Sprintf("after the run finished and its output was %s, %d goroutine(s) stay blocked forever and %d producer(s) were never released: %v\nparked: %v\n%s\n%s", how(stop), len(parked), len(unreleased), unreleased, uniq(sigs), extra, raw.String()), wit)
		return read, false
	}
	early := stop >= 0
	if len(prods) >= 2 && (early || hm == closeAtOnce || hm == readPrefix) {
		rep.NonTrivial(fmt.Sprintf("%s|%s|%s|%d|%s", spec.Digest(), gspec.Canon(in), para, stop, hm))
	}
	if sample {
		rep.Sample(map[string]any{"spec": spec, "input": in, "paradigm": para, "producers": len(prods), "chunks_read": read})
	}
	return read, true
}

func how(stop int) string {
	if stop < 0 {
		return "read to EOF"
	}
	return fmt.Sprintf("closed by the caller after %d chunk(s)", stop)
}

func uniq(xs []string) []string {
	var out []string
	for i, x := range xs {
		if i == 0 || x != xs[i-1] {
			out = append(out, x)
		}
	}
	return out
}

// classify names the structural situation of the unreleased producer (narrow, stable signature).
func classify(spec *gspec.GraphSpec, ref *gspec.RefResult, unreleased []string) string {
	nodeOf := func(s string) string {
		if i := strings.IndexByte(s, '('); i > 0 {
			return s[:i]
		}
		return s
	}
	for _, u := range unreleased {
		n := nodeOf(u)
		nb, selected, targets := 0, 0, 0
		dup := false
		seen := map[string]bool{}
		for _, b := range spec.Branches {
			if b.From != n {
				continue
			}
			nb++
			targets += len(b.Targets)
			for _, t := range ref.Branch[b.ID] {
				selected++
				if seen[t] {
					dup = true
				}
				seen[t] = true
			}
		}
		switch {
		case nb > 0 && dup:
			return "two-branches-select-the-same-target"
		case nb > 0 && selected < nb:
			return "branch-selects-fewer-targets-than-branches"
		case nb > 0:
			return "branch-source"
		}
	}
	if len(unreleased) == 0 {
		return "framework-goroutine-parked"
	}
	return "producer-never-released"
}

// surplusCase: a node with several (multi) branches whose forced outcomes select fewer targets than
// there are branches, or the same target twice; every produced value still has a consumer.
func surplusCase(ctx context.Context, rep *mon.Reporter, rng *mon.Rand, cfg mon.Config) {
	mode := []gspec.Mode{gspec.DAG, gspec.Pregel}[rng.Intn(2)]
	mk := func(k string) gspec.NodeSpec {
		return gspec.NodeSpec{Key: k, Kind: gspec.Hash, Para: []int{gspec.PS, gspec.PT, gspec.PS | gspec.PT}[rng.Intn(3)], PipeCap: []int{0, 1, 3}[rng.Intn(3)], Pad: 2 + rng.Intn(6), Chunk: rng.Uint64(), Wide: rng.Bool()}
	}
	// the branch targets forward lazily (Rename, native Transform): nobody drains a's stream unless the caller does
	lazy := func(k string) gspec.NodeSpec {
		n := mk(k)
		if rng.Prob(0.7) {
			n.Kind, n.Para, n.Wide = gspec.Rename, gspec.PT, false
		}
		return n
	}
	spec := &gspec.GraphSpec{Mode: mode, Nodes: []gspec.NodeSpec{mk("a"), lazy("b"), lazy("c"), lazy("d")},
		Edges: []gspec.EdgeSpec{{From: gspec.START, To: "a"}, {From: "b", To: gspec.END}, {From: "c", To: gspec.END}, {From: "d", To: gspec.END}},
		Branches: []gspec.BranchSpec{
			// mostly prefix-reading stream conditions: a value condition would drain its whole copy
			{ID: "s1", From: "a", Targets: []string{"b", "c"}, Multi: true, AllowEmpty: true, Stream: true, Prefix: rng.Prob(0.8)},
			{ID: "s2", From: "a", Targets: []string{"c", "d"}, Multi: true, AllowEmpty: true, Stream: true, Prefix: rng.Prob(0.8)},
		}}
	outcomes := [][2][]string{
		{{"b"}, {}}, {{}, {"d"}}, {{"c"}, {"c"}}, {{"b", "c"}, {"c"}}, {{"b"}, {"d"}},
	}
	if rng.Bool() {
		spec.Edges = append(spec.Edges, gspec.EdgeSpec{From: "a", To: gspec.END})
		outcomes = append(outcomes, [2][]string{{}, {}})
	}
	oc := outcomes[rng.Intn(len(outcomes))]
	choices := map[string][]string{"s1": oc[0], "s2": oc[1]}
	in := gspec.V{"in": rng.Str(2, 8)}
	ref := gspec.EvalGraph(spec, in, &gspec.RefEnv{Choices: choices})
	if ok, why := consumedEverywhere(spec, ref); !ok {
		rep.Count("skipped_precondition_"+why, 1)
		return
	}
	r, err := gspec.Build(ctx, spec, gspec.BuildOpts{})
	if err != nil {
		rep.Violation(ID+"/build-error", err.Error(), spec)
		return
	}
	rep.Count("branch_surplus_cases", 1)
	forced = choices
	defer func() { forced = nil }()
	for _, stop := range []int{-1, 0, 1, 2} {
		if _, ok := oneRun(ctx, rep, spec, r, in, ref, []string{"S", "T"}[rng.Intn(2)], stop, handlerMode(rng.Intn(4)), rng.Uint64(), false); !ok {
			return
		}
	}
}

// forced branch outcomes of the current case (nil: decided by the conditions)
var forced map[string][]string
