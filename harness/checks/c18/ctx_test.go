package c18

import (
	"context"
	"errors"
	"fmt"
	"io"

	"github.com/cloudwego/eino/schema"

	"verifharness/internal/mon"
)

// ---------------------------------------------------------------------------
// Sub-workload "ctx": the tool-call detection of a run is driven by that run.
//
// The branch after the model node decides "tools or END" by calling the configured
// StreamToolCallChecker. The checker is part of the run: the context it is given must
// be the context the caller passed to Generate / Stream (a per-run value is visible, the
// constructor's values are not, a constructor context that was cancelled after set-up
// does not matter). Checkers that READ their context are generated here in several
// styles; two of them change the outcome of the run when the context is a foreign one.
// ---------------------------------------------------------------------------

// ctxSpec: the context NewAgent gets and the implementation of the custom checker.
type ctxSpec struct {
	// Ctor: "background" | "value" (a value under a key of its own) | "same-key" (also a value
	// under the key of the per-run token) | "cancelled" | "same-key-cancelled" (cancelled right
	// after NewAgent returned, like a start-up timeout context)
	Ctor string `json:"ctor"`
	// Impl: "observer" (records what it sees, scans) | "cancel-aware" (gives up with ctx.Err()
	// when its context is done) | "env-required" (takes its per-run trace object from the context,
	// fails without) | "value-steered" (the per-run value chooses between the two scan strategies)
	Impl string `json:"impl"`
}

var ctorKinds = []string{"background", "value", "same-key", "cancelled", "same-key-cancelled"}
var checkerImpls = []string{"observer", "cancel-aware", "env-required", "value-steered"}
var runCtxKinds = []string{"plain", "cancelable", "deep", "shadowed"}

// ctorKindOf: every workload builds its agents with some constructor context; without an
// explicit spec the kind is a function of the case's salt.
func ctorKindOf(c *caseSpec) string {
	if c.Ctx != nil {
		return c.Ctx.Ctor
	}
	return ctorKinds[c.Salt%uint64(len(ctorKinds))]
}

func checkerImplOf(c *caseSpec) string {
	if c.Ctx != nil {
		return c.Ctx.Impl
	}
	return "observer"
}

// ctorContext builds the context for NewAgent; done is to be called when NewAgent has returned.
func ctorContext(kind string) (ctx context.Context, done func()) {
	ctx, done = context.Background(), func() {}
	if kind == "background" || kind == "" {
		return
	}
	ctx = context.WithValue(ctx, ctorOnlyKey{}, "constructor")
	if kind == "same-key" || kind == "same-key-cancelled" {
		ctx = context.WithValue(ctx, tokenKey{}, "constructor")
	}
	if kind == "cancelled" || kind == "same-key-cancelled" {
		ctx, done = context.WithCancel(ctx)
	}
	return
}

// runContext builds the context of one run around its environment. The returned cancel is
// called by the harness only after the run is over.
func runContext(kind string, env *runEnv) (context.Context, func()) {
	ctx, cancel := context.Background(), func() {}
	switch kind {
	case "cancelable":
		ctx, cancel = context.WithCancel(ctx)
	case "deep":
		ctx = context.WithValue(ctx, noiseKey(1), "n1")
		ctx, cancel = context.WithCancel(ctx)
		ctx = context.WithValue(ctx, noiseKey(2), "n2")
	case "shadowed":
		ctx = context.WithValue(ctx, tokenKey{}, "outer:"+env.Token)
	}
	ctx = context.WithValue(ctx, tokenKey{}, env.Token)
	ctx = context.WithValue(ctx, envKey{}, env)
	if kind == "deep" {
		ctx = context.WithValue(ctx, noiseKey(3), "n3")
	}
	return ctx, cancel
}

var errNoRunValue = errors.New("checker: no per-run trace object in the context")

// customChecker builds a StreamToolCallChecker. style "full-scan" reads the whole stream
// (or, early, up to the first tool-call chunk); style "first-chunk-custom" is a private
// re-implementation of the documented default strategy (used with contract-conforming
// chunkings only). Every call records what the checker's context carries.
func customChecker(rec *recorder, style, impl string, scanEarly bool) func(ctx context.Context, sr *schema.StreamReader[*schema.Message]) (bool, error) {
	return func(ctx context.Context, sr *schema.StreamReader[*schema.Message]) (bool, error) {
		defer sr.Close()
		env := envOf(ctx)
		rr, _ := rec.recOf(ctx)
		rr.mu.Lock()
		rr.checker = append(rr.checker, checkerObs{Token: ctx.Value(tokenKey{}), CtorOnly: ctx.Value(ctorOnlyKey{}) != nil, Err: ctx.Err(), HasEnv: env != nil})
		rr.mu.Unlock()

		early := scanEarly
		switch impl {
		case "cancel-aware":
			if err := ctx.Err(); err != nil {
				return false, err
			}
		case "env-required":
			if env == nil {
				return false, errNoRunValue
			}
		case "value-steered":
			if env != nil {
				early = env.early
			}
		}
		has := false
		for {
			m, err := sr.Recv()
			if err == io.EOF {
				return has, nil
			}
			if err != nil {
				return false, err
			}
			if impl == "cancel-aware" {
				if err := ctx.Err(); err != nil {
					return false, err
				}
			}
			if len(m.ToolCalls) > 0 {
				has = true
				if early || style == "first-chunk-custom" {
					return true, nil
				}
			}
			if style == "first-chunk-custom" && len(m.Content) > 0 {
				return false, nil
			}
		}
	}
}

// judgeChecker: every call of the checker during the run with the given token got the run's context.
// where = "generate" | "stream" | "overlap" (call that could not be attributed to a run).
func judgeChecker(where, token string, obs []checkerObs) []finding {
	var fs []finding
	seen := map[string]bool{}
	add := func(class, format string, a ...any) {
		if !seen[class] {
			seen[class] = true
			fs = append(fs, finding{Sig: "C18/checker-context/" + where + "/" + class, Detail: fmt.Sprintf(format, a...)})
		}
	}
	for i, o := range obs {
		switch tok, _ := o.Token.(string); {
		case o.Token == nil || tok == "constructor":
			add("run-value-not-visible", "call %d of the StreamToolCallChecker: the value the caller put into the context of Generate/Stream (%q) is not visible, ctx.Value gives %v", i+1, token, o.Token)
		case tok != token:
			add("value-of-another-run", "call %d of the StreamToolCallChecker: run %q, but the checker's context carries %q", i+1, token, tok)
		}
		if o.CtorOnly {
			add("constructor-context-visible", "call %d of the StreamToolCallChecker sees a value that only the context given to NewAgent carries", i+1)
		}
		if o.Err != nil {
			add("cancelled-though-run-context-is-live", "call %d of the StreamToolCallChecker: ctx.Err() = %v while the run's context is not done", i+1, o.Err)
		}
	}
	return fs
}

// generateCtx: a classic script run on two agents that BOTH have a custom checker reading
// its context: agent a a re-implementation of the first-chunk strategy (contract-conforming
// chunkings), agent b a full scan (arbitrary chunkings). Scripts are biased towards at
// least one tool round so that the checker's verdict matters.
func generateCtx(r *mon.Rand) *caseSpec {
	c := generate(r)
	c.Kind = "ctx"
	c.Ctx = &ctxSpec{Ctor: mon.PickOne(r, ctorKinds), Impl: mon.PickOne(r, checkerImpls)}
	if r.Prob(0.6) {
		c.Ctx.Ctor = mon.PickOne(r, ctorKinds[1:]) // a constructor context that differs from every run's
	}
	c.Agents = genAgents(r, "first-chunk-custom", "full-scan")
	for i := range c.Agents {
		a := &c.Agents[i]
		for range a.Runs {
			a.RunCtx = append(a.RunCtx, mon.PickOne(r, runCtxKinds))
		}
	}
	return c
}
