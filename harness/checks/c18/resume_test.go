package c18

import (
	"context"
	"fmt"
	"io"
	"sort"
	"strings"
	"sync"

	"github.com/cloudwego/eino/compose"
	"github.com/cloudwego/eino/flow/agent/react"
	"github.com/cloudwego/eino/schema"

	"verifharness/internal/mon"
)

// ---------------------------------------------------------------------------
// Sub-workload "resume": the exported graph of a bundled agent (Agent.ExportGraph /
// MultiAgent.ExportGraph), nested in a parent graph that has a checkpoint store, is
// interrupted and resumed until it ends.
//
// The statement is about the run, not about the number of calls it is cut into: the
// k-th model call sees the original messages, every earlier assistant message and the
// tool results, and the agent returns what the loop returns - also when the run is
// interrupted before / after its model node, its tools node, the hand-over node, the
// node that holds the agent, or because a tool (or the model) asked for
// compose.InterruptAndRerun on its first attempt(s), and then resumed from a store that
// keeps nothing but bytes. Every call of such a history must end in an interrupt that can
// be extracted (compose.ExtractInterruptInfo) or in the reference's outcome; the model
// inputs and the answer must be those of the uninterrupted run (the loop simulator; for
// the host multi-agent a two-step reference: host, then the chosen specialist).
// ---------------------------------------------------------------------------

type intPoint struct {
	Level string `json:"level"` // "agent": a node of the agent's graph | "mid" | "parent": a node of an enclosing graph
	Node  string `json:"node"`
	After bool   `json:"after,omitempty"`
}

type toolInt struct {
	Round int `json:"round"` // tool round (= number of model calls made)
	Pos   int `json:"pos"`   // position of the call in the assistant message
	N     int `json:"n"`     // this many attempts ask for an interrupt
}

type modelInt struct {
	Call int `json:"call"` // k-th model call of the run (host: 1 = the host)
	N    int `json:"n"`
}

type resumeSpec struct {
	Agent string `json:"agent"` // "react" | "host"
	// Nest: "direct" (START -> agent -> END) | "wrapped" (lambda nodes in front of and behind the agent) |
	// "deep" (the agent's graph inside a graph inside the parent)
	Nest      string     `json:"nest"`
	Points    []intPoint `json:"points,omitempty"`
	ToolInts  []toolInt  `json:"tool_ints,omitempty"`
	ModelInts []modelInt `json:"model_ints,omitempty"`
	SpecInts  int        `json:"spec_ints,omitempty"` // host: the chosen specialist asks for this many interrupts
	Wrap      bool       `json:"wrap"`                // the interrupt request is wrapped (fmt.Errorf("...%w", compose.InterruptAndRerun))
	Calls     []string   `json:"calls"`               // paradigm of the i-th call of the history (cyclic): "I" | "S"
	// ResumeInput: what a resuming call passes as input: "same" | "nil" | "other" (the input of a resumed run is the checkpoint's)
	ResumeInput string    `json:"resume_input"`
	CallCtx     []string  `json:"call_ctx"` // shape of the context of the i-th call (cyclic)
	Host        *hostSpec `json:"host,omitempty"`
}

func (rs *resumeSpec) trigger() string {
	kinds := 0
	t := ""
	if len(rs.Points) > 0 {
		kinds, t = kinds+1, "static-points"
	}
	if len(rs.ToolInts) > 0 || rs.SpecInts > 0 {
		kinds, t = kinds+1, "tool-rerun"
		if rs.Agent == "host" {
			t = "specialist-rerun"
		}
	}
	if len(rs.ModelInts) > 0 {
		kinds, t = kinds+1, "model-rerun"
	}
	if kinds > 1 {
		return "mixed"
	}
	return t
}

// ---------------------------------------------------------------------------
// Who asks for an interrupt
// ---------------------------------------------------------------------------

type resumeEnv struct {
	mu        sync.Mutex
	budget    map[string]int // attempt key -> attempts that still ask for an interrupt
	wrap      bool
	disabled  bool // control: nobody asks
	requested int  // requests made during the current call
	total     int
	host      *hostRec
}

func (e *resumeEnv) take(key string) error {
	e.mu.Lock()
	defer e.mu.Unlock()
	if e.disabled || e.budget[key] <= 0 {
		return nil
	}
	e.budget[key]--
	e.requested++
	e.total++
	if e.wrap {
		return fmt.Errorf("waiting for approval (%s): %w", key, compose.InterruptAndRerun)
	}
	return compose.InterruptAndRerun
}

func (e *resumeEnv) beginCall() {
	e.mu.Lock()
	e.requested = 0
	e.mu.Unlock()
}

func (e *resumeEnv) requests() (inCall, total int) {
	e.mu.Lock()
	defer e.mu.Unlock()
	return e.requested, e.total
}

// preemptModel: in a history of the resume workload an attempt of the k-th model call may ask for an
// interrupt instead of answering; such an attempt is not a model call of the run.
func preemptModel(ctx context.Context) error {
	env := envOf(ctx)
	if env == nil || env.res == nil || env.rr == nil {
		return nil
	}
	env.rr.mu.Lock()
	k := len(env.rr.calls) + 1
	env.rr.mu.Unlock()
	return env.res.take(fmt.Sprintf("m%d", k))
}

func toolIntKey(round int, name, id, args string) string {
	return fmt.Sprintf("t%d|%s|%s|%s", round, name, id, args)
}

func preemptTool(ctx context.Context, name, args string) error {
	env := envOf(ctx)
	if env == nil || env.res == nil || env.rr == nil {
		return nil
	}
	env.rr.mu.Lock()
	round := len(env.rr.calls)
	env.rr.mu.Unlock()
	return env.res.take(toolIntKey(round, name, compose.GetToolCallID(ctx), args))
}

func newResumeEnv(c *caseSpec, disabled bool) *resumeEnv {
	rs := c.Resume
	e := &resumeEnv{budget: map[string]int{}, wrap: rs.Wrap, disabled: disabled}
	for _, mi := range rs.ModelInts {
		e.budget[fmt.Sprintf("m%d", mi.Call)] += mi.N
	}
	for _, ti := range rs.ToolInts {
		tc := fullMessage(c, ti.Round).ToolCalls[ti.Pos]
		e.budget[toolIntKey(ti.Round, tc.Function.Name, tc.ID, tc.Function.Arguments)] += ti.N
	}
	if rs.SpecInts > 0 {
		e.budget["spec"] = rs.SpecInts
	}
	if rs.Host != nil {
		e.host = &hostRec{}
	}
	return e
}

// ---------------------------------------------------------------------------
// A checkpoint store that keeps nothing but bytes
// ---------------------------------------------------------------------------

type byteStore struct {
	mu   sync.Mutex
	m    map[string][]byte
	sets int
	gets int
}

func newByteStore() *byteStore { return &byteStore{m: map[string][]byte{}} }

func (s *byteStore) Get(_ context.Context, id string) ([]byte, bool, error) {
	s.mu.Lock()
	defer s.mu.Unlock()
	s.gets++
	b, ok := s.m[id]
	if !ok {
		return nil, false, nil
	}
	return append([]byte(nil), b...), true, nil
}

func (s *byteStore) Set(_ context.Context, id string, b []byte) error {
	s.mu.Lock()
	defer s.mu.Unlock()
	s.sets++
	s.m[id] = append([]byte(nil), b...)
	return nil
}

// ---------------------------------------------------------------------------
// Nesting the exported graph
// ---------------------------------------------------------------------------

func levelPoints(rs *resumeSpec, level string) (opts []compose.GraphCompileOption) {
	var before, after []string
	for _, p := range rs.Points {
		if p.Level != level {
			continue
		}
		if p.After {
			after = append(after, p.Node)
		} else {
			before = append(before, p.Node)
		}
	}
	if len(before) > 0 {
		opts = append(opts, compose.WithInterruptBeforeNodes(before))
	}
	if len(after) > 0 {
		opts = append(opts, compose.WithInterruptAfterNodes(after))
	}
	return opts
}

// nest puts the exported graph into a parent graph with a checkpoint store. exported are the options
// ExportGraph returned; base are the compile options of the agent's graph, needed when interrupt points
// inside the agent's graph are configured (WithGraphCompileOptions replaces, it does not add).
func nest(inner compose.AnyGraph, exported []compose.GraphAddNodeOpt, base []compose.GraphCompileOption, rs *resumeSpec, withPoints bool, store compose.CheckPointStore) (compose.Runnable[[]*schema.Message, *schema.Message], error) {
	ctx := context.Background()
	innerOpts := exported
	var midOpts, parentOpts []compose.GraphCompileOption
	if withPoints {
		if ap := levelPoints(rs, "agent"); len(ap) > 0 {
			innerOpts = []compose.GraphAddNodeOpt{compose.WithGraphCompileOptions(append(append([]compose.GraphCompileOption(nil), base...), ap...)...)}
		}
		midOpts = levelPoints(rs, "mid")
		parentOpts = levelPoints(rs, "parent")
	}
	parentOpts = append(parentOpts, compose.WithCheckPointStore(store), compose.WithGraphName("parent"))
	parent := compose.NewGraph[[]*schema.Message, *schema.Message]()
	chain := func(keys ...string) error {
		prev := compose.START
		for _, k := range append(keys, compose.END) {
			if err := parent.AddEdge(prev, k); err != nil {
				return err
			}
			prev = k
		}
		return nil
	}
	switch rs.Nest {
	case "wrapped":
		pre := compose.InvokableLambda(func(_ context.Context, in []*schema.Message) ([]*schema.Message, error) { return in, nil })
		post := compose.InvokableLambda(func(_ context.Context, in *schema.Message) (*schema.Message, error) { return in, nil })
		if err := parent.AddLambdaNode("pre", pre); err != nil {
			return nil, err
		}
		if err := parent.AddGraphNode("agent", inner, innerOpts...); err != nil {
			return nil, err
		}
		if err := parent.AddLambdaNode("post", post); err != nil {
			return nil, err
		}
		if err := chain("pre", "agent", "post"); err != nil {
			return nil, err
		}
	case "deep":
		mid := compose.NewGraph[[]*schema.Message, *schema.Message]()
		if err := mid.AddGraphNode("agent", inner, innerOpts...); err != nil {
			return nil, err
		}
		if err := mid.AddEdge(compose.START, "agent"); err != nil {
			return nil, err
		}
		if err := mid.AddEdge("agent", compose.END); err != nil {
			return nil, err
		}
		if err := parent.AddGraphNode("mid", mid, compose.WithGraphCompileOptions(append(midOpts, compose.WithGraphName("mid"))...)); err != nil {
			return nil, err
		}
		if err := chain("mid"); err != nil {
			return nil, err
		}
	default:
		if err := parent.AddGraphNode("agent", inner, innerOpts...); err != nil {
			return nil, err
		}
		if err := chain("agent"); err != nil {
			return nil, err
		}
	}
	return parent.Compile(ctx, parentOpts...)
}

// ---------------------------------------------------------------------------
// Running a history
// ---------------------------------------------------------------------------

type histCall struct {
	Para        string `json:"para"`
	Interrupted bool   `json:"interrupted"`
	Info        string `json:"info,omitempty"`
	Requests    int    `json:"requests"` // interrupt requests made by tools / models during the call
	Err         string `json:"err,omitempty"`
}

type histOut struct {
	calls      []histCall
	out        runOut
	p          *mon.Panic
	res        mon.WaitResult
	dump       []mon.G
	retracted  int
	neverEnds  bool
	badInfo    string // an interrupt whose information is unusable
	lastReq    int    // interrupt requests made during the terminal call
	interrupts int
}

func renderInfo(i *compose.InterruptInfo) string {
	if i == nil {
		return "<nil>"
	}
	s := fmt.Sprintf("{before=%v after=%v rerun=%v state=%v", i.BeforeNodes, i.AfterNodes, i.RerunNodes, i.State != nil)
	ks := make([]string, 0, len(i.SubGraphs))
	for k := range i.SubGraphs {
		ks = append(ks, k)
	}
	sort.Strings(ks)
	for _, k := range ks {
		s += " sub[" + k + "]=" + renderInfo(i.SubGraphs[k])
	}
	return s + "}"
}

func infoEmpty(i *compose.InterruptInfo) bool {
	if i == nil {
		return true
	}
	if len(i.BeforeNodes)+len(i.AfterNodes)+len(i.RerunNodes) > 0 {
		return false
	}
	for _, s := range i.SubGraphs {
		if !infoEmpty(s) {
			return false
		}
	}
	return true
}

// runHistory calls r until a call ends without an interrupt (or maxCalls is reached). paras / resumeInput
// as in the spec; single = one call only (control).
func runHistory(r compose.Runnable[[]*schema.Message, *schema.Message], c *caseSpec, env *runEnv, maxCalls int, cpID string) *histOut {
	rs := c.Resume
	h := &histOut{}
	for i := 0; i < maxCalls; i++ {
		para := rs.Calls[i%len(rs.Calls)]
		in := buildInput(c)
		if i > 0 {
			switch rs.ResumeInput {
			case "nil":
				in = nil
			case "other":
				in = []*schema.Message{schema.UserMessage("the input of a resuming call is not the run's input")}
			}
		}
		env.res.beginCall()
		ctx, cancel := runContext(rs.CallCtx[i%len(rs.CallCtx)], env)
		out := runOut{Mode: map[string]string{"I": "generate", "S": "stream"}[para]}
		var pnc *mon.Panic
		done := make(chan struct{})
		go func() {
			defer close(done)
			pnc = mon.Safe(func() {
				opts := []compose.Option{compose.WithCheckPointID(cpID)}
				if para == "I" {
					m, err := r.Invoke(ctx, in, opts...)
					if err != nil {
						out.Err, out.ErrWhere = err, "call"
						return
					}
					out.Final, out.HasFinal, out.Chunks = norm(m), m != nil, 1
					return
				}
				sr, err := r.Stream(ctx, in, opts...)
				if err != nil {
					out.Err, out.ErrWhere = err, "call"
					return
				}
				defer sr.Close()
				var chunks []*schema.Message
				for {
					m, err := sr.Recv()
					if err == io.EOF {
						break
					}
					if err != nil {
						out.Err, out.ErrWhere = err, "recv"
						return
					}
					chunks = append(chunks, m)
				}
				out.Chunks = len(chunks)
				switch len(chunks) {
				case 0:
				case 1:
					out.Final, out.HasFinal = norm(chunks[0]), chunks[0] != nil
				default:
					m, err := schema.ConcatMessages(chunks)
					if err != nil {
						out.Err, out.ErrWhere = fmt.Errorf("result stream cannot be concatenated: %w", err), "concat"
						return
					}
					out.Final, out.HasFinal = norm(m), true
				}
			})
		}()
		var retr int
		h.res, h.dump, retr = waitConfirmed(done)
		h.retracted += retr
		if h.res != mon.Finished {
			return h
		}
		cancel()
		req, _ := env.res.requests()
		rec := histCall{Para: para, Requests: req}
		if pnc != nil {
			h.p, h.out, h.lastReq = pnc, out, req
			rec.Err = "panic: " + pnc.Value
			h.calls = append(h.calls, rec)
			return h
		}
		if out.Err != nil {
			if info, ok := compose.ExtractInterruptInfo(out.Err); ok {
				rec.Interrupted, rec.Info = true, renderInfo(info)
				h.calls = append(h.calls, rec)
				h.interrupts++
				if infoEmpty(info) && h.badInfo == "" {
					h.badInfo = fmt.Sprintf("call %d (%s) ended in an interrupt whose information names no node: %s", i+1, para, rec.Info)
				}
				continue
			}
			rec.Err = out.Err.Error()
		}
		h.calls = append(h.calls, rec)
		h.out, h.lastReq = out, req
		return h
	}
	h.neverEnds = true
	return h
}

func (h *histOut) shape() string {
	var b strings.Builder
	for _, c := range h.calls {
		b.WriteString(c.Para)
		if c.Interrupted {
			b.WriteString("!")
		}
	}
	return b.String()
}

// ---------------------------------------------------------------------------
// Generator (react)
// ---------------------------------------------------------------------------

func genHistoryShape(r *mon.Rand, rs *resumeSpec) {
	for n := r.Range(1, 4); n > 0; n-- {
		rs.Calls = append(rs.Calls, mon.PickOne(r, []string{"I", "S"}))
	}
	for n := r.Range(1, 3); n > 0; n-- {
		rs.CallCtx = append(rs.CallCtx, mon.PickOne(r, runCtxKinds))
	}
	rs.ResumeInput = mon.PickOne(r, []string{"same", "same", "nil", "other"})
	rs.Nest = mon.PickOne(r, []string{"direct", "direct", "wrapped", "deep"})
	rs.Wrap = r.Prob(0.3)
}

func outerPoints(rs *resumeSpec) []intPoint {
	var out []intPoint
	add := func(level string, nodes ...string) {
		for _, n := range nodes {
			out = append(out, intPoint{Level: level, Node: n}, intPoint{Level: level, Node: n, After: true})
		}
	}
	switch rs.Nest {
	case "wrapped":
		add("parent", "pre", "agent", "post")
	case "deep":
		add("parent", "mid")
		add("mid", "agent")
	default:
		add("parent", "agent")
	}
	return out
}

func pickPoints(r *mon.Rand, rs *resumeSpec, agentNodes []string) {
	var agentPts []intPoint
	for _, n := range agentNodes {
		agentPts = append(agentPts, intPoint{Level: "agent", Node: n}, intPoint{Level: "agent", Node: n, After: true})
	}
	outer := outerPoints(rs)
	n := mon.PickOne(r, []int{1, 1, 1, 2, 2, 3})
	seen := map[intPoint]bool{}
	for i := 0; i < n; i++ {
		p := mon.PickOne(r, agentPts)
		if r.Prob(0.2) {
			p = mon.PickOne(r, outer)
		}
		if !seen[p] {
			seen[p] = true
			rs.Points = append(rs.Points, p)
		}
	}
}

func generateResume(r *mon.Rand) *caseSpec {
	if r.Prob(0.35) {
		return generateResumeHost(r)
	}
	c := &caseSpec{Kind: "resume", Salt: r.Uint64()}
	callable, useGhost := genToolSet(r, c)
	if useGhost {
		c.UnknownHandler = true
	}
	c.Input = genInput(r, callable, "")
	c.Script = genScript(r, c, callable, useGhost, "", "")
	for i := range c.Script {
		s := &c.Script[i]
		changed := false
		for j := range s.Calls {
			if a := strings.TrimLeft(s.Calls[j].Args, "!"); a != s.Calls[j].Args {
				s.Calls[j].Args, changed = a, true
			}
		}
		if changed {
			s.ChunksA = genChunks(r, *s, true)
			s.ChunksB = genChunks(r, *s, false)
		}
	}
	need := scriptNeed(c)
	switch x := r.Intn(100); {
	case x < 55:
		c.MaxStep = clamp(need+r.Range(0, 3), 1, 12)
	case x < 75:
		c.MaxStep = 0
	case x < 90:
		c.MaxStep = clamp(need+r.Range(-2, 0), 1, 12)
	default:
		c.MaxStep = r.Range(1, 12)
	}
	if r.Prob(0.4) {
		c.Modifier = r.Range(1, 4)
	}
	if r.Prob(0.5) {
		c.ToolChunkMax = r.Range(2, 5)
	}
	c.Agents = genAgents(r, mon.PickOne(r, []string{"first-chunk", "full-scan", "first-chunk-custom"}))
	c.Agents[0].Runs = nil

	rs := &resumeSpec{Agent: "react"}
	c.Resume = rs
	genHistoryShape(r, rs)
	sim := simulate(c, false)
	nodes := []string{"chat", "tools"}
	if len(c.ReturnDirectly) > 0 {
		nodes = append(nodes, "direct_return")
	}
	static, tools, models := false, false, false
	switch x := r.Intn(100); {
	case x < 30:
		static = true
	case x < 60:
		tools = true
	case x < 70:
		models = true
	default:
		static, tools, models = r.Prob(0.7), r.Prob(0.7), r.Prob(0.4)
	}
	if len(sim.Rounds) == 0 && tools && !static && !models {
		tools, static = false, true // no tool runs in this script
	}
	if !static && !tools && !models {
		static = true
	}
	if static {
		pickPoints(r, rs, nodes)
	}
	if tools && len(sim.Rounds) > 0 {
		for n := mon.PickOne(r, []int{1, 1, 2, 3}); n > 0; n-- {
			round := r.Range(1, len(sim.Rounds))
			nc := len(fullMessage(c, round).ToolCalls)
			rs.ToolInts = append(rs.ToolInts, toolInt{Round: round, Pos: r.Intn(nc), N: mon.PickOne(r, []int{1, 1, 1, 2})})
		}
	}
	if models {
		for n := mon.PickOne(r, []int{1, 1, 2}); n > 0; n-- {
			rs.ModelInts = append(rs.ModelInts, modelInt{Call: r.Range(1, len(sim.Inputs)), N: mon.PickOne(r, []int{1, 1, 2})})
		}
	}
	return c
}

// ---------------------------------------------------------------------------
// Judging
// ---------------------------------------------------------------------------

// resumeClass maps the generic verdict of the loop judge to the class used in the signatures of this workload.
func resumeClass(f finding, requested int) string {
	s := f.Sig
	switch {
	case strings.Contains(s, "/unexpected-error") || strings.HasSuffix(s, "/other-error"):
		if requested > 0 {
			return "interrupt-request-ends-in-plain-error"
		}
		return "error-neither-interrupt-nor-outcome"
	case strings.HasPrefix(s, "C18/result/") || strings.HasPrefix(s, "C18/tool-error/"):
		return "answer-differs"
	case strings.HasPrefix(s, "C18/model-input/"):
		return "model-input-differs"
	case strings.HasPrefix(s, "C18/model-calls/"):
		return "model-calls-differ"
	case strings.HasPrefix(s, "C18/tool-round/"):
		return "tool-rounds-differ"
	case strings.HasPrefix(s, "C18/step-limit/"):
		return "step-limit-differs"
	}
	return "other"
}

// primaryClass: one verdict per history: the first class in this order (what follows an unexpected error, or a
// wrong model input, is a consequence).
func primaryClass(fs []finding, requested int) (class, details string) {
	order := []string{"interrupt-request-ends-in-plain-error", "error-neither-interrupt-nor-outcome", "model-input-differs", "model-calls-differ",
		"tool-rounds-differ", "step-limit-differs", "answer-differs", "other"}
	rank := len(order) - 1
	var all []string
	for _, f := range fs {
		all = append(all, f.Sig+": "+f.Detail)
		cl := resumeClass(f, requested)
		for i, o := range order {
			if o == cl && i < rank {
				rank = i
			}
		}
	}
	return order[rank], strings.Join(all, "\n")
}

// reportResume turns the findings about a history into violations. prefix = "C18/resume/<agent>/".
func reportResume(rep *mon.Reporter, c *caseSpec, h *histOut, fs []finding, control func() []finding, w witness) {
	rs := c.Resume
	prefix := "C18/resume/" + rs.Agent + "/"
	pos := "first-call"
	if h.interrupts > 0 {
		pos = "resumed-call"
	}
	hist := fmt.Sprintf("history: %s\n", js(h.calls))
	if h.badInfo != "" {
		rep.Violation(prefix+"interrupt-info-names-no-node", hist+h.badInfo, w)
	}
	if h.neverEnds {
		rep.Violation(prefix+rs.trigger()+"/interrupts-never-end", hist+fmt.Sprintf("%d calls, every one ended in an interrupt", len(h.calls)), w)
		return
	}
	if h.p == nil && len(fs) == 0 {
		return
	}
	// is it the interrupting and resuming? The same nested graph, compiled without interrupt points, nobody asking
	// for an interrupt, one call:
	if cf := control(); len(cf) > 0 {
		cl, all := primaryClass(cf, 0)
		rep.Violation(prefix+"uninterrupted-nested-run/"+cl, "the exported graph nested in a parent graph, run once without any interrupt\n"+all, w)
		return
	}
	if h.p != nil {
		rep.Violation(prefix+rs.trigger()+"/"+pos+"/panic", hist+h.p.Value+"\n"+h.p.Stack, w)
		return
	}
	cl, all := primaryClass(fs, h.lastReq)
	rep.Violation(prefix+rs.trigger()+"/"+pos+"/"+cl, hist+"the uninterrupted run of the same nested graph agrees with the reference\n"+all, w)
}

func maxHistoryCalls(rs *resumeSpec, steps int) int {
	n := 8 + (len(rs.Points)+2)*(steps+6) + rs.SpecInts
	for _, t := range rs.ToolInts {
		n += t.N
	}
	for _, m := range rs.ModelInts {
		n += m.N
	}
	return n
}

// runResume: one case of the workload; true if it was judged and contained at least one interrupt.
func runResume(rep *mon.Reporter, c *caseSpec) bool {
	if c.Resume.Agent == "host" {
		return runResumeHost(rep, c)
	}
	rs, a := c.Resume, &c.Agents[0]
	sim := simulate(c, false)
	rep.Count("outcome_"+sim.Outcome, 1)
	rec := &recorder{byCtx: true, orphan: &runRec{}}
	ag, err, p := buildAgent(c, a, rec)
	w := func(run string) witness { return witness{Agent: a.Checker + "/" + a.Wiring, Run: run, Case: c} }
	if p != nil {
		rep.Violation("C18/panic/new-agent/"+p.FirstFrame("github.com/cloudwego/eino/"), p.Value+"\n"+p.Stack, w("NewAgent"))
		return false
	}
	if err != nil {
		rep.Violation("C18/new-agent/error", err.Error(), w("NewAgent"))
		return false
	}
	g, exported := ag.ExportGraph()
	base := []compose.GraphCompileOption{compose.WithMaxRunSteps(c.MaxStep), compose.WithNodeTriggerMode(compose.AnyPredecessor), compose.WithGraphName(react.GraphName)}
	r, err := nest(g, exported, base, rs, true, newByteStore())
	if err != nil {
		rep.Violation("C18/resume/react/nesting-the-exported-graph-fails", err.Error(), w("Compile"))
		return false
	}
	judgeHist := func(h *histOut, rr *runRec) []finding {
		rr.mu.Lock()
		defer rr.mu.Unlock()
		return judgeOpt(sim, rr, h.out, true)
	}
	env := &runEnv{Token: "history", rr: &runRec{}, early: a.ScanEarly, res: newResumeEnv(c, false)}
	rep.AddEvaluations(1)
	h := runHistory(r, c, env, maxHistoryCalls(rs, sim.Steps), "cp-"+mon.H8(c.digest()))
	rep.Count("stuck_verdicts_retracted_on_recheck", int64(h.retracted))
	switch h.res {
	case mon.Stuck:
		reportHang(rep, "C18/resume/react/hang", h.dump, w(fmt.Sprintf("call %d of the history", len(h.calls)+1)))
		return false
	case mon.Inconclusive:
		rep.Inconclusive("watchdog fired while goroutines were still active in an interrupt/resume history")
		return false
	}
	drainOrphan(rep, rec, c, a, w("history"))
	var fs []finding
	if h.p == nil && !h.neverEnds {
		fs = judgeHist(h, env.rr)
	}
	control := func() []finding {
		rc, err := nest(g, exported, base, rs, false, newByteStore())
		if err != nil {
			return []finding{{Sig: "C18/resume/compile", Detail: err.Error()}}
		}
		cenv := &runEnv{Token: "control", rr: &runRec{}, early: a.ScanEarly, res: newResumeEnv(c, true)}
		rep.AddEvaluations(1)
		ch := runHistory(rc, c, cenv, 1, "cp-control")
		rep.Count("resume_control_runs", 1)
		if ch.res != mon.Finished {
			return []finding{{Sig: "C18/resume/hang", Detail: "the uninterrupted control run did not finish"}}
		}
		drainOrphan(rep, rec, c, a, w("control"))
		if ch.p != nil {
			return []finding{{Sig: "C18/result/panic", Detail: ch.p.Value + "\n" + ch.p.Stack}}
		}
		if ch.neverEnds {
			return []finding{{Sig: "C18/result/" + ch.out.Mode + "/unexpected-error", Detail: "the control run ended in an interrupt although none is configured: " + js(ch.calls)}}
		}
		return judgeHist(ch, cenv.rr)
	}
	reportResume(rep, c, h, fs, control, w("history "+h.shape()))

	// evidence
	_, total := env.res.requests()
	rep.Count("resume_histories_judged", 1)
	rep.Count("resume_histories_react", 1)
	rep.Count("resume_interrupts_extracted", int64(h.interrupts))
	rep.Count("resume_interrupt_requests_by_tools_and_models", int64(total))
	rep.Count("resume_calls", int64(len(h.calls)))
	rep.Count("resume_trigger_"+rs.trigger(), 1)
	rep.Count("resume_nest_"+rs.Nest, 1)
	rep.Count("model_inputs_compared", int64(len(env.rr.calls)))
	for _, cl := range h.calls {
		rep.Count("resume_calls_"+cl.Para, 1)
	}
	if h.interrupts > 0 {
		rep.Count("resume_histories_with_interrupt", 1)
	}
	rep.Distinct("history_shape", rs.Agent+"/"+rs.trigger()+"/"+h.shape())
	return h.interrupts > 0 && len(fs) == 0 && h.p == nil && !h.neverEnds
}
