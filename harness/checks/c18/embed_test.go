package c18

import (
	"context"
	"fmt"
	"io"
	"strings"
	"sync"

	"github.com/cloudwego/eino/compose"
	"github.com/cloudwego/eino/flow/agent"
	"github.com/cloudwego/eino/flow/agent/react"
	"github.com/cloudwego/eino/schema"

	"verifharness/internal/mon"
)

// ---------------------------------------------------------------------------
// Sub-workload "embed": the agent is a part of somebody else's Chain / Graph / Workflow and the
// callbacks of react.WithMessageFuture are given to the OUTER call.
//
// Agent.ExportGraph exists to put the agent's graph into other graphs and chains, and
// agent.GetComposeOptions to hand agent options to the enclosing runnable. Where the agent runs
// does not change its run: the loop judge must agree, and the future must hand out exactly the
// assistant and tool messages of the agent's run (round by round), once, then end - whatever the
// enclosing units are (1-2 levels of Chain / Graph / Workflow, mixed), however the agent got in
// there (its exported graph as a graph node, or a Lambda that calls Generate / Stream), and
// whichever paradigm the outer runnable is called with (Invoke -> GetMessages; Stream, Collect,
// Transform -> GetMessageStreams). Two outer runs of one compiled runnable that overlap in time,
// each with a future of its own, get each their own run's messages.
// ---------------------------------------------------------------------------

type embRun struct {
	Mode   string `json:"mode"` // "I" Invoke | "S" Stream | "C" Collect | "T" Transform of the OUTER runnable
	When   string `json:"when"` // the reader of the future starts "before" the call | "after" it returned | when the output is "closed"
	RunCtx string `json:"run_ctx"`
}

type embedSpec struct {
	Levels []string `json:"levels"` // enclosing units, outermost first: "chain" | "graph" | "workflow"
	Agent  string   `json:"agent"`  // "export": ExportGraph() as a graph node | "lambda": AnyLambda(agent.Generate, agent.Stream)
	Pre    bool     `json:"pre"`    // an identity lambda in front of the agent (innermost level)
	Post   bool     `json:"post"`   // ... behind it
	Runs   []embRun `json:"runs"`   // sequential outer runs, each with a future of its own

	// two outer runs at the same time (run A = the case's script, run B = ScriptB), gates forced in Order
	Overlap     bool       `json:"overlap"`
	OverlapRuns []embRun   `json:"overlap_runs,omitempty"`
	InputB      []msgSpec  `json:"input_b,omitempty"`
	ScriptB     []stepSpec `json:"script_b,omitempty"`
	Order       []event    `json:"order,omitempty"`
}

// enclosing: the signature class of the nesting (one per kind of unit that the future's handler has to see through).
func (e *embedSpec) enclosing() string {
	has := func(k string) bool {
		for _, l := range e.Levels {
			if l == k {
				return true
			}
		}
		return false
	}
	switch {
	case has("graph"):
		return "enclosing-graph"
	case has("chain"):
		return "enclosing-chain"
	}
	return "enclosing-workflow"
}

func stripFailing(r *mon.Rand, script []stepSpec) []stepSpec {
	for i := range script {
		s := &script[i]
		changed := false
		for j := range s.Calls {
			if a := strings.TrimLeft(s.Calls[j].Args, "!"); a != s.Calls[j].Args {
				s.Calls[j].Args, changed = a, true
			}
		}
		if changed {
			s.ChunksA = genChunks(r, *s, true)
			s.ChunksB = genChunks(r, *s, false)
		}
	}
	return script
}

var embModes = map[string]string{"I": "generate", "S": "stream", "C": "stream", "T": "stream"}
var embModeNames = map[string]string{"I": "Invoke", "S": "Stream", "C": "Collect", "T": "Transform"}

func genEmbRun(r *mon.Rand, gs string) embRun {
	m := "I"
	if gs == "S" {
		m = mon.PickOne(r, []string{"S", "S", "C", "T"})
	}
	return embRun{Mode: m, When: mon.PickOne(r, []string{"before", "before", "after", "closed"}), RunCtx: mon.PickOne(r, runCtxKinds)}
}

func generateEmbed(r *mon.Rand) *caseSpec {
	c := &caseSpec{Kind: "embed", Salt: r.Uint64()}
	callable, useGhost := genToolSet(r, c)
	if useGhost {
		c.UnknownHandler = true // no unanswerable calls: how a failing run ends is not this workload's business
	}
	e := &embedSpec{Overlap: r.Prob(0.5)}
	c.Embed = e
	tagA, idA, idB := "", "", ""
	if e.Overlap {
		tagA = "A:"
		if r.Bool() {
			idA, idB = "A:", "B:"
		}
	}
	c.Input = genInput(r, callable, tagA)
	c.Script = stripFailing(r, genScript(r, c, callable, useGhost, tagA, idA))
	need := scriptNeed(c)
	if e.Overlap {
		e.InputB = genInput(r, callable, "B:")
		e.ScriptB = stripFailing(r, genScript(r, c, callable, useGhost, "B:", idB))
		if x := scriptNeedOf(c, e.ScriptB); x > need {
			need = x
		}
	}
	switch x := r.Intn(100); {
	case x < 65:
		c.MaxStep = clamp(need+r.Range(0, 3), 1, 12)
	case x < 80:
		c.MaxStep = 0
	default:
		c.MaxStep = r.Range(1, 12)
	}
	if r.Prob(0.3) {
		c.Modifier = r.Range(1, 4)
	}
	if r.Prob(0.5) {
		c.ToolChunkMax = r.Range(2, 5)
	}
	c.Agents = genAgents(r, mon.PickOne(r, []string{"first-chunk", "full-scan", "first-chunk-custom"}))

	kinds := []string{"chain", "chain", "graph", "workflow"}
	e.Levels = []string{mon.PickOne(r, kinds)}
	if r.Prob(0.45) {
		e.Levels = append(e.Levels, mon.PickOne(r, kinds))
	}
	e.Agent = mon.PickOne(r, []string{"export", "export", "lambda"})
	e.Pre, e.Post = r.Prob(0.4), r.Prob(0.4)
	a := &c.Agents[0]
	a.RunCtx = nil
	for _, gs := range a.Runs {
		run := genEmbRun(r, gs)
		e.Runs = append(e.Runs, run)
		a.RunCtx = append(a.RunCtx, run.RunCtx)
	}
	if e.Overlap {
		e.OverlapRuns = []embRun{genEmbRun(r, mon.PickOne(r, []string{"G", "S"})), genEmbRun(r, mon.PickOne(r, []string{"G", "S"}))}
		qs := [][]event{runEvents(0, simulate(c, false)), runEvents(1, simulate(c.embedCaseB(), false))}
		e.Order = mergeRandom(r, qs)
	}
	return c
}

// embedCaseB: the case of the second overlapping run alone.
func (c *caseSpec) embedCaseB() *caseSpec {
	cb := *c
	cb.Input, cb.Script = c.Embed.InputB, c.Embed.ScriptB
	return &cb
}

// ---------------------------------------------------------------------------
// Building the enclosing runnable
// ---------------------------------------------------------------------------

type msgsRunnable = compose.Runnable[[]*schema.Message, *schema.Message]

func idIn() *compose.Lambda {
	return compose.InvokableLambda(func(_ context.Context, in []*schema.Message) ([]*schema.Message, error) { return in, nil })
}

func idOut() *compose.Lambda {
	return compose.InvokableLambda(func(_ context.Context, in *schema.Message) (*schema.Message, error) { return in, nil })
}

// embedAgent builds the levels from the inside out; every level maps []*schema.Message to *schema.Message.
func embedAgent(ag *react.Agent, e *embedSpec) (r msgsRunnable, err error) {
	type part struct {
		key    string
		graph  compose.AnyGraph
		gOpts  []compose.GraphAddNodeOpt
		lambda *compose.Lambda
	}
	var parts []part
	if e.Pre {
		parts = append(parts, part{key: "pre", lambda: idIn()})
	}
	if e.Agent == "lambda" {
		l, err := compose.AnyLambda(ag.Generate, ag.Stream, nil, nil)
		if err != nil {
			return nil, err
		}
		parts = append(parts, part{key: "agent", lambda: l})
	} else {
		g, opts := ag.ExportGraph()
		parts = append(parts, part{key: "agent", graph: g, gOpts: opts})
	}
	if e.Post {
		parts = append(parts, part{key: "post", lambda: idOut()})
	}
	var cur compose.AnyGraph
	var compile func() (msgsRunnable, error)
	bg := context.Background()
	for li := len(e.Levels) - 1; li >= 0; li-- {
		name := fmt.Sprintf("level%d-%s", li, e.Levels[li])
		switch e.Levels[li] {
		case "chain":
			ch := compose.NewChain[[]*schema.Message, *schema.Message]()
			for _, p := range parts {
				if p.graph != nil {
					ch.AppendGraph(p.graph, p.gOpts...)
				} else {
					ch.AppendLambda(p.lambda)
				}
			}
			cur, compile = ch, func() (msgsRunnable, error) { return ch.Compile(bg, compose.WithGraphName(name)) }
		case "graph":
			g := compose.NewGraph[[]*schema.Message, *schema.Message]()
			prev := compose.START
			for _, p := range parts {
				if p.graph != nil {
					err = g.AddGraphNode(p.key, p.graph, p.gOpts...)
				} else {
					err = g.AddLambdaNode(p.key, p.lambda)
				}
				if err != nil {
					return nil, err
				}
				if err = g.AddEdge(prev, p.key); err != nil {
					return nil, err
				}
				prev = p.key
			}
			if err = g.AddEdge(prev, compose.END); err != nil {
				return nil, err
			}
			cur, compile = g, func() (msgsRunnable, error) { return g.Compile(bg, compose.WithGraphName(name)) }
		default:
			wf := compose.NewWorkflow[[]*schema.Message, *schema.Message]()
			prev := compose.START
			for _, p := range parts {
				if p.graph != nil {
					wf.AddGraphNode(p.key, p.graph, p.gOpts...).AddInput(prev)
				} else {
					wf.AddLambdaNode(p.key, p.lambda).AddInput(prev)
				}
				prev = p.key
			}
			wf.End().AddInput(prev)
			cur, compile = wf, func() (msgsRunnable, error) { return wf.Compile(bg, compose.WithGraphName(name)) }
		}
		parts = []part{{key: "inner", graph: cur}}
	}
	return compile()
}

// ---------------------------------------------------------------------------
// Outer calls
// ---------------------------------------------------------------------------

type embCall struct {
	c      *caseSpec // the case of THIS run (overlapping runs have a script each)
	sim    simOut
	run    embRun
	name   string
	env    *runEnv
	ctx    context.Context
	cancel func()
	future bool
	before func()
	after  func()

	fut          react.MessageFuture
	col          *futCollected
	er           *execResult
	started      bool // only touched by the call's goroutine; read after the group has finished
	consumerDone chan struct{}
	futState     string
}

func oneChunk(in []*schema.Message) *schema.StreamReader[[]*schema.Message] {
	return schema.StreamReaderFromArray([][]*schema.Message{in})
}

func (k *embCall) body(r msgsRunnable) {
	var opts []compose.Option
	if k.future {
		var opt agent.AgentOption
		opt, k.fut = react.WithMessageFuture()
		opts = agent.GetComposeOptions(opt) // the documented way to hand an agent option to the enclosing runnable
		k.col = &futCollected{}
	}
	stream := k.run.Mode != "I"
	startConsumer := func() {
		if k.fut == nil || k.started {
			return
		}
		k.started = true
		go func() {
			defer close(k.consumerDone)
			futConsume(k.fut, stream, "full", 0, 0, k.col)
		}()
	}
	input := buildInput(k.c)
	inBefore := normAll(input)
	out := &k.er.out
	k.er.p = mon.Safe(func() {
		if k.run.When == "before" {
			startConsumer()
		}
		var sr *schema.StreamReader[*schema.Message]
		var err error
		switch k.run.Mode {
		case "I", "C":
			var m *schema.Message
			if k.run.Mode == "I" {
				m, err = r.Invoke(k.ctx, input, opts...)
			} else {
				m, err = r.Collect(k.ctx, oneChunk(input), opts...)
			}
			if err != nil {
				out.Err, out.ErrWhere = err, "call"
				return
			}
			out.Final, out.HasFinal, out.Chunks = norm(m), m != nil, 1
			return
		case "S":
			sr, err = r.Stream(k.ctx, input, opts...)
		default:
			sr, err = r.Transform(k.ctx, oneChunk(input), opts...)
		}
		if k.run.When == "after" {
			startConsumer()
		}
		if err != nil {
			out.Err, out.ErrWhere = err, "call"
			return
		}
		var chunks []*schema.Message
		for {
			m, err := sr.Recv()
			if err == io.EOF {
				break
			}
			if err != nil {
				sr.Close()
				out.Err, out.ErrWhere = err, "recv"
				return
			}
			chunks = append(chunks, m)
		}
		sr.Close()
		out.Chunks = len(chunks)
		switch len(chunks) {
		case 0:
		case 1:
			out.Final, out.HasFinal = norm(chunks[0]), chunks[0] != nil
		default:
			m, err := schema.ConcatMessages(chunks)
			if err != nil {
				out.Err, out.ErrWhere = fmt.Errorf("result stream cannot be concatenated: %w", err), "concat"
				return
			}
			out.Final, out.HasFinal = norm(m), true
		}
	})
	startConsumer() // "after" for value results, "closed" for streams, and whenever the call ended early
	k.er.intact = sameMsgs(inBefore, normAll(input))
}

// execEmbed performs the calls at the same time (one call = a sequential run), then lets the readers of the
// futures finish. ok = every call has finished and every reader is finished or proven stuck.
func execEmbed(r msgsRunnable, calls []*embCall) (res mon.WaitResult, dump []mon.G, retracted int) {
	var wg sync.WaitGroup
	done := make(chan struct{})
	for _, k := range calls {
		k.er = &execResult{}
		k.er.out.Mode = embModes[k.run.Mode]
		k.consumerDone = make(chan struct{})
		wg.Add(1)
		go func(k *embCall) {
			defer wg.Done()
			if k.before != nil {
				k.before()
			}
			k.body(r)
			if k.after != nil {
				k.after()
			}
		}(k)
	}
	go func() {
		wg.Wait()
		close(done)
	}()
	res, dump, retracted = waitConfirmed(done)
	if res != mon.Finished {
		return
	}
	for _, k := range calls {
		k.cancel()
		if k.fut == nil {
			continue
		}
		cres, cdump, retr := waitConfirmed(k.consumerDone)
		retracted += retr
		switch cres {
		case mon.Inconclusive:
			return cres, cdump, retracted
		case mon.Stuck:
			k.futState = classifyStuckConsumer(cdump)
		}
	}
	return
}

// judgeEmbed: the run against the loop reference, then what the future handed out.
func judgeEmbed(k *embCall) (run []finding, msgs []finding) {
	k.env.rr.mu.Lock()
	run = judge(k.sim, k.env.rr, k.er.out)
	k.env.rr.mu.Unlock()
	if !k.er.intact {
		run = append(run, finding{Sig: "C18/caller-input/modified", Detail: "the messages the caller passed were changed by the run"})
	}
	if !k.future {
		return
	}
	add := func(class, detail string) { msgs = append(msgs, finding{Sig: class, Detail: detail}) }
	k.col.mu.Lock()
	defer k.col.mu.Unlock()
	groups := expectedFuture(k.c, k.sim)
	clean := k.sim.Outcome == outFinal || k.sim.Outcome == outDirect
	tail := fmt.Sprintf("\nexpected (groups in order, members of a group in any order): %s\nhanded out: %s", js(groups), js(k.col.items))
	switch {
	case k.futState != "":
		add(k.futState, "the outer call is over, but reading the MessageFuture can never finish (process quiescent): "+k.futState)
	case k.sim.Outcome == outToolError:
	case k.col.itemErr != nil:
		add("messages/stream-error", fmt.Sprintf("a stream handed out by the future failed: %v", k.col.itemErr))
	case k.col.iterErr != nil && clean && len(run) == 0:
		add("messages/iterator-error", fmt.Sprintf("the run ended with %s, but the future delivered an error: %v", k.sim.Outcome, k.col.iterErr))
	case len(run) == 0:
		// a run that the step limit aborts has made all the model calls and tool rounds of the reference before: their
		// messages come first, the error item last (every end-callback of a node runs before the next super-step is checked)
		if class, detail := compareFuture(groups, k.col.items, k.col.ended || k.col.iterErr != nil); class != "" {
			add("messages/"+class, detail+tail)
		} else if !clean && k.col.iterErr == nil {
			add("messages/no-error-item", "the agent's run ended with the step-limit error, the future ended without an error item"+tail)
		}
	}
	return
}

// runEmbed: one case of the workload; true = non-trivial and complete.
func runEmbed(rep *mon.Reporter, c *caseSpec) bool {
	e, a := c.Embed, &c.Agents[0]
	rec := &recorder{byCtx: true, orphan: &runRec{}}
	ag, err, p := buildAgent(c, a, rec)
	form := e.Agent // innermost first
	for li := len(e.Levels) - 1; li >= 0; li-- {
		form += " in " + e.Levels[li]
	}
	w := func(run string) witness { return witness{Agent: a.Checker + "/" + a.Wiring + " (" + form + ")", Run: run, Case: c} }
	if p != nil {
		rep.Violation("C18/panic/new-agent/"+p.FirstFrame("github.com/cloudwego/eino/"), p.Value+"\n"+p.Stack, w("NewAgent"))
		return false
	}
	if err != nil {
		rep.Violation("C18/new-agent/error", err.Error(), w("NewAgent"))
		return false
	}
	var r msgsRunnable
	if p := mon.Safe(func() { r, err = embedAgent(ag, e) }); p != nil {
		rep.Violation("C18/embed/nesting-the-agent-panics", p.Value+"\n"+p.Stack, w("Compile"))
		return false
	}
	if err != nil {
		rep.Violation("C18/embed/nesting-the-agent-fails", err.Error(), w("Compile"))
		return false
	}
	enc := e.enclosing()
	rep.Count("embed_"+enc, 1)
	rep.Count("embed_agent_as_"+e.Agent, 1)
	rep.Count(fmt.Sprintf("embed_levels_%d", len(e.Levels)), 1)
	rep.Distinct("embed_form", fmt.Sprintf("%s/pre%v/post%v", form, e.Pre, e.Post))

	sim := simulate(c, false)
	rep.Count("outcome_"+sim.Outcome, 1)

	mk := func(cc *caseSpec, s simOut, run embRun, token, name string, future bool) *embCall {
		k := &embCall{c: cc, sim: s, run: run, name: name, future: future}
		k.env = &runEnv{Token: token, c: cc, rr: &runRec{}, early: a.ScanEarly}
		k.ctx, k.cancel = runContext(run.RunCtx, k.env)
		return k
	}
	// exec: false = the group cannot be judged (hang, watchdog)
	exec := func(calls []*embCall, what string) bool {
		rep.AddEvaluations(int64(len(calls)))
		res, dump, retracted := execEmbed(r, calls)
		rep.Count("stuck_verdicts_retracted_on_recheck", int64(retracted))
		switch res {
		case mon.Stuck:
			reportHang(rep, "C18/embed/"+enc+"/hang", dump, w(what))
			return false
		case mon.Inconclusive:
			rep.Inconclusive("watchdog fired while goroutines were still active in " + what)
			return false
		}
		return true
	}
	// report: the number of findings of one judged call
	report := func(k *embCall, suffix string) int {
		mode := embModes[k.run.Mode]
		pre := "C18/embed/" + enc + "/" + mode + "/"
		head := fmt.Sprintf("%s; outer runnable called with %s, react.WithMessageFuture given to the outer call through agent.GetComposeOptions; reader of the future started %s\n", form, embModeNames[k.run.Mode], k.run.When)
		if k.er.p != nil {
			rep.Violation(pre+"panic"+suffix, head+k.er.p.Value+"\n"+k.er.p.Stack, w(k.name))
			return 1
		}
		run, msgs := judgeEmbed(k)
		rep.Count("runs_"+mode, 1)
		rep.Count("embed_outer_"+embModeNames[k.run.Mode], 1)
		rep.Count("model_inputs_compared", int64(len(k.env.rr.calls)))
		if k.future {
			rep.Count("embed_runs_with_future", 1)
			for _, it := range k.col.items {
				if it.Complete {
					rep.Count("embed_messages_compared", 1)
				}
			}
		}
		for _, f := range msgs {
			rep.Violation(pre+f.Sig+suffix, head+f.Detail, w(k.name))
		}
		if len(run) > 0 {
			// the same outer call without the option: is it the embedding, or the option?
			ctl := mk(k.c, k.sim, k.run, k.env.Token+"-control", k.name+" (control: without the option)", false)
			if !exec([]*embCall{ctl}, ctl.name) {
				return 1
			}
			drainOrphan(rep, rec, c, a, w(ctl.name))
			var crun []finding
			if ctl.er.p == nil {
				crun, _ = judgeEmbed(ctl)
			}
			var details []string
			for _, f := range run {
				details = append(details, f.Sig+": "+f.Detail)
			}
			if ctl.er.p != nil || len(crun) > 0 {
				rep.Violation("C18/embed/"+enc+"/"+mode+"/embedded-run-differs/"+runClass(run)+suffix, head+"the embedded agent's run differs from the reference, with and without the option\n"+strings.Join(details, "\n"), w(k.name))
			} else {
				rep.Violation(pre+"run-differs-with-option/"+runClass(run)+suffix, head+"with the option the embedded agent's run differs from the reference; the same outer call without the option agrees with it\n"+strings.Join(details, "\n"), w(k.name))
			}
		}
		return len(run) + len(msgs)
	}

	complete := true
	for ri, run := range e.Runs {
		k := mk(c, sim, run, fmt.Sprintf("%s#%d", a.Checker, ri+1), fmt.Sprintf("#%d %s", ri+1, embModeNames[run.Mode]), true)
		if !exec([]*embCall{k}, k.name) {
			return false
		}
		if drainOrphan(rep, rec, c, a, w(k.name)) {
			complete = false
			continue
		}
		if report(k, "") > 0 {
			complete = false
		}
	}
	if e.Overlap && complete {
		// two outer runs of the one compiled runnable at the same time, each with its own script and its own future
		cases := []*caseSpec{c, c.embedCaseB()}
		sc := newSched(e.Order, 2)
		var calls []*embCall
		for i, run := range e.OverlapRuns {
			i := i
			s := sim
			if i == 1 {
				s = simulate(cases[1], false)
				rep.Count("outcome_"+s.Outcome, 1)
			}
			k := mk(cases[i], s, run, fmt.Sprintf("run-%c", 'A'+i), fmt.Sprintf("overlapping run %c %s", 'A'+i, embModeNames[run.Mode]), true)
			k.env.Idx, k.env.sched = i, sc
			k.before = func() { sc.pass(i, evStart, 0) }
			k.after = func() { sc.finish(i) }
			calls = append(calls, k)
		}
		if !exec(calls, "overlapping outer runs") {
			return false
		}
		if drainOrphan(rep, rec, c, a, w("overlapping outer runs")) {
			return false
		}
		for _, k := range calls {
			if report(k, "@overlap") > 0 {
				complete = false
			}
		}
		sc.mu.Lock()
		tr := append([]event(nil), sc.trace...)
		sc.mu.Unlock()
		rep.Count("embed_overlap_groups_judged", 1)
		rep.Count("embed_overlap_gate_switches", int64(switches(tr)))
	}
	return complete && len(sim.Rounds) >= 1
}
