package c18

import (
	"fmt"
	"strings"
	"sync"

	"verifharness/internal/mon"
)

// ---------------------------------------------------------------------------
// Sub-workload "overlap": 2-4 runs of ONE *react.Agent that overlap in time.
//
// The statement is per run ("the k-th model call sees the original messages followed by
// every earlier assistant message and the tool results for its calls"), so it holds for
// each of several runs of one agent whatever the other runs do meanwhile. Every run has
// its own input and its own script; each is judged against the loop simulator on its own.
//
// The interleaving is not hoped for but forced: the scripted model (inside every model
// call), the tools (inside every tool round) and the run goroutines (before the call of
// Generate / Stream) stop at gates; a PRNG-generated total order over the gates of all runs
// says who may pass when. When a model call k>1 of run A passes its gate, the state
// handlers of every run that the order puts between A's calls have already run.
// ---------------------------------------------------------------------------

const (
	evStart = "s" // the run goroutine, before it calls Generate / Stream
	evModel = "m" // inside the N-th model call of the run (history already handed over)
	evTools = "t" // inside the tools of the N-th tool round (assistant message already recorded)
)

type event struct {
	Run  int    `json:"r"`
	Kind string `json:"k"`
	N    int    `json:"n"`
}

func (e event) String() string { return fmt.Sprintf("%c%s%d", 'A'+e.Run, e.Kind, e.N) }

type overlapRun struct {
	Mode   string     `json:"mode"` // "G" | "S"
	RunCtx string     `json:"run_ctx"`
	Input  []msgSpec  `json:"input"`
	Script []stepSpec `json:"script"`
}

type overlapSpec struct {
	Runs    []overlapRun `json:"runs"`
	Pattern string       `json:"pattern"` // how Order was made: free | lockstep | random | nested
	Order   []event      `json:"order"`   // gates pass in this order (gates not listed are open)
	Control bool         `json:"control"` // the same runs are first made one after the other
}

// runCase: the case of run i alone (what the simulator judges it against).
func (c *caseSpec) runCase(i int) *caseSpec {
	cr := *c
	cr.Input, cr.Script = c.Overlap.Runs[i].Input, c.Overlap.Runs[i].Script
	return &cr
}

// ---------------------------------------------------------------------------
// The gate keeper
// ---------------------------------------------------------------------------

// sched lets gates pass in the listed order. It can never block for ever as long as every
// run either arrives at a gate again or ends: a gate that a run never reaches (the run
// deviates from the reference, fails early, ...) is given up as soon as the same run
// arrives at a later gate or finishes; gates that are not listed are open.
type sched struct {
	mu       sync.Mutex
	cond     *sync.Cond
	order    []event
	pos      map[event]int
	done     []bool
	finished []bool
	trace    []event // gates in the order they were actually passed
}

func newSched(order []event, runs int) *sched {
	s := &sched{order: order, pos: map[event]int{}, done: make([]bool, len(order)), finished: make([]bool, runs)}
	s.cond = sync.NewCond(&s.mu)
	for i, e := range order {
		s.pos[e] = i
	}
	return s
}

func (s *sched) pass(run int, kind string, n int) {
	e := event{Run: run, Kind: kind, N: n}
	s.mu.Lock()
	defer s.mu.Unlock()
	i, ok := s.pos[e]
	if !ok || s.done[i] {
		return // not listed, or a parallel tool call of a round that has already passed
	}
	for j := 0; j < i; j++ {
		if s.order[j].Run == run {
			s.done[j] = true // program order: the run is past its earlier gates
		}
	}
	s.cond.Broadcast()
	for !s.done[i] {
		blocked := false
		for j := 0; j < i; j++ {
			if !s.done[j] && !s.finished[s.order[j].Run] {
				blocked = true
				break
			}
		}
		if !blocked {
			break
		}
		s.cond.Wait()
	}
	if !s.done[i] {
		s.done[i] = true
		s.trace = append(s.trace, e)
	}
	s.cond.Broadcast()
}

func (s *sched) finish(run int) {
	s.mu.Lock()
	s.finished[run] = true
	s.cond.Broadcast()
	s.mu.Unlock()
}

// ---------------------------------------------------------------------------
// Generator
// ---------------------------------------------------------------------------

// runEvents: the gates run i passes according to the reference.
func runEvents(i int, sim simOut) []event {
	ev := []event{{Run: i, Kind: evStart}}
	for k := 1; k <= len(sim.Inputs); k++ {
		ev = append(ev, event{Run: i, Kind: evModel, N: k})
		if k <= len(sim.Rounds) && len(sim.Rounds[k-1]) > 0 {
			ev = append(ev, event{Run: i, Kind: evTools, N: k})
		}
	}
	return ev
}

func mergeRandom(r *mon.Rand, qs [][]event) []event {
	qs = append([][]event(nil), qs...)
	var out []event
	for {
		var live []int
		for i, q := range qs {
			if len(q) > 0 {
				live = append(live, i)
			}
		}
		if len(live) == 0 {
			return out
		}
		i := mon.PickOne(r, live)
		burst := r.Range(1, 3)
		for ; burst > 0 && len(qs[i]) > 0; burst-- {
			out = append(out, qs[i][0])
			qs[i] = qs[i][1:]
		}
	}
}

func generateOverlap(r *mon.Rand) *caseSpec {
	c := &caseSpec{Kind: "overlap", Salt: r.Uint64()}
	callable, useGhost := genToolSet(r, c)
	if r.Prob(0.5) {
		c.ToolChunkMax = r.Range(2, 5)
	}
	o := &overlapSpec{Control: r.Prob(0.4)}
	c.Overlap = o
	n := mon.PickOne(r, []int{2, 2, 2, 2, 2, 3, 3, 3, 4, 4})
	tagIDs := r.Bool() // else the runs use the same tool-call ids (separate conversations do)
	need := 1
	for i := 0; i < n; i++ {
		tag := fmt.Sprintf("%c:", 'A'+i)
		idTag := ""
		if tagIDs {
			idTag = tag
		}
		run := overlapRun{Mode: mon.PickOne(r, []string{"G", "S"}), RunCtx: mon.PickOne(r, runCtxKinds)}
		run.Input = genInput(r, callable, tag)
		run.Script = genScript(r, c, callable, useGhost, tag, idTag)
		if x := scriptNeedOf(c, run.Script); x > need {
			need = x
		}
		o.Runs = append(o.Runs, run)
	}
	switch x := r.Intn(100); {
	case x < 60:
		c.MaxStep = clamp(need+r.Range(0, 3), 1, 12)
	case x < 80:
		c.MaxStep = r.Range(1, 12)
	default:
		c.MaxStep = 0
	}
	if r.Prob(0.4) {
		c.Modifier = r.Range(1, 4)
	}
	c.Agents = genAgents(r, mon.PickOne(r, []string{"first-chunk", "full-scan", "full-scan", "first-chunk-custom"}))
	c.Agents[0].Runs = nil
	for _, run := range o.Runs {
		c.Agents[0].Runs = append(c.Agents[0].Runs, run.Mode)
	}
	c.Ctx = &ctxSpec{Ctor: mon.PickOne(r, ctorKinds), Impl: mon.PickOne(r, checkerImpls)}

	// ---- the order of the gates
	qs := make([][]event, n)
	for i := range qs {
		qs[i] = runEvents(i, simulate(c.runCase(i), false))
	}
	switch x := r.Intn(100); {
	case x < 15:
		o.Pattern = "free" // common start, then whatever the scheduler of the Go runtime does
		for i := range qs {
			o.Order = append(o.Order, qs[i][0])
		}
	case x < 30:
		o.Pattern = "lockstep"
		for k := 0; ; k++ {
			any := false
			for i := range qs {
				if k < len(qs[i]) {
					o.Order, any = append(o.Order, qs[i][k]), true
				}
			}
			if !any {
				break
			}
		}
	case x < 65:
		o.Pattern = "random"
		o.Order = mergeRandom(r, qs)
	default:
		// one run is held inside a model call or inside a tool while the others run (from their
		// first state handler on, or from where they had got to) up to some point or to their end
		o.Pattern = "nested"
		v := r.Intn(n)
		cut := len(qs[v])
		if cut > 2 {
			cut = r.Range(2, len(qs[v]))
		}
		var others [][]event
		var pre []event
		for i := range qs {
			if i == v {
				continue
			}
			k := 0
			if r.Prob(0.3) {
				k = r.Intn(len(qs[i]) + 1) // this part of the other run is already over when the victim starts
			}
			pre = append(pre, qs[i][:k]...)
			others = append(others, qs[i][k:])
		}
		o.Order = append(o.Order, pre...)
		o.Order = append(o.Order, qs[v][:cut]...)
		o.Order = append(o.Order, mergeRandom(r, others)...)
		o.Order = append(o.Order, qs[v][cut:]...)
	}
	return c
}

// traceString: the order in which gates were really passed.
func traceString(tr []event) string {
	parts := make([]string, len(tr))
	for i, e := range tr {
		parts[i] = e.String()
	}
	return strings.Join(parts, " ")
}

// switches: number of places in the trace where a gate of one run is followed by a gate
// of another run while the first run still has gates to pass (= a real overlap).
func switches(tr []event) int {
	last := map[int]int{}
	for i, e := range tr {
		last[e.Run] = i
	}
	n := 0
	for i := 1; i < len(tr); i++ {
		if tr[i].Run != tr[i-1].Run && last[tr[i-1].Run] > i {
			n++
		}
	}
	return n
}
