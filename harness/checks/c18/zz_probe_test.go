package c18

import (
	"context"
	"fmt"
	"testing"
	"time"

	"github.com/cloudwego/eino/components/model"
	"github.com/cloudwego/eino/components/tool"
	"github.com/cloudwego/eino/compose"
	"github.com/cloudwego/eino/flow/agent/react"
	"github.com/cloudwego/eino/schema"
)

type prModel struct{ tag string }

func (m *prModel) WithTools([]*schema.ToolInfo) (model.ToolCallingChatModel, error) { return m, nil }
func (m *prModel) answer(in []*schema.Message) *schema.Message {
	last := in[len(in)-1]
	if last.Role == schema.User {
		return &schema.Message{Role: schema.Assistant, ToolCalls: []schema.ToolCall{{ID: m.tag + "1", Function: schema.FunctionCall{Name: "sub", Arguments: last.Content}}}}
	}
	return &schema.Message{Role: schema.Assistant, Content: m.tag + "final:" + last.Content}
}
func (m *prModel) Generate(_ context.Context, in []*schema.Message, _ ...model.Option) (*schema.Message, error) {
	return m.answer(in), nil
}
func (m *prModel) Stream(_ context.Context, in []*schema.Message, _ ...model.Option) (*schema.StreamReader[*schema.Message], error) {
	return schema.StreamReaderFromArray([]*schema.Message{m.answer(in)}), nil
}

type prTool struct {
	f func(ctx context.Context, args string) (string, error)
}

func (t *prTool) Info(context.Context) (*schema.ToolInfo, error) {
	return &schema.ToolInfo{Name: "sub", Desc: "sub"}, nil
}
func (t *prTool) InvokableRun(ctx context.Context, args string, _ ...tool.Option) (string, error) {
	return t.f(ctx, args)
}

func TestProbeNestedFuture(t *testing.T) {
	ctx := context.Background()
	leaf := &prTool{f: func(ctx context.Context, a string) (string, error) { return "leaf(" + a + ")", nil }}
	inner, err := react.NewAgent(ctx, &react.AgentConfig{ToolCallingModel: &prModel{tag: "in"}, ToolsConfig: compose.ToolsNodeConfig{Tools: []tool.BaseTool{leaf}}})
	if err != nil {
		t.Fatal(err)
	}
	got := make(chan string, 1)
	mid := &prTool{f: func(ctx context.Context, a string) (string, error) {
		opt, fut := react.WithMessageFuture()
		m, err := inner.Generate(ctx, []*schema.Message{schema.UserMessage(a)}, opt)
		if err != nil {
			return "", err
		}
		go func() {
			s := ""
			for it := fut.GetMessages(); ; {
				x, ok, e := it.Next()
				if !ok || e != nil {
					break
				}
				s += string(x.Role) + ":" + x.Content + "|"
			}
			got <- s
		}()
		return m.Content, nil
	}}
	outer, err := react.NewAgent(ctx, &react.AgentConfig{ToolCallingModel: &prModel{tag: "out"}, ToolsConfig: compose.ToolsNodeConfig{Tools: []tool.BaseTool{mid}}})
	if err != nil {
		t.Fatal(err)
	}
	opt, fut := react.WithMessageFuture()
	m, err := outer.Generate(ctx, []*schema.Message{schema.UserMessage("hi")}, opt)
	fmt.Println("outer:", m, err)
	for it := fut.GetMessages(); ; {
		x, ok, e := it.Next()
		if !ok || e != nil {
			break
		}
		fmt.Println("  outer future:", x.Role, x.Content, x.ToolCalls)
	}
	select {
	case s := <-got:
		fmt.Println("inner future:", s)
	case <-time.After(2 * time.Second):
		fmt.Println("inner future: NEVER OPENED / NEVER CLOSED")
	}
}
