package c18

import (
	"fmt"

	"verifharness/internal/mon"
)

// ---------------------------------------------------------------------------
// Sub-workload "rd": the return-directly clause under hostile tool-call lists.
//
// "The agent returns ... the result of a tool marked return-directly": which call that is
// depends on the NAMES of the called tools only. Generated around it: tool calls without id
// (all / some), several calls with the SAME id in one assistant message (the marked call
// sharing its id with an earlier or later unmarked call, or with another marked call), ids
// reused from earlier rounds, 1-5 calls of which 1-3 go to marked tools with the first
// marked call at every position of the list, marked tools that stream their result in 2-6
// chunks (empty chunks included), 0-2 ordinary tool rounds in front, and script steps
// behind the marked round that must never be reached. The oracle is the same loop
// simulator (first marked call by position wins, its own tool message is the answer).
// ---------------------------------------------------------------------------

var rdIDModes = []string{"unique", "all-empty", "mixed-empty", "dup", "dup-and-empty", "reused-rounds"}

func generateRD(r *mon.Rand) *caseSpec {
	c := &caseSpec{Kind: "rd", Salt: r.Uint64()}

	// tools: 2-5, biased towards tools that stream
	nTools := r.Range(2, 5)
	for i := 0; i < nTools; i++ {
		c.Tools = append(c.Tools, toolSpec{Name: fmt.Sprintf("t%d", i), Kind: mon.PickOne(r, []int{toolInvokable, toolStreamable, toolStreamable, toolBoth, toolBoth})})
	}
	if r.Prob(0.75) {
		c.ToolChunkMax = r.Range(2, 6)
	}
	c.UnknownHandler = r.Prob(0.5)
	useGhost := c.UnknownHandler && r.Prob(0.12)

	// marked tools: 1-3 of them; unmarked ones remain unless (10 %) every tool is marked
	perm := r.Perm(nTools)
	nMarked := r.Range(1, 3)
	if nMarked >= nTools {
		nMarked = nTools - 1
	}
	if r.Prob(0.1) {
		nMarked = nTools
	}
	var marked, plain []string
	for i, p := range perm {
		if i < nMarked {
			marked = append(marked, c.Tools[p].Name)
		} else {
			plain = append(plain, c.Tools[p].Name)
		}
	}
	c.ReturnDirectly = append(c.ReturnDirectly, marked...)
	if useGhost && r.Prob(0.5) {
		// a hallucinated tool name that is marked: answered by the unknown-tools handler
		c.ReturnDirectly = append(c.ReturnDirectly, ghostTool)
		marked = append(marked, ghostTool)
	} else if useGhost {
		plain = append(plain, ghostTool)
	}
	if len(plain) == 0 {
		plain = marked
	}
	callable := make([]string, 0, nTools)
	for _, t := range c.Tools {
		callable = append(callable, t.Name)
	}
	c.Input = genInput(r, callable, "")

	idMode := mon.PickOne(r, rdIDModes)
	noIndex := r.Prob(0.2)
	dupPool := []string{"d0", "d1"}[:r.Range(1, 2)]
	mkID := func(i, j int) string {
		switch idMode {
		case "all-empty":
			return ""
		case "mixed-empty":
			if r.Bool() {
				return ""
			}
		case "dup":
			return mon.PickOne(r, dupPool)
		case "dup-and-empty":
			return mon.PickOne(r, append([]string{""}, dupPool...))
		case "reused-rounds":
			return fmt.Sprintf("c_%d", j)
		}
		return fmt.Sprintf("c%d_%d", i, j)
	}
	addStep := func(names []string) {
		s := stepSpec{NoIndex: noIndex, Content: genContent(r)}
		i := len(c.Script)
		for j, name := range names {
			s.Calls = append(s.Calls, callSpec{ID: mkID(i, j), Name: name, Args: genArgs(r)})
		}
		s.ChunksA = genChunks(r, s, true)
		s.ChunksB = genChunks(r, s, false)
		c.Script = append(c.Script, s)
	}

	// ordinary rounds in front (only unmarked tools)
	for i := r.Intn(3); i > 0 && !sameSet(plain, marked); i-- {
		var names []string
		for j := r.Range(1, 3); j > 0; j-- {
			names = append(names, mon.PickOne(r, plain))
		}
		addStep(names)
	}
	// the marked round: nc calls, nm of them to marked tools, the first one at position first
	nc := r.Range(1, 5)
	nm := r.Range(1, 3)
	if nm > nc {
		nm = nc
	}
	first := r.Intn(nc - nm + 1)
	names := make([]string, nc)
	for j := range names {
		names[j] = mon.PickOne(r, plain)
	}
	names[first] = mon.PickOne(r, marked)
	for k, p := 1, r.Perm(nc-first-1); k < nm; k++ {
		names[first+1+p[k-1]] = mon.PickOne(r, marked) // further marked calls, anywhere behind the first
	}
	addStep(names)
	// steps behind it: never reached
	for i := r.Intn(3); i > 0; i-- {
		var more []string
		for j := r.Range(1, 2); j > 0; j-- {
			more = append(more, mon.PickOne(r, callable))
		}
		addStep(more)
	}
	addStep(nil)

	need := scriptNeed(c)
	switch x := r.Intn(100); {
	case x < 50:
		c.MaxStep = clamp(need+r.Range(0, 3), 1, 12)
	case x < 75:
		c.MaxStep = clamp(need+r.Range(-2, 0), 1, 12)
	case x < 85:
		c.MaxStep = 0
	default:
		c.MaxStep = r.Range(1, 12)
	}
	if r.Prob(0.3) {
		c.Modifier = r.Range(1, 4)
	}
	c.Agents = genAgents(r, "first-chunk", "full-scan")
	return c
}

func sameSet(a, b []string) bool {
	if len(a) != len(b) {
		return false
	}
	for _, x := range a {
		if !contains(b, x) {
			return false
		}
	}
	return true
}
