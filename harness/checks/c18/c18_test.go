package c18

import (
	"context"
	"encoding/json"
	"fmt"
	"io"
	"strings"
	"testing"
	"time"

	"github.com/cloudwego/eino/compose"
	"github.com/cloudwego/eino/flow/agent/react"
	"github.com/cloudwego/eino/schema"

	"verifharness/internal/mon"
)

func js(v any) string {
	b, err := json.Marshal(v)
	if err != nil {
		return fmt.Sprintf("%+v", v)
	}
	return string(b)
}

type witness struct {
	Agent string    `json:"agent"`
	Run   string    `json:"run"` // e.g. "#2 stream"
	Case  *caseSpec `json:"case"`
}

func buildAgent(c *caseSpec, a *agentSpec, rec *recorder) (ag *react.Agent, err error, p *mon.Panic) {
	base := scripted{c: c, a: a, rec: rec, firstChunk: a.Checker == "first-chunk"}
	cfg := &react.AgentConfig{
		ToolsConfig: compose.ToolsNodeConfig{Tools: buildTools(c, rec)},
		MaxStep:     c.MaxStep,
	}
	if c.UnknownHandler {
		cfg.ToolsConfig.UnknownToolsHandler = unknownHandler(rec)
	}
	if a.Wiring == "tool-calling" {
		cfg.ToolCallingModel = &tcModel{base}
	} else {
		cfg.Model = &cmModel{base}
	}
	if len(c.ReturnDirectly) > 0 {
		cfg.ToolReturnDirectly = map[string]struct{}{}
		for _, n := range c.ReturnDirectly {
			cfg.ToolReturnDirectly[n] = struct{}{}
		}
	}
	if c.Modifier != 0 {
		kind := c.Modifier
		cfg.MessageModifier = func(_ context.Context, in []*schema.Message) []*schema.Message {
			return applyModifier(kind, in)
		}
	}
	if a.Checker == "full-scan" {
		cfg.StreamToolCallChecker = fullScanChecker(rec, a.ScanEarly)
	}
	p = mon.Safe(func() { ag, err = react.NewAgent(context.Background(), cfg) })
	return
}

// execResult lives on the heap and is only read after done was closed: a run that is
// abandoned as stuck never shares memory with the harness again.
type execResult struct {
	out    runOut
	p      *mon.Panic
	intact bool // the caller's input slice and messages were left as they were
}

// execute performs one Generate or Stream run (stream read to EOF) on its own
// goroutine; the quiescence monitor decides whether it can still finish. A Stuck
// verdict is re-examined several times (a truly stuck run stays stuck for ever, so
// this costs nothing); retracted is the number of Stuck verdicts that did not survive.
func execute(ag *react.Agent, mode string, c *caseSpec) (*execResult, string, mon.WaitResult, []mon.G, int) {
	modeName := map[string]string{"G": "generate", "S": "stream"}[mode]
	r := &execResult{} // captured by the run goroutine: never reassigned
	r.out.Mode = modeName
	var (
		res       mon.WaitResult
		dump      []mon.G
		retracted int
	)
	input := buildInput(c)
	before := normAll(input)
	ctx := context.WithValue(context.Background(), ctxKey{}, 1)
	done := make(chan struct{})
	go func() {
		defer close(done)
		out := &r.out
		r.p = mon.Safe(func() {
			if mode == "G" {
				m, err := ag.Generate(ctx, input)
				if err != nil {
					out.Err, out.ErrWhere = err, "call"
					return
				}
				out.Final, out.HasFinal, out.Chunks = norm(m), m != nil, 1
				return
			}
			sr, err := ag.Stream(ctx, input)
			if err != nil {
				out.Err, out.ErrWhere = err, "call"
				return
			}
			defer sr.Close()
			var chunks []*schema.Message
			for {
				m, err := sr.Recv()
				if err == io.EOF {
					break
				}
				if err != nil {
					out.Err, out.ErrWhere = err, "recv"
					return
				}
				chunks = append(chunks, m)
			}
			out.Chunks = len(chunks)
			switch len(chunks) {
			case 0:
			case 1:
				out.Final, out.HasFinal = norm(chunks[0]), chunks[0] != nil
			default:
				m, err := schema.ConcatMessages(chunks)
				if err != nil {
					out.Err, out.ErrWhere = fmt.Errorf("result stream cannot be concatenated: %w", err), "concat"
					return
				}
				out.Final, out.HasFinal = norm(m), true
			}
		})
		after := normAll(input)
		r.intact = len(after) == len(before)
		for i := 0; r.intact && i < len(after); i++ {
			r.intact = after[i].equal(before[i])
		}
	}()
	const watchdog = 120 * time.Second
	// A Stuck verdict must survive 6 examinations in a row. Two things make a single
	// verdict unreliable: (1) a goroutine that waits for a runtime-internal semaphore
	// (GC start, stop-the-world -- also the one taken by the monitor's own goroutine
	// dump) shows the state "semacquire" although hidden runtime goroutines will wake
	// it: such dumps are not counted; (2) plain bad luck under heavy load.
	confirmed := 0
	for try := 0; try < 80; try++ {
		res, dump = mon.WaitDone(done, watchdog)
		if res != mon.Stuck {
			break
		}
		if runtimeSemWait(dump) {
			retracted++
			continue
		}
		if confirmed++; confirmed >= 6 {
			break
		}
		time.Sleep(5 * time.Millisecond)
	}
	if res == mon.Stuck && confirmed < 6 {
		res = mon.Inconclusive
	}
	if res == mon.Finished {
		retracted += confirmed
	}
	if res != mon.Finished {
		return nil, modeName, res, dump, retracted
	}
	return r, modeName, res, nil, retracted
}

// runtimeSemWait: some goroutine is parked on a semaphore of the runtime itself (no
// sync.* frame between it and the semaphore): the process is not quiescent.
func runtimeSemWait(gs []mon.G) bool {
	for i, g := range gs {
		if i > 0 && strings.HasPrefix(g.State, "semacquire") && !g.Has("sync.") {
			return true
		}
	}
	return false
}

var hangsSeen int // confirmed hangs in this process

func TestCheck(t *testing.T) {
	cfg := mon.Load("C18")
	rep := mon.NewReporter(cfg,
		"exploration",
		"each case = one PRNG model script (1-8 assistant messages, 0-3 tool calls each, possibly cyclic = never stopping), a tool set "+
			"(invokable/streamable/both, failing and hallucinated calls), a return-directly subset, MaxStep in {0,1..12}, optional MessageModifier, "+
			"original messages; it is run on TWO agents (default first-chunk checker with contract-conforming chunkings; custom full-scan "+
			"StreamToolCallChecker with arbitrary chunkings; ChatModel or ToolCallingChatModel wiring), each agent 2-3 times sequentially "+
			"(Generate and Stream). Every run is compared with a plain ReAct loop simulator (inputs of every model call, tool invocations per round, "+
			"result, step-limit error) and Generate with concat(Stream). Non-trivial: the reference executes at least one tool round and both agents "+
			"completed a Generate and a Stream run; distinct = distinct case specs.",
		[]string{
			"schema.ConcatMessages is trusted to rebuild the observed result stream (property C14 checks it); expected values never pass through it",
			"runs on one agent are sequential (concurrent use is property C09)",
			"the step-limit error is recognised by errors.Is(err, compose.ErrExceedMaxSteps) or, because of defect D-C13 (internalError has no Unwrap), by its message",
			"schedules of the parallel tool calls and of the streaming goroutines vary between executions; the verdict does not depend on them",
		},
		200)
	defer func() {
		if err := rep.Flush(); err != nil {
			t.Fatalf("flush: %v", err)
		}
	}()
	rep.Require("model_inputs_compared", 200)
	rep.Require("runs_stream", 100)
	rep.Require("runs_generate", 100)
	rep.Require("outcome_return-directly", 10)
	rep.Require("outcome_step-limit", 10)
	rep.Require("outcome_final", 10)
	rep.Require("steplimit_errors_recognised", 10)
	rep.Require("fullscan_checker_calls", 50)

	n := int64(cfg.Pick(1200, 5000)) // scripts per shard; each runs under both checker configurations
	rep.Cases(n, func(idx int64, rng *mon.Rand) {
		if hangsSeen >= 8 {
			// every hang leaves goroutines behind and costs several quiescence proofs; the
			// violation is recorded, the rest of this shard would only repeat it slowly
			rep.Count("cases_skipped_after_8_hangs", 1)
			return
		}
		c := generate(rng)
		sim := simulate(c, false)
		if idx < 2 {
			rep.Sample(c)
		}
		rep.Count("outcome_"+sim.Outcome, 1)
		rep.Count("expected_model_calls", int64(len(sim.Inputs)))
		if c.MaxStep == 0 {
			rep.Count("cases_default_max_step", 1)
		}
		if c.Modifier != 0 {
			rep.Count("cases_with_modifier", 1)
		}
		if !c.hasTerminalStep() {
			rep.Count("cases_never_stopping_script", 1)
		}
		complete := true
		for ai := range c.Agents {
			a := &c.Agents[ai]
			if !runAgent(rep, c, a, sim) {
				complete = false
			}
		}
		if complete && len(sim.Rounds) >= 1 {
			rep.NonTrivial(c.digest())
		}
		rep.Distinct("shape", fmt.Sprintf("%s/steps%d/limit%d/mod%d/rd%v", sim.Outcome, sim.Steps, sim.Limit, c.Modifier, len(c.ReturnDirectly) > 0))
	})
}

// runAgent builds one agent and performs its sequential runs. It returns false if
// a run could not be judged (hang, build error).
func runAgent(rep *mon.Reporter, c *caseSpec, a *agentSpec, sim simOut) bool {
	rec := &recorder{}
	rec.set(&runRec{})
	ag, err, p := buildAgent(c, a, rec)
	w := func(run string) witness { return witness{Agent: a.Checker + "/" + a.Wiring, Run: run, Case: c} }
	if p != nil {
		rep.Violation("C18/panic/new-agent/"+p.FirstFrame("github.com/cloudwego/eino/"), p.Value+"\n"+p.Stack, w("NewAgent"))
		return false
	}
	if err != nil {
		rep.Violation("C18/new-agent/error", err.Error(), w("NewAgent"))
		return false
	}
	// tools handed to the model (flow/agent/utils.go): evidence only
	if len(rec.boundInfos) == 1 && len(rec.boundInfos[0]) == len(c.Tools) {
		rep.Count("tool_infos_bound_once_in_order", 1)
	} else {
		rep.Count("tool_infos_bound_unexpectedly", 1)
	}
	rep.Count("agents_"+a.Checker, 1)
	rep.Count("agents_wiring_"+a.Wiring, 1)

	clean := true // all earlier runs on this agent agreed with the reference
	var firstG, firstS *runOut
	for ri, mode := range a.Runs {
		rep.AddEvaluations(1)
		rr := &runRec{}
		rec.set(rr)
		er, modeName, res, dump, retracted := execute(ag, mode, c)
		rep.Count("stuck_verdicts_retracted_on_recheck", int64(retracted))
		runName := fmt.Sprintf("#%d %s", ri+1, modeName)
		out := runOut{Mode: modeName}
		var p *mon.Panic
		intact := true
		if er != nil {
			out, p, intact = er.out, er.p, er.intact
		}
		suffix := ""
		if ri > 0 && clean {
			suffix = "@rerun" // the same agent got it right before: state carried over between runs
		}
		switch res {
		case mon.Stuck:
			txt := ""
			for _, g := range mon.Parked(dump, "github.com/cloudwego/eino/", "verifharness/checks/c18") {
				txt += g.Raw + "\n\n"
			}
			txt += fmt.Sprintf("(%d goroutines in the dump; the Stuck verdict was confirmed by 6 examinations in a row)", len(dump))
			hangsSeen++
			rep.Violation("C18/hang/"+out.Mode+suffix, "process quiescent while the run is unfinished\n"+txt, w(runName))
			return false
		case mon.Inconclusive:
			rep.Inconclusive("watchdog fired while goroutines were still active in " + runName)
			return false
		}
		if p != nil {
			rep.Violation("C18/panic/"+out.Mode+"/"+p.FirstFrame("github.com/cloudwego/eino/")+suffix, p.Value+"\n"+p.Stack, w(runName))
			clean = false
			continue
		}
		rr.mu.Lock() // the run is over; late stragglers (none expected) would still be serialised
		fs := judge(sim, rr, out)
		if len(fs) > 0 && sim.IdlessDirect {
			// root-cause probe: does the run behave exactly like a loop that does not honour a
			// return-directly call without tool-call id? Then report that one thing, once.
			if alt := simulate(c, true); len(judge(alt, rr, out)) == 0 {
				fs = []finding{{Sig: "C18/return-directly/not-honoured-for-tool-call-without-id",
					Detail: fmt.Sprintf("the first return-directly tool call of an assistant message has an empty ToolCall.ID; expected outcome %s %s after %d model call(s); "+
						"observed %d model call(s), err=%v, result=%s (= behaviour of a loop that ignores the return-directly mark)",
						sim.Outcome, js(sim.Final), len(sim.Inputs), len(rr.calls), out.Err, js(out.Final))}}
				suffix = ""
			}
		}
		for _, f := range fs {
			rep.Violation(f.Sig+suffix, fmt.Sprintf("agent %s/%s, run %s\n%s", a.Checker, a.Wiring, runName, f.Detail), w(runName))
		}
		if len(fs) > 0 {
			clean = false
		}

		// evidence
		rep.Count("runs_"+out.Mode, 1)
		rep.Count("model_calls_observed", int64(len(rr.calls)))
		nc := len(rr.calls)
		if len(sim.Inputs) < nc {
			nc = len(sim.Inputs)
		}
		rep.Count("model_inputs_compared", int64(nc))
		for _, mc := range rr.calls {
			rep.Count("model_"+mc.Mode+"_calls_in_"+out.Mode+"_run", 1)
			if !mc.Bound {
				rep.Count("model_calls_on_unbound_instance", 1)
			}
		}
		rep.Count("tool_invocations_observed", int64(len(rr.tools)))
		for _, ti := range rr.tools {
			rep.Count("tool_via_"+ti.Via, 1)
		}
		rep.Count("tool_rounds_compared", int64(len(sim.Rounds)))
		rep.Count("fullscan_checker_calls", int64(rr.checkerCalls))
		rep.Count("fullscan_checker_got_run_ctx", int64(rr.checkerCtxOK))
		if out.Mode == "stream" && out.Err == nil {
			rep.Count("result_stream_chunks", int64(out.Chunks))
		}
		if out.Err != nil {
			rep.Count("run_errors_at_"+out.ErrWhere, 1)
			if is, msgOnly := isStepLimit(out.Err); is {
				rep.Count("steplimit_errors_recognised", 1)
				if msgOnly {
					rep.Count("steplimit_errors_message_only_errors_Is_false", 1)
				} else {
					rep.Count("steplimit_errors_errors_Is_true", 1)
				}
			}
		}
		if !intact {
			rep.Count("caller_input_modified", 1)
		}
		rr.mu.Unlock()

		o := out
		if mode == "G" && firstG == nil {
			firstG = &o
		}
		if mode == "S" && firstS == nil {
			firstS = &o
		}
	}

	// Generate and Stream give the same answer (direct comparison, independent of the reference).
	// Which error a failing run reports is not compared: with a tool that fails in the middle of
	// its output stream Generate fails in the tools node while Stream may hit the step limit first.
	if firstG != nil && firstS != nil {
		rep.Count("generate_vs_stream_compared", 1)
		ge, se := firstG.Err != nil, firstS.Err != nil
		switch {
		case ge != se:
			rep.Violation("C18/generate-vs-stream/error-vs-result", fmt.Sprintf("agent %s/%s: Generate err=%v result=%s; Stream err=%v (%s) result=%s",
				a.Checker, a.Wiring, firstG.Err, js(firstG.Final), firstS.Err, firstS.ErrWhere, js(firstS.Final)), w("G vs S"))
		case !ge && !firstG.Final.equal(firstS.Final):
			rep.Violation("C18/generate-vs-stream/result-differs", fmt.Sprintf("agent %s/%s: Generate %s\nconcat(Stream) %s",
				a.Checker, a.Wiring, js(firstG.Final), js(firstS.Final)), w("G vs S"))
		}
	}
	return firstG != nil && firstS != nil
}
