package c18

import (
	"context"
	"encoding/json"
	"fmt"
	"io"
	"strings"
	"sync"
	"testing"
	"time"

	"github.com/cloudwego/eino/compose"
	"github.com/cloudwego/eino/flow/agent/react"
	"github.com/cloudwego/eino/schema"

	"verifharness/internal/mon"
)

func js(v any) string {
	b, err := json.Marshal(v)
	if err != nil {
		return fmt.Sprintf("%+v", v)
	}
	return string(b)
}

type witness struct {
	Agent string    `json:"agent"`
	Run   string    `json:"run"` // e.g. "#2 stream"
	Case  *caseSpec `json:"case"`
}

func buildAgent(c *caseSpec, a *agentSpec, rec *recorder) (ag *react.Agent, err error, p *mon.Panic) {
	base := scripted{c: c, a: a, rec: rec, firstChunk: a.Checker != "full-scan"}
	cfg := &react.AgentConfig{
		ToolsConfig: compose.ToolsNodeConfig{Tools: buildTools(c, rec)},
		MaxStep:     c.MaxStep,
	}
	if c.UnknownHandler {
		cfg.ToolsConfig.UnknownToolsHandler = unknownHandler(rec)
	}
	if a.Wiring == "tool-calling" {
		cfg.ToolCallingModel = &tcModel{base}
	} else {
		cfg.Model = &cmModel{base}
	}
	if len(c.ReturnDirectly) > 0 {
		cfg.ToolReturnDirectly = map[string]struct{}{}
		for _, n := range c.ReturnDirectly {
			cfg.ToolReturnDirectly[n] = struct{}{}
		}
	}
	if c.Modifier != 0 {
		kind := c.Modifier
		cfg.MessageModifier = func(ctx context.Context, in []*schema.Message) []*schema.Message {
			// the modifier is part of the run as well: it records what its context carries
			rr, _ := rec.recOf(ctx)
			rr.mu.Lock()
			rr.modifier = append(rr.modifier, checkerObs{Token: ctx.Value(tokenKey{}), CtorOnly: ctx.Value(ctorOnlyKey{}) != nil, Err: ctx.Err(), HasEnv: envOf(ctx) != nil})
			rr.mu.Unlock()
			return applyModifier(kind, in)
		}
	}
	if a.Checker != "first-chunk" {
		cfg.StreamToolCallChecker = customChecker(rec, a.Checker, checkerImplOf(c), a.ScanEarly)
	}
	// the context of NewAgent belongs to the set-up, not to any run: it may carry values of
	// its own and may be cancelled as soon as NewAgent has returned
	ctorCtx, ctorDone := ctorContext(ctorKindOf(c))
	p = mon.Safe(func() {
		applyFuture(c, cfg) // workload "future": model / modifier / unknown-tools handler built on graphs
		ag, err = react.NewAgent(ctorCtx, cfg)
	})
	ctorDone()
	return
}

// execResult lives on the heap and is only read after done was closed: a run that is
// abandoned as stuck never shares memory with the harness again.
type execResult struct {
	out    runOut
	p      *mon.Panic
	intact bool // the caller's input slice and messages were left as they were
}

// runCall is one Generate ("G") or Stream ("S") call; before / after run on the goroutine of
// the call (gate before the call, bookkeeping after it).
type runCall struct {
	mode          string
	ctx           context.Context
	input         []*schema.Message
	before, after func()
}

var modeNames = map[string]string{"G": "generate", "S": "stream"}

// runBody performs the call (stream read to EOF) and fills r.
func runBody(ag *react.Agent, rc runCall, r *execResult) {
	input := rc.input
	before := normAll(input)
	out := &r.out
	r.p = mon.Safe(func() {
		if rc.mode == "G" {
			m, err := ag.Generate(rc.ctx, input)
			if err != nil {
				out.Err, out.ErrWhere = err, "call"
				return
			}
			out.Final, out.HasFinal, out.Chunks = norm(m), m != nil, 1
			return
		}
		sr, err := ag.Stream(rc.ctx, input)
		if err != nil {
			out.Err, out.ErrWhere = err, "call"
			return
		}
		defer sr.Close()
		var chunks []*schema.Message
		for {
			m, err := sr.Recv()
			if err == io.EOF {
				break
			}
			if err != nil {
				out.Err, out.ErrWhere = err, "recv"
				return
			}
			chunks = append(chunks, m)
		}
		out.Chunks = len(chunks)
		switch len(chunks) {
		case 0:
		case 1:
			out.Final, out.HasFinal = norm(chunks[0]), chunks[0] != nil
		default:
			m, err := schema.ConcatMessages(chunks)
			if err != nil {
				out.Err, out.ErrWhere = fmt.Errorf("result stream cannot be concatenated: %w", err), "concat"
				return
			}
			out.Final, out.HasFinal = norm(m), true
		}
	})
	after := normAll(input)
	r.intact = len(after) == len(before)
	for i := 0; r.intact && i < len(after); i++ {
		r.intact = after[i].equal(before[i])
	}
}

// executeGroup performs the calls, each on its own goroutine, all at the same time (one
// call = a plain sequential run); the quiescence monitor decides whether they can still
// finish. A Stuck verdict is re-examined several times (a truly stuck run stays stuck for
// ever, so this costs nothing); retracted is the number of Stuck verdicts that did not
// survive. The results are returned only if every call has finished.
func executeGroup(ag *react.Agent, calls []runCall) ([]*execResult, mon.WaitResult, []mon.G, int) {
	var (
		res       mon.WaitResult
		dump      []mon.G
		retracted int
		wg        sync.WaitGroup
	)
	rs := make([]*execResult, len(calls)) // captured by the run goroutines: never reassigned
	done := make(chan struct{})
	for i := range calls {
		rs[i] = &execResult{}
		rs[i].out.Mode = modeNames[calls[i].mode]
		wg.Add(1)
		go func(rc runCall, r *execResult) {
			defer wg.Done()
			if rc.before != nil {
				rc.before()
			}
			runBody(ag, rc, r)
			if rc.after != nil {
				rc.after()
			}
		}(calls[i], rs[i])
	}
	go func() {
		wg.Wait()
		close(done)
	}()
	res, dump, retracted = waitConfirmed(done)
	if res != mon.Finished {
		return nil, res, dump, retracted
	}
	return rs, res, nil, retracted
}

// waitConfirmed waits for done with the quiescence monitor.
// A Stuck verdict must survive 6 examinations in a row. Two things make a single
// verdict unreliable: (1) a goroutine that waits for a runtime-internal semaphore
// (GC start, stop-the-world -- also the one taken by the monitor's own goroutine
// dump) shows the state "semacquire" although hidden runtime goroutines will wake
// it: such dumps are not counted; (2) plain bad luck under heavy load.
func waitConfirmed(done <-chan struct{}) (res mon.WaitResult, dump []mon.G, retracted int) {
	const watchdog = 120 * time.Second
	confirmed := 0
	for try := 0; try < 80; try++ {
		res, dump = mon.WaitDone(done, watchdog)
		if res != mon.Stuck {
			break
		}
		if runtimeSemWait(dump) {
			retracted++
			continue
		}
		if confirmed++; confirmed >= 6 {
			break
		}
		time.Sleep(5 * time.Millisecond)
	}
	if res == mon.Stuck && confirmed < 6 {
		res = mon.Inconclusive
	}
	if res == mon.Finished {
		retracted += confirmed
	}
	return res, dump, retracted
}

// execute performs one run.
func execute(ag *react.Agent, rc runCall) (*execResult, string, mon.WaitResult, []mon.G, int) {
	rs, res, dump, retracted := executeGroup(ag, []runCall{rc})
	if rs == nil {
		return nil, modeNames[rc.mode], res, dump, retracted
	}
	return rs[0], modeNames[rc.mode], res, dump, retracted
}

// runtimeSemWait: some goroutine is parked on a semaphore of the runtime itself (no
// sync.* frame between it and the semaphore): the process is not quiescent.
func runtimeSemWait(gs []mon.G) bool {
	for i, g := range gs {
		if i > 0 && strings.HasPrefix(g.State, "semacquire") && !g.Has("sync.") {
			return true
		}
	}
	return false
}

var hangsSeen int // confirmed hangs in this process

func TestCheck(t *testing.T) {
	cfg := mon.Load("C18")
	rep := mon.NewReporter(cfg,
		"exploration",
		"each case = one PRNG model script (1-8 assistant messages, 0-3 tool calls each, possibly cyclic = never stopping), a tool set "+
			"(invokable/streamable/both, failing and hallucinated calls), a return-directly subset, MaxStep in {0,1..12}, optional MessageModifier, "+
			"original messages; it is run on TWO agents (default first-chunk checker with contract-conforming chunkings; custom full-scan "+
			"StreamToolCallChecker with arbitrary chunkings; ChatModel or ToolCallingChatModel wiring), each agent 2-3 times sequentially "+
			"(Generate and Stream). Every run is compared with a plain ReAct loop simulator (inputs of every model call, tool invocations per round, "+
			"result, step-limit error) and Generate with concat(Stream). Seven workloads by case index: classic (40 %); embed (4 %: the agent's exported graph, or a Lambda calling the agent, inside 1-2 levels of "+
			"Chain / Graph / Workflow, the outer runnable called with Invoke / Stream / Collect / Transform and the option of react.WithMessageFuture given to the OUTER call, two outer runs overlapping under forced gate orders: "+
			"the run = the reference, the future = the messages of the agent's run); rd (12 %: marked calls without / with "+
			"duplicate ids at every position of 1-5 calls, multi-chunk marked tools); ctx (8 %: custom checkers that read their context, constructor context "+
			"with own values / cancelled); overlap (16 %: 2-4 runs of ONE agent with own inputs and scripts overlapping in time under a PRNG gate order forced "+
			"inside the model and the tools, each run judged on its own); future (12 %: runs with react.WithMessageFuture; tools / model / modifier built on graphs, chains, workflows, "+
			"other agents run with the inherited context; the future read fully / partly / not at all, output closed early; answer = reference, messages of the future = "+
			"assistant and tool messages of the run, process quiescent afterwards); resume (8 %: the exported graph of the ReAct agent / of the host multi-agent nested in a parent "+
			"graph with a byte-only checkpoint store, interrupted before / after its nodes or by tools / models asking for InterruptAndRerun, resumed with Invoke and Stream in "+
			"every combination; every interrupt extractable, model inputs and answer = reference). Non-trivial: the reference executes at least one tool round and both agents "+
			"completed a Generate and a Stream run (overlap: at least two runs with a tool round, all runs completed); distinct = distinct case specs.",
		[]string{
			"schema.ConcatMessages is trusted to rebuild the observed result stream (property C14 checks it); expected values never pass through it",
			"sequential workloads: runs on one agent are sequential; overlap workload: calls are attributed to their run through the context eino hands to the model and the tools",
			"the step-limit error is recognised by errors.Is(err, compose.ErrExceedMaxSteps) or, because of defect D-C13 (internalError has no Unwrap), by its message",
			"schedules of the parallel tool calls and of the streaming goroutines vary between executions, and so does everything between two gates of the overlap workload; the verdict does not depend on them",
		},
		200)
	defer func() {
		if err := rep.Flush(); err != nil {
			t.Fatalf("flush: %v", err)
		}
	}()
	rep.Require("model_inputs_compared", 200)
	rep.Require("runs_stream", 100)
	rep.Require("runs_generate", 100)
	rep.Require("outcome_return-directly", 10)
	rep.Require("outcome_step-limit", 10)
	rep.Require("outcome_final", 10)
	rep.Require("steplimit_errors_recognised", 10)
	rep.Require("checker_calls_judged", 50)
	rep.Require("rd_marked_call_without_id_answered", 5)
	rep.Require("rd_marked_call_with_duplicate_id_answered", 5)
	rep.Require("overlap_groups_judged", 10)
	rep.Require("overlap_gate_switches", 50)

	rep.Require("future_runs_with_option", 50)
	rep.Require("future_messages_compared", 100)
	rep.Require("future_leak_checks_settled", 50)
	rep.Require("future_runs_output_closed_early", 10)
	rep.Require("resume_histories_with_interrupt", 20)
	rep.Require("resume_interrupts_extracted", 50)
	rep.Require("resume_histories_host", 5)
	rep.Require("embed_runs_with_future", 30)
	rep.Require("embed_messages_compared", 50)
	rep.Require("embed_overlap_groups_judged", 5)

	n := int64(cfg.Pick(1500, 10000)) // cases per shard
	rep.Cases(n, func(idx int64, rng *mon.Rand) {
		if hangsSeen >= 8 {
			// every hang leaves goroutines behind and costs several quiescence proofs; the
			// violation is recorded, the rest of this shard would only repeat it slowly
			rep.Count("cases_skipped_after_8_hangs", 1)
			return
		}
		t0 := time.Now()
		kind := "classic"
		defer func() { rep.Count("wall_ms_"+kind, time.Since(t0).Milliseconds()) }() // evidence only
		var c *caseSpec
		switch k := idx % 25; {
		case k < 10:
			c = generate(rng)
		case k < 11:
			c = generateEmbed(rng)
		case k < 14:
			c = generateRD(rng)
		case k < 16:
			c = generateCtx(rng)
		case k < 20:
			c = generateOverlap(rng)
		case k < 23:
			c = generateFuture(rng)
		default:
			c = generateResume(rng)
		}
		if idx < 2 || (idx >= 11 && idx <= 24 && idx%2 == 1) {
			rep.Sample(c)
		}
		if c.Kind != "" {
			kind = c.Kind
		}
		rep.Count("cases_"+kind, 1)
		if c.MaxStep == 0 {
			rep.Count("cases_default_max_step", 1)
		}
		if c.Modifier != 0 {
			rep.Count("cases_with_modifier", 1)
		}
		if c.Kind == "overlap" {
			if runOverlap(rep, c) {
				rep.NonTrivial(c.digest())
			}
			return
		}
		if c.Kind == "future" {
			if runFuture(rep, c) {
				rep.NonTrivial(c.digest())
			}
			return
		}
		if c.Kind == "embed" {
			if runEmbed(rep, c) {
				rep.NonTrivial(c.digest())
			}
			return
		}
		if c.Kind == "resume" {
			if runResume(rep, c) {
				rep.NonTrivial(c.digest())
			}
			return
		}
		sim := simulate(c, false)
		rep.Count("outcome_"+sim.Outcome, 1)
		rep.Count("expected_model_calls", int64(len(sim.Inputs)))
		if !c.hasTerminalStep() {
			rep.Count("cases_never_stopping_script", 1)
		}
		complete := true
		for ai := range c.Agents {
			a := &c.Agents[ai]
			if !runAgent(rep, c, a, sim) {
				complete = false
			}
		}
		if complete && len(sim.Rounds) >= 1 {
			rep.NonTrivial(c.digest())
		}
		rep.Distinct("shape", fmt.Sprintf("%s/steps%d/limit%d/mod%d/rd%v", sim.Outcome, sim.Steps, sim.Limit, c.Modifier, len(c.ReturnDirectly) > 0))
	})
}

// reportHang records a run (or group of runs) that can never finish.
func reportHang(rep *mon.Reporter, sig string, dump []mon.G, w witness) {
	txt := ""
	for _, g := range mon.Parked(dump, "github.com/cloudwego/eino/", "verifharness/checks/c18") {
		txt += g.Raw + "\n\n"
	}
	txt += fmt.Sprintf("(%d goroutines in the dump; the Stuck verdict was confirmed by 6 examinations in a row)", len(dump))
	hangsSeen++
	rep.Violation(sig, "process quiescent while the run is unfinished\n"+txt, w)
}

// reportRun judges one finished run against the reference of ITS case (c, sim) and records
// violations (signature + suffix) and evidence. It returns the number of findings.
func reportRun(rep *mon.Reporter, c *caseSpec, a *agentSpec, sim simOut, rr *runRec, er *execResult, token, suffix, runName string, w witness) int {
	out := er.out
	rr.mu.Lock() // the run is over; late stragglers (none expected) would still be serialised
	defer rr.mu.Unlock()
	fs := judge(sim, rr, out)
	if len(fs) > 0 && sim.IdlessDirect {
		// root-cause probe: does the run behave exactly like a loop that does not honour a
		// return-directly call without tool-call id? Then report that one thing, once.
		if alt := simulate(c, true); len(judge(alt, rr, out)) == 0 {
			fs = []finding{{Sig: "C18/return-directly/not-honoured-for-tool-call-without-id",
				Detail: fmt.Sprintf("the first return-directly tool call of an assistant message has an empty ToolCall.ID; expected outcome %s %s after %d model call(s); "+
					"observed %d model call(s), err=%v, result=%s (= behaviour of a loop that ignores the return-directly mark)",
					sim.Outcome, js(sim.Final), len(sim.Inputs), len(rr.calls), out.Err, js(out.Final))}}
			suffix = ""
		}
	}
	if len(fs) == 1 && sim.DupDirect && fs[0].Sig == "C18/result/"+out.Mode+"/return-directly/differs" {
		// everything up to the marked round agrees and a message is returned, but not the marked
		// call's own result, and that call shares its id with another call of the same message
		fs[0].Sig = "C18/return-directly/" + out.Mode + "/wrong-result-when-another-call-has-the-same-id"
		suffix = ""
	}
	extra := 0 // findings that are reported with a signature of their own (no suffix)
	for _, mc := range rr.calls {
		if mc.Changed != nil {
			extra++
			rep.Violation("C18/overlap/"+out.Mode+"/model-input-changed-during-model-call",
				fmt.Sprintf("agent %s/%s, run %s\nthe messages handed to a model call were overwritten while the call was in progress\nat entry: %s\nlater:    %s", a.Checker, a.Wiring, runName, js(mc.Input), js(mc.Changed)), w)
			break
		}
	}
	if a.Checker != "first-chunk" {
		cf := judgeChecker(out.Mode, token, rr.checker)
		if impl := checkerImplOf(c); len(cf) > 0 && (impl == "cancel-aware" || impl == "env-required") {
			fs = nil // this checker gives up in a foreign context: how the run ends then is a consequence
		}
		for _, f := range cf {
			f.Sig += strings.TrimSuffix(suffix, "@rerun") // a wrong context has nothing to do with earlier runs
			rep.Violation(f.Sig, fmt.Sprintf("agent %s/%s (checker implementation %q, constructor context %q), run %s\n%s", a.Checker, a.Wiring, checkerImplOf(c), ctorKindOf(c), runName, f.Detail), w)
		}
		rep.Count("checker_calls_judged", int64(len(rr.checker)))
		rep.Count("checker_calls_with_findings", int64(len(cf)))
		rep.Count("checker_impl_"+checkerImplOf(c), int64(len(rr.checker)))
		if len(rr.checker) != len(rr.calls) {
			rep.Count("checker_calls_not_one_per_model_call", 1)
			if c.Kind == "overlap" {
				// calls are attributed through the checker's context here: the output of every model call
				// of this run is examined once, so a difference means the context of ANOTHER run was used
				extra++
				rep.Violation("C18/checker-context/"+out.Mode+"/context-of-another-run", fmt.Sprintf("agent %s/%s, run %s: the run made %d model call(s), but %d call(s) of the StreamToolCallChecker carried its context",
					a.Checker, a.Wiring, runName, len(rr.calls), len(rr.checker)), w)
			}
		}
		extra += len(cf)
	}
	for _, f := range fs {
		rep.Violation(f.Sig+suffix, fmt.Sprintf("agent %s/%s, run %s\n%s", a.Checker, a.Wiring, runName, f.Detail), w)
	}
	if c.Modifier != 0 {
		mf := judgeChecker(out.Mode, token, rr.modifier)
		for _, f := range mf {
			sig := strings.Replace(f.Sig, "C18/checker-context/", "C18/modifier-context/", 1) + strings.TrimSuffix(suffix, "@rerun")
			rep.Violation(sig, fmt.Sprintf("agent %s/%s (constructor context %q), run %s\n%s", a.Checker, a.Wiring, ctorKindOf(c), runName, strings.ReplaceAll(f.Detail, "StreamToolCallChecker", "MessageModifier")), w)
		}
		extra += len(mf)
		rep.Count("modifier_calls_judged", int64(len(rr.modifier)))
	}
	nf := len(fs) + extra

	// evidence
	rep.Count("runs_"+out.Mode, 1)
	rep.Count("model_calls_observed", int64(len(rr.calls)))
	nc := len(rr.calls)
	if len(sim.Inputs) < nc {
		nc = len(sim.Inputs)
	}
	rep.Count("model_inputs_compared", int64(nc))
	for _, mc := range rr.calls {
		rep.Count("model_"+mc.Mode+"_calls_in_"+out.Mode+"_run", 1)
		if !mc.Bound {
			rep.Count("model_calls_on_unbound_instance", 1)
		}
	}
	rep.Count("tool_invocations_observed", int64(len(rr.tools)))
	for _, ti := range rr.tools {
		rep.Count("tool_via_"+ti.Via, 1)
	}
	rep.Count("tool_rounds_compared", int64(len(sim.Rounds)))
	if out.Mode == "stream" && out.Err == nil {
		rep.Count("result_stream_chunks", int64(out.Chunks))
	}
	if sim.Outcome == outDirect && nf == 0 {
		if sim.IdlessDirect {
			rep.Count("rd_marked_call_without_id_answered", 1)
		}
		if sim.DupDirect {
			rep.Count("rd_marked_call_with_duplicate_id_answered", 1)
		}
		if c.Kind == "rd" {
			rep.Count("rd_answers_in_"+out.Mode, 1)
		}
	}
	if out.Err != nil {
		rep.Count("run_errors_at_"+out.ErrWhere, 1)
		if is, msgOnly := isStepLimit(out.Err); is {
			rep.Count("steplimit_errors_recognised", 1)
			if msgOnly {
				rep.Count("steplimit_errors_message_only_errors_Is_false", 1)
			} else {
				rep.Count("steplimit_errors_errors_Is_true", 1)
			}
		}
	}
	if !er.intact {
		rep.Count("caller_input_modified", 1)
	}
	return nf
}

// runAgent builds one agent and performs its sequential runs. It returns false if
// a run could not be judged (hang, build error).
func runAgent(rep *mon.Reporter, c *caseSpec, a *agentSpec, sim simOut) bool {
	rec := &recorder{}
	rec.set(&runRec{})
	ag, err, p := buildAgent(c, a, rec)
	w := func(run string) witness { return witness{Agent: a.Checker + "/" + a.Wiring, Run: run, Case: c} }
	if p != nil {
		rep.Violation("C18/panic/new-agent/"+p.FirstFrame("github.com/cloudwego/eino/"), p.Value+"\n"+p.Stack, w("NewAgent"))
		return false
	}
	if err != nil {
		rep.Violation("C18/new-agent/error", err.Error(), w("NewAgent"))
		return false
	}
	// tools handed to the model (flow/agent/utils.go): evidence only
	if len(rec.boundInfos) == 1 && len(rec.boundInfos[0]) == len(c.Tools) {
		rep.Count("tool_infos_bound_once_in_order", 1)
	} else {
		rep.Count("tool_infos_bound_unexpectedly", 1)
	}
	rep.Count("agents_"+a.Checker, 1)
	rep.Count("agents_wiring_"+a.Wiring, 1)

	clean := true // all earlier runs on this agent agreed with the reference
	var firstG, firstS *runOut
	for ri, mode := range a.Runs {
		rep.AddEvaluations(1)
		rr := &runRec{}
		rec.set(rr)
		env := &runEnv{Token: fmt.Sprintf("%s#%d", a.Checker, ri+1), rr: rr, early: a.ScanEarly != (ri%2 == 1)}
		kind := "plain"
		if ri < len(a.RunCtx) {
			kind = a.RunCtx[ri]
		}
		ctx, cancel := runContext(kind, env)
		er, modeName, res, dump, retracted := execute(ag, runCall{mode: mode, ctx: ctx, input: buildInput(c)})
		rep.Count("stuck_verdicts_retracted_on_recheck", int64(retracted))
		runName := fmt.Sprintf("#%d %s", ri+1, modeName)
		suffix := ""
		if ri > 0 && clean {
			suffix = "@rerun" // the same agent got it right before: state carried over between runs
		}
		switch res {
		case mon.Stuck:
			reportHang(rep, "C18/hang/"+modeName+suffix, dump, w(runName))
			return false
		case mon.Inconclusive:
			rep.Inconclusive("watchdog fired while goroutines were still active in " + runName)
			return false
		}
		cancel() // the run is over
		if er.p != nil {
			rep.Violation("C18/panic/"+modeName+"/"+er.p.FirstFrame("github.com/cloudwego/eino/")+suffix, er.p.Value+"\n"+er.p.Stack, w(runName))
			clean = false
			continue
		}
		if reportRun(rep, c, a, sim, rr, er, env.Token, suffix, runName, w(runName)) > 0 {
			clean = false
		}
		o := er.out
		if mode == "G" && firstG == nil {
			firstG = &o
		}
		if mode == "S" && firstS == nil {
			firstS = &o
		}
	}

	// Generate and Stream give the same answer (direct comparison, independent of the reference).
	// Which error a failing run reports is not compared: with a tool that fails in the middle of
	// its output stream Generate fails in the tools node while Stream may hit the step limit first.
	if firstG != nil && firstS != nil {
		rep.Count("generate_vs_stream_compared", 1)
		ge, se := firstG.Err != nil, firstS.Err != nil
		switch {
		case ge != se:
			rep.Violation("C18/generate-vs-stream/error-vs-result", fmt.Sprintf("agent %s/%s: Generate err=%v result=%s; Stream err=%v (%s) result=%s",
				a.Checker, a.Wiring, firstG.Err, js(firstG.Final), firstS.Err, firstS.ErrWhere, js(firstS.Final)), w("G vs S"))
		case !ge && !firstG.Final.equal(firstS.Final) && sim.Outcome == outDirect && sim.DupDirect:
			rep.Violation("C18/return-directly/generate-vs-stream/differ-when-another-call-has-the-same-id", fmt.Sprintf("agent %s/%s: Generate %s\nconcat(Stream) %s\nexpected %s",
				a.Checker, a.Wiring, js(firstG.Final), js(firstS.Final), js(sim.Final)), w("G vs S"))
		case !ge && !firstG.Final.equal(firstS.Final):
			rep.Violation("C18/generate-vs-stream/result-differs", fmt.Sprintf("agent %s/%s: Generate %s\nconcat(Stream) %s",
				a.Checker, a.Wiring, js(firstG.Final), js(firstS.Final)), w("G vs S"))
		}
	}
	return firstG != nil && firstS != nil
}

// runOverlap builds ONE agent and performs the runs of the group at the same time under the
// gate order of the case (after, for some cases, a control phase in which the same runs are
// made one after the other). Every run is judged on its own. It returns true if the
// case was non-trivial (all runs judged, two of them with a tool round, gates of different
// runs really alternated).
func runOverlap(rep *mon.Reporter, c *caseSpec) bool {
	o, a := c.Overlap, &c.Agents[0]
	rec := &recorder{byCtx: true, orphan: &runRec{}}
	ag, err, p := buildAgent(c, a, rec)
	w := func(run string) witness { return witness{Agent: a.Checker + "/" + a.Wiring, Run: run, Case: c} }
	if p != nil {
		rep.Violation("C18/panic/new-agent/"+p.FirstFrame("github.com/cloudwego/eino/"), p.Value+"\n"+p.Stack, w("NewAgent"))
		return false
	}
	if err != nil {
		rep.Violation("C18/new-agent/error", err.Error(), w("NewAgent"))
		return false
	}
	n := len(o.Runs)
	cases := make([]*caseSpec, n)
	sims := make([]simOut, n)
	withRound := 0
	for i := range o.Runs {
		cases[i] = c.runCase(i)
		sims[i] = simulate(cases[i], false)
		rep.Count("outcome_"+sims[i].Outcome, 1)
		if len(sims[i].Rounds) > 0 {
			withRound++
		}
	}
	name := func(i int, phase string) string {
		return fmt.Sprintf("%s run %c %s", phase, 'A'+i, modeNames[o.Runs[i].Mode])
	}

	// ---- control: the same runs one after the other
	if o.Control {
		for i, run := range o.Runs {
			rep.AddEvaluations(1)
			env := &runEnv{Token: fmt.Sprintf("control-%c", 'A'+i), Idx: i, c: cases[i], rr: &runRec{}, early: i%2 == 1}
			ctx, cancel := runContext(run.RunCtx, env)
			er, modeName, res, dump, retracted := execute(ag, runCall{mode: run.Mode, ctx: ctx, input: buildInput(cases[i])})
			rep.Count("stuck_verdicts_retracted_on_recheck", int64(retracted))
			switch res {
			case mon.Stuck:
				reportHang(rep, "C18/hang/"+modeName, dump, w(name(i, "control")))
				return false
			case mon.Inconclusive:
				rep.Inconclusive("watchdog fired while goroutines were still active in " + name(i, "control"))
				return false
			}
			cancel()
			if drainOrphan(rep, rec, c, a, w(name(i, "control"))) {
				return false // the sequential workloads report it as well
			}
			if er.p != nil {
				rep.Violation("C18/panic/"+modeName+"/"+er.p.FirstFrame("github.com/cloudwego/eino/"), er.p.Value+"\n"+er.p.Stack, w(name(i, "control")))
				return false
			}
			if reportRun(rep, cases[i], a, sims[i], env.rr, er, env.Token, "", name(i, "control"), w(name(i, "control"))) > 0 {
				return false // not a matter of overlapping: the sequential workloads report it
			}
			rep.Count("overlap_control_runs_judged", 1)
		}
	}

	// ---- the overlapping runs
	sc := newSched(o.Order, n)
	envs := make([]*runEnv, n)
	calls := make([]runCall, n)
	cancels := make([]func(), n)
	for i, run := range o.Runs {
		i := i
		envs[i] = &runEnv{Token: fmt.Sprintf("run-%c", 'A'+i), Idx: i, c: cases[i], rr: &runRec{}, sched: sc, early: i%2 == 0}
		ctx, cancel := runContext(run.RunCtx, envs[i])
		cancels[i] = cancel
		calls[i] = runCall{mode: run.Mode, ctx: ctx, input: buildInput(cases[i]),
			before: func() { sc.pass(i, evStart, 0) },
			after:  func() { sc.finish(i) }}
	}
	rep.AddEvaluations(int64(n))
	rs, res, dump, retracted := executeGroup(ag, calls)
	rep.Count("stuck_verdicts_retracted_on_recheck", int64(retracted))
	switch res {
	case mon.Stuck:
		reportHang(rep, "C18/hang/overlap", dump, w("overlapping runs"))
		return false
	case mon.Inconclusive:
		rep.Inconclusive("watchdog fired while goroutines were still active in a group of overlapping runs")
		return false
	}
	for _, cancel := range cancels {
		cancel()
	}
	// calls that reached the model, a tool or the checker without the context of their run
	foreign := drainOrphan(rep, rec, c, a, w("overlapping runs"))
	judged := 0
	for i := range o.Runs {
		if foreign {
			break // what the runs did without their context is a consequence
		}
		if rs[i].p != nil {
			rep.Violation("C18/panic/"+rs[i].out.Mode+"/"+rs[i].p.FirstFrame("github.com/cloudwego/eino/")+"@overlap", rs[i].p.Value+"\n"+rs[i].p.Stack, w(name(i, "overlapping")))
			continue
		}
		reportRun(rep, cases[i], a, sims[i], envs[i].rr, rs[i], envs[i].Token, "@overlap", name(i, "overlapping"), w(name(i, "overlapping")))
		judged++
		rep.Count("overlap_runs_judged", 1)
	}

	sc.mu.Lock()
	tr := append([]event(nil), sc.trace...)
	sc.mu.Unlock()
	sw := switches(tr)
	rep.Count("overlap_groups_judged", 1)
	rep.Count("overlap_groups_"+o.Pattern, 1)
	rep.Count(fmt.Sprintf("overlap_groups_of_%d_runs", n), 1)
	rep.Count("overlap_gates_passed", int64(len(tr)))
	rep.Count("overlap_gate_switches", int64(sw))
	rep.Distinct("interleaving", traceString(tr))
	return judged == n && withRound >= 2 && sw >= 1
}

// drainOrphan reports what reached the model, a tool or the checker of an agent whose runs
// are told apart by their context WITHOUT the context of any run, and forgets it. It
// returns true if there was such a call.
func drainOrphan(rep *mon.Reporter, rec *recorder, c *caseSpec, a *agentSpec, w witness) bool {
	or := rec.orphan
	or.mu.Lock()
	defer or.mu.Unlock()
	foreign := false
	if nm, nt := len(or.calls), len(or.tools); nm+nt > 0 {
		foreign = true
		rep.Violation("C18/overlap/run-context-not-handed-to-model-or-tool", fmt.Sprintf("%d model call(s) and %d tool invocation(s) got a context that does not carry the value put into the context of Generate/Stream", nm, nt), w)
	}
	for _, f := range judgeChecker("overlap", "", or.checker) {
		foreign = true
		rep.Violation(f.Sig, fmt.Sprintf("agent %s/%s (checker implementation %q, constructor context %q): the call cannot be attributed to any run\n%s", a.Checker, a.Wiring, checkerImplOf(c), ctorKindOf(c), f.Detail), w)
	}
	for _, f := range judgeChecker("overlap", "", or.modifier) {
		foreign = true
		rep.Violation(strings.Replace(f.Sig, "C18/checker-context/", "C18/modifier-context/", 1), fmt.Sprintf("agent %s/%s (constructor context %q): the call cannot be attributed to any run\n%s", a.Checker, a.Wiring, ctorKindOf(c), strings.ReplaceAll(f.Detail, "StreamToolCallChecker", "MessageModifier")), w)
	}
	rep.Count("checker_calls_judged", int64(len(or.checker)))
	or.calls, or.tools, or.checker, or.modifier = nil, nil, nil, nil
	return foreign
}
