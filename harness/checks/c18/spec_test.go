package c18

import (
	"encoding/json"
	"fmt"
	"sort"

	"verifharness/internal/mon"
)

// ---------------------------------------------------------------------------
// Case specification: a pure function of the case PRNG, JSON-able (witness).
// ---------------------------------------------------------------------------

// callSpec is one tool call of an assistant message of the script.
type callSpec struct {
	ID   string `json:"id"`
	Name string `json:"name"`
	Args string `json:"args"`
}

// fragSpec is the part of tool call TC (position in the message) carried by one chunk.
type fragSpec struct {
	TC   int    `json:"tc"`
	Head bool   `json:"head,omitempty"` // carries ID, type and function name (atomically)
	Args string `json:"args,omitempty"`
}

// chunkSpec is one streamed chunk of an assistant message.
type chunkSpec struct {
	Content string     `json:"content,omitempty"`
	Frags   []fragSpec `json:"frags,omitempty"`
	NoRole  bool       `json:"no_role,omitempty"` // chunk carries no Role (only later chunks)
}

func (c chunkSpec) empty() bool { return c.Content == "" && len(c.Frags) == 0 }

// stepSpec is one assistant message of the model script with its two chunkings.
type stepSpec struct {
	// NoIndex: the model does not number its tool calls (ToolCall.Index nil) and therefore
	// never splits one across chunks; chunks carry whole tool calls, in order.
	NoIndex bool        `json:"no_index,omitempty"`
	Content string      `json:"content,omitempty"`
	Calls   []callSpec  `json:"calls,omitempty"`
	ChunksA []chunkSpec `json:"chunks_a"` // first non-empty chunk carries a tool call (contract of the default checker)
	ChunksB []chunkSpec `json:"chunks_b"` // arbitrary
}

type msgSpec struct {
	Role       string     `json:"role"`
	Content    string     `json:"content,omitempty"`
	Name       string     `json:"name,omitempty"`
	ToolCallID string     `json:"tool_call_id,omitempty"`
	Calls      []callSpec `json:"calls,omitempty"`
}

const (
	toolInvokable  = 0
	toolStreamable = 1
	toolBoth       = 2
)

type toolSpec struct {
	Name string `json:"name"`
	Kind int    `json:"kind"`
}

const ghostTool = "ghost" // a tool name the model hallucinates: never in the tool set

// agentSpec: one of the two checker configurations built from the same script.
type agentSpec struct {
	Checker   string   `json:"checker"`    // "first-chunk" (default, nil in the config) | "full-scan" (custom)
	ScanEarly bool     `json:"scan_early"` // full-scan checker returns at the first tool-call chunk
	Wiring    string   `json:"wiring"`     // "tool-calling" | "chat-model"
	PipeModel bool     `json:"pipe_model"` // model streams through schema.Pipe from a goroutine, else FromArray
	Runs      []string `json:"runs"`       // sequential runs on this one agent: "G" (Generate) / "S" (Stream)
	// RunCtx: shape of the context of every run (ctx_test.go); empty = "plain"
	RunCtx []string `json:"run_ctx,omitempty"`
}

type caseSpec struct {
	Input          []msgSpec   `json:"input"`
	Script         []stepSpec  `json:"script"`
	Tools          []toolSpec  `json:"tools"`
	ReturnDirectly []string    `json:"return_directly,omitempty"`
	UnknownHandler bool        `json:"unknown_handler"`
	MaxStep        int         `json:"max_step"`
	Modifier       int         `json:"modifier"` // 0 = none
	Agents         []agentSpec `json:"agents"`
	Salt           uint64      `json:"salt"` // seeds tool-output chunkings

	// sub-workloads (rd_test.go, ctx_test.go, overlap_test.go); all empty for the classic workload
	Kind         string       `json:"kind,omitempty"`           // "" | "rd" | "ctx" | "overlap" | "future" | "resume" | "embed"
	ToolChunkMax int          `json:"tool_chunk_max,omitempty"` // >0: streamable tools emit 2..max chunks
	Ctx          *ctxSpec     `json:"ctx,omitempty"`            // constructor context + checker implementation
	Overlap      *overlapSpec `json:"overlap,omitempty"`        // runs of ONE agent that overlap in time
	Future       *futureSpec  `json:"future,omitempty"`         // runs with react.WithMessageFuture, tools / model built on graphs (future_test.go)
	Resume       *resumeSpec  `json:"resume,omitempty"`         // the exported agent graph nested, interrupted and resumed (resume_test.go)
	Embed        *embedSpec   `json:"embed,omitempty"`          // the agent inside a Chain / Graph / Workflow, the MessageFuture given to the outer call (embed_test.go)
}

func (c *caseSpec) digest() string {
	b, _ := json.Marshal(c)
	return string(b)
}

// terminates reports whether the script, replayed cyclically, contains a message without tool calls.
func (c *caseSpec) hasTerminalStep() bool {
	for _, s := range c.Script {
		if len(s.Calls) == 0 {
			return true
		}
	}
	return false
}

// stepFor returns the script step of the k-th model call (k = 1,2,...) and the lap
// number: a script whose last message still has tool calls is replayed cyclically
// (a model that never stops); ids of later laps get a suffix so that they stay distinct
// unless the script deliberately reuses ids.
func (c *caseSpec) stepFor(k int) (stepSpec, int) {
	l := len(c.Script)
	return c.Script[(k-1)%l], (k - 1) / l
}

func lapID(id string, lap int) string {
	if lap == 0 || id == "" {
		return id
	}
	return fmt.Sprintf("%s~%d", id, lap)
}

// ---------------------------------------------------------------------------
// Generator
// ---------------------------------------------------------------------------

var contentWords = []string{"ok", "let me check", "", "thinking…", "{\"a\":1}", "done", "x", "é✓", "the answer is 42", " "}
var argPool = []string{"", "{}", "{\"q\":\"a\"}", "{\"n\":12,\"m\":[1,2]}", "e", "plain", "{\"s\":\"é✓ü\"}", "[]", "{\"deep\":{\"k\":\"v\"}}"}

func genContent(r *mon.Rand) string {
	switch r.Intn(4) {
	case 0:
		return ""
	case 1:
		return mon.PickOne(r, contentWords)
	default:
		return mon.PickOne(r, contentWords) + " " + r.Str(0, 12)
	}
}

func genArgs(r *mon.Rand) string {
	if r.Prob(0.6) {
		return mon.PickOne(r, argPool)
	}
	return "{\"" + r.Str(1, 4) + "\":\"" + r.Str(0, 10) + "\"}"
}

func generate(r *mon.Rand) *caseSpec {
	c := &caseSpec{Salt: r.Uint64()}

	// ---- tools, unknown-tools handler, return-directly set
	callable, useGhost := genToolSet(r, c)

	// ---- original messages
	c.Input = genInput(r, callable, "")

	// ---- script: 1..8 assistant messages, 0..3 tool calls each
	c.Script = genScript(r, c, callable, useGhost, "", "")

	// ---- step limit: MaxStep in {1..12, 0}; biased towards the boundary of what the script needs
	c.MaxStep = genMaxStep(r, scriptNeed(c))

	c.Modifier = 0
	if r.Prob(0.5) {
		c.Modifier = r.Range(1, 4)
	}

	// ---- the two checker configurations
	c.Agents = genAgents(r, "first-chunk", "full-scan")
	return c
}

// genToolSet: 1-4 tools, the unknown-tools handler and the return-directly set of c.
func genToolSet(r *mon.Rand, c *caseSpec) (callable []string, useGhost bool) {
	// ---- tools
	nTools := r.Range(1, 4)
	for i := 0; i < nTools; i++ {
		c.Tools = append(c.Tools, toolSpec{Name: fmt.Sprintf("t%d", i), Kind: r.Intn(3)})
	}
	c.UnknownHandler = r.Prob(0.5)
	callable = make([]string, 0, nTools+1)
	for _, t := range c.Tools {
		callable = append(callable, t.Name)
	}
	useGhost = r.Prob(0.08)
	if r.Prob(0.55) {
		// return-directly subset (non-empty)
		for _, t := range c.Tools {
			if r.Prob(0.4) {
				c.ReturnDirectly = append(c.ReturnDirectly, t.Name)
			}
		}
		if useGhost && r.Prob(0.3) {
			c.ReturnDirectly = append(c.ReturnDirectly, ghostTool)
		}
		if len(c.ReturnDirectly) == 0 {
			c.ReturnDirectly = append(c.ReturnDirectly, mon.PickOne(r, callable))
		}
	}
	return callable, useGhost
}

// genScript: 1..8 assistant messages, 0..3 tool calls each, over the tool and return-directly
// set of c. contentTag / idTag mark the run the script belongs to (overlapping runs).
func genScript(r *mon.Rand, c *caseSpec, callable []string, useGhost bool, contentTag, idTag string) []stepSpec {
	var script []stepSpec
	n := r.Range(1, 8)
	neverStops := r.Prob(0.12)
	reuseIDs := r.Prob(0.1)
	emptyIDs := r.Prob(0.05) // models that do not number their tool calls
	failing := r.Prob(0.06)
	noIndex := r.Prob(0.15)
	rdBias := len(c.ReturnDirectly) > 0 && r.Prob(0.5) // otherwise scripts with several RD tools end at step 1 nearly always
	for i := 0; i < n; i++ {
		var s stepSpec
		s.NoIndex = noIndex
		s.Content = genContent(r)
		if s.Content != "" {
			s.Content = contentTag + s.Content
		}
		last := i == n-1
		nc := 0
		if !last || neverStops {
			nc = r.Range(1, 3)
		}
		for j := 0; j < nc; j++ {
			name := mon.PickOne(r, callable)
			if rdBias && r.Prob(0.8) {
				// prefer tools that are not return-directly so that longer loops are explored
				for try := 0; try < 4 && contains(c.ReturnDirectly, name); try++ {
					name = mon.PickOne(r, callable)
				}
			}
			if useGhost && r.Prob(0.2) {
				name = ghostTool
			}
			id := fmt.Sprintf("c%d_%d", i, j)
			if reuseIDs {
				id = fmt.Sprintf("c_%d", j)
			}
			id = idTag + id
			if emptyIDs {
				id = ""
			}
			args := genArgs(r)
			if failing && r.Prob(0.25) {
				args = mon.PickOne(r, []string{"!", "!!"}) + args
			}
			s.Calls = append(s.Calls, callSpec{ID: id, Name: name, Args: args})
		}
		s.ChunksA = genChunks(r, s, true)
		s.ChunksB = genChunks(r, s, false)
		script = append(script, s)
	}
	return script
}

// genInput: 0-4 original messages; tag marks the run they belong to (overlapping runs get
// different inputs so that a message of a foreign run is recognised).
func genInput(r *mon.Rand, callable []string, tag string) []msgSpec {
	var in []msgSpec
	nIn := r.Range(1, 4)
	if r.Prob(0.04) {
		nIn = 0
	}
	for i := 0; i < nIn; i++ {
		switch {
		case i == 0 && r.Prob(0.4):
			in = append(in, msgSpec{Role: "system", Content: tag + "sys " + r.Str(0, 8)})
		case r.Prob(0.12) && i+1 < nIn:
			// an earlier exchange of the conversation: assistant tool call + its tool result
			id := "old" + r.Str(2, 4)
			in = append(in, msgSpec{Role: "assistant", Content: tag + genContent(r), Calls: []callSpec{{ID: id, Name: mon.PickOne(r, callable), Args: genArgs(r)}}})
			in = append(in, msgSpec{Role: "tool", Content: tag + "old result " + r.Str(0, 6), ToolCallID: id})
			i++
		case r.Prob(0.15):
			in = append(in, msgSpec{Role: "assistant", Content: tag + "earlier " + r.Str(0, 8)})
		default:
			in = append(in, msgSpec{Role: "user", Content: tag + "q " + r.Str(0, 10), Name: mon.PickOne(r, []string{"", "", "", "bob"})})
		}
	}
	return in
}

func genMaxStep(r *mon.Rand, need int) int {
	switch x := r.Intn(100); {
	case x < 35:
		return r.Range(1, 12)
	case x < 65:
		return clamp(need+r.Range(-1, 1), 1, 12)
	case x < 80:
		return 0
	default:
		return clamp(need+r.Range(0, 4), 1, 12)
	}
}

var runOrders = [][]string{{"G", "S"}, {"S", "G"}, {"G", "S", "G"}, {"S", "G", "S"}, {"S", "S", "G"}, {"G", "G", "S"}}

func genAgents(r *mon.Rand, checkers ...string) []agentSpec {
	var out []agentSpec
	for _, ck := range checkers {
		a := agentSpec{Checker: ck, ScanEarly: r.Prob(0.3), PipeModel: r.Bool()}
		a.Wiring = mon.PickOne(r, []string{"tool-calling", "chat-model"})
		a.Runs = mon.PickOne(r, runOrders)
		out = append(out, a)
	}
	return out
}

// scriptNeed is a rough, generator-side estimate (2*tool rounds+1) used only to bias MaxStep;
// the oracle does its own simulation.
func scriptNeed(c *caseSpec) int { return scriptNeedOf(c, c.Script) }

func scriptNeedOf(c *caseSpec, script []stepSpec) int {
	rounds := 0
	for _, s := range script {
		if len(s.Calls) == 0 {
			break
		}
		rounds++
		rd := false
		for _, cl := range s.Calls {
			if contains(c.ReturnDirectly, cl.Name) {
				rd = true
			}
		}
		if rd {
			break
		}
	}
	return 2*rounds + 1
}

func clamp(v, lo, hi int) int {
	if v < lo {
		return lo
	}
	if v > hi {
		return hi
	}
	return v
}

func contains(xs []string, s string) bool {
	for _, x := range xs {
		if x == s {
			return true
		}
	}
	return false
}

// splitStr cuts s into k byte pieces (pieces may be empty, multi-byte runes may be cut).
func splitStr(r *mon.Rand, s string, k int) []string {
	if k <= 1 {
		return []string{s}
	}
	cuts := make([]int, k-1)
	for i := range cuts {
		cuts[i] = r.Intn(len(s) + 1)
	}
	// sort small slice
	for i := 1; i < len(cuts); i++ {
		for j := i; j > 0 && cuts[j] < cuts[j-1]; j-- {
			cuts[j], cuts[j-1] = cuts[j-1], cuts[j]
		}
	}
	out := make([]string, 0, k)
	prev := 0
	for _, c := range cuts {
		out = append(out, s[prev:c])
		prev = c
	}
	return append(out, s[prev:])
}

// atom: the unit the chunker shuffles: a content piece (tc = -1) or a tool-call fragment.
type atom struct {
	tc      int
	head    bool
	text    string
	content bool
}

// genChunks streams one assistant message in PRNG chunks. With toolFirst the first
// non-empty chunk carries a tool call (documented contract of the default
// first-chunk checker); otherwise the interleaving is arbitrary (content may precede
// the tool calls, as with models that "think aloud" first).
func genChunks(r *mon.Rand, s stepSpec, toolFirst bool) []chunkSpec {
	// per-stream queues (order inside a queue is preserved)
	var queues [][]atom
	if s.Content != "" {
		var q []atom
		for _, p := range splitStr(r, s.Content, r.Range(1, 3)) {
			if p != "" {
				q = append(q, atom{tc: -1, text: p, content: true})
			}
		}
		if len(q) > 0 {
			queues = append(queues, q)
		}
	}
	var tcQueues [][]atom
	if s.NoIndex && len(s.Calls) > 0 {
		// whole tool calls, one queue: their order is the order of the message
		var q []atom
		for j, cl := range s.Calls {
			q = append(q, atom{tc: j, head: true, text: cl.Args})
		}
		tcQueues = append(tcQueues, q)
	}
	for j, cl := range s.Calls {
		if s.NoIndex {
			break
		}
		parts := splitStr(r, cl.Args, r.Range(1, 3))
		var q []atom
		for i, p := range parts {
			if i == 0 {
				if r.Prob(0.3) {
					// head without arguments, arguments follow
					q = append(q, atom{tc: j, head: true})
					if p != "" {
						q = append(q, atom{tc: j, text: p})
					}
				} else {
					q = append(q, atom{tc: j, head: true, text: p})
				}
			} else if p != "" {
				q = append(q, atom{tc: j, text: p})
			}
		}
		tcQueues = append(tcQueues, q)
	}

	var order []atom
	if toolFirst && len(tcQueues) > 0 {
		j := r.Intn(len(tcQueues))
		order = append(order, tcQueues[j][0])
		tcQueues[j] = tcQueues[j][1:]
	}
	for _, q := range tcQueues {
		if len(q) > 0 {
			queues = append(queues, q)
		}
	}
	sequentialTCs := r.Prob(0.4) // most providers stream tool calls one after the other
	for len(queues) > 0 {
		i := r.Intn(len(queues))
		if sequentialTCs && r.Prob(0.8) {
			i = 0
		}
		order = append(order, queues[i][0])
		queues[i] = queues[i][1:]
		if len(queues[i]) == 0 {
			queues = append(queues[:i], queues[i+1:]...)
		}
	}

	// group atoms into chunks
	var chunks []chunkSpec
	cur := chunkSpec{}
	flush := func() {
		if !cur.empty() {
			// inside one chunk tool calls appear in index order (a chunk that is the whole
			// message IS the message: nothing re-sorts it)
			sort.SliceStable(cur.Frags, func(i, j int) bool { return cur.Frags[i].TC < cur.Frags[j].TC })
			chunks = append(chunks, cur)
		}
		cur = chunkSpec{}
	}
	hasTC := func(tc int) bool {
		for _, f := range cur.Frags {
			if f.TC == tc {
				return true
			}
		}
		return false
	}
	for i, a := range order {
		if a.content {
			cur.Content += a.text
		} else {
			if hasTC(a.tc) {
				flush()
			}
			cur.Frags = append(cur.Frags, fragSpec{TC: a.tc, Head: a.head, Args: a.text})
		}
		if i == len(order)-1 || r.Prob(0.6) {
			flush()
		}
	}
	flush()

	// empty chunks: at the front (skipped by the default checker), inside, at the end
	var out []chunkSpec
	for k := r.Intn(3) * r.Intn(2); k > 0; k-- {
		out = append(out, chunkSpec{})
	}
	for _, ch := range chunks {
		out = append(out, ch)
		if r.Prob(0.08) {
			out = append(out, chunkSpec{})
		}
	}
	if len(out) == 0 {
		out = append(out, chunkSpec{}) // message without content and calls: one empty chunk
	}
	// Role: on every chunk, or (like OpenAI deltas) on the first chunk only
	if r.Prob(0.3) {
		for i := 1; i < len(out); i++ {
			out[i].NoRole = true
		}
	}
	return out
}
