package c18

import (
	"errors"
	"fmt"
	"strings"

	"github.com/cloudwego/eino/compose"
	"github.com/cloudwego/eino/schema"
)

// ---------------------------------------------------------------------------
// Reference: the ReAct loop as the property states it, over the same script,
// the same tool function and the same modifier. It knows nothing about graphs,
// streams, branches or state handlers.
// ---------------------------------------------------------------------------

const (
	outFinal     = "final"           // first assistant message without tool calls
	outDirect    = "return-directly" // result of the first return-directly tool call of a message
	outStepLimit = "step-limit"
	outToolError = "tool-error" // a tool (or the lookup of an unknown tool) failed: the loop cannot continue
)

type simOut struct {
	Inputs  [][]nMsg   // expected input of every model call that is made
	Rounds  [][]string // expected tool invocations (sorted "name|callID|args") of every tool round that is made
	Outcome string
	Final   nMsg
	Steps   int // node executions (model call, tool round, return-directly hand-over) consumed
	Limit   int
	// IdlessDirect: some executed round's first return-directly call carried no tool-call id
	IdlessDirect bool
	// DupDirect: the return-directly call whose result is the answer shares its tool-call id
	// (possibly the empty one) with another call of the same assistant message
	DupDirect bool
}

// stepBudget: how MaxStep relates to the loop (derived from the code, see NOTES.md).
// The agent graph is a Pregel graph compiled WithMaxRunSteps(MaxStep); one
// super-step executes exactly one node of the loop: the model, the tools node, or
// the extra "direct_return" node. compose/graph_run.go:257-266 allows super-steps
// 0..max-1 and fails with ErrExceedMaxSteps before super-step number max. MaxStep 0
// means "number of nodes + 10" (compose/graph.go:825-826): 12, or 13 when a
// return-directly set is configured (the direct_return node is then a third node).
func stepBudget(c *caseSpec) int {
	if c.MaxStep > 0 {
		return c.MaxStep
	}
	if len(c.ReturnDirectly) > 0 {
		return 13
	}
	return 12
}

// simulate is the reference. With idlessQuirk it instead models the one deviation
// of eino that is reported as a finding of its own (return-directly is keyed on the
// tool-call id, so a first return-directly call WITHOUT id is not honoured): it is
// used only to give that root cause one narrow signature, never to excuse a run.
func simulate(c *caseSpec, idlessQuirk bool) simOut {
	out := simOut{Limit: stepBudget(c)}
	hist := buildInput(c)
	known := map[string]bool{}
	for _, t := range c.Tools {
		known[t.Name] = true
	}
	for k := 1; ; k++ {
		if out.Steps >= out.Limit {
			out.Outcome = outStepLimit
			return out
		}
		out.Steps++ // model call k
		view := append([]*schema.Message(nil), hist...)
		if c.Modifier != 0 {
			view = applyModifier(c.Modifier, view)
		}
		out.Inputs = append(out.Inputs, normAll(view))
		am := fullMessage(c, k)
		if len(am.ToolCalls) == 0 {
			out.Outcome, out.Final = outFinal, norm(am)
			return out
		}
		hist = append(hist, am)

		if out.Steps >= out.Limit {
			out.Outcome = outStepLimit
			return out
		}
		out.Steps++ // tool round k
		var invs []toolInv
		var results []*schema.Message
		lookupFails, toolFails := false, false
		direct := -1
		for j, tc := range am.ToolCalls {
			name, args := tc.Function.Name, tc.Function.Arguments
			if !known[name] && !c.UnknownHandler {
				lookupFails = true
			}
			invs = append(invs, toolInv{Name: name, Args: args, CallID: tc.ID})
			var res string
			if known[name] {
				r, ok := toolResult(name, args)
				if !ok {
					toolFails = true
				}
				res = r
			} else {
				res = unknownResult(name, args)
			}
			results = append(results, schema.ToolMessage(res, tc.ID))
			if direct < 0 && contains(c.ReturnDirectly, name) {
				direct = j
			}
		}
		if direct >= 0 && am.ToolCalls[direct].ID == "" {
			out.IdlessDirect = true
			if idlessQuirk {
				direct = -1
			}
		}
		if direct >= 0 {
			for j, tc := range am.ToolCalls {
				if j != direct && tc.ID == am.ToolCalls[direct].ID {
					out.DupDirect = true
				}
			}
		}
		if lookupFails {
			out.Rounds = append(out.Rounds, []string{}) // rejected before any tool runs
			out.Outcome = outToolError
			return out
		}
		out.Rounds = append(out.Rounds, sortedInv(invs))
		if toolFails {
			out.Outcome = outToolError
			return out
		}
		if direct >= 0 {
			if out.Steps >= out.Limit {
				out.Outcome = outStepLimit
				return out
			}
			out.Steps++ // hand-over of the tool result
			out.Outcome, out.Final = outDirect, norm(results[direct])
			return out
		}
		hist = append(hist, results...)
	}
}

// ---------------------------------------------------------------------------
// Judging one observed run against the reference
// ---------------------------------------------------------------------------

type runOut struct {
	Mode     string // "generate" | "stream"
	Err      error
	ErrWhere string // "call" | "recv"
	Final    nMsg
	HasFinal bool
	Chunks   int
}

type finding struct {
	Sig    string
	Detail string
}

// isStepLimit recognises the step-limit error: errors.Is, or (defect D-C13:
// compose's internalError has no Unwrap) the message of the sentinel.
func isStepLimit(err error) (is bool, msgOnly bool) {
	if err == nil {
		return false, false
	}
	if errors.Is(err, compose.ErrExceedMaxSteps) {
		return true, false
	}
	if strings.Contains(err.Error(), "exceeds max steps") {
		return true, true
	}
	return false, false
}

func classifyInput(exp, got []nMsg) (class string, pos int) {
	n := len(exp)
	if len(got) < n {
		n = len(got)
	}
	for p := 0; p < n; p++ {
		if !exp[p].equal(got[p]) {
			switch exp[p].Role {
			case "assistant":
				return "assistant-message-differs", p
			case "tool":
				return "tool-result-differs", p
			default:
				return "leading-message-differs", p
			}
		}
	}
	if len(got) < len(exp) {
		return "messages-missing", n
	}
	if len(got) > len(exp) {
		return "extra-messages", n
	}
	return "", -1
}

func judge(sim simOut, rr *runRec, out runOut) []finding { return judgeOpt(sim, rr, out, false) }

// judgeOpt: with roundsAsSets the tool invocations of a round are compared as sets (a tools node that is
// re-run after an interrupt one of its tools asked for runs all calls of its round again).
func judgeOpt(sim simOut, rr *runRec, out runOut, roundsAsSets bool) []finding {
	var fs []finding
	mode := out.Mode
	add := func(sig, format string, a ...any) {
		fs = append(fs, finding{Sig: "C18/" + sig, Detail: fmt.Sprintf(format, a...)})
	}

	// 1. every model call saw original (+modifier) ++ earlier assistant messages and tool results, in order
	n := len(sim.Inputs)
	if len(rr.calls) < n {
		n = len(rr.calls)
	}
	for i := 0; i < n; i++ {
		if class, p := classifyInput(sim.Inputs[i], rr.calls[i].Input); class != "" {
			add("model-input/"+mode+"/"+class, "model call %d: first difference at message %d\nexpected: %s\ngot:      %s", i+1, p, js(sim.Inputs[i]), js(rr.calls[i].Input))
			break
		}
	}
	if len(rr.calls) > len(sim.Inputs) {
		add("model-calls/"+mode+"/too-many", "expected %d model calls (outcome %s, budget %d), observed %d", len(sim.Inputs), sim.Outcome, sim.Limit, len(rr.calls))
	} else if len(rr.calls) < len(sim.Inputs) {
		add("model-calls/"+mode+"/too-few", "expected %d model calls (outcome %s, budget %d), observed %d", len(sim.Inputs), sim.Outcome, sim.Limit, len(rr.calls))
	}

	// 2. tool rounds: between model call r and r+1 exactly the calls of message r, each once, with its call id
	byRound := map[int][]toolInv{}
	maxRound := 0
	for _, t := range rr.tools {
		byRound[t.Round] = append(byRound[t.Round], t)
		if t.Round > maxRound {
			maxRound = t.Round
		}
	}
	for r := 1; r <= len(sim.Rounds) || r <= maxRound; r++ {
		var exp []string
		if r <= len(sim.Rounds) {
			exp = sim.Rounds[r-1]
		}
		got := sortedInv(byRound[r])
		if roundsAsSets {
			exp, got = uniqSorted(exp), uniqSorted(got)
		}
		if strings.Join(exp, "\n") != strings.Join(got, "\n") {
			add("tool-round/"+mode+"/invocations-differ", "tool round %d: expected %v, got %v", r, exp, got)
			break
		}
	}
	if len(byRound[0]) > 0 {
		add("tool-round/"+mode+"/before-first-model-call", "tools ran before the model: %v", sortedInv(byRound[0]))
	}

	// 3. outcome
	stepErr, _ := isStepLimit(out.Err)
	switch sim.Outcome {
	case outFinal, outDirect:
		what := "final-message"
		if sim.Outcome == outDirect {
			what = "return-directly"
		}
		switch {
		case out.Err != nil && stepErr:
			add("step-limit/"+mode+"/premature", "script needs %d steps, budget %d, but the run failed with the step-limit error: %v", sim.Steps, sim.Limit, out.Err)
		case out.Err != nil:
			add("result/"+mode+"/"+what+"/unexpected-error", "expected %s, got error (%s): %v", js(sim.Final), out.ErrWhere, out.Err)
		case !out.HasFinal:
			add("result/"+mode+"/"+what+"/no-message", "expected %s, got no message", js(sim.Final))
		case !sim.Final.equal(out.Final):
			add("result/"+mode+"/"+what+"/differs", "expected %s\ngot      %s", js(sim.Final), js(out.Final))
		}
	case outStepLimit:
		switch {
		case out.Err == nil:
			add("step-limit/"+mode+"/no-error", "budget %d exhausted by the script, but the run returned %s", sim.Limit, js(out.Final))
		case !stepErr:
			add("step-limit/"+mode+"/other-error", "budget %d exhausted by the script; the run failed, but not with the step-limit error: %v", sim.Limit, out.Err)
		}
	case outToolError:
		if out.Err == nil {
			add("tool-error/"+mode+"/swallowed", "a tool call of round %d cannot be answered, but the run returned %s", len(sim.Rounds), js(out.Final))
		}
	}
	return fs
}

func uniqSorted(xs []string) []string {
	var out []string
	for i, x := range xs {
		if i == 0 || x != xs[i-1] {
			out = append(out, x)
		}
	}
	return out
}
