package c18

import (
	"context"
	"fmt"
	"sync"

	"github.com/cloudwego/eino/components/model"
	"github.com/cloudwego/eino/compose"
	"github.com/cloudwego/eino/flow/agent"
	"github.com/cloudwego/eino/flow/agent/multiagent/host"
	"github.com/cloudwego/eino/schema"

	"verifharness/internal/mon"
)

// ---------------------------------------------------------------------------
// The host multi-agent in the "resume" workload.
//
// Reference (two steps, no graph): the host model sees its system prompt followed by the
// caller's messages; a host message without tool call is the answer (direct answer);
// otherwise the one tool call names a specialist, which sees (its own system prompt and) the
// caller's messages, and its message is the answer (hand-off). The script of the case has
// ONE step: the host's message.
// ---------------------------------------------------------------------------

type specSpec struct {
	Name   string `json:"name"`
	Kind   string `json:"kind"` // "model" | "invokable" | "streamable" | "both"
	Prompt string `json:"prompt,omitempty"`
	Chunks int    `json:"chunks"` // streamed answer in this many pieces
}

type hostSpec struct {
	Prompt string     `json:"prompt,omitempty"` // "" = the package's default prompt
	Specs  []specSpec `json:"specs"`
}

type specCall struct {
	Name  string
	Via   string // "generate" | "stream" | "invoke"
	Input []nMsg
}

type hostRec struct {
	mu        sync.Mutex
	hostCalls []modelCall
	specCalls []specCall
	bound     [][]string
}

func hostRecOf(ctx context.Context) *hostRec {
	if e := envOf(ctx); e != nil && e.res != nil {
		return e.res.host
	}
	return nil
}

// preemptHost: an attempt of the host model (key "m1") or of the chosen specialist (key "spec") may ask for an interrupt.
func preemptHost(ctx context.Context, key string) error {
	if e := envOf(ctx); e != nil && e.res != nil {
		return e.res.take(key)
	}
	return nil
}

type hostModel struct {
	c          *caseSpec
	firstChunk bool
	bound      bool
}

func (m *hostModel) record(ctx context.Context, mode string, in []*schema.Message) {
	if hr := hostRecOf(ctx); hr != nil {
		hr.mu.Lock()
		hr.hostCalls = append(hr.hostCalls, modelCall{Mode: mode, Input: normAll(in), Bound: m.bound})
		hr.mu.Unlock()
	}
}

func (m *hostModel) Generate(ctx context.Context, in []*schema.Message, _ ...model.Option) (*schema.Message, error) {
	if err := preemptHost(ctx, "m1"); err != nil {
		return nil, err
	}
	m.record(ctx, "generate", in)
	return fullMessage(m.c, 1), nil
}

func (m *hostModel) Stream(ctx context.Context, in []*schema.Message, _ ...model.Option) (*schema.StreamReader[*schema.Message], error) {
	if err := preemptHost(ctx, "m1"); err != nil {
		return nil, err
	}
	m.record(ctx, "stream", in)
	return schema.StreamReaderFromArray(chunkMessages(m.c, 1, m.firstChunk)), nil
}

type tcHost struct{ hostModel }

func (m *tcHost) WithTools(tools []*schema.ToolInfo) (model.ToolCallingChatModel, error) {
	n := *m
	n.bound = true
	return &n, nil
}

type cmHost struct{ hostModel }

func (m *cmHost) BindTools([]*schema.ToolInfo) error {
	m.bound = true
	return nil
}

func specAnswer(name string, in []*schema.Message) string {
	return fmt.Sprintf("specialist %s answers %s (%d messages)", name, mon.H8(js(normAll(in))), len(in))
}

func specChunks(s specSpec, in []*schema.Message, salt uint64) []*schema.Message {
	parts := splitStr(mon.Fork(salt, "spec", s.Name), specAnswer(s.Name, in), s.Chunks)
	out := make([]*schema.Message, len(parts))
	for i, p := range parts {
		out[i] = schema.AssistantMessage(p, nil)
	}
	return out
}

func noteSpec(ctx context.Context, name, via string, in []*schema.Message) {
	if hr := hostRecOf(ctx); hr != nil {
		hr.mu.Lock()
		hr.specCalls = append(hr.specCalls, specCall{Name: name, Via: via, Input: normAll(in)})
		hr.mu.Unlock()
	}
}

type specModel struct {
	s    specSpec
	salt uint64
}

func (m *specModel) Generate(ctx context.Context, in []*schema.Message, _ ...model.Option) (*schema.Message, error) {
	if err := preemptHost(ctx, "spec"); err != nil {
		return nil, err
	}
	noteSpec(ctx, m.s.Name, "generate", in)
	return schema.AssistantMessage(specAnswer(m.s.Name, in), nil), nil
}

func (m *specModel) Stream(ctx context.Context, in []*schema.Message, _ ...model.Option) (*schema.StreamReader[*schema.Message], error) {
	if err := preemptHost(ctx, "spec"); err != nil {
		return nil, err
	}
	noteSpec(ctx, m.s.Name, "stream", in)
	return schema.StreamReaderFromArray(specChunks(m.s, in, m.salt)), nil
}

func buildHost(c *caseSpec, rec *recorder) (*host.MultiAgent, error) {
	hs, a := c.Resume.Host, &c.Agents[0]
	hm := hostModel{c: c, firstChunk: a.Checker != "full-scan"}
	cfg := &host.MultiAgentConfig{Host: host.Host{SystemPrompt: hs.Prompt}}
	if a.Wiring == "tool-calling" {
		cfg.Host.ToolCallingModel = &tcHost{hm}
	} else {
		cfg.Host.ChatModel = &cmHost{hm}
	}
	if a.Checker != "first-chunk" {
		cfg.StreamToolCallChecker = customChecker(rec, a.Checker, "observer", a.ScanEarly)
	}
	for _, s := range hs.Specs {
		s := s
		sp := &host.Specialist{AgentMeta: host.AgentMeta{Name: s.Name, IntendedUse: "questions about " + s.Name}}
		inv := func(ctx context.Context, in []*schema.Message, _ ...agent.AgentOption) (*schema.Message, error) {
			if err := preemptHost(ctx, "spec"); err != nil {
				return nil, err
			}
			noteSpec(ctx, s.Name, "invoke", in)
			return schema.AssistantMessage(specAnswer(s.Name, in), nil), nil
		}
		str := func(ctx context.Context, in []*schema.Message, _ ...agent.AgentOption) (*schema.StreamReader[*schema.Message], error) {
			if err := preemptHost(ctx, "spec"); err != nil {
				return nil, err
			}
			noteSpec(ctx, s.Name, "stream", in)
			return schema.StreamReaderFromArray(specChunks(s, in, c.Salt)), nil
		}
		switch s.Kind {
		case "model":
			sp.ChatModel, sp.SystemPrompt = &specModel{s: s, salt: c.Salt}, s.Prompt
		case "invokable":
			sp.Invokable = inv
		case "streamable":
			sp.Streamable = str
		default:
			sp.Invokable, sp.Streamable = inv, str
		}
		cfg.Specialists = append(cfg.Specialists, sp)
	}
	ctorCtx, ctorDone := ctorContext(ctorKindOf(c))
	defer ctorDone()
	return host.NewMultiAgent(ctorCtx, cfg)
}

func generateResumeHost(r *mon.Rand) *caseSpec {
	c := &caseSpec{Kind: "resume", Salt: r.Uint64(), MaxStep: 0}
	hs := &hostSpec{}
	if r.Prob(0.6) {
		hs.Prompt = "you route: " + r.Str(0, 8)
	}
	var names []string
	for i, n := 0, r.Range(2, 4); i < n; i++ { // (a host with ONE specialist cannot be built: a branch needs two ends)
		s := specSpec{Name: fmt.Sprintf("sp%d", i), Kind: mon.PickOne(r, []string{"model", "model", "invokable", "streamable", "both"}), Chunks: r.Range(1, 3)}
		if s.Kind == "model" && r.Prob(0.5) {
			s.Prompt = "you are " + s.Name
		}
		hs.Specs = append(hs.Specs, s)
		names = append(names, s.Name)
	}
	c.Input = genInput(r, names, "")
	if len(c.Input) == 0 {
		c.Input = []msgSpec{{Role: "user", Content: "q"}}
	}
	// the host's message
	s := stepSpec{NoIndex: r.Prob(0.15), Content: genContent(r)}
	handOff := r.Prob(0.7)
	chosen := -1
	if handOff {
		chosen = r.Intn(len(hs.Specs))
		s.Calls = []callSpec{{ID: mon.PickOne(r, []string{"h1", "h1", ""}), Name: hs.Specs[chosen].Name, Args: mon.PickOne(r, []string{"{}", "{\"reason\":\"it fits\"}"})}}
	} else if s.Content == "" {
		s.Content = "the host answers itself"
	}
	s.ChunksA = genChunks(r, s, true)
	s.ChunksB = genChunks(r, s, false)
	c.Script = []stepSpec{s}
	c.Agents = genAgents(r, mon.PickOne(r, []string{"first-chunk", "full-scan", "first-chunk-custom"}))
	c.Agents[0].Runs = nil

	rs := &resumeSpec{Agent: "host", Host: hs}
	c.Resume = rs
	genHistoryShape(r, rs)
	nodes := []string{"host", "msg2MsgList"}
	nodes = append(nodes, names...)
	static, spec, hostInt := false, false, false
	switch x := r.Intn(100); {
	case x < 40:
		static = true
	case x < 60:
		spec = true
	case x < 75:
		hostInt = true
	default:
		static, spec, hostInt = r.Prob(0.7), r.Prob(0.6), r.Prob(0.5)
	}
	if !handOff && spec {
		spec, hostInt = false, true
	}
	if !static && !spec && !hostInt {
		static = true
	}
	if static {
		// biased to the nodes that run
		live := []string{"host"}
		if handOff {
			live = append(live, "msg2MsgList", names[chosen])
		}
		if r.Prob(0.8) {
			pickPoints(r, rs, live)
		} else {
			pickPoints(r, rs, nodes)
		}
	}
	if spec {
		rs.SpecInts = mon.PickOne(r, []int{1, 1, 2})
	}
	if hostInt {
		rs.ModelInts = []modelInt{{Call: 1, N: mon.PickOne(r, []int{1, 1, 2})}}
	}
	return c
}

// judgeHost compares the history's record with the two-step reference.
func judgeHost(c *caseSpec, hr *hostRec, out runOut) []finding {
	hs := c.Resume.Host
	var fs []finding
	add := func(sig, format string, a ...any) {
		fs = append(fs, finding{Sig: "C18/" + sig, Detail: fmt.Sprintf(format, a...)})
	}
	mode := out.Mode
	input := normAll(buildInput(c))
	hm := fullMessage(c, 1)
	hr.mu.Lock()
	defer hr.mu.Unlock()

	// the host model: called once, with its prompt and the caller's messages
	switch {
	case len(hr.hostCalls) == 0:
		add("model-calls/"+mode+"/too-few", "the host model was never called")
	case len(hr.hostCalls) > 1:
		add("model-calls/"+mode+"/too-many", "the host model completed %d calls, expected 1", len(hr.hostCalls))
	}
	if len(hr.hostCalls) > 0 {
		got := hr.hostCalls[0].Input
		ok := len(got) == len(input)+1 && got[0].Role == "system" && (hs.Prompt == "" || got[0].Content == hs.Prompt) && sameMsgs(got[1:], input)
		if !ok {
			add("model-input/"+mode+"/leading-message-differs", "host model: expected a system message (%q) followed by %s\ngot %s", hs.Prompt, js(input), js(got))
		}
	}
	var expFinal nMsg
	if len(hm.ToolCalls) == 0 {
		expFinal = norm(hm)
		if len(hr.specCalls) > 0 {
			add("model-calls/"+mode+"/too-many", "the host answered directly, but specialists were called: %s", js(hr.specCalls))
		}
	} else {
		var sp specSpec
		for _, s := range hs.Specs {
			if s.Name == hm.ToolCalls[0].Function.Name {
				sp = s
			}
		}
		specIn := buildInput(c)
		if sp.Kind == "model" && sp.Prompt != "" {
			specIn = append([]*schema.Message{schema.SystemMessage(sp.Prompt)}, specIn...)
		}
		expFinal = nMsg{Role: "assistant", Content: specAnswer(sp.Name, specIn)}
		switch {
		case len(hr.specCalls) == 0:
			add("model-calls/"+mode+"/too-few", "hand-off to %s, but no specialist completed a call", sp.Name)
		case len(hr.specCalls) > 1:
			add("model-calls/"+mode+"/too-many", "hand-off to %s: %d specialist calls completed, expected 1: %s", sp.Name, len(hr.specCalls), js(hr.specCalls))
		}
		if len(hr.specCalls) > 0 {
			sc := hr.specCalls[0]
			if sc.Name != sp.Name || !sameMsgs(sc.Input, normAll(specIn)) {
				add("model-input/"+mode+"/leading-message-differs", "specialist: expected %s to see %s\ngot %s seeing %s", sp.Name, js(normAll(specIn)), sc.Name, js(sc.Input))
			}
		}
	}
	switch {
	case out.Err != nil:
		add("result/"+mode+"/final-message/unexpected-error", "expected %s, got error (%s): %v", js(expFinal), out.ErrWhere, out.Err)
	case !out.HasFinal:
		add("result/"+mode+"/final-message/no-message", "expected %s, got no message", js(expFinal))
	case !expFinal.equal(out.Final):
		add("result/"+mode+"/final-message/differs", "expected %s\ngot      %s", js(expFinal), js(out.Final))
	}
	return fs
}

func runResumeHost(rep *mon.Reporter, c *caseSpec) bool {
	rs, a := c.Resume, &c.Agents[0]
	rec := &recorder{byCtx: true, orphan: &runRec{}}
	w := func(run string) witness {
		return witness{Agent: "host/" + a.Checker + "/" + a.Wiring, Run: run, Case: c}
	}
	var ma *host.MultiAgent
	var err error
	if p := mon.Safe(func() { ma, err = buildHost(c, rec) }); p != nil {
		rep.Violation("C18/panic/new-multi-agent/"+p.FirstFrame("github.com/cloudwego/eino/"), p.Value+"\n"+p.Stack, w("NewMultiAgent"))
		return false
	}
	if err != nil {
		rep.Violation("C18/new-multi-agent/error", err.Error(), w("NewMultiAgent"))
		return false
	}
	g, exported := ma.ExportGraph()
	base := []compose.GraphCompileOption{compose.WithNodeTriggerMode(compose.AnyPredecessor), compose.WithGraphName("host multi agent")}
	r, err := nest(g, exported, base, rs, true, newByteStore())
	if err != nil {
		rep.Violation("C18/resume/host/nesting-the-exported-graph-fails", err.Error(), w("Compile"))
		return false
	}
	env := &runEnv{Token: "history", rr: &runRec{}, early: a.ScanEarly, res: newResumeEnv(c, false)}
	rep.AddEvaluations(1)
	h := runHistory(r, c, env, maxHistoryCalls(rs, 4), "cp-"+mon.H8(c.digest()))
	rep.Count("stuck_verdicts_retracted_on_recheck", int64(h.retracted))
	switch h.res {
	case mon.Stuck:
		reportHang(rep, "C18/resume/host/hang", h.dump, w(fmt.Sprintf("call %d of the history", len(h.calls)+1)))
		return false
	case mon.Inconclusive:
		rep.Inconclusive("watchdog fired while goroutines were still active in an interrupt/resume history")
		return false
	}
	var fs []finding
	if h.p == nil && !h.neverEnds {
		fs = judgeHost(c, env.res.host, h.out)
	}
	control := func() []finding {
		rc, err := nest(g, exported, base, rs, false, newByteStore())
		if err != nil {
			return []finding{{Sig: "C18/resume/compile", Detail: err.Error()}}
		}
		cenv := &runEnv{Token: "control", rr: &runRec{}, early: a.ScanEarly, res: newResumeEnv(c, true)}
		rep.AddEvaluations(1)
		ch := runHistory(rc, c, cenv, 1, "cp-control")
		rep.Count("resume_control_runs", 1)
		if ch.res != mon.Finished {
			return []finding{{Sig: "C18/resume/hang", Detail: "the uninterrupted control run did not finish"}}
		}
		if ch.p != nil {
			return []finding{{Sig: "C18/result/panic", Detail: ch.p.Value + "\n" + ch.p.Stack}}
		}
		if ch.neverEnds {
			return []finding{{Sig: "C18/result/" + ch.out.Mode + "/unexpected-error", Detail: "the control run ended in an interrupt although none is configured: " + js(ch.calls)}}
		}
		return judgeHost(c, cenv.res.host, ch.out)
	}
	reportResume(rep, c, h, fs, control, w("history "+h.shape()))

	_, total := env.res.requests()
	rep.Count("resume_histories_judged", 1)
	rep.Count("resume_histories_host", 1)
	if len(fullMessage(c, 1).ToolCalls) > 0 {
		rep.Count("resume_host_hand_off", 1)
	} else {
		rep.Count("resume_host_direct_answer", 1)
	}
	rep.Count("resume_interrupts_extracted", int64(h.interrupts))
	rep.Count("resume_interrupt_requests_by_tools_and_models", int64(total))
	rep.Count("resume_calls", int64(len(h.calls)))
	rep.Count("resume_trigger_"+rs.trigger(), 1)
	rep.Count("resume_nest_"+rs.Nest, 1)
	env.res.host.mu.Lock()
	rep.Count("model_inputs_compared", int64(len(env.res.host.hostCalls)+len(env.res.host.specCalls)))
	env.res.host.mu.Unlock()
	for _, cl := range h.calls {
		rep.Count("resume_calls_"+cl.Para, 1)
	}
	if h.interrupts > 0 {
		rep.Count("resume_histories_with_interrupt", 1)
	}
	rep.Distinct("history_shape", rs.Agent+"/"+rs.trigger()+"/"+h.shape())
	return h.interrupts > 0 && len(fs) == 0 && h.p == nil && !h.neverEnds
}
