package c18

import (
	"context"
	"fmt"
	"io"
	"sort"
	"strings"
	"sync"
	"sync/atomic"

	"github.com/cloudwego/eino/components/model"
	"github.com/cloudwego/eino/components/tool"
	"github.com/cloudwego/eino/compose"
	"github.com/cloudwego/eino/flow/agent"
	"github.com/cloudwego/eino/flow/agent/multiagent/host"
	"github.com/cloudwego/eino/flow/agent/react"
	"github.com/cloudwego/eino/schema"

	"verifharness/internal/mon"
)

// ---------------------------------------------------------------------------
// Sub-workload "future": runs that are given the option of react.WithMessageFuture.
//
// The statement quantifies over every tool set and every scripted model: HOW a tool (or the
// model, the MessageModifier, the unknown-tools handler) computes its answer is invisible to
// the agent. Here tools are built on a compiled compose.Graph / a graph nested in a graph /
// a Chain / a Workflow / another ReAct agent (with or without a MessageFuture of its own) /
// a host multi-agent, each run with the context the tool was handed; the model may be a
// wrapper around a graph or chain that holds the real model. The MessageFuture is an
// observer: with or without it the run must be the reference's run; what the future hands
// out must be exactly the assistant and tool messages of the run (round by round; the tool
// results of one round in any order, the tools run in parallel); and once the caller has
// closed everything it can reach (output stream - early or at EOF -, every stream of the
// future) the process must be quiescent: no goroutine parked in an eino frame, every
// producer (models and tools write through UNBUFFERED pipes here) released.
// ---------------------------------------------------------------------------

type futRun struct {
	Mode   string `json:"mode"`   // "G" | "S"
	Future bool   `json:"future"` // the run is given the option
	// When the consumer of the future is started: "before" the call (GetMessages blocks until the run
	// has started) | "after" the call has returned (for Stream: before the output is read) | "closed":
	// after the output has been read / closed
	When string `json:"when,omitempty"`
	// Consume: "full" (every item, streams to EOF) | "partial" (Items items completely, Chunks chunks
	// of the next one, which is then closed; the iterator is abandoned) | "none" (the future is not
	// touched while the run is going on). Whatever has not been taken is taken afterwards and closed unread.
	Consume string `json:"consume,omitempty"`
	Items   int    `json:"items,omitempty"`
	Chunks  int    `json:"chunks,omitempty"`
	Stop    int    `json:"stop"` // stream: chunks of the output read before it is closed; -1 = to EOF
	RunCtx  string `json:"run_ctx"`
}

type futureSpec struct {
	// ToolImpl (per tool of the case): "plain" | "graph" | "graph2" (a graph nested in a graph) | "chain" |
	// "workflow" | "graph-model" / "chain-model" (a graph / chain that holds a chat model between two lambdas) | "agent" (another ReAct agent) | "agent-future" (... that is given a MessageFuture of its
	// own by the tool) | "host" (a host multi-agent with a lambda specialist)
	ToolImpl []string `json:"tool_impl"`
	ToolVia  []string `json:"tool_via"` // the tool calls its inner runnable with "invoke" | "stream"
	// ModelImpl: "plain" | "graph" | "chain": the agent's model is a wrapper that runs a compiled graph /
	// chain holding the scripted model, with the context it was handed
	ModelImpl   string     `json:"model_impl"`
	ModifierVia string     `json:"modifier_via,omitempty"` // "graph": the MessageModifier runs a compiled graph first
	HandlerImpl string     `json:"handler_impl,omitempty"` // "graph": the unknown-tools handler runs a compiled graph
	Unbuffered  bool       `json:"unbuffered"`             // models and tools stream through unbuffered pipes
	Runs        [][]futRun `json:"runs"`                   // per agent
}

var futToolImpls = []string{"plain", "graph", "graph", "graph2", "chain", "workflow", "graph-model", "chain-model", "agent", "agent", "agent-future", "host"}

// innerGraphKind: does anything of this case run a unit of component kind Graph below the agent's run?
func (f *futureSpec) innerGraph() bool {
	for _, x := range f.ToolImpl {
		if x == "graph" || x == "graph2" || x == "graph-model" || x == "agent" || x == "agent-future" || x == "host" {
			return true
		}
	}
	return f.ModelImpl == "graph" || f.ModifierVia == "graph" || f.HandlerImpl == "graph"
}

func generateFuture(r *mon.Rand) *caseSpec {
	c := &caseSpec{Kind: "future", Salt: r.Uint64()}
	callable, useGhost := genToolSet(r, c)
	if useGhost {
		c.UnknownHandler = true // no unanswerable calls here: how a failing run ends is not this workload's business
	}
	c.Input = genInput(r, callable, "")
	c.Script = genScript(r, c, callable, useGhost, "", "")
	for i := range c.Script {
		s := &c.Script[i]
		changed := false
		for j := range s.Calls {
			if a := strings.TrimLeft(s.Calls[j].Args, "!"); a != s.Calls[j].Args {
				s.Calls[j].Args, changed = a, true // no failing tools
			}
		}
		if changed {
			s.ChunksA = genChunks(r, *s, true)
			s.ChunksB = genChunks(r, *s, false)
		}
	}
	need := scriptNeed(c)
	switch x := r.Intn(100); {
	case x < 60:
		c.MaxStep = clamp(need+r.Range(0, 3), 1, 12)
	case x < 75:
		c.MaxStep = clamp(need+r.Range(-2, 0), 1, 12)
	case x < 90:
		c.MaxStep = 0
	default:
		c.MaxStep = r.Range(1, 12)
	}
	if r.Prob(0.4) {
		c.Modifier = r.Range(1, 4)
	}
	if r.Prob(0.5) {
		c.ToolChunkMax = r.Range(2, 5)
	}
	c.Agents = genAgents(r, "first-chunk", mon.PickOne(r, []string{"full-scan", "full-scan", "first-chunk-custom"}))

	f := &futureSpec{ModelImpl: mon.PickOne(r, []string{"plain", "plain", "plain", "graph", "graph", "chain"}), Unbuffered: r.Prob(0.6)}
	plainOnly := r.Prob(0.15) // nothing below the agent is a graph: the option alone
	if plainOnly {
		f.ModelImpl = "plain"
	}
	for range c.Tools {
		impl := mon.PickOne(r, futToolImpls)
		if plainOnly {
			impl = "plain"
		}
		f.ToolImpl = append(f.ToolImpl, impl)
		f.ToolVia = append(f.ToolVia, mon.PickOne(r, []string{"invoke", "stream"}))
	}
	if c.Modifier != 0 && !plainOnly && r.Prob(0.3) {
		f.ModifierVia = "graph"
	}
	if c.UnknownHandler && !plainOnly && r.Prob(0.4) {
		f.HandlerImpl = "graph"
	}
	for ai := range c.Agents {
		a := &c.Agents[ai]
		a.Runs = mon.PickOne(r, runOrders)
		var runs []futRun
		with := 0
		for i, m := range a.Runs {
			fr := futRun{Mode: m, Future: r.Prob(0.7), Stop: -1, RunCtx: mon.PickOne(r, runCtxKinds)}
			if i == len(a.Runs)-1 && with == 0 {
				fr.Future = true
			}
			if fr.Future {
				with++
			}
			if m == "S" && r.Prob(0.55) {
				fr.Stop = mon.PickOne(r, []int{0, 1, 1, 1, 2, 3})
			}
			fr.When = mon.PickOne(r, []string{"before", "before", "after", "closed"})
			fr.Consume = mon.PickOne(r, []string{"full", "full", "partial", "none"})
			if fr.Consume == "partial" {
				fr.Items, fr.Chunks = r.Intn(4), r.Intn(3)
			}
			runs = append(runs, fr)
			a.RunCtx = append(a.RunCtx, fr.RunCtx)
		}
		f.Runs = append(f.Runs, runs)
	}
	c.Future = f
	return c
}

// ---------------------------------------------------------------------------
// Per-run environment: producers, consumers of nested futures
// ---------------------------------------------------------------------------

type producer struct {
	label    string
	total    int
	sent     int
	finished bool // the goroutine has ended (everything sent, or the reading side was closed)
}

type innerConsumer struct {
	mu     sync.Mutex
	stream bool
	want   []nMsg
	got    []nMsg
	err    error
	done   chan struct{}
}

type futEnv struct {
	mu         sync.Mutex
	unbuffered bool
	prods      []*producer
	inner      []*innerConsumer
}

func futOf(ctx context.Context) *futEnv {
	if e := envOf(ctx); e != nil {
		return e.fut
	}
	return nil
}

// emitPipe streams chunks through an UNBUFFERED pipe from a goroutine of its own: the producer is
// released only by a reader that takes the chunk or by the closing of the reading side.
func emitPipe[T any](fe *futEnv, label string, chunks []T) *schema.StreamReader[T] {
	p := &producer{label: label, total: len(chunks)}
	fe.mu.Lock()
	fe.prods = append(fe.prods, p)
	fe.mu.Unlock()
	sr, sw := schema.Pipe[T](0)
	go c18Producer(fe, p, sw, chunks)
	return sr
}

func c18Producer[T any](fe *futEnv, p *producer, sw *schema.StreamWriter[T], chunks []T) {
	defer func() {
		sw.Close()
		fe.mu.Lock()
		p.finished = true
		fe.mu.Unlock()
	}()
	for _, ch := range chunks {
		if sw.Send(ch, nil) {
			return
		}
		fe.mu.Lock()
		p.sent++
		fe.mu.Unlock()
	}
}

func emitStrings(ctx context.Context, label string, chunks []string) *schema.StreamReader[string] {
	if fe := futOf(ctx); fe != nil && fe.unbuffered {
		return emitPipe(fe, label, chunks)
	}
	return schema.StreamReaderFromArray(chunks)
}

// ---------------------------------------------------------------------------
// Tools built on graphs, chains, workflows and other agents
// ---------------------------------------------------------------------------

var innerFuturesStuck, innerFuturesSkipped atomic.Int64

// knownParked: ids of goroutines that an earlier run of this process left parked for ever (reported then); ids
// are never reused. Only touched by the goroutine that runs the cases.
var knownParked = map[int]bool{}

type innerRun struct {
	invoke func(ctx context.Context, args string) (string, error)
	stream func(ctx context.Context, args string) (*schema.StreamReader[string], error)
}

func must(err error) {
	if err != nil {
		panic(fmt.Sprintf("c18 harness: building an inner runnable failed: %v", err))
	}
}

func readAll(sr *schema.StreamReader[string]) (string, error) {
	defer sr.Close()
	var b strings.Builder
	for {
		s, err := sr.Recv()
		if err == io.EOF {
			return b.String(), nil
		}
		if err != nil {
			return "", err
		}
		b.WriteString(s)
	}
}

// buildInner: the runnable behind a tool. Whatever it is built on, its answer is toolResult(name, args).
func buildInner(c *caseSpec, ts toolSpec, impl, via string) *innerRun {
	if impl == "plain" {
		return nil
	}
	name, salt := ts.Name, c.Salt
	bg := context.Background()
	inv := func(ctx context.Context, args string) (string, error) {
		res, _ := toolResult(name, args)
		return res, nil
	}
	str := func(ctx context.Context, args string) (*schema.StreamReader[string], error) {
		res, _ := toolResult(name, args)
		r := mon.Fork(salt, "inner", name, args)
		return emitStrings(ctx, "inner "+name, splitStr(r, res, r.Range(1, 4))), nil
	}
	leaf := func() *compose.Lambda {
		l, err := compose.AnyLambda(
			func(ctx context.Context, in string, _ ...any) (string, error) { return inv(ctx, in) },
			func(ctx context.Context, in string, _ ...any) (*schema.StreamReader[string], error) {
				return str(ctx, in)
			},
			nil, nil)
		must(err)
		return l
	}
	graph := func() *compose.Graph[string, string] {
		g := compose.NewGraph[string, string]()
		must(g.AddLambdaNode("f", leaf()))
		must(g.AddLambdaNode("id", compose.InvokableLambda(func(_ context.Context, s string) (string, error) { return s, nil })))
		must(g.AddEdge(compose.START, "f"))
		must(g.AddEdge("f", "id"))
		must(g.AddEdge("id", compose.END))
		return g
	}
	var rInvoke func(ctx context.Context, args string) (string, error)
	var rStream func(ctx context.Context, args string) (*schema.StreamReader[string], error)
	fromRunnable := func(r compose.Runnable[string, string], err error) {
		must(err)
		rInvoke = func(ctx context.Context, args string) (string, error) { return r.Invoke(ctx, args) }
		rStream = func(ctx context.Context, args string) (*schema.StreamReader[string], error) {
			return r.Stream(ctx, args)
		}
	}
	switch impl {
	case "graph":
		fromRunnable(graph().Compile(bg, compose.WithGraphName("inner-"+name)))
	case "graph2":
		o := compose.NewGraph[string, string]()
		must(o.AddGraphNode("sub", graph()))
		must(o.AddEdge(compose.START, "sub"))
		must(o.AddEdge("sub", compose.END))
		fromRunnable(o.Compile(bg))
	case "chain":
		fromRunnable(compose.NewChain[string, string]().AppendLambda(leaf()).Compile(bg))
	case "workflow":
		wf := compose.NewWorkflow[string, string]()
		wf.AddLambdaNode("f", leaf()).AddInput(compose.START)
		wf.End().AddInput("f")
		fromRunnable(wf.Compile(bg))
	case "graph-model", "chain-model":
		toMsgs := func() *compose.Lambda {
			return compose.InvokableLambda(func(_ context.Context, s string) ([]*schema.Message, error) {
				return []*schema.Message{schema.UserMessage(s)}, nil
			})
		}
		toStr := func() *compose.Lambda {
			return compose.InvokableLambda(func(_ context.Context, m *schema.Message) (string, error) { return m.Content, nil })
		}
		em := &echoModel{name: name, salt: salt}
		if impl == "chain-model" {
			fromRunnable(compose.NewChain[string, string]().AppendLambda(toMsgs()).AppendChatModel(em).AppendLambda(toStr()).Compile(bg))
		} else {
			g := compose.NewGraph[string, string]()
			must(g.AddLambdaNode("in", toMsgs()))
			must(g.AddChatModelNode("m", em))
			must(g.AddLambdaNode("out", toStr()))
			must(g.AddEdge(compose.START, "in"))
			must(g.AddEdge("in", "m"))
			must(g.AddEdge("m", "out"))
			must(g.AddEdge("out", compose.END))
			fromRunnable(g.Compile(bg))
		}
	case "agent", "agent-future":
		ag, err := react.NewAgent(bg, &react.AgentConfig{ToolCallingModel: &innerAgentModel{},
			ToolsConfig: compose.ToolsNodeConfig{Tools: []tool.BaseTool{&leafTool{name: name}}}})
		must(err)
		own := impl == "agent-future"
		rInvoke = func(ctx context.Context, args string) (string, error) {
			opts, after := innerFuture(ctx, own, false, salt, name, args)
			m, err := ag.Generate(ctx, []*schema.Message{schema.UserMessage(args)}, opts...)
			after()
			if err != nil {
				return "", err
			}
			return m.Content, nil
		}
		rStream = func(ctx context.Context, args string) (*schema.StreamReader[string], error) {
			opts, after := innerFuture(ctx, own, true, salt, name, args)
			sr, err := ag.Stream(ctx, []*schema.Message{schema.UserMessage(args)}, opts...)
			after()
			if err != nil {
				return nil, err
			}
			return schema.StreamReaderWithConvert(sr, func(m *schema.Message) (string, error) { return m.Content, nil }), nil
		}
	case "host":
		answer := func(in []*schema.Message) string {
			res, _ := toolResult(name, in[len(in)-1].Content)
			return res
		}
		ma, err := host.NewMultiAgent(bg, &host.MultiAgentConfig{
			Host: host.Host{ToolCallingModel: &innerHostModel{}},
			// (a host with ONE specialist cannot be built: a branch needs two ends)
			Specialists: []*host.Specialist{{AgentMeta: host.AgentMeta{Name: "other", IntendedUse: "never chosen"},
				Invokable: func(context.Context, []*schema.Message, ...agent.AgentOption) (*schema.Message, error) {
					return schema.AssistantMessage("the wrong specialist", nil), nil
				}}, {AgentMeta: host.AgentMeta{Name: "spec", IntendedUse: "answers"},
				Invokable: func(ctx context.Context, in []*schema.Message, _ ...agent.AgentOption) (*schema.Message, error) {
					return schema.AssistantMessage(answer(in), nil), nil
				},
				Streamable: func(ctx context.Context, in []*schema.Message, _ ...agent.AgentOption) (*schema.StreamReader[*schema.Message], error) {
					res := answer(in)
					r := mon.Fork(salt, "inner-host", name, res)
					parts := splitStr(r, res, r.Range(1, 3))
					chunks := make([]*schema.Message, len(parts))
					for i, p := range parts {
						chunks[i] = schema.AssistantMessage(p, nil)
					}
					if fe := futOf(ctx); fe != nil && fe.unbuffered {
						return emitPipe(fe, "inner host specialist of "+name, chunks), nil
					}
					return schema.StreamReaderFromArray(chunks), nil
				}}},
		})
		must(err)
		rInvoke = func(ctx context.Context, args string) (string, error) {
			m, err := ma.Generate(ctx, []*schema.Message{schema.UserMessage(args)})
			if err != nil {
				return "", err
			}
			return m.Content, nil
		}
		rStream = func(ctx context.Context, args string) (*schema.StreamReader[string], error) {
			sr, err := ma.Stream(ctx, []*schema.Message{schema.UserMessage(args)})
			if err != nil {
				return nil, err
			}
			return schema.StreamReaderWithConvert(sr, func(m *schema.Message) (string, error) { return m.Content, nil }), nil
		}
	default:
		panic("c18 harness: unknown tool implementation " + impl)
	}
	ir := &innerRun{}
	if via == "invoke" {
		ir.invoke = rInvoke
		ir.stream = func(ctx context.Context, args string) (*schema.StreamReader[string], error) {
			res, err := rInvoke(ctx, args)
			if err != nil {
				return nil, err
			}
			r := mon.Fork(salt, "rechunk", name, args)
			return emitStrings(ctx, "tool "+name, splitStr(r, res, r.Range(1, 3))), nil
		}
	} else {
		ir.stream = rStream
		ir.invoke = func(ctx context.Context, args string) (string, error) {
			sr, err := rStream(ctx, args)
			if err != nil {
				return "", err
			}
			return readAll(sr)
		}
	}
	return ir
}

// echoModel: the chat model inside a tool that is built on a chain / graph: it answers with the tool's result.
type echoModel struct {
	name string
	salt uint64
}

func (m *echoModel) Generate(_ context.Context, in []*schema.Message, _ ...model.Option) (*schema.Message, error) {
	res, _ := toolResult(m.name, in[len(in)-1].Content)
	return schema.AssistantMessage(res, nil), nil
}

func (m *echoModel) Stream(ctx context.Context, in []*schema.Message, _ ...model.Option) (*schema.StreamReader[*schema.Message], error) {
	res, _ := toolResult(m.name, in[len(in)-1].Content)
	r := mon.Fork(m.salt, "echo", m.name, res)
	parts := splitStr(r, res, r.Range(1, 3))
	chunks := make([]*schema.Message, len(parts))
	for i, p := range parts {
		chunks[i] = schema.AssistantMessage(p, nil)
	}
	if fe := futOf(ctx); fe != nil && fe.unbuffered {
		return emitPipe(fe, "model inside tool "+m.name, chunks), nil
	}
	return schema.StreamReaderFromArray(chunks), nil
}

// innerAgentModel: the model of an agent that is used as a tool: it calls the tool "leaf" with the
// user's text and then answers with the tool's result. A function of its input.
type innerAgentModel struct{}

func (m *innerAgentModel) WithTools([]*schema.ToolInfo) (model.ToolCallingChatModel, error) {
	return m, nil
}

func innerAgentAnswer(in []*schema.Message) *schema.Message {
	last := in[len(in)-1]
	if last.Role == schema.Tool {
		return &schema.Message{Role: schema.Assistant, Content: last.Content}
	}
	return &schema.Message{Role: schema.Assistant, Content: "inner: let me look", ToolCalls: []schema.ToolCall{
		{ID: "inner-1", Type: "function", Function: schema.FunctionCall{Name: "leaf", Arguments: last.Content}}}}
}

func (m *innerAgentModel) Generate(_ context.Context, in []*schema.Message, _ ...model.Option) (*schema.Message, error) {
	return innerAgentAnswer(in), nil
}

func (m *innerAgentModel) Stream(ctx context.Context, in []*schema.Message, _ ...model.Option) (*schema.StreamReader[*schema.Message], error) {
	a := innerAgentAnswer(in)
	chunks := []*schema.Message{a}
	if len(a.ToolCalls) == 0 && len(a.Content) > 1 {
		h := len(a.Content) / 2
		chunks = []*schema.Message{{Role: schema.Assistant, Content: a.Content[:h]}, {Role: schema.Assistant, Content: a.Content[h:]}}
	}
	if fe := futOf(ctx); fe != nil && fe.unbuffered {
		return emitPipe(fe, "inner agent model", chunks), nil
	}
	return schema.StreamReaderFromArray(chunks), nil
}

type leafTool struct{ name string }

func (t *leafTool) Info(context.Context) (*schema.ToolInfo, error) {
	return &schema.ToolInfo{Name: "leaf", Desc: "leaf of " + t.name}, nil
}

func (t *leafTool) InvokableRun(_ context.Context, args string, _ ...tool.Option) (string, error) {
	res, _ := toolResult(t.name, args)
	return res, nil
}

// innerHostModel: the host of a host multi-agent that is used as a tool: always hands off to "spec".
type innerHostModel struct{}

func (m *innerHostModel) WithTools([]*schema.ToolInfo) (model.ToolCallingChatModel, error) {
	return m, nil
}

func innerHostAnswer() *schema.Message {
	return &schema.Message{Role: schema.Assistant, ToolCalls: []schema.ToolCall{
		{ID: "inner-h", Type: "function", Function: schema.FunctionCall{Name: "spec", Arguments: "{}"}}}}
}

func (m *innerHostModel) Generate(context.Context, []*schema.Message, ...model.Option) (*schema.Message, error) {
	return innerHostAnswer(), nil
}

func (m *innerHostModel) Stream(context.Context, []*schema.Message, ...model.Option) (*schema.StreamReader[*schema.Message], error) {
	return schema.StreamReaderFromArray([]*schema.Message{innerHostAnswer()}), nil
}

// innerFuture: a tool that runs another agent may give THAT run a MessageFuture of its own. What it
// hands out is read on a goroutine of its own (started before or after the inner call) and judged
// when the outer run is over: exactly the three messages of the inner run.
func innerFuture(ctx context.Context, own, stream bool, salt uint64, name, args string) (opts []agent.AgentOption, after func()) {
	fe := futOf(ctx)
	if !own || fe == nil {
		return nil, func() {}
	}
	if innerFuturesStuck.Load() >= 6 {
		// every reader of a future that never opens stays parked for ever; the finding is recorded, more of
		// them would only slow down the goroutine dumps of the rest of this shard
		innerFuturesSkipped.Add(1)
		return nil, func() {}
	}
	opt, fut := react.WithMessageFuture()
	res, _ := toolResult(name, args)
	ic := &innerConsumer{stream: stream, done: make(chan struct{}), want: []nMsg{
		norm(innerAgentAnswer([]*schema.Message{schema.UserMessage(args)})),
		norm(schema.ToolMessage(res, "inner-1")),
		{Role: "assistant", Content: res}}}
	fe.mu.Lock()
	fe.inner = append(fe.inner, ic)
	fe.mu.Unlock()
	if mon.Fork(salt, "inner-future-when", name, args).Bool() {
		go innerFutConsume(ic, fut)
		return []agent.AgentOption{opt}, func() {}
	}
	return []agent.AgentOption{opt}, func() { go innerFutConsume(ic, fut) }
}

func innerFutConsume(ic *innerConsumer, fut react.MessageFuture) {
	defer close(ic.done)
	col := &futCollected{}
	futConsume(fut, ic.stream, "full", 0, 0, col)
	ic.mu.Lock()
	defer ic.mu.Unlock()
	for _, it := range col.items {
		ic.got = append(ic.got, it.Msg)
	}
	ic.err = col.iterErr
	if ic.err == nil {
		ic.err = col.itemErr
	}
}

// ---------------------------------------------------------------------------
// The model as a wrapper around a graph / chain that holds the scripted model
// ---------------------------------------------------------------------------

func compileModelRunner(impl string, m model.BaseChatModel) compose.Runnable[[]*schema.Message, *schema.Message] {
	bg := context.Background()
	if impl == "chain" {
		r, err := compose.NewChain[[]*schema.Message, *schema.Message]().AppendChatModel(m).Compile(bg)
		must(err)
		return r
	}
	g := compose.NewGraph[[]*schema.Message, *schema.Message]()
	must(g.AddChatModelNode("m", m))
	must(g.AddEdge(compose.START, "m"))
	must(g.AddEdge("m", compose.END))
	r, err := g.Compile(bg, compose.WithGraphName("model-graph"))
	must(err)
	return r
}

type wrapTC struct {
	impl  string
	inner *tcModel
	r     compose.Runnable[[]*schema.Message, *schema.Message]
}

func newWrapTC(impl string, inner *tcModel) *wrapTC {
	return &wrapTC{impl: impl, inner: inner, r: compileModelRunner(impl, inner)}
}

func (w *wrapTC) WithTools(tools []*schema.ToolInfo) (model.ToolCallingChatModel, error) {
	b, err := w.inner.WithTools(tools)
	if err != nil {
		return nil, err
	}
	return newWrapTC(w.impl, b.(*tcModel)), nil
}

func (w *wrapTC) Generate(ctx context.Context, in []*schema.Message, _ ...model.Option) (*schema.Message, error) {
	return w.r.Invoke(ctx, in)
}

func (w *wrapTC) Stream(ctx context.Context, in []*schema.Message, _ ...model.Option) (*schema.StreamReader[*schema.Message], error) {
	return w.r.Stream(ctx, in)
}

type wrapCM struct {
	inner *cmModel
	r     compose.Runnable[[]*schema.Message, *schema.Message]
}

func (w *wrapCM) BindTools(tools []*schema.ToolInfo) error { return w.inner.BindTools(tools) }

func (w *wrapCM) Generate(ctx context.Context, in []*schema.Message, _ ...model.Option) (*schema.Message, error) {
	return w.r.Invoke(ctx, in)
}

func (w *wrapCM) Stream(ctx context.Context, in []*schema.Message, _ ...model.Option) (*schema.StreamReader[*schema.Message], error) {
	return w.r.Stream(ctx, in)
}

var (
	identityOnce sync.Once
	identityMsgs compose.Runnable[[]*schema.Message, []*schema.Message]
	identityStr  compose.Runnable[string, string]
)

func identityGraphs() {
	identityOnce.Do(func() {
		bg := context.Background()
		g := compose.NewGraph[[]*schema.Message, []*schema.Message]()
		must(g.AddLambdaNode("id", compose.InvokableLambda(func(_ context.Context, in []*schema.Message) ([]*schema.Message, error) { return in, nil })))
		must(g.AddEdge(compose.START, "id"))
		must(g.AddEdge("id", compose.END))
		var err error
		identityMsgs, err = g.Compile(bg)
		must(err)
		h := compose.NewGraph[string, string]()
		must(h.AddLambdaNode("id", compose.InvokableLambda(func(_ context.Context, in string) (string, error) { return in, nil })))
		must(h.AddEdge(compose.START, "id"))
		must(h.AddEdge("id", compose.END))
		identityStr, err = h.Compile(bg)
		must(err)
	})
}

// applyFuture adjusts an agent configuration to the future spec of the case (called by buildAgent).
func applyFuture(c *caseSpec, cfg *react.AgentConfig) {
	f := c.Future
	if f == nil {
		return
	}
	identityGraphs()
	if f.ModelImpl != "plain" {
		if m, ok := cfg.ToolCallingModel.(*tcModel); ok {
			cfg.ToolCallingModel = newWrapTC(f.ModelImpl, m)
		} else if m, ok := cfg.Model.(*cmModel); ok {
			cfg.Model = &wrapCM{inner: m, r: compileModelRunner(f.ModelImpl, m)}
		}
	}
	if f.ModifierVia == "graph" && cfg.MessageModifier != nil {
		mod := cfg.MessageModifier
		cfg.MessageModifier = func(ctx context.Context, in []*schema.Message) []*schema.Message {
			out, err := identityMsgs.Invoke(ctx, in)
			if err != nil {
				panic(fmt.Sprintf("the graph behind the MessageModifier failed: %v", err))
			}
			return mod(ctx, out)
		}
	}
	if f.HandlerImpl == "graph" && cfg.ToolsConfig.UnknownToolsHandler != nil {
		h := cfg.ToolsConfig.UnknownToolsHandler
		cfg.ToolsConfig.UnknownToolsHandler = func(ctx context.Context, name, input string) (string, error) {
			res, err := h(ctx, name, input)
			if err != nil {
				return "", err
			}
			return identityStr.Invoke(ctx, res)
		}
	}
}

// ---------------------------------------------------------------------------
// Reading a future
// ---------------------------------------------------------------------------

type futItem struct {
	Msg      nMsg `json:"msg"`
	Complete bool `json:"complete"` // read to the end (a message, or a stream read to EOF)
	Chunks   int  `json:"chunks"`
}

type futCollected struct {
	mu      sync.Mutex
	items   []futItem
	iterErr error // the iterator delivered an error item
	itemErr error // a stream of the future failed (or could not be concatenated)
	ended   bool  // the iterator said "no more"
}

// futConsume reads the future: mode "full" | "partial" (items items completely, chunks chunks of the next
// one) | "close" (take everything that is left and close it unread). It returns when the iterator has
// ended, delivered an error, or - partial - when its share is read.
func futConsume(fut react.MessageFuture, stream bool, mode string, items, chunks int, col *futCollected) {
	add := func(it futItem) {
		col.mu.Lock()
		col.items = append(col.items, it)
		col.mu.Unlock()
	}
	fail := func(iter bool, err error) {
		col.mu.Lock()
		if iter {
			col.iterErr = err
		} else if col.itemErr == nil {
			col.itemErr = err
		}
		col.mu.Unlock()
	}
	end := func() {
		col.mu.Lock()
		col.ended = true
		col.mu.Unlock()
	}
	if !stream {
		it := fut.GetMessages()
		for n := 0; mode != "partial" || n < items; n++ {
			m, ok, err := it.Next()
			if !ok {
				end()
				return
			}
			if err != nil {
				fail(true, err)
				return
			}
			add(futItem{Msg: norm(m), Complete: true, Chunks: 1})
		}
		return
	}
	it := fut.GetMessageStreams()
	for n := 0; ; n++ {
		if mode == "partial" && n > items {
			return
		}
		s, ok, err := it.Next()
		if !ok {
			end()
			return
		}
		if err != nil {
			fail(true, err)
			return
		}
		limit := -1 // to EOF
		if mode == "close" {
			limit = 0
		} else if mode == "partial" && n == items {
			limit = chunks
		}
		var got []*schema.Message
		complete := false
		for limit < 0 || len(got) < limit {
			m, err := s.Recv()
			if err == io.EOF {
				complete = true
				break
			}
			if err != nil {
				fail(false, err)
				break
			}
			got = append(got, m)
		}
		s.Close()
		item := futItem{Complete: complete, Chunks: len(got)}
		if complete {
			switch len(got) {
			case 0:
				item.Msg = nMsg{Nil: true}
			case 1:
				item.Msg = norm(got[0])
			default:
				m, err := schema.ConcatMessages(got)
				if err != nil {
					fail(false, fmt.Errorf("stream handed out by the future cannot be concatenated: %w", err))
					item.Complete = false
				} else {
					item.Msg = norm(m)
				}
			}
		}
		add(item)
	}
}

// expectedFuture: the messages of the run in groups: [assistant 1] {tool results of round 1} [assistant 2] ...
func expectedFuture(c *caseSpec, sim simOut) [][]nMsg {
	var groups [][]nMsg
	for k := 1; k <= len(sim.Inputs); k++ {
		am := fullMessage(c, k)
		groups = append(groups, []nMsg{norm(am)})
		if k > len(sim.Rounds) {
			break
		}
		var g []nMsg
		known := map[string]bool{}
		for _, t := range c.Tools {
			known[t.Name] = true
		}
		for _, tc := range am.ToolCalls {
			res := unknownResult(tc.Function.Name, tc.Function.Arguments)
			if known[tc.Function.Name] {
				res, _ = toolResult(tc.Function.Name, tc.Function.Arguments)
			}
			g = append(g, norm(schema.ToolMessage(res, tc.ID)))
		}
		groups = append(groups, g)
	}
	return groups
}

// compareFuture: got must be the groups in order, the members of one group in any order. Items that were not read
// to the end stand for any member of their group. An item that is not the next message of the run is set aside as
// an extra one and the comparison goes on. complete = the iterator has ended, so nothing may be missing.
// Classes: "extra-message" (everything of the run is there, in order, plus items that are not messages of the run at
// that place: messages of nested units, duplicates), "missing", "differ".
func compareFuture(groups [][]nMsg, got []futItem, complete bool) (class, detail string) {
	gi, matched := 0, 0
	var used []bool
	if len(groups) > 0 {
		used = make([]bool, len(groups[0]))
	}
	var extras []string
	for i, it := range got {
		for gi < len(groups) && matched == len(groups[gi]) {
			gi, matched = gi+1, 0
			if gi < len(groups) {
				used = make([]bool, len(groups[gi]))
			}
		}
		if gi >= len(groups) {
			extras = append(extras, fmt.Sprintf("item %d: %s", i+1, js(it)))
			continue
		}
		if !it.Complete {
			matched++ // stands for any member of its group
			continue
		}
		found := false
		for j, e := range groups[gi] {
			if !used[j] && e.equal(it.Msg) {
				used[j], found = true, true
				break
			}
		}
		if !found {
			extras = append(extras, fmt.Sprintf("item %d: %s (next message(s) of the run: %s)", i+1, js(it.Msg), js(groups[gi])))
			continue
		}
		matched++
	}
	for gi < len(groups) && matched == len(groups[gi]) {
		gi, matched = gi+1, 0
	}
	missing := complete && gi < len(groups)
	switch {
	case len(extras) > 0 && !missing:
		return "extra-message", fmt.Sprintf("the future handed out %d item(s) that are not the next message of the run where they appear:\n%s", len(extras), strings.Join(extras, "\n"))
	case len(extras) > 0:
		return "differ", fmt.Sprintf("the future ended before all messages of the run were handed out (next expected: %s), and %d item(s) are not messages of the run where they appear:\n%s", js(groups[gi]), len(extras), strings.Join(extras, "\n"))
	case missing:
		return "missing", fmt.Sprintf("the future handed out %d item(s) and ended; next message(s) of the run that were never handed out: %s", len(got), js(groups[gi]))
	}
	return "", ""
}

// ---------------------------------------------------------------------------
// One run
// ---------------------------------------------------------------------------

type futOutcome struct {
	res       mon.WaitResult
	dump      []mon.G
	retracted int
	er        *execResult
	rr        *runRec
	early     bool // the output stream was closed before its end
	col       *futCollected
	futState  string // "" | "never-opened" | "never-ended": the consumer of the future can never finish
	settled   bool
	parked    []mon.G
	unrel     []string
	inner     []finding
	innerRead int
	producers int
	token     string
}

// harnessConsumer: goroutines of this file that read futures; one that is parked for ever is a finding about the
// future, not a leaked framework goroutine.
func harnessConsumer(g mon.G) bool {
	return g.Has("checks/c18.futConsume") || g.Has("checks/c18.innerFutConsume")
}

func classifyStuckConsumer(dump []mon.G) string {
	for i, g := range dump {
		if i == 0 || !harnessConsumer(g) {
			continue
		}
		if g.Has(").GetMessages") || g.Has(").GetMessageStreams") {
			return "never-opened"
		}
	}
	return "never-ended"
}

// execFuture performs one Generate / Stream call as described by fr, with or without the option.
func execFuture(ag *react.Agent, c *caseSpec, a *agentSpec, fr futRun, withOption bool, token string, ri int) *futOutcome {
	o := &futOutcome{rr: &runRec{}, er: &execResult{}, token: token}
	o.er.out.Mode = modeNames[fr.Mode]
	fe := &futEnv{unbuffered: c.Future.Unbuffered}
	env := &runEnv{Token: token, rr: o.rr, early: a.ScanEarly != (ri%2 == 1), fut: fe}
	ctx, cancel := runContext(fr.RunCtx, env)
	defer cancel()
	before := knownParked // what earlier (already reported) runs left behind is not counted again
	var opts []agent.AgentOption
	var fut react.MessageFuture
	if withOption {
		var opt agent.AgentOption
		opt, fut = react.WithMessageFuture()
		opts = append(opts, opt)
		o.col = &futCollected{}
	}
	stream := fr.Mode == "S"
	consumerDone := make(chan struct{})
	started := false
	startConsumer := func() {
		if fut == nil || fr.Consume == "none" || started {
			return
		}
		started = true
		go func() {
			defer close(consumerDone)
			futConsume(fut, stream, fr.Consume, fr.Items, fr.Chunks, o.col)
		}()
	}
	input := buildInput(c)
	inBefore := normAll(input)
	done := make(chan struct{})
	r, out := o.er, &o.er.out
	go func() {
		defer close(done)
		r.p = mon.Safe(func() {
			if fr.When == "before" {
				startConsumer()
			}
			if !stream {
				m, err := ag.Generate(ctx, input, opts...)
				if fr.When != "before" {
					startConsumer()
				}
				if err != nil {
					out.Err, out.ErrWhere = err, "call"
					return
				}
				out.Final, out.HasFinal, out.Chunks = norm(m), m != nil, 1
				return
			}
			sr, err := ag.Stream(ctx, input, opts...)
			if fr.When == "after" {
				startConsumer()
			}
			defer func() {
				if fr.When == "closed" {
					startConsumer()
				}
			}()
			if err != nil {
				out.Err, out.ErrWhere = err, "call"
				return
			}
			var chunks []*schema.Message
			eof := false
			for fr.Stop < 0 || len(chunks) < fr.Stop {
				m, err := sr.Recv()
				if err == io.EOF {
					eof = true
					break
				}
				if err != nil {
					sr.Close()
					out.Err, out.ErrWhere = err, "recv"
					return
				}
				chunks = append(chunks, m)
			}
			sr.Close()
			o.early = !eof
			out.Chunks = len(chunks)
			switch len(chunks) {
			case 0:
			case 1:
				out.Final, out.HasFinal = norm(chunks[0]), chunks[0] != nil
			default:
				m, err := schema.ConcatMessages(chunks)
				if err != nil {
					out.Err, out.ErrWhere = fmt.Errorf("result stream cannot be concatenated: %w", err), "concat"
					return
				}
				out.Final, out.HasFinal = norm(m), true
			}
		})
	}()
	o.res, o.dump, o.retracted = waitConfirmed(done)
	if o.res != mon.Finished {
		for _, g := range mon.Parked(o.dump, "github.com/cloudwego/eino/", "checks/c18.") {
			knownParked[g.ID] = true // a run that can never finish: its goroutines are reported with it
		}
		return o
	}
	after := normAll(input)
	r.intact = sameMsgs(inBefore, after)

	// ---- the consumer's share, then whatever is left of the future is taken and closed unread
	if fut != nil {
		if started {
			res, dump, retr := waitConfirmed(consumerDone)
			o.retracted += retr
			if res == mon.Inconclusive {
				o.res = res
				return o
			}
			if res == mon.Stuck {
				o.futState = classifyStuckConsumer(dump)
			}
		}
		if o.futState == "" {
			o.col.mu.Lock()
			over := o.col.ended || o.col.iterErr != nil
			o.col.mu.Unlock()
			if !over {
				cleanupDone := make(chan struct{})
				go func() {
					defer close(cleanupDone)
					futConsume(fut, stream, "close", 0, 0, o.col)
				}()
				res, dump, retr := waitConfirmed(cleanupDone)
				o.retracted += retr
				if res == mon.Inconclusive {
					o.res = res
					return o
				}
				if res == mon.Stuck {
					o.futState = classifyStuckConsumer(dump)
				}
			}
		}
	}
	// ---- everything the caller can reach has been closed: the process must become quiescent
	gs, settled := mon.Settle(4, 2000)
	o.settled = settled
	if !settled {
		return o
	}
	// ---- futures of nested agents: in a quiescent process a reader that has not finished never will
	fe.mu.Lock()
	inner := append([]*innerConsumer(nil), fe.inner...)
	fe.mu.Unlock()
	innerSeen := map[string]bool{}
	add := func(class, detail string) {
		if !innerSeen[class] {
			innerSeen[class] = true
			o.inner = append(o.inner, finding{Sig: "C18/future/nested-agent-own-future/" + class, Detail: detail})
		}
	}
	for _, ic := range inner {
		select {
		case <-ic.done:
		default:
			var fresh []mon.G
			for i, g := range gs {
				if i == 0 || !before[g.ID] {
					fresh = append(fresh, g)
				}
			}
			innerFuturesStuck.Add(1)
			add(classifyStuckConsumer(fresh), "a tool ran another ReAct agent with the context it was handed and gave that run a MessageFuture of its own (react.WithMessageFuture); "+
				"the inner run has returned and the process is quiescent, but reading the inner future has not finished and never will")
			continue
		}
		ic.mu.Lock()
		if ic.err != nil {
			add("iterator-error", fmt.Sprintf("the future of the inner agent delivered an error: %v", ic.err))
		} else if !sameMsgs(ic.want, ic.got) {
			add("messages-differ", fmt.Sprintf("the future of the inner agent handed out %s, the inner run produced %s", js(ic.got), js(ic.want)))
		}
		ic.mu.Unlock()
	}
	o.innerRead = len(inner)
	for _, g := range mon.Parked(gs, "github.com/cloudwego/eino/", "checks/c18.c18Producer") {
		if !before[g.ID] && !harnessConsumer(g) {
			o.parked = append(o.parked, g)
		}
	}
	fe.mu.Lock()
	for _, p := range fe.prods {
		if !p.finished {
			o.unrel = append(o.unrel, fmt.Sprintf("%s (sent %d of %d)", p.label, p.sent, p.total))
		}
	}
	o.producers = len(fe.prods)
	fe.mu.Unlock()
	for _, g := range mon.Parked(gs, "github.com/cloudwego/eino/", "checks/c18.") {
		knownParked[g.ID] = true
	}
	return o
}

// futJudged: everything that was found about one run.
type futJudged struct {
	run     []finding // the run against the reference (generic signatures)
	msgs    []finding // what the future handed out
	leak    []finding // quiescence
	inner   []finding
	checker []finding
	// abortedLeak: a run that ended with the step-limit error left producers blocked (evidence only)
	abortedLeak bool
}

func (j futJudged) any() bool {
	return len(j.run)+len(j.msgs)+len(j.leak)+len(j.inner)+len(j.checker) > 0
}

func judgeFutureRun(c *caseSpec, a *agentSpec, sim simOut, fr futRun, withOption bool, o *futOutcome) futJudged {
	var j futJudged
	mode := modeNames[fr.Mode]
	out := o.er.out
	if o.early && out.Err == nil && (sim.Outcome == outFinal || sim.Outcome == outDirect) {
		// only a prefix of the answer was read
		ok := !out.HasFinal || (out.Final.Role == sim.Final.Role && out.Final.ToolCallID == sim.Final.ToolCallID && len(out.Final.TCs) == 0 &&
			strings.HasPrefix(sim.Final.Content, out.Final.Content))
		if ok {
			out.Final, out.HasFinal = sim.Final, true
		}
	}
	o.rr.mu.Lock()
	j.run = judge(sim, o.rr, out)
	if a.Checker != "first-chunk" {
		j.checker = judgeChecker(mode, o.token, o.rr.checker)
	}
	o.rr.mu.Unlock()
	if !o.er.intact {
		j.run = append(j.run, finding{Sig: "C18/caller-input/" + mode + "/modified", Detail: "the messages the caller passed were changed by the run"})
	}
	j.inner = o.inner

	if withOption {
		add := func(class, detail string) {
			j.msgs = append(j.msgs, finding{Sig: "C18/future/" + mode + "/" + class, Detail: detail})
		}
		switch {
		case o.futState != "":
			add(o.futState, "the run is over, but reading the MessageFuture can never finish (process quiescent): "+o.futState)
		case sim.Outcome == outToolError:
		default:
			o.col.mu.Lock()
			groups := expectedFuture(c, sim)
			clean := sim.Outcome == outFinal || sim.Outcome == outDirect
			switch {
			case o.col.itemErr != nil:
				add("messages/stream-error", fmt.Sprintf("a stream handed out by the future failed: %v", o.col.itemErr))
			case o.col.iterErr != nil && clean && len(j.run) == 0:
				add("messages/iterator-error", fmt.Sprintf("the run ended with %s, but the future delivered an error: %v", sim.Outcome, o.col.iterErr))
			default:
				if class, detail := compareFuture(groups, o.col.items, o.col.ended); class != "" && len(j.run) == 0 {
					add("messages/"+class, detail+fmt.Sprintf("\nexpected (groups in order, members of a group in any order): %s\nhanded out: %s", js(groups), js(o.col.items)))
				}
			}
			o.col.mu.Unlock()
		}
	}
	// quiescence is demanded of runs that complete (the reference ends with an answer, the call returned it); what a
	// run that is aborted by the step limit leaves behind is not judged
	completed := (sim.Outcome == outFinal || sim.Outcome == outDirect) && o.er.out.Err == nil
	if o.settled && !completed && (len(o.parked) > 0 || len(o.unrel) > 0) {
		j.abortedLeak = true
	}
	if o.settled && completed && (len(o.parked) > 0 || len(o.unrel) > 0) {
		how := "after-full-read"
		if o.early {
			how = "after-early-close"
		}
		if fr.Mode == "G" {
			how = "after-return"
		}
		var sigs []string
		raw := ""
		for _, g := range o.parked {
			sigs = append(sigs, g.Signature())
			raw += g.Raw + "\n\n"
		}
		sort.Strings(sigs)
		what := "goroutine-parked"
		if len(o.unrel) > 0 {
			what = "producer-not-released"
		}
		j.leak = append(j.leak, finding{Sig: mode + "/" + what + "/" + how,
			Detail: fmt.Sprintf("the call has returned, its output was read / closed (%s) and everything the future handed out was closed; the process is quiescent, "+
				"yet %d goroutine(s) stay parked in framework or producer frames and %d producer(s) were never released: %v\nparked: %v\n%s", how, len(o.parked), len(o.unrel), o.unrel, sigs, raw)})
	}
	return j
}

func runClass(fs []finding) string {
	for _, f := range fs {
		switch {
		case strings.Contains(f.Sig, "/unexpected-error") || strings.Contains(f.Sig, "/step-limit/") && strings.Contains(f.Sig, "other-error"):
			return "error-instead-of-answer"
		}
	}
	for _, f := range fs {
		if strings.HasPrefix(f.Sig, "C18/result/") || strings.HasPrefix(f.Sig, "C18/tool-error/") {
			return "answer-differs"
		}
	}
	return "history-differs"
}

// runFutureAgent builds one agent and performs its runs. A run with the option that disagrees with the
// reference is repeated without the option: only if that run agrees the difference is the option's doing.
func runFutureAgent(rep *mon.Reporter, c *caseSpec, ai int, sim simOut) bool {
	a := &c.Agents[ai]
	rec := &recorder{byCtx: true, orphan: &runRec{}}
	ag, err, p := buildAgent(c, a, rec)
	w := func(run string) witness { return witness{Agent: a.Checker + "/" + a.Wiring, Run: run, Case: c} }
	if p != nil {
		rep.Violation("C18/panic/new-agent/"+p.FirstFrame("github.com/cloudwego/eino/"), p.Value+"\n"+p.Stack, w("NewAgent"))
		return false
	}
	if err != nil {
		rep.Violation("C18/new-agent/error", err.Error(), w("NewAgent"))
		return false
	}
	kind := "no-inner-graph"
	if c.Future.innerGraph() {
		kind = "inner-graph"
	}
	report := func(fs []finding, runName string) {
		for _, f := range fs {
			rep.Violation(f.Sig, fmt.Sprintf("agent %s/%s, run %s\n%s", a.Checker, a.Wiring, runName, f.Detail), w(runName))
		}
	}
	hang := func(o *futOutcome, sig, runName string) bool {
		rep.Count("stuck_verdicts_retracted_on_recheck", int64(o.retracted))
		switch o.res {
		case mon.Stuck:
			reportHang(rep, sig, o.dump, w(runName))
			return true
		case mon.Inconclusive:
			rep.Inconclusive("watchdog fired while goroutines were still active in " + runName)
			return true
		}
		return false
	}
	complete := true
	for ri, fr := range c.Future.Runs[ai] {
		rep.AddEvaluations(1)
		mode := modeNames[fr.Mode]
		runName := fmt.Sprintf("#%d %s", ri+1, mode)
		if fr.Future {
			runName += " with MessageFuture"
		}
		o := execFuture(ag, c, a, fr, fr.Future, fmt.Sprintf("%s#%d", a.Checker, ri+1), ri)
		if hang(o, "C18/future/"+mode+"/hang", runName) {
			return false
		}
		if drainOrphan(rep, rec, c, a, w(runName)) {
			complete = false
			continue
		}
		if o.er.p != nil {
			sig := "C18/panic/" + mode + "/" + o.er.p.FirstFrame("github.com/cloudwego/eino/")
			if fr.Future {
				sig = "C18/future/" + mode + "/" + kind + "/panic"
			}
			rep.Violation(sig, o.er.p.Value+"\n"+o.er.p.Stack, w(runName))
			complete = false
			continue
		}
		j := judgeFutureRun(c, a, sim, fr, fr.Future, o)
		rep.Count("runs_"+mode, 1)
		rep.Count("model_inputs_compared", int64(len(o.rr.calls)))
		if o.settled {
			rep.Count("future_leak_checks_settled", 1)
		} else {
			rep.Count("future_leak_checks_not_settled", 1)
		}
		if o.early {
			rep.Count("future_runs_output_closed_early", 1)
		}
		if j.abortedLeak {
			rep.Count("future_aborted_runs_leaving_producers_blocked_not_judged", 1)
		}
		if !fr.Future {
			// a run without the option: the generic verdicts
			report(j.run, runName)
			report(j.checker, runName)
			report(j.inner, runName)
			for _, f := range j.leak {
				report([]finding{{Sig: "C18/leak/" + f.Sig, Detail: f.Detail}}, runName)
			}
			rep.Count("future_runs_without_option", 1)
			if j.any() {
				complete = false
			}
			continue
		}
		rep.Count("future_runs_with_option", 1)
		rep.Count("future_runs_consume_"+fr.Consume, 1)
		o.col.mu.Lock()
		rep.Count("future_items_handed_out", int64(len(o.col.items)))
		for _, it := range o.col.items {
			if it.Complete {
				rep.Count("future_messages_compared", 1)
			}
		}
		o.col.mu.Unlock()
		rep.Count("future_nested_own_futures_read", int64(o.innerRead))
		rep.Count("future_producers_observed", int64(o.producers))
		if !j.any() {
			continue
		}
		complete = false
		report(j.msgs, runName)
		report(j.checker, runName)
		report(j.inner, runName)
		if len(j.run) == 0 && len(j.leak) == 0 {
			continue
		}
		// the same call without the option
		rep.AddEvaluations(1)
		ctl := execFuture(ag, c, a, fr, false, fmt.Sprintf("%s#%d-control", a.Checker, ri+1), ri)
		ctlName := runName + " (control: the same call without the option)"
		if hang(ctl, "C18/hang/"+mode, ctlName) {
			return false
		}
		drainOrphan(rep, rec, c, a, w(ctlName))
		if ctl.er.p != nil {
			rep.Violation("C18/panic/"+mode+"/"+ctl.er.p.FirstFrame("github.com/cloudwego/eino/"), ctl.er.p.Value+"\n"+ctl.er.p.Stack, w(ctlName))
			continue
		}
		cj := judgeFutureRun(c, a, sim, fr, false, ctl)
		rep.Count("future_control_runs", 1)
		if len(j.run) > 0 {
			if len(cj.run) > 0 {
				report(cj.run, ctlName) // not the option's doing
			} else {
				var details []string
				for _, f := range j.run {
					details = append(details, f.Sig+": "+f.Detail)
				}
				report([]finding{{Sig: "C18/future/" + mode + "/" + kind + "/" + runClass(j.run),
					Detail: "with the option of react.WithMessageFuture the run differs from the reference; the same call on the same agent without the option agrees with it\n" + strings.Join(details, "\n")}}, runName)
			}
		}
		if len(j.leak) > 0 {
			if len(cj.leak) > 0 {
				for _, f := range cj.leak {
					report([]finding{{Sig: "C18/leak/" + f.Sig, Detail: f.Detail}}, ctlName)
				}
			} else {
				for _, f := range j.leak {
					report([]finding{{Sig: "C18/future/leak/" + f.Sig, Detail: "without the option the same call leaves the process quiescent\n" + f.Detail}}, runName)
				}
			}
		}
	}
	return complete
}

// runFuture: one case of the workload; it returns true if the case was non-trivial and complete.
func runFuture(rep *mon.Reporter, c *caseSpec) bool {
	// what the cases before this one left behind (the other workloads do not look at what a run leaves behind: a
	// streaming run that is aborted by the step limit leaves readers of its pending streams parked) is not this case's
	for _, g := range mon.Dump() {
		knownParked[g.ID] = true
	}
	sim := simulate(c, false)
	rep.Count("outcome_"+sim.Outcome, 1)
	for _, x := range c.Future.ToolImpl {
		rep.Count("future_tool_impl_"+x, 1)
	}
	rep.Count("future_model_impl_"+c.Future.ModelImpl, 1)
	if c.Future.Unbuffered {
		rep.Count("future_cases_unbuffered", 1)
	}
	complete := true
	skipped := innerFuturesSkipped.Load()
	for ai := range c.Agents {
		if !runFutureAgent(rep, c, ai, sim) {
			complete = false
		}
	}
	rep.Count("future_nested_own_futures_not_given_after_6_that_never_opened", innerFuturesSkipped.Load()-skipped)
	return complete && len(sim.Rounds) >= 1
}
