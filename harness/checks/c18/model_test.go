package c18

import (
	"context"
	"errors"
	"fmt"
	"runtime"
	"sort"
	"strings"
	"sync"

	"github.com/cloudwego/eino/components/model"
	"github.com/cloudwego/eino/components/tool"
	"github.com/cloudwego/eino/compose"
	"github.com/cloudwego/eino/schema"

	"verifharness/internal/mon"
)

// ---------------------------------------------------------------------------
// Normal form of messages (what the oracle compares)
// ---------------------------------------------------------------------------

type nTC struct {
	Index int    `json:"index"` // -1: nil
	ID    string `json:"id"`
	Type  string `json:"type"`
	Name  string `json:"name"`
	Args  string `json:"args"`
}

type nMsg struct {
	Nil        bool   `json:"nil,omitempty"`
	Role       string `json:"role"`
	Content    string `json:"content"`
	Name       string `json:"name,omitempty"`
	ToolCallID string `json:"tool_call_id,omitempty"`
	TCs        []nTC  `json:"tcs,omitempty"`
}

func norm(m *schema.Message) nMsg {
	if m == nil {
		return nMsg{Nil: true}
	}
	n := nMsg{Role: string(m.Role), Content: m.Content, Name: m.Name, ToolCallID: m.ToolCallID}
	for _, tc := range m.ToolCalls {
		x := nTC{Index: -1, ID: tc.ID, Type: tc.Type, Name: tc.Function.Name, Args: tc.Function.Arguments}
		if tc.Index != nil {
			x.Index = *tc.Index
		}
		n.TCs = append(n.TCs, x)
	}
	return n
}

func normAll(ms []*schema.Message) []nMsg {
	out := make([]nMsg, len(ms))
	for i, m := range ms {
		out[i] = norm(m)
	}
	return out
}

func (a nMsg) equal(b nMsg) bool {
	if a.Nil != b.Nil || a.Role != b.Role || a.Content != b.Content || a.Name != b.Name || a.ToolCallID != b.ToolCallID || len(a.TCs) != len(b.TCs) {
		return false
	}
	for i := range a.TCs {
		if a.TCs[i] != b.TCs[i] {
			return false
		}
	}
	return true
}

// ---------------------------------------------------------------------------
// Building real messages from specs (always fresh objects: nothing is shared
// between the script, the simulator and what eino gets)
// ---------------------------------------------------------------------------

func buildMsg(m msgSpec) *schema.Message { return buildMsgIdx(m, true) }

func buildMsgIdx(m msgSpec, withIndex bool) *schema.Message {
	out := &schema.Message{Role: schema.RoleType(m.Role), Content: m.Content, Name: m.Name, ToolCallID: m.ToolCallID}
	for j, cl := range m.Calls {
		tc := schema.ToolCall{ID: cl.ID, Type: "function", Function: schema.FunctionCall{Name: cl.Name, Arguments: cl.Args}}
		if withIndex {
			idx := j
			tc.Index = &idx
		}
		out.ToolCalls = append(out.ToolCalls, tc)
	}
	return out
}

func buildInput(c *caseSpec) []*schema.Message {
	out := make([]*schema.Message, 0, len(c.Input))
	for _, m := range c.Input {
		out = append(out, buildMsg(m))
	}
	return out
}

// fullMessage is the complete assistant message of the k-th model call.
func fullMessage(c *caseSpec, k int) *schema.Message {
	s, lap := c.stepFor(k)
	m := msgSpec{Role: "assistant", Content: s.Content}
	for _, cl := range s.Calls {
		m.Calls = append(m.Calls, callSpec{ID: lapID(cl.ID, lap), Name: cl.Name, Args: cl.Args})
	}
	return buildMsgIdx(m, !s.NoIndex)
}

// chunkMessages are the streamed chunks of the k-th model call under the given checker configuration.
func chunkMessages(c *caseSpec, k int, firstChunkContract bool) []*schema.Message {
	s, lap := c.stepFor(k)
	chunks := s.ChunksB
	if firstChunkContract {
		chunks = s.ChunksA
	}
	out := make([]*schema.Message, 0, len(chunks))
	for _, ch := range chunks {
		m := &schema.Message{Role: schema.Assistant, Content: ch.Content}
		if ch.NoRole {
			m.Role = ""
		}
		for _, f := range ch.Frags {
			tc := schema.ToolCall{Function: schema.FunctionCall{Arguments: f.Args}}
			if !s.NoIndex {
				idx := f.TC
				tc.Index = &idx
			}
			if f.Head {
				cl := s.Calls[f.TC]
				tc.ID, tc.Type, tc.Function.Name = lapID(cl.ID, lap), "function", cl.Name
			}
			m.ToolCalls = append(m.ToolCalls, tc)
		}
		out = append(out, m)
	}
	return out
}

// ---------------------------------------------------------------------------
// Recording of one run
// ---------------------------------------------------------------------------

type modelCall struct {
	Mode  string // "generate" | "stream"
	Input []nMsg // deep copy at call time
	Bound bool   // the instance that was called had the tools bound
	// Changed: the input slice the model was given had other contents when the model call
	// was allowed to proceed (gated runs only): somebody wrote into it during the call
	Changed []nMsg
}

type toolInv struct {
	Round  int // number of model calls made before the invocation
	Name   string
	Args   string
	CallID string // compose.GetToolCallID(ctx)
	Via    string // "invoke" | "stream" | "unknown-handler"
}

// checkerObs: what a custom StreamToolCallChecker found in the context it was given.
type checkerObs struct {
	Token    any   // ctx.Value(tokenKey{}): must be the token of the run
	CtorOnly bool  // a value that only the constructor's context carries is visible
	Err      error // ctx.Err() at the time of the call
	HasEnv   bool
}

type runRec struct {
	mu      sync.Mutex
	calls   []modelCall
	tools   []toolInv
	checker []checkerObs
	// modifier: the same observation made by the MessageModifier
	modifier []checkerObs
}

// Context keys. envKey carries the harness' per-run environment, tokenKey the per-run value
// that the custom checkers read; ctorOnlyKey is only ever put into the context given to NewAgent.
type (
	envKey      struct{}
	tokenKey    struct{}
	ctorOnlyKey struct{}
	noiseKey    int
)

// runEnv is the per-run value put into the context passed to Generate / Stream.
type runEnv struct {
	Token string
	Idx   int       // index of the run inside a group of overlapping runs
	c     *caseSpec // script and input of this run (overlapping runs: one script per run)
	rr    *runRec
	sched *sched     // nil: the run is not gated
	early bool       // "value-steered" checker: return at the first tool-call chunk
	fut   *futEnv    // workload "future": producer registry, consumers of nested futures (future_test.go)
	res   *resumeEnv // workload "resume": which calls ask for an interrupt (resume_test.go)
}

func envOf(ctx context.Context) *runEnv {
	e, _ := ctx.Value(envKey{}).(*runEnv)
	return e
}

// recorder is shared by the model instances and tools of one agent. For sequential runs
// cur is switched by the harness between the runs (nothing depends on the context then);
// for overlapping runs (byCtx) a call is attributed to its run through the context that
// eino hands to the model / tool; what cannot be attributed goes to orphan.
type recorder struct {
	mu         sync.Mutex
	cur        *runRec
	byCtx      bool
	orphan     *runRec
	boundInfos [][]string // tool names passed to WithTools / BindTools, per call
}

func (r *recorder) rec() *runRec {
	r.mu.Lock()
	defer r.mu.Unlock()
	return r.cur
}

// recOf: the record (and, for overlapping runs, the environment) of the run ctx belongs to.
func (r *recorder) recOf(ctx context.Context) (*runRec, *runEnv) {
	r.mu.Lock()
	defer r.mu.Unlock()
	if !r.byCtx {
		return r.cur, nil
	}
	if e := envOf(ctx); e != nil && e.rr != nil {
		return e.rr, e
	}
	return r.orphan, nil
}

func (r *recorder) set(x *runRec) {
	r.mu.Lock()
	r.cur = x
	r.mu.Unlock()
}

// ---------------------------------------------------------------------------
// Scripted model
// ---------------------------------------------------------------------------

type scripted struct {
	c          *caseSpec
	a          *agentSpec
	rec        *recorder
	bound      bool
	firstChunk bool // use the contract-conforming chunking
}

// enter records the call (deep copy of the input) and, for a gated run, waits for the
// call's turn; it returns the number k of the call within its run and the run's script.
func (m *scripted) enter(ctx context.Context, mode string, input []*schema.Message) (int, *caseSpec) {
	rr, env := m.rec.recOf(ctx)
	c := m.c
	if env != nil && env.c != nil {
		c = env.c
	}
	rr.mu.Lock()
	rr.calls = append(rr.calls, modelCall{Mode: mode, Input: normAll(input), Bound: m.bound})
	k := len(rr.calls)
	rr.mu.Unlock()
	if env != nil && env.sched != nil {
		env.sched.pass(env.Idx, evModel, k)
		// the messages the model is looking at must still be the ones it was given
		after := normAll(input)
		rr.mu.Lock()
		if !sameMsgs(rr.calls[k-1].Input, after) {
			rr.calls[k-1].Changed = after
		}
		rr.mu.Unlock()
	}
	return k, c
}

func sameMsgs(a, b []nMsg) bool {
	if len(a) != len(b) {
		return false
	}
	for i := range a {
		if !a[i].equal(b[i]) {
			return false
		}
	}
	return true
}

func (m *scripted) Generate(ctx context.Context, input []*schema.Message, _ ...model.Option) (*schema.Message, error) {
	if err := preemptModel(ctx); err != nil {
		return nil, err // workload "resume": this attempt asks for an interrupt; it is not a model call of the history
	}
	k, c := m.enter(ctx, "generate", input)
	if len(c.Script) == 0 {
		return schema.AssistantMessage("call without run context", nil), nil
	}
	return fullMessage(c, k), nil
}

func (m *scripted) Stream(ctx context.Context, input []*schema.Message, _ ...model.Option) (*schema.StreamReader[*schema.Message], error) {
	if err := preemptModel(ctx); err != nil {
		return nil, err
	}
	k, c := m.enter(ctx, "stream", input)
	if len(c.Script) == 0 {
		return schema.StreamReaderFromArray([]*schema.Message{schema.AssistantMessage("call without run context", nil)}), nil
	}
	chunks := chunkMessages(c, k, m.firstChunk)
	if fe := futOf(ctx); fe != nil && fe.unbuffered {
		// workload "future": an unbuffered pipe; the producer is released only by a reader or by Close
		return emitPipe(fe, "model", chunks), nil
	}
	if !m.a.PipeModel {
		return schema.StreamReaderFromArray(chunks), nil
	}
	// capacity = number of chunks: the producer can never block, so it ends even if a
	// reader is abandoned (stream leaks are property C19's business, not C18's).
	sr, sw := schema.Pipe[*schema.Message](len(chunks))
	go func() {
		defer sw.Close()
		for i, ch := range chunks {
			if i%2 == 1 {
				runtime.Gosched()
			}
			if sw.Send(ch, nil) {
				return
			}
		}
	}()
	return sr, nil
}

func (m *scripted) noteBind(tools []*schema.ToolInfo) {
	names := make([]string, 0, len(tools))
	for _, t := range tools {
		names = append(names, t.Name)
	}
	m.rec.mu.Lock()
	m.rec.boundInfos = append(m.rec.boundInfos, names)
	m.rec.mu.Unlock()
}

// tcModel implements model.ToolCallingChatModel (and not ChatModel).
type tcModel struct{ scripted }

func (m *tcModel) WithTools(tools []*schema.ToolInfo) (model.ToolCallingChatModel, error) {
	m.noteBind(tools)
	n := *m
	n.bound = true
	return &n, nil
}

// cmModel implements the deprecated model.ChatModel.
type cmModel struct{ scripted }

func (m *cmModel) BindTools(tools []*schema.ToolInfo) error {
	m.noteBind(tools)
	m.bound = true
	return nil
}

var (
	_ model.ToolCallingChatModel = (*tcModel)(nil)
	_ model.ChatModel            = (*cmModel)(nil)
)

// ---------------------------------------------------------------------------
// Tools: pure functions of (name, args); every invocation is recorded
// ---------------------------------------------------------------------------

var errTool = errors.New("scripted tool failure")

// toolResult is THE tool function, shared by the real tools and the simulator.
// args starting with "!" make the tool fail, the argument "e" gives an empty result.
func toolResult(name, args string) (string, bool) {
	if strings.HasPrefix(args, "!") {
		return "", false
	}
	if args == "e" {
		return "", true
	}
	return name + "(" + args + ")=" + mon.H8(name+"\x00"+args), true
}

// unknownResult is what the UnknownToolsHandler answers.
func unknownResult(name, args string) string {
	return "no such tool " + name + " [" + args + "]"
}

type baseTool struct {
	spec toolSpec
	c    *caseSpec
	rec  *recorder
	// inner (workload "future"): the tool computes its result by running a compiled graph / chain /
	// workflow / another agent with the context it was handed; nil = the plain function
	inner *innerRun
}

func (t *baseTool) Info(context.Context) (*schema.ToolInfo, error) {
	return &schema.ToolInfo{Name: t.spec.Name, Desc: "scripted tool " + t.spec.Name}, nil
}

func (t *baseTool) note(ctx context.Context, args, via string) {
	noteTool(t.rec, ctx, t.spec.Name, args, via)
}

// noteTool records a tool invocation with the round it belongs to (= number of model calls
// its run has made) and, for a gated run, holds the tool until it is the round's turn.
func noteTool(rec *recorder, ctx context.Context, name, args, via string) {
	rr, env := rec.recOf(ctx)
	rr.mu.Lock()
	round := len(rr.calls)
	rr.tools = append(rr.tools, toolInv{Round: round, Name: name, Args: args, CallID: compose.GetToolCallID(ctx), Via: via})
	rr.mu.Unlock()
	if env != nil && env.sched != nil {
		env.sched.pass(env.Idx, evTools, round)
	}
}

func (t *baseTool) invoke(ctx context.Context, args string) (string, error) {
	if err := preemptTool(ctx, t.spec.Name, args); err != nil {
		return "", err // workload "resume": this attempt asks for an interrupt
	}
	t.note(ctx, args, "invoke")
	if t.inner != nil {
		return t.inner.invoke(ctx, args)
	}
	res, ok := toolResult(t.spec.Name, args)
	if !ok {
		return "", errTool
	}
	return res, nil
}

func (t *baseTool) stream(ctx context.Context, args string) (*schema.StreamReader[string], error) {
	if err := preemptTool(ctx, t.spec.Name, args); err != nil {
		return nil, err
	}
	t.note(ctx, args, "stream")
	if t.inner != nil {
		return t.inner.stream(ctx, args)
	}
	res, ok := toolResult(t.spec.Name, args)
	if !ok && !strings.HasPrefix(args, "!!") {
		return nil, errTool
	}
	// chunking of the output: a pure function of (salt, name, args): at least one chunk
	r := mon.Fork(t.c.Salt, t.spec.Name, args)
	if !ok {
		// "!!": fails in the middle of its output stream
		sr, sw := schema.Pipe[string](3)
		sw.Send("partial ", nil)
		sw.Send("", errTool)
		sw.Close()
		return sr, nil
	}
	n := r.Range(1, 4)
	if t.c.ToolChunkMax > 1 {
		n = r.Range(2, t.c.ToolChunkMax)
	}
	return emitStrings(ctx, "tool "+t.spec.Name, splitStr(r, res, n)), nil
}

type invTool struct{ baseTool }

func (t *invTool) InvokableRun(ctx context.Context, args string, _ ...tool.Option) (string, error) {
	return t.invoke(ctx, args)
}

type strTool struct{ baseTool }

func (t *strTool) StreamableRun(ctx context.Context, args string, _ ...tool.Option) (*schema.StreamReader[string], error) {
	return t.stream(ctx, args)
}

type bothTool struct{ baseTool }

func (t *bothTool) InvokableRun(ctx context.Context, args string, _ ...tool.Option) (string, error) {
	return t.invoke(ctx, args)
}
func (t *bothTool) StreamableRun(ctx context.Context, args string, _ ...tool.Option) (*schema.StreamReader[string], error) {
	return t.stream(ctx, args)
}

func buildTools(c *caseSpec, rec *recorder) []tool.BaseTool {
	var out []tool.BaseTool
	for i, ts := range c.Tools {
		b := baseTool{spec: ts, c: c, rec: rec}
		if c.Future != nil {
			b.inner = buildInner(c, ts, c.Future.ToolImpl[i], c.Future.ToolVia[i])
		}
		switch ts.Kind {
		case toolInvokable:
			out = append(out, &invTool{b})
		case toolStreamable:
			out = append(out, &strTool{b})
		default:
			out = append(out, &bothTool{b})
		}
	}
	return out
}

func unknownHandler(rec *recorder) func(ctx context.Context, name, input string) (string, error) {
	return func(ctx context.Context, name, input string) (string, error) {
		noteTool(rec, ctx, name, input, "unknown-handler")
		return unknownResult(name, input), nil
	}
}

// ---------------------------------------------------------------------------
// Message modifiers: pure list -> list functions, applied by eino to a copy of
// the history and by the simulator to its own expected history
// ---------------------------------------------------------------------------

func applyModifier(kind int, in []*schema.Message) []*schema.Message {
	switch kind {
	case 1: // persona
		out := make([]*schema.Message, 0, len(in)+1)
		out = append(out, schema.SystemMessage("persona"))
		return append(out, in...)
	case 2: // persona + trailing reminder
		out := make([]*schema.Message, 0, len(in)+2)
		out = append(out, schema.SystemMessage("persona"))
		out = append(out, in...)
		return append(out, schema.UserMessage(fmt.Sprintf("reminder: %d messages so far", len(in))))
	case 3: // writes into the slice it was given (must be a copy): not idempotent on purpose
		if len(in) > 0 {
			first := "<nil>"
			if in[0] != nil {
				first = in[0].Content
			}
			in[0] = schema.SystemMessage("ovr:" + first)
		}
		return in
	case 4: // window: only the last three messages
		if len(in) > 3 {
			return in[len(in)-3:]
		}
		return in
	}
	return in
}

func sortedInv(xs []toolInv) []string {
	out := make([]string, 0, len(xs))
	for _, x := range xs {
		out = append(out, fmt.Sprintf("%s|%s|%s", x.Name, x.CallID, x.Args))
	}
	sort.Strings(out)
	return out
}
