package c18

import (
	"context"
	"errors"
	"fmt"
	"io"
	"runtime"
	"sort"
	"strings"
	"sync"

	"github.com/cloudwego/eino/components/model"
	"github.com/cloudwego/eino/components/tool"
	"github.com/cloudwego/eino/compose"
	"github.com/cloudwego/eino/schema"

	"verifharness/internal/mon"
)

// ---------------------------------------------------------------------------
// Normal form of messages (what the oracle compares)
// ---------------------------------------------------------------------------

type nTC struct {
	Index int    `json:"index"` // -1: nil
	ID    string `json:"id"`
	Type  string `json:"type"`
	Name  string `json:"name"`
	Args  string `json:"args"`
}

type nMsg struct {
	Nil        bool   `json:"nil,omitempty"`
	Role       string `json:"role"`
	Content    string `json:"content"`
	Name       string `json:"name,omitempty"`
	ToolCallID string `json:"tool_call_id,omitempty"`
	TCs        []nTC  `json:"tcs,omitempty"`
}

func norm(m *schema.Message) nMsg {
	if m == nil {
		return nMsg{Nil: true}
	}
	n := nMsg{Role: string(m.Role), Content: m.Content, Name: m.Name, ToolCallID: m.ToolCallID}
	for _, tc := range m.ToolCalls {
		x := nTC{Index: -1, ID: tc.ID, Type: tc.Type, Name: tc.Function.Name, Args: tc.Function.Arguments}
		if tc.Index != nil {
			x.Index = *tc.Index
		}
		n.TCs = append(n.TCs, x)
	}
	return n
}

func normAll(ms []*schema.Message) []nMsg {
	out := make([]nMsg, len(ms))
	for i, m := range ms {
		out[i] = norm(m)
	}
	return out
}

func (a nMsg) equal(b nMsg) bool {
	if a.Nil != b.Nil || a.Role != b.Role || a.Content != b.Content || a.Name != b.Name || a.ToolCallID != b.ToolCallID || len(a.TCs) != len(b.TCs) {
		return false
	}
	for i := range a.TCs {
		if a.TCs[i] != b.TCs[i] {
			return false
		}
	}
	return true
}

// ---------------------------------------------------------------------------
// Building real messages from specs (always fresh objects: nothing is shared
// between the script, the simulator and what eino gets)
// ---------------------------------------------------------------------------

func buildMsg(m msgSpec) *schema.Message { return buildMsgIdx(m, true) }

func buildMsgIdx(m msgSpec, withIndex bool) *schema.Message {
	out := &schema.Message{Role: schema.RoleType(m.Role), Content: m.Content, Name: m.Name, ToolCallID: m.ToolCallID}
	for j, cl := range m.Calls {
		tc := schema.ToolCall{ID: cl.ID, Type: "function", Function: schema.FunctionCall{Name: cl.Name, Arguments: cl.Args}}
		if withIndex {
			idx := j
			tc.Index = &idx
		}
		out.ToolCalls = append(out.ToolCalls, tc)
	}
	return out
}

func buildInput(c *caseSpec) []*schema.Message {
	out := make([]*schema.Message, 0, len(c.Input))
	for _, m := range c.Input {
		out = append(out, buildMsg(m))
	}
	return out
}

// fullMessage is the complete assistant message of the k-th model call.
func fullMessage(c *caseSpec, k int) *schema.Message {
	s, lap := c.stepFor(k)
	m := msgSpec{Role: "assistant", Content: s.Content}
	for _, cl := range s.Calls {
		m.Calls = append(m.Calls, callSpec{ID: lapID(cl.ID, lap), Name: cl.Name, Args: cl.Args})
	}
	return buildMsgIdx(m, !s.NoIndex)
}

// chunkMessages are the streamed chunks of the k-th model call under the given checker configuration.
func chunkMessages(c *caseSpec, k int, firstChunkContract bool) []*schema.Message {
	s, lap := c.stepFor(k)
	chunks := s.ChunksB
	if firstChunkContract {
		chunks = s.ChunksA
	}
	out := make([]*schema.Message, 0, len(chunks))
	for _, ch := range chunks {
		m := &schema.Message{Role: schema.Assistant, Content: ch.Content}
		if ch.NoRole {
			m.Role = ""
		}
		for _, f := range ch.Frags {
			tc := schema.ToolCall{Function: schema.FunctionCall{Arguments: f.Args}}
			if !s.NoIndex {
				idx := f.TC
				tc.Index = &idx
			}
			if f.Head {
				cl := s.Calls[f.TC]
				tc.ID, tc.Type, tc.Function.Name = lapID(cl.ID, lap), "function", cl.Name
			}
			m.ToolCalls = append(m.ToolCalls, tc)
		}
		out = append(out, m)
	}
	return out
}

// ---------------------------------------------------------------------------
// Recording of one run
// ---------------------------------------------------------------------------

type modelCall struct {
	Mode  string // "generate" | "stream"
	Input []nMsg // deep copy at call time
	Bound bool   // the instance that was called had the tools bound
}

type toolInv struct {
	Round  int // number of model calls made before the invocation
	Name   string
	Args   string
	CallID string // compose.GetToolCallID(ctx)
	Via    string // "invoke" | "stream" | "unknown-handler"
}

type ctxKey struct{}

type runRec struct {
	mu           sync.Mutex
	calls        []modelCall
	tools        []toolInv
	checkerCalls int
	checkerCtxOK int // the checker's ctx carried the value of the run's ctx
}

// recorder is shared by the model instances and tools of one agent; cur is switched
// by the harness between the (strictly sequential) runs.
type recorder struct {
	mu         sync.Mutex
	cur        *runRec
	boundInfos [][]string // tool names passed to WithTools / BindTools, per call
}

func (r *recorder) rec() *runRec {
	r.mu.Lock()
	defer r.mu.Unlock()
	return r.cur
}

func (r *recorder) set(x *runRec) {
	r.mu.Lock()
	r.cur = x
	r.mu.Unlock()
}

// ---------------------------------------------------------------------------
// Scripted model
// ---------------------------------------------------------------------------

type scripted struct {
	c          *caseSpec
	a          *agentSpec
	rec        *recorder
	bound      bool
	firstChunk bool // use the contract-conforming chunking
}

func (m *scripted) record(mode string, input []*schema.Message) int {
	rr := m.rec.rec()
	rr.mu.Lock()
	defer rr.mu.Unlock()
	rr.calls = append(rr.calls, modelCall{Mode: mode, Input: normAll(input), Bound: m.bound})
	return len(rr.calls)
}

func (m *scripted) Generate(_ context.Context, input []*schema.Message, _ ...model.Option) (*schema.Message, error) {
	k := m.record("generate", input)
	return fullMessage(m.c, k), nil
}

func (m *scripted) Stream(_ context.Context, input []*schema.Message, _ ...model.Option) (*schema.StreamReader[*schema.Message], error) {
	k := m.record("stream", input)
	chunks := chunkMessages(m.c, k, m.firstChunk)
	if !m.a.PipeModel {
		return schema.StreamReaderFromArray(chunks), nil
	}
	// capacity = number of chunks: the producer can never block, so it ends even if a
	// reader is abandoned (stream leaks are property C19's business, not C18's).
	sr, sw := schema.Pipe[*schema.Message](len(chunks))
	go func() {
		defer sw.Close()
		for i, ch := range chunks {
			if i%2 == 1 {
				runtime.Gosched()
			}
			if sw.Send(ch, nil) {
				return
			}
		}
	}()
	return sr, nil
}

func (m *scripted) noteBind(tools []*schema.ToolInfo) {
	names := make([]string, 0, len(tools))
	for _, t := range tools {
		names = append(names, t.Name)
	}
	m.rec.mu.Lock()
	m.rec.boundInfos = append(m.rec.boundInfos, names)
	m.rec.mu.Unlock()
}

// tcModel implements model.ToolCallingChatModel (and not ChatModel).
type tcModel struct{ scripted }

func (m *tcModel) WithTools(tools []*schema.ToolInfo) (model.ToolCallingChatModel, error) {
	m.noteBind(tools)
	n := *m
	n.bound = true
	return &n, nil
}

// cmModel implements the deprecated model.ChatModel.
type cmModel struct{ scripted }

func (m *cmModel) BindTools(tools []*schema.ToolInfo) error {
	m.noteBind(tools)
	m.bound = true
	return nil
}

var (
	_ model.ToolCallingChatModel = (*tcModel)(nil)
	_ model.ChatModel            = (*cmModel)(nil)
)

// ---------------------------------------------------------------------------
// Tools: pure functions of (name, args); every invocation is recorded
// ---------------------------------------------------------------------------

var errTool = errors.New("scripted tool failure")

// toolResult is THE tool function, shared by the real tools and the simulator.
// args starting with "!" make the tool fail, the argument "e" gives an empty result.
func toolResult(name, args string) (string, bool) {
	if strings.HasPrefix(args, "!") {
		return "", false
	}
	if args == "e" {
		return "", true
	}
	return name + "(" + args + ")=" + mon.H8(name+"\x00"+args), true
}

// unknownResult is what the UnknownToolsHandler answers.
func unknownResult(name, args string) string {
	return "no such tool " + name + " [" + args + "]"
}

type baseTool struct {
	spec toolSpec
	c    *caseSpec
	rec  *recorder
}

func (t *baseTool) Info(context.Context) (*schema.ToolInfo, error) {
	return &schema.ToolInfo{Name: t.spec.Name, Desc: "scripted tool " + t.spec.Name}, nil
}

func (t *baseTool) note(ctx context.Context, args, via string) {
	rr := t.rec.rec()
	rr.mu.Lock()
	rr.tools = append(rr.tools, toolInv{Round: len(rr.calls), Name: t.spec.Name, Args: args, CallID: compose.GetToolCallID(ctx), Via: via})
	rr.mu.Unlock()
}

func (t *baseTool) invoke(ctx context.Context, args string) (string, error) {
	t.note(ctx, args, "invoke")
	res, ok := toolResult(t.spec.Name, args)
	if !ok {
		return "", errTool
	}
	return res, nil
}

func (t *baseTool) stream(ctx context.Context, args string) (*schema.StreamReader[string], error) {
	t.note(ctx, args, "stream")
	res, ok := toolResult(t.spec.Name, args)
	if !ok && !strings.HasPrefix(args, "!!") {
		return nil, errTool
	}
	// chunking of the output: a pure function of (salt, name, args): at least one chunk
	r := mon.Fork(t.c.Salt, t.spec.Name, args)
	if !ok {
		// "!!": fails in the middle of its output stream
		sr, sw := schema.Pipe[string](3)
		sw.Send("partial ", nil)
		sw.Send("", errTool)
		sw.Close()
		return sr, nil
	}
	parts := splitStr(r, res, r.Range(1, 4))
	return schema.StreamReaderFromArray(parts), nil
}

type invTool struct{ baseTool }

func (t *invTool) InvokableRun(ctx context.Context, args string, _ ...tool.Option) (string, error) {
	return t.invoke(ctx, args)
}

type strTool struct{ baseTool }

func (t *strTool) StreamableRun(ctx context.Context, args string, _ ...tool.Option) (*schema.StreamReader[string], error) {
	return t.stream(ctx, args)
}

type bothTool struct{ baseTool }

func (t *bothTool) InvokableRun(ctx context.Context, args string, _ ...tool.Option) (string, error) {
	return t.invoke(ctx, args)
}
func (t *bothTool) StreamableRun(ctx context.Context, args string, _ ...tool.Option) (*schema.StreamReader[string], error) {
	return t.stream(ctx, args)
}

func buildTools(c *caseSpec, rec *recorder) []tool.BaseTool {
	var out []tool.BaseTool
	for _, ts := range c.Tools {
		b := baseTool{spec: ts, c: c, rec: rec}
		switch ts.Kind {
		case toolInvokable:
			out = append(out, &invTool{b})
		case toolStreamable:
			out = append(out, &strTool{b})
		default:
			out = append(out, &bothTool{b})
		}
	}
	return out
}

func unknownHandler(rec *recorder) func(ctx context.Context, name, input string) (string, error) {
	return func(ctx context.Context, name, input string) (string, error) {
		rr := rec.rec()
		rr.mu.Lock()
		rr.tools = append(rr.tools, toolInv{Round: len(rr.calls), Name: name, Args: input, CallID: compose.GetToolCallID(ctx), Via: "unknown-handler"})
		rr.mu.Unlock()
		return unknownResult(name, input), nil
	}
}

// ---------------------------------------------------------------------------
// Custom full-scan StreamToolCallChecker (configuration b)
// ---------------------------------------------------------------------------

func fullScanChecker(rec *recorder, early bool) func(ctx context.Context, sr *schema.StreamReader[*schema.Message]) (bool, error) {
	return func(ctx context.Context, sr *schema.StreamReader[*schema.Message]) (bool, error) {
		defer sr.Close()
		rr := rec.rec()
		rr.mu.Lock()
		rr.checkerCalls++
		if ctx.Value(ctxKey{}) != nil {
			rr.checkerCtxOK++
		}
		rr.mu.Unlock()
		has := false
		for {
			m, err := sr.Recv()
			if err == io.EOF {
				return has, nil
			}
			if err != nil {
				return false, err
			}
			if len(m.ToolCalls) > 0 {
				has = true
				if early {
					return true, nil
				}
			}
		}
	}
}

// ---------------------------------------------------------------------------
// Message modifiers: pure list -> list functions, applied by eino to a copy of
// the history and by the simulator to its own expected history
// ---------------------------------------------------------------------------

func applyModifier(kind int, in []*schema.Message) []*schema.Message {
	switch kind {
	case 1: // persona
		out := make([]*schema.Message, 0, len(in)+1)
		out = append(out, schema.SystemMessage("persona"))
		return append(out, in...)
	case 2: // persona + trailing reminder
		out := make([]*schema.Message, 0, len(in)+2)
		out = append(out, schema.SystemMessage("persona"))
		out = append(out, in...)
		return append(out, schema.UserMessage(fmt.Sprintf("reminder: %d messages so far", len(in))))
	case 3: // writes into the slice it was given (must be a copy): not idempotent on purpose
		if len(in) > 0 {
			first := "<nil>"
			if in[0] != nil {
				first = in[0].Content
			}
			in[0] = schema.SystemMessage("ovr:" + first)
		}
		return in
	case 4: // window: only the last three messages
		if len(in) > 3 {
			return in[len(in)-3:]
		}
		return in
	}
	return in
}

func sortedInv(xs []toolInv) []string {
	out := make([]string, 0, len(xs))
	for _, x := range xs {
		out = append(out, fmt.Sprintf("%s|%s|%s", x.Name, x.CallID, x.Args))
	}
	sort.Strings(out)
	return out
}
