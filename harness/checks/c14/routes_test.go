package c14

import (
	"context"
	"errors"
	"fmt"
	"io"
	"reflect"
	"strings"

	"github.com/cloudwego/eino/compose"
	"github.com/cloudwego/eino/schema"

	"verifharness/internal/mon"
)

// ---------------------------------------------------------------------------
// custom chunk types

// Reg has a registered concat function (compose.RegisterStreamChunkConcatFunc).
type Reg struct {
	S    string
	N    int
	Tags []string
}

// Unreg has none: only the generic "at most one non-zero chunk" rule applies.
type Unreg struct {
	A string
	B int
}

// MyStr is a named string type without registration.
type MyStr string

var errPoison = errors.New("reg: negative N")

// regConcat is associative (string join, sum, append) and fails iff a chunk is
// "poisoned" (N<0), so that the laws are meaningful for it.
func regConcat(items []Reg) (Reg, error) {
	var out Reg
	for _, it := range items {
		if it.N < 0 {
			return Reg{}, errPoison
		}
		out.S += it.S
		out.N += it.N
		out.Tags = append(out.Tags, it.Tags...)
	}
	return out, nil
}

func init() {
	compose.RegisterStreamChunkConcatFunc(regConcat)
}

// ---------------------------------------------------------------------------
// outcome of one concatenation

type outcome[T any] struct {
	val   T
	err   error
	panic *panicInfo
}

func (o outcome[T]) failed() bool { return o.err != nil }

type panicInfo struct {
	value string
	frame string // first eino frame below the panic
	stack string
	viaCM bool // schema.ConcatMessages is on the panicking stack
}

// route = one public way to concatenate a chunk sequence.
type route[T any] struct {
	name   string
	direct bool // ConcatMessages itself (no "single chunk is passed through" rule)
	minLen int
	graph  bool
	f      func([]T) outcome[T]
}

func callSafe[T any](f func() (T, error)) (o outcome[T]) {
	p := mon.Safe(func() { o.val, o.err = f() })
	if p != nil {
		var zero T
		o.val, o.err = zero, nil
		o.panic = &panicInfo{value: p.Value, stack: p.Stack, frame: einoFrameBelowPanic(p.Stack), viaCM: strings.Contains(p.Stack, "schema.ConcatMessages(")}
		return o
	}
	if o.err != nil {
		if pi := recoveredPanic(o.err); pi != nil {
			o.panic = pi
		}
	}
	return o
}

// einoFrameBelowPanic returns the innermost eino function that was running when the
// panic was raised (first eino frame after the runtime's panic frame).
func einoFrameBelowPanic(stack string) string {
	lines := strings.Split(stack, "\n")
	// the original panic is the deepest "panic(" frame: a deferred function that
	// panics again while the first panic unwinds sits above it
	last := -1
	for i, l := range lines {
		if strings.HasPrefix(l, "panic(") {
			last = i
		}
	}
	if last < 0 {
		return "unknown-frame"
	}
	for _, l := range lines[last+1:] {
		if strings.HasPrefix(l, "\t") || strings.HasPrefix(l, " ") {
			continue
		}
		if strings.HasPrefix(l, "github.com/cloudwego/eino/") {
			l = strings.TrimPrefix(l, "github.com/cloudwego/eino/")
			if i := strings.LastIndexByte(l, '('); i > 0 {
				l = l[:i]
			}
			if i := strings.Index(l, "[...]"); i > 0 {
				l = l[:i]
			}
			return l
		}
	}
	return "unknown-frame"
}

// recoveredPanic recognises the error that the graph executor builds from a panic
// it recovered in a node (internal/safe.panicErr: unexported type in an internal
// package, wrapped by compose.internalError which has no Unwrap). The chain is
// searched by type; the fixed marker of panicErr.Error() is the fallback handle.
func recoveredPanic(err error) *panicInfo {
	found := false
	for e := err; e != nil; e = errors.Unwrap(e) {
		if strings.HasSuffix(reflect.TypeOf(e).String(), "safe.panicErr") {
			found = true
		}
	}
	msg := err.Error()
	i := strings.Index(msg, "panic error: ")
	if !found && (i < 0 || !strings.Contains(msg, "\nstack: ")) {
		return nil
	}
	pi := &panicInfo{value: "recovered by graph executor", stack: msg}
	if i >= 0 {
		rest := msg[i+len("panic error: "):]
		if j := strings.Index(rest, "\nstack: "); j >= 0 {
			pi.value = "recovered by graph executor: " + strings.TrimSuffix(strings.TrimSpace(rest[:j]), ",")
			pi.stack = rest[j+len("\nstack: "):]
		}
	}
	pi.frame = einoFrameBelowPanic(pi.stack)
	pi.viaCM = strings.Contains(pi.stack, "schema.ConcatMessages(")
	return pi
}

// ---------------------------------------------------------------------------
// routes over the public API

var bg = context.Background()

func routeConcatMessages() route[*schema.Message] {
	return route[*schema.Message]{name: "ConcatMessages", direct: true, minLen: 0,
		f: func(c []*schema.Message) outcome[*schema.Message] {
			return callSafe(func() (*schema.Message, error) { return schema.ConcatMessages(c) })
		}}
}

func routeConcatMessageStream() route[*schema.Message] {
	return route[*schema.Message]{name: "ConcatMessageStream", minLen: 0,
		f: func(c []*schema.Message) outcome[*schema.Message] {
			return callSafe(func() (*schema.Message, error) {
				sr := schema.StreamReaderFromArray(c)
				defer sr.Close()
				return schema.ConcatMessageStream(sr)
			})
		}}
}

// graphInvoke: START → stream-only lambda (emits the given chunks) → END, called with
// Invoke: the framework must turn the node's stream into one value
// (invokeByStream → concatStreamReader → internal.ConcatItems).
func graphInvoke[T any](typeName string) route[T] {
	g := compose.NewGraph[[]T, T]()
	must(g.AddLambdaNode("s", compose.StreamableLambda(func(ctx context.Context, in []T) (*schema.StreamReader[T], error) {
		return schema.StreamReaderFromArray(in), nil
	})))
	must(g.AddEdge(compose.START, "s"))
	must(g.AddEdge("s", compose.END))
	r, err := g.Compile(bg)
	must(err)
	return route[T]{name: "graph-invoke[" + typeName + "]", minLen: 0, graph: true,
		f: func(c []T) outcome[T] {
			return callSafe(func() (T, error) { return r.Invoke(bg, c) })
		}}
}

type gstate struct{ N int }

// graphStreamState: START → stream-only lambda → pass-through transformer with a
// non-stream state pre-handler → END, called with Stream: the pre-handler forces the
// other stream-to-value conversion (generic_helper concatStream → concatStreamReader).
// The output stream must then carry exactly one chunk: the concatenated value.
func graphStreamState[T any](typeName string) route[T] {
	g := compose.NewGraph[[]T, T](compose.WithGenLocalState(func(ctx context.Context) *gstate { return &gstate{} }))
	must(g.AddLambdaNode("s", compose.StreamableLambda(func(ctx context.Context, in []T) (*schema.StreamReader[T], error) {
		return schema.StreamReaderFromArray(in), nil
	})))
	must(g.AddLambdaNode("p", compose.TransformableLambda(func(ctx context.Context, in *schema.StreamReader[T]) (*schema.StreamReader[T], error) {
		return in, nil
	}), compose.WithStatePreHandler(func(ctx context.Context, in T, st *gstate) (T, error) {
		st.N++
		return in, nil
	})))
	must(g.AddEdge(compose.START, "s"))
	must(g.AddEdge("s", "p"))
	must(g.AddEdge("p", compose.END))
	r, err := g.Compile(bg)
	must(err)
	return route[T]{name: "graph-stream-statehandler[" + typeName + "]", minLen: 1, graph: true,
		f: func(c []T) outcome[T] {
			return callSafe(func() (T, error) {
				var zero T
				sr, err := r.Stream(bg, c)
				if err != nil {
					return zero, err
				}
				defer sr.Close()
				var got []T
				for {
					x, err := sr.Recv()
					if err == io.EOF {
						break
					}
					if err != nil {
						return zero, err
					}
					got = append(got, x)
				}
				if len(got) != 1 {
					return zero, fmt.Errorf("%w: %d chunks after the state handler", errHarnessShape, len(got))
				}
				return got[0], nil
			})
		}}
}

// interfaceRoute: chunks of static type `any`. A graph cannot hand a nil interface from
// one node to the next (the run ends with "no tasks to execute"; the properties do not
// speak about nil-interface node outputs), so the result of an all-nil sequence is not
// observable through the public API: such a sequence is still sent through the graph
// when it has ≥2 chunks (a panic is observable), but its result is taken to be nil, and
// a single nil chunk (passed through untouched by contract) is not sent at all.
func interfaceRoute() route[any] {
	rt := graphInvoke[any]("any")
	inner := rt.f
	rt.f = func(c []any) outcome[any] {
		allNil := len(c) > 0
		for _, x := range c {
			if x != nil {
				allNil = false
			}
		}
		if allNil && len(c) == 1 {
			return outcome[any]{}
		}
		o := inner(c)
		if allNil && o.panic == nil {
			return outcome[any]{}
		}
		return o
	}
	return rt
}

var errHarnessShape = errors.New("unexpected stream shape")

func must(err error) {
	if err != nil {
		panic(err)
	}
}
