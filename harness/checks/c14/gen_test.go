package c14

import (
	"math"
	"strconv"

	"github.com/cloudwego/eino/schema"

	"verifharness/internal/mon"
)

// ---------------------------------------------------------------------------
// workload generators: pure functions of *mon.Rand (no map iteration, no time)

var fragments = []string{"a", "b", "c", "{", "}", "\"", ":", " ", "é", "世", "0", "x1"}

func genStr(r *mon.Rand, lo, hi int) string {
	n := r.Range(lo, hi)
	s := ""
	for i := 0; i < n; i++ {
		s += mon.PickOne(r, fragments)
	}
	return s
}

func genLen(r *mon.Rand) int {
	p := r.Intn(100)
	switch {
	case p < 1:
		return 0
	case p < 5:
		return 1
	case p < 88:
		return r.Range(2, 8)
	default:
		return r.Range(9, 20)
	}
}

// ---- map schemas (Extra maps and map[string]any chunks) --------------------

type fieldKind int

const (
	fString fieldKind = iota
	fInt
	fFloat
	fBool
	fInt64
	fMap
	fSlice
	fStrSlice
	fTypedMap
	fMsg
	fMsgs
	fReg
	fUnreg
	fNamed
	fKeyed // a map with another key type than string (keyed_maps_test.go); the variant is fixed per schema key
	nFieldKinds
)

var leafKinds = []fieldKind{fString, fInt, fFloat, fBool, fInt64, fSlice, fStrSlice, fTypedMap, fReg, fUnreg, fNamed}

type mapSchema struct {
	keys  []string
	kinds []fieldKind
	subs  []*mapSchema
	vars  []int // fKeyed: which map type
	depth int
}

type genEnv struct {
	conflictProb float64 // a value of another kind than the schema says
	nilProb      float64 // untyped nil as a map value (known defect D-C14)
	nzProb       float64 // "single non-zero" kinds: probability of a non-zero value
	presentProb  float64
	maxDepth     int
	nanProb      float64 // float keys / float values: probability of NaN
	keyedProb    float64 // schema keys that hold a map with non-string keys
	// observed while generating
	sawNaN    bool
	sawKeyed  bool
	sawNil    bool
	sawDepth  int
	conflicts int
}

func genSchema(r *mon.Rand, depth, maxDepth int, rich bool) *mapSchema {
	return genSchemaK(r, depth, maxDepth, rich, 0)
}

// genSchemaK: keyedProb = share of the keys that hold a map with non-string keys
func genSchemaK(r *mon.Rand, depth, maxDepth int, rich bool, keyedProb float64) *mapSchema {
	s := &mapSchema{depth: depth}
	nk := r.Range(1, 4)
	if depth > 1 {
		nk = r.Range(1, 3)
	}
	perm := r.Perm(6)[:nk]
	// sorted key order
	used := [6]bool{}
	for _, p := range perm {
		used[p] = true
	}
	for i := 0; i < 6; i++ {
		if !used[i] {
			continue
		}
		s.keys = append(s.keys, "k"+strconv.Itoa(i))
		var k fieldKind
		p := r.Intn(100)
		switch {
		case p < 28:
			k = fString
		case p < 38:
			k = fInt
		case p < 45:
			k = fFloat
		case p < 50:
			k = fBool
		case p < 53:
			k = fInt64
		case p < 73:
			k = fMap
		case p < 79:
			k = fSlice
		case p < 82:
			k = fStrSlice
		case p < 86:
			k = fTypedMap
		case p < 90:
			k = fReg
		case p < 93:
			k = fUnreg
		case p < 95:
			k = fNamed
		case p < 98:
			k = fMsg
		default:
			k = fMsgs
		}
		if !rich && (k == fMsg || k == fMsgs) {
			k = fString
		}
		variant := 0
		if keyedProb > 0 && r.Prob(keyedProb) {
			k = fKeyed
			variant = r.Intn(nKeyedVariants)
		}
		var sub *mapSchema
		if k == fMap {
			if depth >= maxDepth {
				k = fString
			} else {
				sub = genSchemaK(r, depth+1, maxDepth, rich, keyedProb)
			}
		}
		s.kinds = append(s.kinds, k)
		s.subs = append(s.subs, sub)
		s.vars = append(s.vars, variant)
	}
	return s
}

func genMapBySchema(r *mon.Rand, s *mapSchema, e *genEnv) map[string]any {
	m := map[string]any{}
	if s.depth > e.sawDepth {
		e.sawDepth = s.depth
	}
	for i, k := range s.keys {
		if !r.Prob(e.presentProb) {
			continue
		}
		if e.nilProb > 0 && r.Prob(e.nilProb) {
			m[k] = nil
			e.sawNil = true
			continue
		}
		kind := s.kinds[i]
		if e.conflictProb > 0 && r.Prob(e.conflictProb) {
			kind = mon.PickOne(r, leafKinds)
			e.conflicts++
		}
		if kind == fKeyed {
			e.sawKeyed = true
			m[k] = genKeyed(r, s.vars[i], e)
			continue
		}
		m[k] = genValue(r, kind, s.subs[i], e)
	}
	return m
}

func genLeaf(r *mon.Rand) any {
	switch r.Intn(5) {
	case 0:
		return genStr(r, 0, 3)
	case 1:
		return r.Intn(50)
	case 2:
		return float64(r.Intn(400)) / 8
	case 3:
		return r.Bool()
	default:
		return map[string]any{"z": genStr(r, 1, 2)}
	}
}

func genValue(r *mon.Rand, kind fieldKind, sub *mapSchema, e *genEnv) any {
	switch kind {
	case fString:
		return genStr(r, 0, 4)
	case fInt:
		return r.Intn(100) - 10
	case fFloat:
		if e.nanProb > 0 && r.Prob(e.nanProb) {
			// builtin scalar: the last value wins, whatever it is
			e.sawNaN = true
			return mon.PickOne(r, []float64{math.NaN(), math.Inf(1), negZero()})
		}
		return float64(r.Intn(1000)) / 8
	case fBool:
		return r.Bool()
	case fInt64:
		return int64(r.Intn(1000))
	case fMap:
		if sub == nil {
			return map[string]any{"z": genStr(r, 0, 2)}
		}
		if r.Prob(0.04) {
			return map[string]any(nil)
		}
		return genMapBySchema(r, sub, e)
	case fSlice:
		if !r.Prob(e.nzProb) {
			return []any(nil)
		}
		n := r.Range(0, 3) // 0: empty but non-nil, which is a non-zero value
		out := make([]any, n)
		for i := range out {
			out[i] = genLeaf(r)
		}
		return out
	case fStrSlice:
		if !r.Prob(e.nzProb) {
			return []string(nil)
		}
		return []string{genStr(r, 0, 2), genStr(r, 1, 2)}
	case fTypedMap:
		m := map[string]string{}
		for _, k := range []string{"a", "b"} {
			if r.Bool() {
				m[k] = genStr(r, 0, 3)
			}
		}
		return m
	case fReg:
		return genReg(r, 0)
	case fUnreg:
		if !r.Prob(e.nzProb) {
			return Unreg{}
		}
		return Unreg{A: genStr(r, 1, 3), B: r.Intn(9)}
	case fNamed:
		if !r.Prob(e.nzProb) {
			return MyStr("")
		}
		return MyStr(genStr(r, 1, 3))
	case fMsg:
		if r.Prob(0.03) {
			return (*schema.Message)(nil)
		}
		return genSmallMsg(r)
	case fMsgs:
		l := make([]*schema.Message, 2)
		for i := range l {
			if r.Prob(0.7) {
				l[i] = genSmallMsg(r)
			}
		}
		return l
	}
	return nil
}

func genReg(r *mon.Rand, poisonProb float64) Reg {
	x := Reg{S: genStr(r, 0, 3), N: r.Intn(6)}
	if r.Prob(0.3) {
		x.Tags = []string{genStr(r, 1, 2)}
	}
	if poisonProb > 0 && r.Prob(poisonProb) {
		x.N = -1
	}
	return x
}

// genSmallMsg: a message nested inside a map (fixed role, one tool call index).
func genSmallMsg(r *mon.Rand) *schema.Message {
	m := &schema.Message{Content: genStr(r, 0, 3)}
	if r.Bool() {
		m.Role = schema.Assistant
	}
	if r.Prob(0.4) {
		idx := r.Intn(2)
		m.ToolCalls = []schema.ToolCall{{Index: &idx, Function: schema.FunctionCall{Arguments: genStr(r, 1, 3)}}}
		if r.Prob(0.3) {
			m.ToolCalls[0].ID = "id" + strconv.Itoa(idx)
		}
	}
	if r.Prob(0.2) {
		m.Extra = map[string]any{"e": genStr(r, 1, 2)}
	}
	return m
}

func newEnv(r *mon.Rand) *genEnv {
	e := &genEnv{presentProb: 0.45 + 0.4*r.Float(), nzProb: mon.PickOne(r, []float64{0.08, 0.2, 0.4}), maxDepth: 3}
	if r.Prob(0.18) {
		e.conflictProb = mon.PickOne(r, []float64{0.05, 0.2})
	}
	if r.Prob(0.035) {
		e.nilProb = mon.PickOne(r, []float64{0.1, 0.4})
	}
	if r.Prob(0.14) {
		// maps with other key types than string below some keys; two thirds of these sessions produce NaN
		e.keyedProb = mon.PickOne(r, []float64{0.25, 0.5})
		e.nanProb = mon.PickOne(r, []float64{0, 0.15, 0.4})
	}
	return e
}

// ---- messages ---------------------------------------------------------------

type msgSession struct {
	role             schema.RoleType
	name, tcid       string
	roleP, nameP     float64
	tcidP            float64
	conflictRole     bool
	conflictName     bool
	conflictTCID     bool
	allowNilMsg      bool
	tcIdx            []int
	tcConflict       bool
	tcProb           float64
	noIdxProb        float64
	extra            *mapSchema
	env              *genEnv
	metaProb         float64
	multiProb        float64
	sharedIdxPointer *int
}

var roles = []schema.RoleType{schema.Assistant, schema.User, schema.System, schema.Tool}

func newSession(r *mon.Rand, heavyExtra bool) *msgSession {
	s := &msgSession{
		role: mon.PickOne(r, roles), name: "n" + strconv.Itoa(r.Intn(3)), tcid: "call" + strconv.Itoa(r.Intn(3)),
		roleP: 0.5, nameP: 0.25, tcidP: 0.15,
		conflictRole: r.Prob(0.06), conflictName: r.Prob(0.06), conflictTCID: r.Prob(0.05),
		allowNilMsg: r.Prob(0.03), tcConflict: r.Prob(0.12),
		tcProb: mon.PickOne(r, []float64{0, 0.3, 0.6, 0.9}), noIdxProb: mon.PickOne(r, []float64{0, 0.1, 0.3}),
		metaProb: mon.PickOne(r, []float64{0, 0.3, 0.8}), multiProb: mon.PickOne(r, []float64{0, 0, 0.15, 0.5}),
	}
	pool := []int{0, 1, 2, 3, 7, -1, 100}
	p := r.Perm(len(pool))
	for i := 0; i < r.Range(1, 4); i++ {
		s.tcIdx = append(s.tcIdx, pool[p[i]])
	}
	if r.Prob(0.2) {
		v := s.tcIdx[0]
		s.sharedIdxPointer = &v
	}
	s.env = newEnv(r)
	if heavyExtra || r.Prob(0.45) || s.env.keyedProb > 0 {
		s.extra = genSchemaK(r, 1, 3, true, s.env.keyedProb)
	}
	return s
}

func pickField(r *mon.Rand, base string, p float64, conflict bool) string {
	if !r.Prob(p) {
		return ""
	}
	if conflict && r.Prob(0.25) {
		return base + "X"
	}
	return base
}

func (s *msgSession) genToolCall(r *mon.Rand) schema.ToolCall {
	var tc schema.ToolCall
	base := "none"
	if !r.Prob(s.noIdxProb) {
		v := mon.PickOne(r, s.tcIdx)
		if s.sharedIdxPointer != nil && v == *s.sharedIdxPointer {
			tc.Index = s.sharedIdxPointer // the same *int in several fragments
		} else {
			tc.Index = &v
		}
		base = strconv.Itoa(v)
	}
	tc.ID = pickField(r, "id"+base, 0.4, s.tcConflict)
	tc.Type = pickField(r, "function", 0.4, s.tcConflict)
	tc.Function.Name = pickField(r, "fn"+base, 0.4, s.tcConflict)
	tc.Function.Arguments = genStr(r, 0, 4)
	if r.Prob(0.2) {
		tc.Extra = map[string]any{"x": r.Intn(10)}
	}
	return tc
}

func (s *msgSession) genMsg(r *mon.Rand) *schema.Message {
	if s.allowNilMsg && r.Prob(0.15) {
		return nil
	}
	m := &schema.Message{}
	m.Role = schema.RoleType(pickField(r, string(s.role), s.roleP, s.conflictRole))
	m.Name = pickField(r, s.name, s.nameP, s.conflictName)
	m.ToolCallID = pickField(r, s.tcid, s.tcidP, s.conflictTCID)
	m.Content = genStr(r, 0, 5)
	if r.Prob(s.tcProb) {
		n := r.Range(1, 3)
		if r.Prob(0.05) {
			m.ToolCalls = []schema.ToolCall{} // empty, non-nil
			n = 0
		}
		for i := 0; i < n; i++ {
			m.ToolCalls = append(m.ToolCalls, s.genToolCall(r))
		}
	}
	if s.extra != nil && r.Prob(0.7) {
		m.Extra = genMapBySchema(r, s.extra, s.env)
	}
	if r.Prob(s.multiProb) {
		n := r.Range(0, 2)
		m.MultiContent = make([]schema.ChatMessagePart, n)
		for i := range m.MultiContent {
			p := schema.ChatMessagePart{Type: schema.ChatMessagePartTypeText, Text: genStr(r, 0, 3)}
			if r.Prob(0.3) {
				p = schema.ChatMessagePart{Type: schema.ChatMessagePartTypeImageURL, ImageURL: &schema.ChatMessageImageURL{URL: "u" + genStr(r, 1, 2), Detail: schema.ImageURLDetailAuto}}
				if r.Bool() {
					p.ImageURL.Extra = map[string]any{"w": r.Intn(4)}
				}
			}
			m.MultiContent[i] = p
		}
	}
	if r.Prob(s.metaProb) {
		rm := &schema.ResponseMeta{}
		if r.Prob(0.4) {
			rm.FinishReason = mon.PickOne(r, []string{"stop", "length", "tool_calls"})
		}
		if r.Prob(0.5) {
			rm.Usage = &schema.TokenUsage{PromptTokens: r.Intn(50), CompletionTokens: r.Intn(50), TotalTokens: r.Intn(100)}
		}
		if r.Prob(0.35) {
			rm.LogProbs = &schema.LogProbs{}
			for i := 0; i < r.Range(0, 2); i++ {
				lp := schema.LogProb{Token: genStr(r, 1, 2), LogProb: -float64(r.Intn(64)) / 16}
				if r.Bool() {
					lp.Bytes = []int64{int64(r.Intn(256))}
				}
				if r.Prob(0.3) {
					lp.TopLogProbs = []schema.TopLogProb{{Token: genStr(r, 1, 1), LogProb: -float64(r.Intn(64)) / 16}}
				}
				rm.LogProbs.Content = append(rm.LogProbs.Content, lp)
			}
		}
		m.ResponseMeta = rm
	}
	return m
}

func genMsgSeq(r *mon.Rand, heavyExtra bool) ([]*schema.Message, *msgSession) {
	s := newSession(r, heavyExtra)
	n := genLen(r)
	out := make([]*schema.Message, n)
	for i := range out {
		out[i] = s.genMsg(r)
	}
	return out, s
}

// ---- message lists ----------------------------------------------------------

func genMsgListSeq(r *mon.Rand) ([][]*schema.Message, bool) {
	n := genLen(r)
	width := r.Range(0, 3)
	mismatch := r.Prob(0.08)
	sessions := make([]*msgSession, width+1)
	for i := range sessions {
		sessions[i] = newSession(r, false)
	}
	holeP := mon.PickOne(r, []float64{0, 0.3, 0.7})
	out := make([][]*schema.Message, n)
	for i := range out {
		w := width
		if mismatch && r.Prob(0.3) {
			w = width + 1
			if width > 0 && r.Bool() {
				w = width - 1
			}
		}
		if w == 0 && r.Bool() {
			out[i] = nil
			continue
		}
		l := make([]*schema.Message, w)
		for j := range l {
			if r.Prob(holeP) {
				continue
			}
			m := sessions[j].genMsg(r)
			l[j] = m
		}
		out[i] = l
	}
	return out, mismatch
}

// ---- maps -------------------------------------------------------------------

func genMapSeq(r *mon.Rand) ([]map[string]any, *genEnv) {
	n := genLen(r)
	e := newEnv(r)
	s := genSchemaK(r, 1, 3, true, e.keyedProb)
	out := make([]map[string]any, n)
	for i := range out {
		if r.Prob(0.05) {
			continue // nil map chunk
		}
		out[i] = genMapBySchema(r, s, e)
	}
	return out, e
}

func genMapStrSeq(r *mon.Rand) []map[string]string {
	n := genLen(r)
	out := make([]map[string]string, n)
	for i := range out {
		if r.Prob(0.1) {
			continue
		}
		m := map[string]string{}
		for _, k := range []string{"a", "b", "c"} {
			if r.Bool() {
				m[k] = genStr(r, 0, 3)
			}
		}
		out[i] = m
	}
	return out
}

func genMapMsgSeq(r *mon.Rand) []map[string]*schema.Message {
	n := genLen(r)
	sa, sb := newSession(r, false), newSession(r, false)
	typedNil := r.Prob(0.05)
	out := make([]map[string]*schema.Message, n)
	for i := range out {
		m := map[string]*schema.Message{}
		if r.Prob(0.7) {
			m["a"] = sa.genMsg(r)
		}
		if r.Prob(0.4) {
			m["b"] = sb.genMsg(r)
		}
		if typedNil && r.Prob(0.2) {
			m["a"] = nil
		}
		for _, k := range []string{"a", "b"} {
			if v, ok := m[k]; ok && v == nil && !typedNil {
				delete(m, k)
			}
		}
		out[i] = m
	}
	return out
}

// ---- scalars and custom types -------------------------------------------------

func genStrSeq(r *mon.Rand) []string {
	n := genLen(r)
	out := make([]string, n)
	for i := range out {
		out[i] = genStr(r, 0, 6)
	}
	return out
}

func genIntSeq(r *mon.Rand) []int {
	n := genLen(r)
	out := make([]int, n)
	for i := range out {
		out[i] = r.Intn(7) - 1
	}
	return out
}

func genRegSeq(r *mon.Rand) []Reg {
	n := genLen(r)
	pp := 0.0
	if r.Prob(0.2) {
		pp = 0.2
	}
	out := make([]Reg, n)
	for i := range out {
		out[i] = genReg(r, pp)
	}
	return out
}

func genUnregSeq(r *mon.Rand) []Unreg {
	n := genLen(r)
	nz := mon.PickOne(r, []float64{0, 0.1, 0.3})
	out := make([]Unreg, n)
	for i := range out {
		if r.Prob(nz) {
			out[i] = Unreg{A: genStr(r, 1, 3), B: r.Intn(5)}
		}
	}
	return out
}

func genAnySeq(r *mon.Rand) []any {
	n := genLen(r)
	nz := mon.PickOne(r, []float64{0, 0.1, 0.3, 0.6})
	out := make([]any, n)
	for i := range out {
		if r.Prob(nz) {
			out[i] = genLeaf(r)
		}
	}
	return out
}
