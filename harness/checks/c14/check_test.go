package c14

import (
	"encoding/json"
	"errors"
	"fmt"
	"reflect"
	"runtime/debug"
	"strings"
	"testing"

	"github.com/cloudwego/eino/schema"

	"verifharness/internal/mon"
)

// Property C14: chunk concatenation is total, deterministic and independent of
// chunk boundaries. See NOTES.md.

type witness struct {
	Kind   string `json:"kind"`
	Route  string `json:"route"`
	Split  string `json:"split,omitempty"`
	Chunks string `json:"chunks"` // canonical rendering (nil≡empty, dynamic types shown)
	JSON   any    `json:"chunks_json,omitempty"`
	Whole  string `json:"whole,omitempty"`
	Other  string `json:"other,omitempty"`
}

type checker struct {
	rep *mon.Reporter
}

func outStr[T any](o outcome[T]) string {
	switch {
	case o.panic != nil:
		return "PANIC " + o.panic.value + " @ " + o.panic.frame
	case o.err != nil:
		s := o.err.Error()
		if len(s) > 200 {
			s = s[:200] + "…"
		}
		return "ERROR " + s
	default:
		return "VALUE " + canon(o.val)
	}
}

func jsonable(v any) any {
	b, err := json.Marshal(v)
	if err != nil || len(b) > 6000 {
		return nil
	}
	return json.RawMessage(b)
}

// hasNilMapValue: an untyped nil stored as a map value somewhere in v.
func hasNilMapValue(v reflect.Value) bool {
	if !v.IsValid() {
		return false
	}
	switch v.Kind() {
	case reflect.Interface, reflect.Ptr:
		if v.IsNil() {
			return false
		}
		return hasNilMapValue(v.Elem())
	case reflect.Map:
		it := v.MapRange()
		for it.Next() {
			e := it.Value()
			if e.Kind() == reflect.Interface && e.IsNil() {
				return true
			}
			if hasNilMapValue(e) {
				return true
			}
		}
	case reflect.Slice, reflect.Array:
		for i := 0; i < v.Len(); i++ {
			if hasNilMapValue(v.Index(i)) {
				return true
			}
		}
	case reflect.Struct:
		for i := 0; i < v.NumField(); i++ {
			if hasNilMapValue(v.Field(i)) {
				return true
			}
		}
	}
	return false
}

func allNilInterfaces[T any](seq []T) bool {
	if reflect.TypeOf((*T)(nil)).Elem().Kind() != reflect.Interface || len(seq) < 2 {
		return false
	}
	for _, c := range seq {
		if any(c) != nil {
			return false
		}
	}
	return true
}

// panicSignature: narrow classes for the input classes that are known to panic,
// otherwise route + innermost eino frame.
func panicSignature[T any](routeName string, pi *panicInfo, seq []T) string {
	if strings.HasSuffix(pi.frame, "internal.toSliceValue") && hasNilMapValue(reflect.ValueOf(seq)) {
		if pi.viaCM {
			return "C14/panic/extra-nil-value"
		}
		return "C14/panic/map-chunk-nil-value"
	}
	if strings.HasSuffix(pi.frame, "internal.concatMaps") && hasSelfUnequalKey(reflect.ValueOf(seq)) {
		// one class on every route: a map (chunk, Extra, nested) with a key that is not equal to itself
		return "C14/panic/map-key-not-equal-to-itself"
	}
	if strings.HasSuffix(pi.frame, "internal.ConcatItems") && allNilInterfaces(seq) {
		return "C14/panic/interface-chunks-all-nil"
	}
	return "C14/panic/" + routeName + "/" + pi.frame
}

// checkSeq applies totality, determinism, the reference and the re-chunking law to one
// chunk sequence on every given route. Returns whether some route completed its laws.
func checkSeq[T any](ck *checker, r *mon.Rand, kind string, chunks []T, snapshot string, routes []route[T]) bool {
	rep := ck.rep
	n := len(chunks)
	pristine := deepCopy(chunks) // never handed to eino: what the sequence must still look like afterwards
	strict := differ{}
	lenient := differ{tcPartition: true}
	completed := false

	for _, rt := range routes {
		if n < rt.minLen {
			continue
		}
		calls := int64(0)
		wit := func(split string, whole, other string) witness {
			return witness{Kind: kind, Route: rt.name, Split: split, Chunks: snapshot, JSON: jsonable(chunks), Whole: whole, Other: other}
		}
		call := func(seq []T, split string) (outcome[T], bool) {
			calls++
			o := rt.f(seq)
			if o.panic != nil {
				rep.Count("panics_observed", 1)
				rep.Violation(panicSignature(rt.name, o.panic, seq),
					fmt.Sprintf("concatenation panicked (%s) on route %s, split %q: %s\ninput: %s\n%s", kind, rt.name, split, o.panic.value, canon(seq), trimStack(o.panic.stack)),
					wit(split, "", "PANIC "+o.panic.value))
				return o, false
			}
			if o.err != nil && errors.Is(o.err, errHarnessShape) {
				rep.Violation("C14/stream-shape/"+rt.name, "state-handler conversion did not yield exactly one chunk: "+o.err.Error(), wit(split, "", ""))
				return o, false
			}
			return o, true
		}

		// ---- totality + determinism on two deep copies; inputs not mutated
		in1, in2 := deepCopy(chunks), deepCopy(chunks)
		whole, ok := call(in1, "whole")
		if !ok {
			continue
		}
		again, ok := call(in2, "whole(again)")
		if !ok {
			continue
		}
		if whole.failed() != again.failed() {
			rep.Violation("C14/nondeterministic/"+rt.name+"/errorness", "two calls on equal inputs: "+outStr(whole)+" vs "+outStr(again), wit("", outStr(whole), outStr(again)))
			continue
		}
		if !whole.failed() {
			if f, full := strict.diff(whole.val, again.val); f != "" {
				rep.Violation("C14/nondeterministic/"+rt.name+"/"+f, "two calls on equal inputs differ at "+full, wit("", outStr(whole), outStr(again)))
				continue
			}
		}
		if f, _ := strict.diff(in1, pristine); f != "" {
			rep.Violation("C14/input-mutated/"+rt.name, "the chunk sequence was modified by the call", wit("", snapshot, canon(in1)))
			continue
		}
		if f, _ := strict.diff(in2, pristine); f != "" {
			rep.Violation("C14/input-mutated/"+rt.name, "the chunk sequence was modified by the call", wit("", snapshot, canon(in2)))
			continue
		}
		if whole.failed() {
			rep.Count("whole_error", 1)
		} else {
			rep.Count("whole_value", 1)
		}

		// ---- independent reference
		exp, rerr := refTop(chunks, rt.direct)
		switch {
		case rerr == errUndefined:
			rep.Count("reference_undefined", 1)
		case (rerr != nil) != whole.failed():
			cls := "real-fails-reference-ok"
			if rerr != nil {
				cls = "real-ok-reference-fails"
			}
			rep.Violation("C14/reference/"+kind+"/errorness/"+cls, fmt.Sprintf("route %s: real %s, reference err=%v", rt.name, outStr(whole), rerr), wit("", outStr(whole), fmt.Sprint(rerr)))
			continue
		case rerr != nil:
			rep.Count("reference_agreed_error", 1)
		default:
			if f, full := lenient.diff(any(whole.val), exp); f != "" {
				rep.Violation("C14/reference/"+kind+"/"+f, fmt.Sprintf("route %s: result differs from the reference at %s", rt.name, full), wit("", outStr(whole), "REFERENCE "+canon(exp)))
				continue
			}
			rep.Count("reference_agreed_value", 1)
		}

		// ---- re-chunking: concat(concat(c[:k]) ++ c[k:]) ≡ concat(c)
		compare := func(split string, got outcome[T]) bool {
			if got.failed() != whole.failed() {
				cls := "whole-fails-split-ok"
				if got.failed() {
					cls = "whole-ok-split-fails"
				}
				rep.Violation("C14/rechunk/"+rt.name+"/errorness/"+cls, "split "+split+": "+outStr(got)+" but all at once: "+outStr(whole), wit(split, outStr(whole), outStr(got)))
				return false
			}
			if !got.failed() {
				if f, full := strict.diff(whole.val, got.val); f != "" {
					rep.Violation("C14/rechunk/"+rt.name+"/"+f, "split "+split+" differs from all at once at "+full, wit(split, outStr(whole), outStr(got)))
					return false
				}
			}
			return true
		}
		// every split point for n ≤ 8, four random ones plus k=n above; a prefix that
		// fails obliges the whole to fail as well
		good := true
		var ks []int
		if n <= 8 {
			for k := 1; k <= n; k++ {
				ks = append(ks, k)
			}
		} else {
			for i := 0; i < 4; i++ {
				ks = append(ks, r.Range(1, n-1))
			}
			ks = append(ks, n)
		}
		for _, k := range ks {
			split := fmt.Sprintf("k=%d/%d", k, n)
			p, ok := call(chunks[:k], split+" prefix")
			if !ok {
				good = false
				break
			}
			if p.failed() {
				if !whole.failed() {
					rep.Violation("C14/rechunk/"+rt.name+"/errorness/whole-ok-prefix-fails", "prefix "+split+" fails: "+outStr(p)+" but all at once: "+outStr(whole), wit(split, outStr(whole), outStr(p)))
					good = false
					break
				}
				rep.Count("splits_checked", 1)
				continue
			}
			seq := append([]T{p.val}, chunks[k:]...)
			s, ok := call(seq, split)
			if !ok || !compare(split, s) {
				good = false
				break
			}
			rep.Count("splits_checked", 1)
		}
		// two-level splits: ((c[:k1]) ++ c[k1:k2]) ++ c[k2:]
		for t := 0; good && n >= 3 && t < 2; t++ {
			k1 := r.Range(1, n-2)
			k2 := r.Range(k1+1, n-1)
			split := fmt.Sprintf("k1=%d,k2=%d/%d", k1, k2, n)
			p1, ok := call(chunks[:k1], split+" p1")
			if !ok {
				good = false
				break
			}
			if p1.failed() {
				if !whole.failed() {
					rep.Violation("C14/rechunk/"+rt.name+"/errorness/whole-ok-prefix-fails", "prefix "+split+" fails but all at once: "+outStr(whole), wit(split, outStr(whole), outStr(p1)))
					good = false
				}
				continue
			}
			p2, ok := call(append([]T{p1.val}, chunks[k1:k2]...), split+" p2")
			if !ok {
				good = false
				break
			}
			if p2.failed() {
				if !whole.failed() {
					rep.Violation("C14/rechunk/"+rt.name+"/errorness/whole-ok-prefix-fails", "second-level prefix "+split+" fails but all at once: "+outStr(whole), wit(split, outStr(whole), outStr(p2)))
					good = false
				}
				continue
			}
			s, ok := call(append([]T{p2.val}, chunks[k2:]...), split)
			if !ok || !compare(split, s) {
				good = false
				break
			}
			rep.Count("two_level_splits_checked", 1)
		}
		if f, _ := strict.diff(chunks, pristine); f != "" {
			rep.Violation("C14/input-mutated/"+rt.name, "the chunk sequence was modified while concatenating prefixes", wit("", snapshot, canon(chunks)))
			good = false
		}
		rep.Count("concat_calls", calls)
		if rt.graph {
			rep.Count("concat_calls_through_graphs", calls)
		}
		rep.AddEvaluations(calls)
		rep.Count("routes_completed", 1)
		rep.Distinct("routes", rt.name)
		if good {
			completed = true
		}
	}
	return completed
}

func trimStack(s string) string {
	lines := strings.Split(s, "\n")
	if len(lines) > 40 {
		lines = lines[:40]
	}
	return strings.Join(lines, "\n")
}

// ---------------------------------------------------------------------------

type routeSet struct {
	msg   []route[*schema.Message]
	msgs  []route[[]*schema.Message]
	mp    []route[map[string]any]
	mpStr []route[map[string]string]
	mpMsg []route[map[string]*schema.Message]
	mpFlt []route[map[float64]any]
	mpAny []route[map[any]any]
	str   []route[string]
	integ []route[int]
	reg   []route[Reg]
	unreg []route[Unreg]
	iface []route[any]
}

func buildRoutes() *routeSet {
	return &routeSet{
		msg: []route[*schema.Message]{routeConcatMessages(), routeConcatMessageStream(),
			graphInvoke[*schema.Message]("*schema.Message"), graphStreamState[*schema.Message]("*schema.Message")},
		msgs:  []route[[]*schema.Message]{graphInvoke[[]*schema.Message]("[]*schema.Message"), graphStreamState[[]*schema.Message]("[]*schema.Message")},
		mp:    []route[map[string]any]{graphInvoke[map[string]any]("map[string]any"), graphStreamState[map[string]any]("map[string]any")},
		mpStr: []route[map[string]string]{graphInvoke[map[string]string]("map[string]string")},
		mpMsg: []route[map[string]*schema.Message]{graphInvoke[map[string]*schema.Message]("map[string]*schema.Message")},
		mpFlt: []route[map[float64]any]{graphInvoke[map[float64]any]("map[float64]any"), graphStreamState[map[float64]any]("map[float64]any")},
		mpAny: []route[map[any]any]{graphInvoke[map[any]any]("map[any]any")},
		str:   []route[string]{graphInvoke[string]("string"), graphStreamState[string]("string")},
		integ: []route[int]{graphInvoke[int]("int")},
		reg:   []route[Reg]{graphInvoke[Reg]("Reg(registered)"), graphStreamState[Reg]("Reg(registered)")},
		unreg: []route[Unreg]{graphInvoke[Unreg]("Unreg(unregistered)")},
		iface: []route[any]{interfaceRoute()},
	}
}

// pickRoutes: the first route always, each further route with probability p (keeps the
// per-case cost bounded while every route is exercised thousands of times).
func pickRoutes[T any](r *mon.Rand, all []route[T], p float64) []route[T] {
	out := []route[T]{all[0]}
	for _, x := range all[1:] {
		if r.Prob(p) {
			out = append(out, x)
		}
	}
	return out
}

func countToolCalls(ms []*schema.Message) (frags, withIdx, noIdx int64) {
	for _, m := range ms {
		if m == nil {
			continue
		}
		for _, tc := range m.ToolCalls {
			frags++
			if tc.Index == nil {
				noIdx++
			} else {
				withIdx++
			}
		}
	}
	return
}

func TestCheck(t *testing.T) {
	debug.SetGCPercent(400) // many small short-lived values; the live heap stays tiny
	cfg := mon.Load("C14")
	rep := mon.NewReporter(cfg,
		"exploration",
		"a case = one PRNG-generated chunk sequence (kind ∈ message, message+deep extras, message list, map[string]any, typed maps, string, int, registered struct, unregistered struct, interface, map[float64]any, map[any]any; "+
			"14% of the Extra / map schemas hold maps with other key types than string below some keys: float64 / float32 / named float keys incl. NaN, +Inf, -Inf, -0 and +0, int, bool, named string, struct, array and interface keys of mixed dynamic types, 13 map types) "+
			"run through the public concatenation routes (schema.ConcatMessages, schema.ConcatMessageStream, compose graph Invoke over a stream-only lambda, compose graph Stream with a non-stream state pre-handler); "+
			"non-trivial = at least 2 chunks and, on at least one route, the whole concatenation, its repetition on a deep copy, the reference comparison and every split point (all k for length ≤ 8, 4 random k above, 2 two-level splits) were executed without a panic; distinct by kind + canonical rendering of the sequence",
		[]string{
			"the concat function registered for the custom type Reg is itself associative (string join, sum, append; fails iff a chunk has N<0)",
			"a panic inside a graph node is recognised by the error the executor builds from it (internal/safe.panicErr; unexported, so by type name / its fixed 'panic error:' marker)",
			"the reference takes from the anchors (not from the statement) that finish reason = last non-empty, usage = field-wise maximum, multi-content = last non-empty, builtin scalars = last value, unregistered types = at most one non-zero value; the placement of tool calls without index relative to indexed ones is not compared against the reference",
			"untyped nil map values: the reference is undefined for them (only the laws and totality apply)",
			"map entries are grouped by Go's key equality: -0 and +0 are one key; a key that is not equal to itself (NaN inside) never merges with another entry, every such entry of every chunk is an entry of the result with its own value; such entries are compared as a multiset",
			"token usage values are generated non-negative",
		},
		8000)
	defer func() {
		if err := rep.Flush(); err != nil {
			t.Fatalf("flush: %v", err)
		}
	}()
	rep.Require("splits_checked", 20000)
	rep.Require("two_level_splits_checked", 3000)
	rep.Require("reference_agreed_value", 5000)
	rep.Require("reference_agreed_error", 1000)
	rep.Require("concat_calls_through_graphs", 20000)
	rep.Require("toolcall_fragments_with_index", 5000)
	rep.Require("cases_extra_depth3", 200)
	rep.Require("cases_with_non_string_map_keys", 300)
	rep.Require("cases_with_nan_map_key_or_value", 100)
	rep.Require("cases_with_nan_map_key_completed", 50)

	routes := buildRoutes()
	ck := &checker{rep: rep}
	n := int64(cfg.Pick(15000, 300000))
	rep.Cases(n, func(idx int64, r *mon.Rand) {
		p := r.Intn(100)
		var kind, digest string
		var nchunks int
		var done, sawKeyed, sawNaN bool
		switch {
		case p < 48:
			heavy := p >= 34
			kind = "message"
			if heavy {
				kind = "message-deep-extra"
			}
			seq, s := genMsgSeq(r, heavy)
			f, wi, ni := countToolCalls(seq)
			rep.Count("toolcall_fragments", f)
			rep.Count("toolcall_fragments_with_index", wi)
			rep.Count("toolcall_fragments_without_index", ni)
			if s.env.sawDepth >= 3 {
				rep.Count("cases_extra_depth3", 1)
			}
			if s.env.sawNil {
				rep.Count("cases_with_nil_map_value", 1)
			}
			if s.env.conflicts > 0 {
				rep.Count("cases_with_extra_type_conflict", 1)
			}
			sawKeyed, sawNaN = s.env.sawKeyed, s.env.sawNaN
			nchunks, digest = len(seq), canon(seq)
			done = checkSeq(ck, r, kind, seq, digest, pickRoutes(r, routes.msg, 0.2))
		case p < 60:
			kind = "message-list"
			seq, _ := genMsgListSeq(r)
			nchunks, digest = len(seq), canon(seq)
			done = checkSeq(ck, r, kind, seq, digest, pickRoutes(r, routes.msgs, 0.15))
		case p < 76:
			kind = "map"
			seq, e := genMapSeq(r)
			if e.sawDepth >= 3 {
				rep.Count("cases_extra_depth3", 1)
			}
			if e.sawNil {
				rep.Count("cases_with_nil_map_value", 1)
			}
			if e.conflicts > 0 {
				rep.Count("cases_with_extra_type_conflict", 1)
			}
			sawKeyed, sawNaN = e.sawKeyed, e.sawNaN
			nchunks, digest = len(seq), canon(seq)
			done = checkSeq(ck, r, kind, seq, digest, pickRoutes(r, routes.mp, 0.15))
		case p < 81:
			kind = "string"
			seq := genStrSeq(r)
			nchunks, digest = len(seq), canon(seq)
			done = checkSeq(ck, r, kind, seq, digest, pickRoutes(r, routes.str, 0.3))
		case p < 84:
			kind = "map-of-string"
			seq := genMapStrSeq(r)
			nchunks, digest = len(seq), canon(seq)
			done = checkSeq(ck, r, kind, seq, digest, routes.mpStr)
		case p < 88:
			kind = "map-of-message"
			seq := genMapMsgSeq(r)
			nchunks, digest = len(seq), canon(seq)
			done = checkSeq(ck, r, kind, seq, digest, routes.mpMsg)
		case p < 93:
			kind = "registered-struct"
			seq := genRegSeq(r)
			nchunks, digest = len(seq), canon(seq)
			done = checkSeq(ck, r, kind, seq, digest, pickRoutes(r, routes.reg, 0.3))
		case p < 96:
			kind = "unregistered-struct"
			seq := genUnregSeq(r)
			nchunks, digest = len(seq), canon(seq)
			done = checkSeq(ck, r, kind, seq, digest, routes.unreg)
		case p < 97:
			// one case in three of this percent: chunks that are maps with float / interface keys themselves
			switch r.Intn(3) {
			case 0:
				kind = "int"
				seq := genIntSeq(r)
				nchunks, digest = len(seq), canon(seq)
				done = checkSeq(ck, r, kind, seq, digest, routes.integ)
			case 1:
				kind = "map-float-key"
				seq, e := genFloatMapSeq(r)
				sawKeyed, sawNaN = true, e.sawNaN
				nchunks, digest = len(seq), canon(seq)
				done = checkSeq(ck, r, kind, seq, digest, pickRoutes(r, routes.mpFlt, 0.3))
			default:
				kind = "map-interface-key"
				seq, e := genAnyKeyMapSeq(r)
				sawKeyed, sawNaN = true, e.sawNaN
				nchunks, digest = len(seq), canon(seq)
				done = checkSeq(ck, r, kind, seq, digest, routes.mpAny)
			}
		default:
			kind = "interface"
			seq := genAnySeq(r)
			nchunks, digest = len(seq), canon(seq)
			done = checkSeq(ck, r, kind, seq, digest, routes.iface)
		}
		rep.Count("cases_"+kind, 1)
		if sawKeyed {
			rep.Count("cases_with_non_string_map_keys", 1)
		}
		if sawNaN {
			rep.Count("cases_with_nan_map_key_or_value", 1)
			if done {
				rep.Count("cases_with_nan_map_key_completed", 1)
			}
		}
		rep.Count("chunks_total", int64(nchunks))
		if nchunks > 8 {
			rep.Count("cases_longer_than_8", 1)
		}
		if done && nchunks >= 2 {
			rep.NonTrivial(kind + "|" + digest)
		}
		if idx < 2 {
			s := digest
			if len(s) > 600 {
				s = s[:600] + "…"
			}
			rep.Sample(map[string]any{"kind": kind, "chunks": s})
		}
	})
}
