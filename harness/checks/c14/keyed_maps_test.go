package c14

// Maps whose keys are not strings (hunt/concat-map-nan-key-panic): float keys including NaN, +Inf,
// -Inf, -0 and +0, float32, int, bool, named string / float types, struct keys (with a float field
// that may be NaN), array keys, interface keys of mixed dynamic types — nested in Extra / map chunks
// and as a chunk type of their own.
//
// What the reference says about them (ref_test.go, refMerge): the entries of all chunks are grouped
// by Go's key equality, i.e. exactly the way a Go map groups them: -0 and +0 are one key; a key that
// is not equal to itself (NaN, or a struct / array / interface key that holds a NaN) is never equal
// to any other key, so EVERY such entry of EVERY chunk is an entry of its own in the result and keeps
// its own value, unmerged. This is the only reading under which concatenation stays invariant under
// re-chunking: concatenating a prefix first can only hand its NaN entries on one by one. Results are
// therefore compared as follows (canon_test.go, differ): entries with ordinary keys by lookup, the
// entries with self-unequal keys as a multiset of (key rendering, value rendering).

import (
	"math"
	"reflect"

	"verifharness/internal/mon"
)

type MyFloat float64

type KeyS struct {
	A string
	F float64
}

const nKeyedVariants = 13

var keyedVariantNames = [nKeyedVariants]string{
	"map[float64]string", "map[float64]any", "map[float32]string", "map[int]string", "map[bool]string",
	"map[MyStr]string", "map[MyFloat]string", "map[KeyS]string", "map[any]string", "map[[2]float64]string",
	"map[float64]map[string]string", "map[float64]Unreg", "map[any]any",
}

func negZero() float64 { return math.Copysign(0, -1) }

// genFloatKey: special: the session produces NaN / ±Inf / -0 keys
func genFloatKey(r *mon.Rand, e *genEnv) float64 {
	if e.nanProb > 0 && r.Prob(e.nanProb) {
		e.sawNaN = true
		return math.NaN()
	}
	switch r.Intn(9) {
	case 0:
		return 0
	case 1:
		return negZero()
	case 2:
		return math.Inf(1)
	case 3:
		return math.Inf(-1)
	case 4:
		return 0.5
	case 5:
		return 1
	case 6:
		return 2.25
	case 7:
		return -1
	default:
		return 1e300
	}
}

func genAnyKey(r *mon.Rand, e *genEnv) any {
	switch r.Intn(9) {
	case 0:
		return "a"
	case 1:
		return MyStr("a") // another dynamic type than "a": another key
	case 2:
		return r.Intn(3)
	case 3:
		return int64(r.Intn(3))
	case 4:
		return r.Bool()
	case 5:
		return KeyS{A: "s", F: genFloatKey(r, e)}
	case 6:
		return [2]float64{genFloatKey(r, e), 1}
	default:
		return genFloatKey(r, e)
	}
}

// genKeyed builds one map of the given variant with 0..3 entries (a nil map now and then).
func genKeyed(r *mon.Rand, variant int, e *genEnv) any {
	n := r.Range(0, 3)
	isNil := r.Prob(0.04)
	str := func() string { return genStr(r, 0, 3) }
	switch variant {
	case 0:
		if isNil {
			return map[float64]string(nil)
		}
		m := map[float64]string{}
		for i := 0; i < n; i++ {
			m[genFloatKey(r, e)] = str()
		}
		return m
	case 1:
		if isNil {
			return map[float64]any(nil)
		}
		m := map[float64]any{}
		for i := 0; i < n; i++ {
			k := genFloatKey(r, e)
			switch r.Intn(4) {
			case 0:
				m[k] = r.Intn(9)
			case 1:
				m[k] = map[string]any{"z": str()}
			case 2:
				m[k] = map[float64]string{genFloatKey(r, e): str()}
			default:
				m[k] = str()
			}
		}
		return m
	case 2:
		m := map[float32]string{}
		for i := 0; i < n; i++ {
			m[float32(genFloatKey(r, e))] = str()
		}
		return m
	case 3:
		m := map[int]string{}
		for i := 0; i < n; i++ {
			m[r.Intn(4)-1] = str()
		}
		return m
	case 4:
		m := map[bool]string{}
		for i := 0; i < n; i++ {
			m[r.Bool()] = str()
		}
		return m
	case 5:
		m := map[MyStr]string{}
		for i := 0; i < n; i++ {
			m[MyStr(mon.PickOne(r, []string{"", "a", "b"}))] = str()
		}
		return m
	case 6:
		m := map[MyFloat]string{}
		for i := 0; i < n; i++ {
			m[MyFloat(genFloatKey(r, e))] = str()
		}
		return m
	case 7:
		m := map[KeyS]string{}
		for i := 0; i < n; i++ {
			m[KeyS{A: mon.PickOne(r, []string{"", "a"}), F: genFloatKey(r, e)}] = str()
		}
		return m
	case 8:
		if isNil {
			return map[any]string(nil)
		}
		m := map[any]string{}
		for i := 0; i < n; i++ {
			m[genAnyKey(r, e)] = str()
		}
		return m
	case 9:
		m := map[[2]float64]string{}
		for i := 0; i < n; i++ {
			m[[2]float64{genFloatKey(r, e), float64(r.Intn(2))}] = str()
		}
		return m
	case 10:
		m := map[float64]map[string]string{}
		for i := 0; i < n; i++ {
			k := genFloatKey(r, e)
			if r.Prob(0.1) {
				m[k] = nil
				continue
			}
			m[k] = map[string]string{mon.PickOne(r, []string{"a", "b"}): str()}
		}
		return m
	case 11:
		// values of an unregistered struct type: two non-zero values under one key cannot be concatenated
		m := map[float64]Unreg{}
		for i := 0; i < n; i++ {
			if r.Prob(e.nzProb) {
				m[genFloatKey(r, e)] = Unreg{A: genStr(r, 1, 2), B: r.Intn(5)}
			} else {
				m[genFloatKey(r, e)] = Unreg{}
			}
		}
		return m
	default:
		m := map[any]any{}
		for i := 0; i < n; i++ {
			k := genAnyKey(r, e)
			if r.Bool() {
				m[k] = str()
			} else {
				m[k] = map[any]any{genAnyKey(r, e): str()}
			}
		}
		return m
	}
}

// ---- chunk sequences of keyed maps themselves -----------------------------------------------

func newKeyedEnv(r *mon.Rand) *genEnv {
	e := newEnv(r)
	e.nilProb = 0
	e.nanProb = mon.PickOne(r, []float64{0, 0.15, 0.4})
	return e
}

func genFloatMapSeq(r *mon.Rand) ([]map[float64]any, *genEnv) {
	n := genLen(r)
	e := newKeyedEnv(r)
	out := make([]map[float64]any, n)
	for i := range out {
		out[i], _ = genKeyed(r, 1, e).(map[float64]any)
	}
	return out, e
}

func genAnyKeyMapSeq(r *mon.Rand) ([]map[any]any, *genEnv) {
	n := genLen(r)
	e := newKeyedEnv(r)
	out := make([]map[any]any, n)
	for i := range out {
		if r.Prob(0.05) {
			continue
		}
		out[i] = genKeyed(r, 12, e).(map[any]any)
	}
	return out, e
}

// ---- keys that are not equal to themselves ------------------------------------------------------

// selfUnequal: the key k of map m cannot be found again by a lookup (it holds a NaN).
func selfUnequal(m, k reflect.Value) bool { return !m.MapIndex(k).IsValid() }

// hasSelfUnequalKey: some map inside v has a key that is not equal to itself.
func hasSelfUnequalKey(v reflect.Value) bool {
	if !v.IsValid() {
		return false
	}
	switch v.Kind() {
	case reflect.Interface, reflect.Ptr:
		if v.IsNil() {
			return false
		}
		return hasSelfUnequalKey(v.Elem())
	case reflect.Map:
		it := v.MapRange()
		for it.Next() {
			if selfUnequal(v, it.Key()) || hasSelfUnequalKey(it.Value()) {
				return true
			}
		}
	case reflect.Slice, reflect.Array:
		for i := 0; i < v.Len(); i++ {
			if hasSelfUnequalKey(v.Index(i)) {
				return true
			}
		}
	case reflect.Struct:
		for i := 0; i < v.NumField(); i++ {
			if hasSelfUnequalKey(v.Field(i)) {
				return true
			}
		}
	}
	return false
}

// hasKeyedMap: some map inside v has a key type other than string.
func hasKeyedMap(v reflect.Value) bool {
	if !v.IsValid() {
		return false
	}
	switch v.Kind() {
	case reflect.Interface, reflect.Ptr:
		if v.IsNil() {
			return false
		}
		return hasKeyedMap(v.Elem())
	case reflect.Map:
		if v.Type().Key().Kind() != reflect.String || v.Type().Key().PkgPath() != "" {
			return true
		}
		it := v.MapRange()
		for it.Next() {
			if hasKeyedMap(it.Value()) {
				return true
			}
		}
	case reflect.Slice, reflect.Array:
		for i := 0; i < v.Len(); i++ {
			if hasKeyedMap(v.Index(i)) {
				return true
			}
		}
	case reflect.Struct:
		for i := 0; i < v.NumField(); i++ {
			if hasKeyedMap(v.Field(i)) {
				return true
			}
		}
	}
	return false
}
