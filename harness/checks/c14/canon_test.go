package c14

import (
	"fmt"
	"math"
	"reflect"
	"sort"
	"strconv"
	"strings"

	"github.com/cloudwego/eino/schema"
)

// ---------------------------------------------------------------------------
// canonical rendering with nil≡empty normalisation for maps and slices and
// with the dynamic type of every interface-held value spelled out.

func canon(v any) string {
	var b strings.Builder
	canonV(&b, reflect.ValueOf(v))
	return b.String()
}

func canonV(b *strings.Builder, v reflect.Value) {
	if !v.IsValid() {
		b.WriteString("nil")
		return
	}
	switch v.Kind() {
	case reflect.Interface:
		if v.IsNil() {
			b.WriteString("nil")
			return
		}
		e := v.Elem()
		b.WriteByte('(')
		b.WriteString(e.Type().String())
		b.WriteByte(')')
		canonV(b, e)
	case reflect.Ptr:
		if v.IsNil() {
			b.WriteString("nil")
			return
		}
		b.WriteByte('&')
		canonV(b, v.Elem())
	case reflect.Map:
		if v.Len() == 0 {
			b.WriteString("{}")
			return
		}
		type kv struct {
			k string
			v reflect.Value
		}
		kvs := make([]kv, 0, v.Len())
		it := v.MapRange()
		for it.Next() {
			var kb strings.Builder
			canonV(&kb, it.Key())
			kvs = append(kvs, kv{kb.String(), it.Value()})
		}
		sort.Slice(kvs, func(i, j int) bool { return kvs[i].k < kvs[j].k })
		// several keys with one rendering (NaN keys are all different keys): order them by their values
		for i := 0; i < len(kvs); {
			j := i + 1
			for j < len(kvs) && kvs[j].k == kvs[i].k {
				j++
			}
			if j-i > 1 {
				run := kvs[i:j]
				vs := make(map[int]string, len(run))
				idx := make([]int, len(run))
				for x := range run {
					var vb strings.Builder
					canonV(&vb, run[x].v)
					vs[x], idx[x] = vb.String(), x
				}
				sort.SliceStable(idx, func(a, c int) bool { return vs[idx[a]] < vs[idx[c]] })
				sorted := make([]kv, len(run))
				for x, y := range idx {
					sorted[x] = run[y]
				}
				copy(run, sorted)
			}
			i = j
		}
		b.WriteByte('{')
		for i, e := range kvs {
			if i > 0 {
				b.WriteByte(',')
			}
			b.WriteString(e.k)
			b.WriteByte(':')
			canonV(b, e.v)
		}
		b.WriteByte('}')
	case reflect.Slice, reflect.Array:
		if v.Len() == 0 {
			b.WriteString("[]")
			return
		}
		b.WriteByte('[')
		for i := 0; i < v.Len(); i++ {
			if i > 0 {
				b.WriteByte(',')
			}
			canonV(b, v.Index(i))
		}
		b.WriteByte(']')
	case reflect.Struct:
		t := v.Type()
		b.WriteString(t.Name())
		b.WriteByte('{')
		for i := 0; i < v.NumField(); i++ {
			if i > 0 {
				b.WriteByte(',')
			}
			b.WriteString(t.Field(i).Name)
			b.WriteByte(':')
			canonV(b, v.Field(i))
		}
		b.WriteByte('}')
	case reflect.String:
		b.WriteString(strconv.Quote(v.String()))
	case reflect.Int, reflect.Int8, reflect.Int16, reflect.Int32, reflect.Int64:
		b.WriteString(strconv.FormatInt(v.Int(), 10))
	case reflect.Uint, reflect.Uint8, reflect.Uint16, reflect.Uint32, reflect.Uint64:
		b.WriteString(strconv.FormatUint(v.Uint(), 10))
	case reflect.Float32, reflect.Float64:
		b.WriteString(strconv.FormatFloat(v.Float(), 'g', -1, 64))
	case reflect.Bool:
		b.WriteString(strconv.FormatBool(v.Bool()))
	default:
		fmt.Fprintf(b, "%v", v)
	}
}

// ---------------------------------------------------------------------------
// deep copy (all types used by the workload have exported fields only)

func deepCopy[T any](v T) T {
	var out T
	reflect.ValueOf(&out).Elem().Set(dc(reflect.ValueOf(&v).Elem()))
	return out
}

func dc(v reflect.Value) reflect.Value {
	switch v.Kind() {
	case reflect.Ptr:
		if v.IsNil() {
			return reflect.Zero(v.Type())
		}
		n := reflect.New(v.Type().Elem())
		n.Elem().Set(dc(v.Elem()))
		return n
	case reflect.Interface:
		if v.IsNil() {
			return reflect.Zero(v.Type())
		}
		n := reflect.New(v.Type()).Elem()
		n.Set(dc(v.Elem()))
		return n
	case reflect.Map:
		if v.IsNil() {
			return reflect.Zero(v.Type())
		}
		n := reflect.MakeMapWithSize(v.Type(), v.Len())
		it := v.MapRange()
		for it.Next() {
			n.SetMapIndex(dc(it.Key()), dc(it.Value()))
		}
		return n
	case reflect.Slice:
		if v.IsNil() {
			return reflect.Zero(v.Type())
		}
		n := reflect.MakeSlice(v.Type(), v.Len(), v.Len())
		for i := 0; i < v.Len(); i++ {
			n.Index(i).Set(dc(v.Index(i)))
		}
		return n
	case reflect.Struct:
		n := reflect.New(v.Type()).Elem()
		for i := 0; i < v.NumField(); i++ {
			n.Field(i).Set(dc(v.Field(i)))
		}
		return n
	default:
		return v
	}
}

// ---------------------------------------------------------------------------
// structural diff with the same normalisation as canon. Returns "" when equal,
// otherwise (field path without keys/indices, full path) of the first difference.
// tcPartition: inside a schema.Message compare ToolCalls as two subsequences
// (fragments without index in arrival order / indexed calls in output order),
// because the statement fixes the order of indexed calls only; the Extra of a merged
// (indexed) call is not compared either: the statement does not say whose Extra it keeps.

var (
	messageType = reflect.TypeOf(schema.Message{})
)

type differ struct {
	tcPartition bool
}

func (d differ) diff(a, b any) (field, full string) {
	return d.dv("", "", reflect.ValueOf(a), reflect.ValueOf(b))
}

func joinPath(p, s string) string {
	if p == "" {
		return s
	}
	if s == "" {
		return p
	}
	return p + "." + s
}

func (d differ) dv(fp, full string, a, b reflect.Value) (string, string) {
	bad := func() (string, string) {
		if fp == "" {
			return "value", joinPath(full, "")
		}
		return fp, full
	}
	if !a.IsValid() || !b.IsValid() {
		if a.IsValid() != b.IsValid() {
			// untyped nil against something: equal only if the other side is a nil interface
			x := a
			if !x.IsValid() {
				x = b
			}
			if x.Kind() == reflect.Interface && x.IsNil() {
				return "", ""
			}
			return bad()
		}
		return "", ""
	}
	if a.Kind() == reflect.Interface || b.Kind() == reflect.Interface {
		if a.Kind() == reflect.Interface {
			if a.IsNil() {
				a = reflect.Value{}
			} else {
				a = a.Elem()
			}
		}
		if b.Kind() == reflect.Interface {
			if b.IsNil() {
				b = reflect.Value{}
			} else {
				b = b.Elem()
			}
		}
		if !a.IsValid() || !b.IsValid() {
			if a.IsValid() != b.IsValid() {
				return bad()
			}
			return "", ""
		}
	}
	if a.Type() != b.Type() {
		return bad()
	}
	switch a.Kind() {
	case reflect.Ptr:
		if a.IsNil() || b.IsNil() {
			if a.IsNil() != b.IsNil() {
				return bad()
			}
			return "", ""
		}
		return d.dv(fp, full, a.Elem(), b.Elem())
	case reflect.Map:
		if a.Len() != b.Len() {
			return bad()
		}
		it := a.MapRange()
		// deterministic report: sort keys by canon
		type kv struct {
			k string
			K reflect.Value
		}
		var ks []kv
		// entries whose key is not equal to itself (a NaN inside) cannot be looked up: they are compared as a
		// multiset of (key rendering, value rendering) — see keyed_maps_test.go
		var looseA, looseB []string
		pair := func(k, v reflect.Value) string {
			var pb strings.Builder
			canonV(&pb, k)
			pb.WriteByte(':')
			canonV(&pb, v)
			return pb.String()
		}
		for it.Next() {
			if selfUnequal(a, it.Key()) {
				looseA = append(looseA, pair(it.Key(), it.Value()))
				continue
			}
			var kb strings.Builder
			canonV(&kb, it.Key())
			ks = append(ks, kv{kb.String(), it.Key()})
		}
		for itb := b.MapRange(); itb.Next(); {
			if selfUnequal(b, itb.Key()) {
				looseB = append(looseB, pair(itb.Key(), itb.Value()))
			}
		}
		if len(looseA) != len(looseB) {
			return bad()
		}
		sort.Strings(looseA)
		sort.Strings(looseB)
		for i := range looseA {
			if looseA[i] != looseB[i] {
				return bad()
			}
		}
		sort.Slice(ks, func(i, j int) bool { return ks[i].k < ks[j].k })
		for _, k := range ks {
			bv := b.MapIndex(k.K)
			if !bv.IsValid() {
				return bad()
			}
			if f, fl := d.dv(fp, full+"["+k.k+"]", a.MapIndex(k.K), bv); f != "" {
				return f, fl
			}
		}
		return "", ""
	case reflect.Slice, reflect.Array:
		if a.Len() != b.Len() {
			return bad()
		}
		for i := 0; i < a.Len(); i++ {
			if f, fl := d.dv(fp, full+"["+strconv.Itoa(i)+"]", a.Index(i), b.Index(i)); f != "" {
				return f, fl
			}
		}
		return "", ""
	case reflect.Struct:
		t := a.Type()
		for i := 0; i < a.NumField(); i++ {
			name := t.Field(i).Name
			if d.tcPartition && t == messageType && name == "ToolCalls" {
				an, ai := partitionTC(a.Field(i).Interface().([]schema.ToolCall))
				bn, bi := partitionTC(b.Field(i).Interface().([]schema.ToolCall))
				if f, fl := d.dv(joinPath(fp, "ToolCalls(no-index)"), joinPath(full, "ToolCalls(no-index)"), reflect.ValueOf(an), reflect.ValueOf(bn)); f != "" {
					return f, fl
				}
				if f, fl := d.dv(joinPath(fp, "ToolCalls(indexed)"), joinPath(full, "ToolCalls(indexed)"), reflect.ValueOf(ai), reflect.ValueOf(bi)); f != "" {
					return f, fl
				}
				continue
			}
			if f, fl := d.dv(joinPath(fp, name), joinPath(full, name), a.Field(i), b.Field(i)); f != "" {
				return f, fl
			}
		}
		return "", ""
	case reflect.String:
		if a.String() != b.String() {
			return bad()
		}
	case reflect.Int, reflect.Int8, reflect.Int16, reflect.Int32, reflect.Int64:
		if a.Int() != b.Int() {
			return bad()
		}
	case reflect.Uint, reflect.Uint8, reflect.Uint16, reflect.Uint32, reflect.Uint64:
		if a.Uint() != b.Uint() {
			return bad()
		}
	case reflect.Float32, reflect.Float64:
		if a.Float() != b.Float() && !(math.IsNaN(a.Float()) && math.IsNaN(b.Float())) {
			return bad()
		}
	case reflect.Bool:
		if a.Bool() != b.Bool() {
			return bad()
		}
	default:
		if fmt.Sprint(a) != fmt.Sprint(b) {
			return bad()
		}
	}
	return "", ""
}

func partitionTC(tcs []schema.ToolCall) (noIdx, idx []schema.ToolCall) {
	for _, tc := range tcs {
		if tc.Index == nil {
			noIdx = append(noIdx, tc)
		} else {
			tc.Extra = nil
			idx = append(idx, tc)
		}
	}
	return
}
