package c14

import (
	"errors"
	"reflect"
	"sort"
	"strings"

	"github.com/cloudwego/eino/schema"
)

// ---------------------------------------------------------------------------
// Independent reference, written from the statement of C14 and the mechanism
// description in its anchors (not from the code):
//   * strings: joined in arrival order
//   * messages: role / name / tool-call-id must agree where present; content joined
//     in arrival order; tool-call fragments without index stay as they are, in
//     arrival order; fragments with the same index are merged (id/type/name must
//     agree where present, arguments joined in arrival order); indexed calls are
//     output sorted by index; finish reason = last non-empty; usage = field-wise
//     maximum; log-probs appended; multi-content = last non-empty; extras merged
//     per key
//   * message lists: position-wise, nil holes skipped, all lists the same length
//   * maps: per key
//   * builtin scalars: last value; registered custom type: its registered function
//   * any other type: at most one non-zero value may occur (result = that value, or
//     the zero value), otherwise an error
// errRef is the only error the reference returns: only error-ness is compared.

var errRef = errors.New("reference: concatenation fails")

// errUndefined: the reference does not define the result (an untyped nil inside a map:
// the statement only demands "a value or an error" for it).
var errUndefined = errors.New("reference: undefined")

func refMessages(msgs []*schema.Message) (*schema.Message, error) {
	out := &schema.Message{}
	var content strings.Builder
	var noIdx []schema.ToolCall
	type group struct {
		idx                int
		first              schema.ToolCall
		id, typ, name, arg string
	}
	var groups []*group
	var extras []any
	for _, m := range msgs {
		if m == nil {
			return nil, errRef
		}
	}
	for _, m := range msgs {
		if m.Role != "" {
			if out.Role != "" && out.Role != m.Role {
				return nil, errRef
			}
			out.Role = m.Role
		}
		if m.Name != "" {
			if out.Name != "" && out.Name != m.Name {
				return nil, errRef
			}
			out.Name = m.Name
		}
		if m.ToolCallID != "" {
			if out.ToolCallID != "" && out.ToolCallID != m.ToolCallID {
				return nil, errRef
			}
			out.ToolCallID = m.ToolCallID
		}
		content.WriteString(m.Content)
		for _, tc := range m.ToolCalls {
			if tc.Index == nil {
				noIdx = append(noIdx, tc)
				continue
			}
			var g *group
			for _, x := range groups {
				if x.idx == *tc.Index {
					g = x
				}
			}
			if g == nil {
				g = &group{idx: *tc.Index, first: tc}
				groups = append(groups, g)
			}
			if tc.ID != "" {
				if g.id != "" && g.id != tc.ID {
					return nil, errRef
				}
				g.id = tc.ID
			}
			if tc.Type != "" {
				if g.typ != "" && g.typ != tc.Type {
					return nil, errRef
				}
				g.typ = tc.Type
			}
			if tc.Function.Name != "" {
				if g.name != "" && g.name != tc.Function.Name {
					return nil, errRef
				}
				g.name = tc.Function.Name
			}
			g.arg += tc.Function.Arguments
		}
		if len(m.MultiContent) > 0 {
			out.MultiContent = m.MultiContent
		}
		if len(m.Extra) > 0 {
			extras = append(extras, m.Extra)
		}
		if rm := m.ResponseMeta; rm != nil {
			if out.ResponseMeta == nil {
				out.ResponseMeta = &schema.ResponseMeta{}
			}
			if rm.FinishReason != "" {
				out.ResponseMeta.FinishReason = rm.FinishReason
			}
			if u := rm.Usage; u != nil {
				if out.ResponseMeta.Usage == nil {
					out.ResponseMeta.Usage = &schema.TokenUsage{}
				}
				o := out.ResponseMeta.Usage
				o.PromptTokens = max(o.PromptTokens, u.PromptTokens)
				o.CompletionTokens = max(o.CompletionTokens, u.CompletionTokens)
				o.TotalTokens = max(o.TotalTokens, u.TotalTokens)
			}
			if lp := rm.LogProbs; lp != nil {
				if out.ResponseMeta.LogProbs == nil {
					out.ResponseMeta.LogProbs = &schema.LogProbs{}
				}
				for _, c := range lp.Content {
					out.ResponseMeta.LogProbs.Content = append(out.ResponseMeta.LogProbs.Content, c)
				}
			}
		}
	}
	out.Content = content.String()
	sort.SliceStable(groups, func(i, j int) bool { return groups[i].idx < groups[j].idx })
	out.ToolCalls = append(out.ToolCalls, noIdx...)
	for _, g := range groups {
		tc := g.first // keeps Index and Extra of the first fragment
		tc.ID, tc.Type = g.id, g.typ
		tc.Function.Name, tc.Function.Arguments = g.name, g.arg
		out.ToolCalls = append(out.ToolCalls, tc)
	}
	if len(extras) > 0 {
		e, err := refMerge(extras, true)
		if err != nil {
			return nil, err
		}
		if em := e.(map[string]any); len(em) > 0 {
			out.Extra = em
		}
	}
	return out, nil
}

func refMessageLists(lists [][]*schema.Message) ([]*schema.Message, error) {
	n := len(lists[0])
	for _, l := range lists {
		if len(l) != n {
			return nil, errRef
		}
	}
	out := make([]*schema.Message, n)
	for i := 0; i < n; i++ {
		var col []*schema.Message
		for _, l := range lists {
			if l[i] != nil {
				col = append(col, l[i])
			}
		}
		switch len(col) {
		case 0:
		case 1:
			out[i] = col[0]
		default:
			m, err := refMessages(col)
			if err != nil {
				return nil, err
			}
			out[i] = m
		}
	}
	return out, nil
}

var (
	tMsg  = reflect.TypeOf((*schema.Message)(nil))
	tMsgs = reflect.TypeOf([]*schema.Message(nil))
	tReg  = reflect.TypeOf(Reg{})
)

// refMerge merges the values observed for one position (all chunks of a stream, or
// all values of one map key). force: merge even a single value (only maps and the
// direct ConcatMessages call do that; a single value is otherwise passed through).
func refMerge(vals []any, force bool) (any, error) {
	for _, v := range vals {
		if v == nil {
			return nil, errUndefined
		}
	}
	t := reflect.TypeOf(vals[0])
	for _, v := range vals[1:] {
		if reflect.TypeOf(v) != t {
			return nil, errRef
		}
	}
	if t.Kind() == reflect.Map {
		// the entries of all chunks grouped the way a Go map groups keys: by ==. -0 and +0 are one key; a key
		// that is not equal to itself (NaN inside) is never found again, so every such entry is a group of
		// its own (keyed_maps_test.go)
		out := reflect.MakeMap(t)
		type group struct {
			key  reflect.Value
			vals []any
		}
		var groups []*group
		index := reflect.MakeMap(reflect.MapOf(t.Key(), reflect.TypeOf(0)))
		for _, v := range vals {
			rv := reflect.ValueOf(v)
			it := rv.MapRange()
			for it.Next() {
				var g *group
				if at := index.MapIndex(it.Key()); at.IsValid() {
					g = groups[at.Int()]
				} else {
					g = &group{key: it.Key()}
					index.SetMapIndex(it.Key(), reflect.ValueOf(len(groups)))
					groups = append(groups, g)
				}
				g.vals = append(g.vals, it.Value().Interface())
			}
		}
		var undefined bool
		var failed error
		for _, g := range groups {
			m, err := refMerge(g.vals, false)
			if err == errUndefined {
				undefined = true
				continue
			}
			if err != nil {
				failed = err
				continue
			}
			if m == nil {
				out.SetMapIndex(g.key, reflect.Zero(t.Elem()))
			} else {
				out.SetMapIndex(g.key, reflect.ValueOf(m))
			}
		}
		if failed != nil {
			return nil, failed
		}
		if undefined {
			return nil, errUndefined
		}
		return out.Interface(), nil
	}
	if len(vals) == 1 && !force {
		return vals[0], nil
	}
	switch t.Kind() {
	case reflect.String:
		if t == reflect.TypeOf("") {
			var b strings.Builder
			for _, v := range vals {
				b.WriteString(v.(string))
			}
			return b.String(), nil
		}
	case reflect.Int, reflect.Int8, reflect.Int16, reflect.Int32, reflect.Int64,
		reflect.Uint, reflect.Uint8, reflect.Uint16, reflect.Uint32, reflect.Uint64,
		reflect.Float32, reflect.Float64, reflect.Bool:
		if t.PkgPath() == "" { // builtin scalar, not a named type
			return vals[len(vals)-1], nil
		}
	}
	switch t {
	case tMsg:
		ms := make([]*schema.Message, len(vals))
		for i, v := range vals {
			ms[i] = v.(*schema.Message)
		}
		m, err := refMessages(ms)
		if err != nil {
			return nil, err
		}
		return m, nil
	case tMsgs:
		ls := make([][]*schema.Message, len(vals))
		for i, v := range vals {
			ls[i] = v.([]*schema.Message)
		}
		l, err := refMessageLists(ls)
		if err != nil {
			return nil, err
		}
		return l, nil
	case tReg:
		rs := make([]Reg, len(vals))
		for i, v := range vals {
			rs[i] = v.(Reg)
		}
		r, err := refReg(rs)
		if err != nil {
			return nil, errRef
		}
		return r, nil
	}
	// every other type: at most one non-zero value
	var found any
	n := 0
	for _, v := range vals {
		if !reflect.ValueOf(v).IsZero() {
			n++
			found = v
		}
	}
	if n > 1 {
		return nil, errRef
	}
	if n == 0 {
		return reflect.Zero(t).Interface(), nil
	}
	return found, nil
}

// refReg states what the registered function of the custom type Reg computes
// (written twice on purpose: regConcat below is the function handed to eino).
func refReg(rs []Reg) (Reg, error) {
	var out Reg
	for _, r := range rs {
		if r.N < 0 {
			return Reg{}, errRef
		}
		out.S += r.S
		out.N += r.N
		for _, t := range r.Tags {
			out.Tags = append(out.Tags, t)
		}
	}
	return out, nil
}

// refTop is the reference for a whole chunk sequence of static type T.
// direct: the call is ConcatMessages itself (merges even 0 or 1 message);
// otherwise stream semantics: empty → error, one chunk → that chunk.
func refTop[T any](chunks []T, direct bool) (any, error) {
	if direct {
		ms := any(chunks).([]*schema.Message)
		m, err := refMessages(ms)
		if err != nil {
			return nil, err
		}
		return m, nil
	}
	if len(chunks) == 0 {
		return nil, errRef
	}
	if len(chunks) == 1 {
		return chunks[0], nil
	}
	t := reflect.TypeOf((*T)(nil)).Elem()
	if t.Kind() == reflect.Interface {
		// interface-typed stream: nil chunks carry nothing; what the other chunks hold is concatenated
		// by its own dynamic type, the way the values of a map[string]any are (eino 751fcbd; before that
		// repair two non-nil chunks always failed, which made Invoke and Stream of one graph disagree)
		var found any
		var nonNil []any
		for _, c := range chunks {
			if any(c) != nil {
				nonNil = append(nonNil, c)
				found = c
			}
		}
		if len(nonNil) > 1 {
			return refMerge(nonNil, true)
		}
		return found, nil
	}
	vals := make([]any, len(chunks))
	for i, c := range chunks {
		vals[i] = c
	}
	return refMerge(vals, true)
}
