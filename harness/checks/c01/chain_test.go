package c01

import (
	"context"
	"fmt"

	"verifharness/internal/gspec"
	"verifharness/internal/mon"
)

// chainCase: a chain must behave as sequential composition of its stages.
func chainCase(ctx context.Context, rep *mon.Reporter, rng *mon.Rand) {
	c := gspec.GenChain(rng, rng.Bool(), 1)
	r, err := gspec.BuildChain(ctx, c)
	if err != nil {
		rep.Violation(ID+"/build-error/chain", "a well-formed generated chain was rejected: "+err.Error(), c)
		return
	}
	for i := 0; i < 3; i++ {
		in := gspec.V{"in": rng.Str(1, 6)}
		ref := gspec.EvalChain(c, in)
		for _, para := range []string{"I", "S"} {
			ctl := gspec.NewCtl("c")
			out := gspec.Call(gspec.WithCtl(ctx, ctl), r, para, in, 0, -1)
			rep.AddEvaluations(1)
			rep.Count("chain_runs", 1)
			execs, _, _, _ := ctl.Log.Snapshot()
			extra := fmt.Sprintf("paradigm=%s input=%s reference: %s", para, gspec.Canon(in), ref.String())
			if m := gspec.CompareResult(ref, out); m != nil {
				rep.Violation(ID+"/chain/"+m.Class, m.Detail+"\n"+extra, map[string]any{"chain": c, "input": in})
				continue
			}
			if ref.Err == "" {
				if m := gspec.CompareExecsExact(ref, execs); m != nil {
					rep.Violation(ID+"/chain/"+m.Class, m.Detail+"\n"+extra, map[string]any{"chain": c, "input": in})
				}
			}
		}
		if len(c.Stages) >= 2 && len(ref.Execs) >= 2 {
			rep.NonTrivial("chain|" + c.Digest() + "|" + gspec.Canon(in))
		}
	}
}
