// Package c01: Pregel lock-step superstep semantics, termination, nesting, chains.
package c01

import (
	"context"
	"fmt"
	"testing"

	"github.com/cloudwego/eino/compose"

	"verifharness/internal/gspec"
	"verifharness/internal/mon"
)

const ID = "C01"

func genOpts(r *mon.Rand, cfg mon.Config) gspec.GenOpts {
	o := gspec.GenOpts{
		Mode: gspec.Pregel, MinNodes: 2, MaxNodes: cfg.Pick(8, 12),
		Cycles: 0.45, Branches: 0.6, Multi: 0.4, StreamCond: 0.3, AllowEmpty: 0.3,
		Nest: cfg.Pick(2, 3), NestProb: 0.12, State: 0.25, StreamState: 0.3,
		Streamy: r.Prob(0.5), Keys: 0.25, Renames: 0.12, Passthrough: 0.12, Collide: 0.02, Wide: 0.2,
		MaxStepsProb: 0.25, CtrlOnly: 0.2, DataOnly: 0.3, Fields: 0.4, TwoBranches: 0.3,
	}
	return o
}

func nonTrivial(spec *gspec.GraphSpec, ref *gspec.RefResult) bool {
	fanin := map[string]int{}
	for _, e := range spec.Edges {
		fanin[e.To]++
	}
	structure := len(spec.Branches) > 0 || spec.HasCycle()
	for _, c := range fanin {
		if c > 1 {
			structure = true
		}
	}
	return structure && len(ref.Execs) >= 3
}

func TestCheck(t *testing.T) {
	cfg := mon.Load(ID)
	rep := mon.NewReporter(cfg, "exploration",
		"generated Pregel graph specs (2..8/12 nodes: fan-out, fan-in, single/multi branches, cycles, nested graphs of all modes, state handlers, key nodes, explicit step limits) × 3-4 inputs × {Invoke, Stream, call-time step limits}; each run is compared with an independent superstep reference interpreter (result, error class, execution multiset, step structure of the body-call log); nested graphs are also compiled alone and run on the inputs the outer reference fed them; chains are compared with sequential composition. A case is non-trivial when the graph has a branch, a fan-in or a cycle and the reference executes >=3 node bodies; distinct = distinct (spec, input) digests.",
		[]string{"node bodies are deterministic functions (by construction)", "merge of colliding keys is only judged in Invoke (the streamed merge interleaves chunks, which the statement does not define)", "the step-limit error is recognised by errors.Is or by message (its unwrapping is C13's business)"},
		200)
	defer func() {
		if err := rep.Flush(); err != nil {
			t.Fatalf("flush: %v", err)
		}
	}()
	ctx := context.Background()
	n := int64(cfg.Pick(1000, 10000))
	rep.Cases(n, func(idx int64, rng *mon.Rand) {
		if idx%5 == 4 {
			chainCase(ctx, rep, rng)
			return
		}
		spec := gspec.Gen(rng, genOpts(rng, cfg))
		graphCase(ctx, rep, rng, spec, idx < 2)
	})
}

func violate(rep *mon.Reporter, sub string, m *gspec.Mismatch, spec *gspec.GraphSpec, in gspec.V, extra string) {
	rep.Violation(ID+"/"+sub+"/"+m.Class, m.Detail+"\n"+extra, map[string]any{"spec": spec, "input": in})
}

func graphCase(ctx context.Context, rep *mon.Reporter, rng *mon.Rand, spec *gspec.GraphSpec, sample bool) {
	r, err := gspec.Build(ctx, spec, gspec.BuildOpts{})
	if err != nil {
		rep.Violation(ID+"/build-error", "a well-formed generated spec was rejected: "+err.Error(), spec)
		return
	}
	rep.Distinct("shapes", spec.Shape())
	nin := 3 + rng.Intn(2)
	for i := 0; i < nin; i++ {
		in := gspec.V{"in": rng.Str(1, 6)}
		ref := gspec.EvalGraph(spec, in, nil)
		rep.Distinct("branch_outcomes", fmt.Sprint(ref.Branch))
		rep.Count("ref_class_"+orOK(ref.Err), 1)
		oneRun(ctx, rep, spec, r, in, ref, "I", nil, "graph")
		if ref.Err != "collision" {
			oneRun(ctx, rep, spec, r, in, ref, "S", nil, "graph")
		}
		if nonTrivial(spec, ref) {
			rep.NonTrivial(spec.Digest() + "|" + gspec.Canon(in))
		}
		if sample && i == 0 {
			rep.Sample(map[string]any{"spec": spec, "input": in, "reference": ref.String()})
		}
		// call-time step limits: exactly the needed number of supersteps, and one less
		if ref.Err == "" && ref.NSteps >= 1 && i == 0 {
			for _, lim := range []int{ref.NSteps, ref.NSteps - 1} {
				if lim < 1 {
					continue
				}
				env := &gspec.RefEnv{MaxSteps: lim}
				ref2 := gspec.EvalGraph(spec, in, env)
				oneRun(ctx, rep, spec, r, in, ref2, "I", []compose.Option{compose.WithRuntimeMaxSteps(lim)}, "runtime-limit")
				rep.Count("runtime_limit_runs", 1)
			}
		}
		// a call-time step limit designated to a nested (any-predecessor) graph applies to that graph, not
		// to the graph the option is passed to: with exactly the number of supersteps the nested graph
		// needs the run is unchanged, with one less it fails with the max-steps error
		if ref.Err == "" && i == 0 {
			designatedLimits(ctx, rep, spec, r, in, ref)
		}
		// nested graph behaves like the same graph compiled alone
		if i == 0 && ref.Err == "" {
			for k, ins := range ref.SubIn {
				n := findNode(spec, k)
				if n == nil || n.Sub == nil {
					continue
				}
				alone, err := gspec.Build(ctx, n.Sub, gspec.BuildOpts{})
				if err != nil {
					rep.Violation(ID+"/build-error/nested-alone", err.Error(), n.Sub)
					continue
				}
				for _, sin := range ins {
					if n.Pre || n.StreamPre {
						// the outer pre-handler's marker is part of what the inner graph received
					}
					sref := gspec.EvalGraph(n.Sub, sin, nil)
					oneRun(ctx, rep, n.Sub, alone, sin, sref, "I", nil, "nested-alone")
					rep.Count("nested_alone_runs", 1)
				}
			}
		}
	}
}

func findNode(g *gspec.GraphSpec, key string) *gspec.NodeSpec {
	for i := range g.Nodes {
		if g.Nodes[i].Key == key {
			return &g.Nodes[i]
		}
		if g.Nodes[i].Sub != nil {
			if n := findNode(g.Nodes[i].Sub, key); n != nil {
				return n
			}
		}
	}
	return nil
}

func orOK(s string) string {
	if s == "" {
		return "ok"
	}
	return s
}

func oneRun(ctx context.Context, rep *mon.Reporter, spec *gspec.GraphSpec, r compose.Runnable[gspec.V, gspec.V], in gspec.V, ref *gspec.RefResult, para string, opts []compose.Option, sub string) {
	ctl := gspec.NewCtl("r")
	out, wres, dump := gspec.CallGuarded(gspec.WithCtl(ctx, ctl), r, para, in, 0, -1, opts...)
	rep.AddEvaluations(1)
	if wres == mon.Stuck {
		where, detail := gspec.StuckSignature(dump)
		rep.Violation(ID+"/"+sub+"/hang/"+where, "the run can never finish: every goroutine of the process is parked\n"+detail, map[string]any{"spec": spec, "input": in})
		return
	} else if wres == mon.Inconclusive {
		rep.Inconclusive("wall-clock watchdog fired while goroutines were still active")
		return
	}
	execs, _, _, _ := ctl.Log.Snapshot()
	rep.Count("runs_"+para, 1)
	rep.Count("body_executions_observed", int64(len(execs)))
	extra := fmt.Sprintf("paradigm=%s input=%s\nreference: %s", para, gspec.Canon(in), ref.String())
	if m := gspec.CompareResult(ref, out); m != nil {
		violate(rep, sub, m, spec, in, extra)
		return
	}
	switch ref.Err {
	case "", "maxsteps":
		if sub == "designated-runtime-limit" && ref.Err != "" {
			// a nested graph that runs out of steps fails its node in the middle of the parent's step: which
			// of the sibling nodes of that step still ran is timing (the error class is what is judged)
			break
		}
		if m := gspec.CompareExecsExact(ref, execs); m != nil {
			violate(rep, sub, m, spec, in, extra)
			return
		}
		if spec.Mode == gspec.Pregel {
			if m := gspec.CheckStepStructure(spec, ref, execs); m != nil {
				violate(rep, sub, m, spec, in, extra)
				return
			}
			rep.Count("supersteps_checked", int64(len(ref.Steps)))
		}
	}
	// the step bound itself: the number of distinct step groups can never exceed the limit
	if spec.Mode == gspec.Pregel {
		limit := spec.MaxSteps
		if limit == 0 {
			limit = len(spec.Nodes) + 10
		}
		if len(ref.Steps) > limit {
			rep.Violation(ID+"/reference-self-check", "reference executed more steps than the limit", spec)
		}
	}
}

// designatedLimits: see the call site.
func designatedLimits(ctx context.Context, rep *mon.Reporter, spec *gspec.GraphSpec, r compose.Runnable[gspec.V, gspec.V], in gspec.V, ref *gspec.RefResult) {
	type sub struct {
		path []string
		g    *gspec.GraphSpec
	}
	var subs []sub
	var walk func(g *gspec.GraphSpec, prefix []string)
	walk = func(g *gspec.GraphSpec, prefix []string) {
		for i := range g.Nodes {
			n := &g.Nodes[i]
			if n.Sub == nil {
				continue
			}
			p := append(append([]string(nil), prefix...), n.Key)
			if n.Sub.Mode == gspec.Pregel {
				subs = append(subs, sub{p, n.Sub})
			}
			walk(n.Sub, p)
		}
	}
	walk(spec, nil)
	for _, sb := range subs {
		key := sb.path[len(sb.path)-1]
		ins := ref.SubIn[key]
		if len(ins) == 0 {
			continue
		}
		need := 0
		for _, si := range ins {
			sr := gspec.EvalGraph(sb.g, si, nil)
			if sr.Err != "" {
				need = -1
				break
			}
			if sr.NSteps > need {
				need = sr.NSteps
			}
		}
		if need < 1 {
			continue
		}
		for _, lim := range []int{need, need - 1} {
			if lim < 1 {
				continue
			}
			env := &gspec.RefEnv{SubMaxSteps: map[string]int{sb.g.Name: lim}}
			ref2 := gspec.EvalGraph(spec, in, env)
			opt := compose.WithRuntimeMaxSteps(lim).DesignateNodeWithPath(compose.NewNodePath(sb.path...))
			oneRun(ctx, rep, spec, r, in, ref2, "I", []compose.Option{opt}, "designated-runtime-limit")
			rep.Count("designated_runtime_limit_runs", 1)
		}
	}
}
