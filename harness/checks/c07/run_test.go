package c07

// Driving the real eino code: build a spec in a given order of calls, compile,
// run in Invoke and Stream, observe.

import (
	"context"
	"fmt"
	"sort"

	"github.com/cloudwego/eino/compose"
	"verifharness/internal/mon"
)

type attempt struct {
	Order  []int `json:"order"`  // order of the edge/branch calls (indices into Spec.Calls)
	Policy int   `json:"policy"` // 0 nodes up-front, 1 each node right before its first use, 2 up-front in reverse
}

type built struct {
	RejectedAt string // "" = compiled; "node:<key>", "call:<idx>", "compile"
	RejectErr  string
	BuildPanic string
	fns        *runFns
	w          *world
	inferred   map[string][2]int // pass-through key -> observed (input, output) type, -1 unknown
}

type infoCB struct{ info *compose.GraphInfo }

func (c *infoCB) OnFinish(ctx context.Context, info *compose.GraphInfo) { c.info = info }

func ek(k string) string {
	switch k {
	case START:
		return compose.START
	case END:
		return compose.END
	}
	return k
}

// nodeOpts: the options of a node. keyed: pass WithOutputKey (a Parallel sets the key itself).
func nodeOpts(w *world, n *Node, outKeyOpt bool) []compose.GraphAddNodeOpt {
	var opts []compose.GraphAddNodeOpt
	if n.InKey != "" {
		opts = append(opts, compose.WithInputKey(n.InKey))
	}
	if n.OutKey != "" && outKeyOpt {
		opts = append(opts, compose.WithOutputKey(n.OutKey))
	}
	if n.Pre >= 0 {
		opts = append(opts, perType[n.Pre].pre[n.PreState](w, n.Key, n.PreStream, n.PreConv))
	}
	if n.Post >= 0 {
		opts = append(opts, perType[n.Post].post[n.PostState](w, n.Key, n.PostStream, n.PostConv))
	}
	return opts
}

func lambdaOf(w *world, n *Node) *compose.Lambda {
	rt := &nodeRT{w: w, key: n.Key, echo: n.Echo}
	if n.Kind == kTrans {
		return perPair[n.In][n.Out].trans(rt)
	}
	return perPair[n.In][n.Out].inv(rt)
}

// nestedOf: the nested graph of a kSub node: START→(invokable lambda In→Out)→END.
func nestedOf(w *world, n *Node) compose.AnyGraph {
	sub := perPair[n.In][n.Out].front(feGraph, false)
	inner := *n
	inner.Kind = kInv
	if err := sub.b.AddLambdaNode("inner", lambdaOf(w, &inner)); err != nil {
		panic("harness: nested graph: " + err.Error())
	}
	if err := sub.b.AddEdge(compose.START, "inner"); err != nil {
		panic("harness: nested graph: " + err.Error())
	}
	if err := sub.b.AddEdge("inner", compose.END); err != nil {
		panic("harness: nested graph: " + err.Error())
	}
	return sub.any
}

func addNode(h *gHandle, w *world, n *Node) error {
	opts := nodeOpts(w, n, true)
	switch n.Kind {
	case kPass:
		return h.b.AddPassthroughNode(n.Key, opts...)
	case kSub:
		return h.b.AddGraphNode(n.Key, nestedOf(w, n), opts...)
	}
	return h.b.AddLambdaNode(n.Key, lambdaOf(w, n), opts...)
}

func fieldMappings(m Mapping) []*compose.FieldMapping {
	switch {
	case m.From != "" && m.To != "":
		return []*compose.FieldMapping{compose.MapFields(m.From, m.To)}
	case m.From != "":
		return []*compose.FieldMapping{compose.FromField(m.From)}
	case m.To != "":
		return []*compose.FieldMapping{compose.ToField(m.To)}
	}
	return nil
}

func branchOf(w *world, c *Call) *compose.GraphBranch {
	ends := make([]string, len(c.To))
	for i, t := range c.To {
		ends[i] = ek(t)
	}
	return perType[c.Cond].branch(&branchRT{w: w, key: c.From, group: c.Group, ends: ends}, c.StreamCond)
}

// buildGraph: the Graph front end: nodes per policy, edge/branch calls in the attempt's order.
func buildGraph(s *Spec, a attempt, b *built, h *gHandle) bool {
	added := map[string]bool{}
	add := func(key string) bool {
		if key == START || key == END || added[key] {
			return true
		}
		added[key] = true
		if err := addNode(h, b.w, s.node(key)); err != nil {
			b.RejectedAt, b.RejectErr = "node:"+key, err.Error()
			return false
		}
		return true
	}
	switch a.Policy {
	case 0:
		for i := range s.Nodes {
			if !add(s.Nodes[i].Key) {
				return false
			}
		}
	case 2:
		for i := len(s.Nodes) - 1; i >= 0; i-- {
			if !add(s.Nodes[i].Key) {
				return false
			}
		}
	}
	for _, ci := range a.Order {
		c := &s.Calls[ci]
		if !add(c.From) {
			return false
		}
		for _, t := range c.To {
			if !add(t) {
				return false
			}
		}
		var err error
		if c.Branch {
			err = h.b.AddBranch(ek(c.From), branchOf(b.w, c))
		} else {
			err = h.b.AddEdge(ek(c.From), ek(c.To[0]))
		}
		if err != nil {
			b.RejectedAt, b.RejectErr = fmt.Sprintf("call:%d", ci), err.Error()
			return false
		}
	}
	return true
}

// buildChain: the Chain front end: the construction read as a sequence of nodes,
// Parallels and ChainBranches, appended in that order (errors surface at Compile).
func buildChain(s *Spec, b *built, h *gHandle) bool {
	plan, ok := s.chainPlan()
	if !ok {
		b.RejectedAt, b.RejectErr = "harness", "not chain shaped"
		return false
	}
	for _, e := range plan {
		switch e.Kind {
		case 0:
			n := s.node(e.Keys[0])
			opts := append(nodeOpts(b.w, n, true), compose.WithNodeKey(n.Key))
			switch n.Kind {
			case kPass:
				h.ch.AppendPassthrough(opts...)
			case kSub:
				h.ch.AppendGraph(nestedOf(b.w, n), opts...)
			default:
				h.ch.AppendLambda(lambdaOf(b.w, n), opts...)
			}
		case 1:
			p := compose.NewParallel()
			for _, k := range e.Keys {
				n := s.node(k)
				opts := append(nodeOpts(b.w, n, false), compose.WithNodeKey(n.Key))
				switch n.Kind {
				case kPass:
					p.AddPassthrough(n.OutKey, opts...)
				case kSub:
					p.AddGraph(n.OutKey, nestedOf(b.w, n), opts...)
				default:
					p.AddLambda(n.OutKey, lambdaOf(b.w, n), opts...)
				}
			}
			h.ch.AppendParallel(p)
		case 2:
			c := &s.Calls[e.Call]
			cb := perType[c.Cond].chainBranch(&branchRT{w: b.w, key: c.From, group: c.Group, ends: append([]string(nil), c.To...)}, c.StreamCond)
			for _, k := range e.Keys {
				n := s.node(k)
				opts := append(nodeOpts(b.w, n, true), compose.WithNodeKey(n.Key))
				switch n.Kind {
				case kPass:
					cb.AddPassthrough(n.Key, opts...)
				case kSub:
					cb.AddGraph(n.Key, nestedOf(b.w, n), opts...)
				default:
					cb.AddLambda(n.Key, lambdaOf(b.w, n), opts...)
				}
			}
			h.ch.AppendBranch(cb)
		}
	}
	return true
}

// buildWorkflow: the Workflow front end: nodes first (a node's inputs are declared on
// its handle), then the connections in the attempt's order: an edge is an input of
// its target (with its field mapping), a branch is added as such and each of its
// ends takes the value of the branch's source through a data-only input
// (WithNoDirectDependency). Errors surface at Compile, where eino resolves the
// declarations node by node in map order.
func buildWorkflow(s *Spec, a attempt, b *built, h *gHandle) bool {
	wn := map[string]*compose.WorkflowNode{}
	idx := make([]int, len(s.Nodes))
	for i := range idx {
		idx[i] = i
		if a.Policy == 2 {
			idx[i] = len(s.Nodes) - 1 - i
		}
	}
	for _, i := range idx {
		n := &s.Nodes[i]
		opts := nodeOpts(b.w, n, true)
		switch n.Kind {
		case kPass:
			wn[n.Key] = h.wf.AddPassthroughNode(n.Key, opts...)
		case kSub:
			wn[n.Key] = h.wf.AddGraphNode(n.Key, nestedOf(b.w, n), opts...)
		default:
			wn[n.Key] = h.wf.AddLambdaNode(n.Key, lambdaOf(b.w, n), opts...)
		}
	}
	wn[END] = h.wf.End()
	data := map[string]bool{}
	for _, ci := range a.Order {
		c := &s.Calls[ci]
		if c.Branch {
			h.wf.AddBranch(ek(c.From), branchOf(b.w, c))
		}
		for i, t := range c.To {
			k := c.From + ">" + t
			if data[k] {
				continue // the second branch of a group: the data connection exists
			}
			data[k] = true
			if c.Branch {
				wn[t].AddInputWithOptions(ek(c.From), fieldMappings(c.mapping(i)), compose.WithNoDirectDependency())
			} else {
				wn[t].AddInput(ek(c.From), fieldMappings(c.mapping(i))...)
			}
		}
	}
	return true
}

func build(s *Spec, a attempt) *built {
	b := &built{w: &world{cur: &runParams{}}, inferred: map[string][2]int{}}
	ctx := context.Background()
	p := mon.Safe(func() {
		h := perPair[s.GI][s.GO].front(s.Front, s.State)
		var ok bool
		switch s.Front {
		case feChain:
			ok = buildChain(s, b, h)
		case feWorkflow:
			ok = buildWorkflow(s, a, b, h)
		default:
			ok = buildGraph(s, a, b, h)
		}
		if !ok {
			return
		}
		cb := &infoCB{}
		copts := []compose.GraphCompileOption{compose.WithGraphCompileCallbacks(cb)}
		if s.DAG {
			copts = append(copts, compose.WithNodeTriggerMode(compose.AllPredecessor))
		}
		fns, err := h.compile(ctx, copts...)
		if err != nil {
			b.RejectedAt, b.RejectErr = "compile", err.Error()
			return
		}
		b.fns = fns
		if cb.info != nil {
			for k, ni := range cb.info.Nodes {
				if n := s.node(k); n != nil && n.Kind == kPass {
					b.inferred[k] = [2]int{typeIdx(ni.InputType), typeIdx(ni.OutputType)}
				}
			}
		}
	})
	if p != nil {
		b.BuildPanic = p.Value
		b.RejectedAt = "panic"
		b.fns = nil
	}
	return b
}

// ---- runs -----------------------------------------------------------------------

type runKey struct {
	In      int `json:"input_value"`
	Variant int `json:"variant"`
}

type observed struct {
	Mode      string // invoke | stream
	OK        bool
	Out       any
	Err       error
	Recovered bool // err carries a panic eino recovered on a node goroutine
	Panic     *mon.Panic
	Trace     []event
	Broken    []string
}

func variants(s *Spec) int {
	v := 1
	for _, c := range s.Calls {
		if c.Branch && len(c.To) > v {
			v = len(c.To)
		}
	}
	for i := range s.Nodes {
		n := &s.Nodes[i]
		if n.Kind != kPass && isIface(n.Out) {
			if l := len(legalValues(n.Out)); l > v {
				v = l
			}
		}
		if n.emitsNil() && v < 2 {
			v = 2
		}
		for _, h := range [][2]int{{n.Pre, n.PreConv}, {n.Post, n.PostConv}} {
			if h[0] >= 0 && h[1] >= 1 {
				if l := len(legalValues(h[0])); l > v {
					v = l
				}
			}
		}
	}
	if v > 4 {
		v = 4
	}
	return v
}

func paramsFor(s *Spec, k runKey) *runParams {
	p := &runParams{outVal: map[string]any{}, hVal: map[string]any{}, choice: map[int]int{}}
	for i := range s.Nodes {
		n := &s.Nodes[i]
		hv := func(slot string, t, conv int) {
			if conv == 2 && !isIface(t) {
				conv = 1 // only an interface-typed handler can hand on a nil value
			}
			switch conv {
			case 1:
				lv := legalValues(t)
				p.hVal[slot] = values[lv[(k.Variant*2+k.In+i+1)%len(lv)]]
			case 2:
				p.hVal[slot] = nil
			}
		}
		if n.Pre >= 0 {
			hv("pre:"+n.Key, n.Pre, n.PreConv)
		}
		if n.Post >= 0 {
			hv("post:"+n.Key, n.Post, n.PostConv)
		}
		if n.Kind == kPass {
			continue
		}
		lv := legalValues(n.Out)
		p.outVal[n.Key] = values[lv[(k.Variant*3+k.In+i)%len(lv)]]
		if n.emitsNil() && (k.Variant+i)%2 == 1 {
			p.outVal[n.Key] = nil
		}
	}
	for _, c := range s.Calls {
		if c.Branch {
			p.choice[c.Group] = (k.Variant + c.Group) % 6
		}
	}
	return p
}

func runOnce(b *built, p *runParams, in any, mode string) *observed {
	o := &observed{Mode: mode}
	b.w.mu.Lock()
	b.w.cur, b.w.trace, b.w.broken = p, nil, nil
	b.w.mu.Unlock()
	ctx := context.Background()
	o.Panic = mon.Safe(func() {
		if mode == "invoke" {
			o.Out, o.Err = b.fns.invoke(ctx, in)
		} else {
			var chunks []any
			chunks, o.Err = b.fns.stream(ctx, in)
			if o.Err == nil {
				v, ok := combineChunks(chunks)
				if !ok {
					o.Err = fmt.Errorf("%w: output stream with %d chunks that cannot be combined", errHarness, len(chunks))
				}
				o.Out = v
			}
		}
	})
	b.w.mu.Lock()
	o.Trace, o.Broken = b.w.trace, b.w.broken
	b.w.mu.Unlock()
	if o.Panic == nil && o.Err == nil {
		o.OK = true
	}
	if o.Err != nil {
		o.Recovered = recoveredPanic(o.Err)
	}
	return o
}

func execSet(tr []event) []string {
	m := map[string]bool{}
	for _, e := range tr {
		if e.Kind == "node" {
			m[e.Key] = true
		}
	}
	var r []string
	for k := range m {
		r = append(r, k)
	}
	sort.Strings(r)
	return r
}
