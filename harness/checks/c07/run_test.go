package c07

// Driving the real eino code: build a spec in a given order of calls, compile,
// run in Invoke and Stream, observe.

import (
	"context"
	"fmt"
	"sort"

	"github.com/cloudwego/eino/compose"
	"verifharness/internal/mon"
)

type attempt struct {
	Order  []int `json:"order"`  // order of the edge/branch calls (indices into Spec.Calls)
	Policy int   `json:"policy"` // 0 nodes up-front, 1 each node right before its first use, 2 up-front in reverse
}

type built struct {
	RejectedAt string // "" = compiled; "node:<key>", "call:<idx>", "compile"
	RejectErr  string
	BuildPanic string
	fns        *runFns
	w          *world
	inferred   map[string][2]int // pass-through key -> observed (input, output) type, -1 unknown
}

type infoCB struct{ info *compose.GraphInfo }

func (c *infoCB) OnFinish(ctx context.Context, info *compose.GraphInfo) { c.info = info }

func ek(k string) string {
	switch k {
	case START:
		return compose.START
	case END:
		return compose.END
	}
	return k
}

func addNode(h *gHandle, w *world, n *Node) error {
	var opts []compose.GraphAddNodeOpt
	if n.InKey != "" {
		opts = append(opts, compose.WithInputKey(n.InKey))
	}
	if n.OutKey != "" {
		opts = append(opts, compose.WithOutputKey(n.OutKey))
	}
	if n.Pre >= 0 {
		opts = append(opts, perType[n.Pre].pre[n.PreState](w, n.Key, n.PreStream))
	}
	if n.Post >= 0 {
		opts = append(opts, perType[n.Post].post[n.PostState](w, n.Key, n.PostStream))
	}
	if n.Kind == kPass {
		return h.b.AddPassthroughNode(n.Key, opts...)
	}
	rt := &nodeRT{w: w, key: n.Key, echo: n.Echo}
	var l *compose.Lambda
	if n.Kind == kTrans {
		l = perPair[n.In][n.Out].trans(rt)
	} else {
		l = perPair[n.In][n.Out].inv(rt)
	}
	return h.b.AddLambdaNode(n.Key, l, opts...)
}

func build(s *Spec, a attempt) *built {
	b := &built{w: &world{cur: &runParams{}}, inferred: map[string][2]int{}}
	ctx := context.Background()
	p := mon.Safe(func() {
		h := perPair[s.GI][s.GO].graph(s.State)
		added := map[string]bool{}
		add := func(key string) bool {
			if key == START || key == END || added[key] {
				return true
			}
			added[key] = true
			if err := addNode(h, b.w, s.node(key)); err != nil {
				b.RejectedAt, b.RejectErr = "node:"+key, err.Error()
				return false
			}
			return true
		}
		switch a.Policy {
		case 0:
			for i := range s.Nodes {
				if !add(s.Nodes[i].Key) {
					return
				}
			}
		case 2:
			for i := len(s.Nodes) - 1; i >= 0; i-- {
				if !add(s.Nodes[i].Key) {
					return
				}
			}
		}
		for _, ci := range a.Order {
			c := s.Calls[ci]
			if !add(c.From) {
				return
			}
			for _, t := range c.To {
				if !add(t) {
					return
				}
			}
			var err error
			if c.Branch {
				ends := make([]string, len(c.To))
				for i, t := range c.To {
					ends[i] = ek(t)
				}
				br := perType[c.Cond].branch(&branchRT{w: b.w, key: c.From, group: c.Group, ends: ends}, c.StreamCond)
				err = h.b.AddBranch(ek(c.From), br)
			} else {
				err = h.b.AddEdge(ek(c.From), ek(c.To[0]))
			}
			if err != nil {
				b.RejectedAt, b.RejectErr = fmt.Sprintf("call:%d", ci), err.Error()
				return
			}
		}
		cb := &infoCB{}
		copts := []compose.GraphCompileOption{compose.WithGraphCompileCallbacks(cb)}
		if s.DAG {
			copts = append(copts, compose.WithNodeTriggerMode(compose.AllPredecessor))
		}
		fns, err := h.compile(ctx, copts...)
		if err != nil {
			b.RejectedAt, b.RejectErr = "compile", err.Error()
			return
		}
		b.fns = fns
		if cb.info != nil {
			for k, ni := range cb.info.Nodes {
				if n := s.node(k); n != nil && n.Kind == kPass {
					b.inferred[k] = [2]int{typeIdx(ni.InputType), typeIdx(ni.OutputType)}
				}
			}
		}
	})
	if p != nil {
		b.BuildPanic = p.Value
		b.RejectedAt = "panic"
		b.fns = nil
	}
	return b
}

// ---- runs -----------------------------------------------------------------------

type runKey struct {
	In      int `json:"input_value"`
	Variant int `json:"variant"`
}

type observed struct {
	Mode      string // invoke | stream
	OK        bool
	Out       any
	Err       error
	Recovered bool // err carries a panic eino recovered on a node goroutine
	Panic     *mon.Panic
	Trace     []event
	Broken    []string
}

func variants(s *Spec) int {
	v := 1
	for _, c := range s.Calls {
		if c.Branch && len(c.To) > v {
			v = len(c.To)
		}
	}
	for i := range s.Nodes {
		n := &s.Nodes[i]
		if n.Kind != kPass && isIface(n.Out) {
			if l := len(legalValues(n.Out)); l > v {
				v = l
			}
		}
	}
	if v > 4 {
		v = 4
	}
	return v
}

func paramsFor(s *Spec, k runKey) *runParams {
	p := &runParams{outVal: map[string]any{}, choice: map[int]int{}}
	for i := range s.Nodes {
		n := &s.Nodes[i]
		if n.Kind == kPass {
			continue
		}
		lv := legalValues(n.Out)
		p.outVal[n.Key] = values[lv[(k.Variant*3+k.In+i)%len(lv)]]
	}
	for _, c := range s.Calls {
		if c.Branch {
			p.choice[c.Group] = (k.Variant + c.Group) % 6
		}
	}
	return p
}

func runOnce(b *built, p *runParams, in any, mode string) *observed {
	o := &observed{Mode: mode}
	b.w.mu.Lock()
	b.w.cur, b.w.trace, b.w.broken = p, nil, nil
	b.w.mu.Unlock()
	ctx := context.Background()
	o.Panic = mon.Safe(func() {
		if mode == "invoke" {
			o.Out, o.Err = b.fns.invoke(ctx, in)
		} else {
			var chunks []any
			chunks, o.Err = b.fns.stream(ctx, in)
			if o.Err == nil {
				v, ok := combineChunks(chunks)
				if !ok {
					o.Err = fmt.Errorf("%w: output stream with %d chunks that cannot be combined", errHarness, len(chunks))
				}
				o.Out = v
			}
		}
	})
	b.w.mu.Lock()
	o.Trace, o.Broken = b.w.trace, b.w.broken
	b.w.mu.Unlock()
	if o.Panic == nil && o.Err == nil {
		o.OK = true
	}
	if o.Err != nil {
		o.Recovered = recoveredPanic(o.Err)
	}
	return o
}

func execSet(tr []event) []string {
	m := map[string]bool{}
	for _, e := range tr {
		if e.Kind == "node" {
			m[e.Key] = true
		}
	}
	var r []string
	for k := range m {
		r = append(r, k)
	}
	sort.Strings(r)
	return r
}
