package c07

import (
	"errors"
	"fmt"
	"sort"
	"strings"
	"testing"

	"verifharness/internal/mon"
)

// ---- verdict of one run ------------------------------------------------------------

type verdict struct {
	Class string   // "" = fine; else violation class
	Info  string   // info classification when fine
	Fail  *simFail // reference's first predicted mismatch, if any
	Text  string
}

func lambdaExec(s *Spec, exec []string) []string {
	var r []string
	for _, k := range exec {
		if n := s.node(k); n != nil && n.Kind != kPass {
			r = append(r, k)
		}
	}
	return r
}

func judge(s *Spec, sim *simResult, o *observed, b *built, sref *staticRef) verdict {
	if sim.Unjudged != "" || (o.Mode == "stream" && sim.UnjudgedStream != "") {
		return verdict{Info: "unjudged"}
	}
	if len(o.Broken) > 0 {
		return verdict{Info: "harness-broken", Text: strings.Join(o.Broken, "; ")}
	}
	var ff *simFail
	static := false
	for i := range sim.Fails {
		if ff == nil {
			ff = &sim.Fails[i]
		}
		if sim.Fails[i].static {
			static = true
			ff = &sim.Fails[i]
			break
		}
	}
	switch {
	case o.Panic != nil:
		return verdict{Class: "panic-after-compile", Fail: ff, Text: fmt.Sprintf("%s panicked on the caller goroutine: %.200s @ %s", o.Mode, o.Panic.Value, o.Panic.FirstFrame("github.com/cloudwego/eino/"))}
	case o.Err != nil && errors.Is(o.Err, errHarness):
		return verdict{Info: "harness-broken", Text: o.Err.Error()}
	case o.Recovered:
		return verdict{Class: "recovered-panic", Fail: ff, Text: fmt.Sprintf("%s failed with a panic recovered on a node goroutine: %.300s", o.Mode, o.Err.Error())}
	case o.OK:
		if ff != nil {
			return verdict{Class: "missed-check", Fail: ff, Text: fmt.Sprintf("%s succeeded although a %s value reached %s %s declared %s", o.Mode, ff.Dyn, ff.Kind, ff.At, ff.To)}
		}
		if dynName(o.Out) != dynName(sim.Out) {
			return verdict{Class: "wrong-output-type", Text: fmt.Sprintf("%s returned a %s, the reference a %s", o.Mode, dynName(o.Out), dynName(sim.Out))}
		}
		if canon(o.Out) != canon(sim.Out) {
			return verdict{Info: "value-mismatch", Text: fmt.Sprintf("%s returned %s, the reference %s", o.Mode, canon(o.Out), canon(sim.Out))}
		}
		if got, want := strings.Join(execSet(o.Trace), ","), strings.Join(lambdaExec(s, sim.Exec), ","); got != want {
			return verdict{Info: "trace-mismatch", Text: fmt.Sprintf("%s executed [%s], the reference [%s]", o.Mode, got, want)}
		}
		return verdict{Info: "ok"}
	default: // ordinary error
		if static {
			return verdict{Class: "error-after-compile", Fail: ff, Text: fmt.Sprintf("%s failed: a connection %s→%s that no value can cross was accepted (%s %s): %.200s", o.Mode, ff.From, ff.To, ff.Kind, ff.At, o.Err.Error())}
		}
		if ff != nil {
			return verdict{Info: "expected-error", Fail: ff}
		}
		if len(sim.Soft) > 0 {
			return verdict{Info: "expected-error-soft", Fail: &sim.Soft[0]}
		}
		return verdict{Class: "spurious-error", Text: fmt.Sprintf("%s failed although every value is assignable where it arrives: %.300s", o.Mode, o.Err.Error())}
	}
}

// ---- exploring one attempt -----------------------------------------------------------

type simCache map[string]*simResult

// passTypes: the types eino reports (GraphInfo) for the pass-through nodes of a
// compiled graph, kept only when they are the type of a typed neighbour of the
// node's pass-through component (otherwise the node stays transparent for the
// reference, so that an error caused by an unfounded inferred type is not excused).
func passTypes(b *built, sref *staticRef) (map[string]int, string) {
	pt := map[string]int{}
	var sig []string
	for k, t := range b.inferred {
		if t[0] < 0 || t[0] != t[1] {
			continue
		}
		if sref.launders(k, t[0]) {
			continue // typed by an interface-typed successor only: transparent (see launders)
		}
		for _, c := range sref.PassCands[k] {
			if c == t[0] {
				pt[k] = t[0]
				sig = append(sig, k+":"+typeNames[t[0]])
			}
		}
	}
	sort.Strings(sig)
	return pt, strings.Join(sig, " ")
}

func (c simCache) get(s *Spec, k runKey, in any, pt map[string]int, ptSig string) (*simResult, *runParams) {
	p := paramsFor(s, k)
	ck := fmt.Sprintf("%d/%d/%s", k.In, k.Variant, ptSig)
	if r, ok := c[ck]; ok {
		return r, p
	}
	r := simulate(s, p, in, pt)
	c[ck] = r
	return r, p
}

type hit struct {
	V   verdict
	Key runKey
	Obs *observed
	Sim *simResult
}

// explore runs every legal input value × variant × mode on a compiled graph and
// calls f for every run.
func explore(s *Spec, b *built, sref *staticRef, cache simCache, f func(h hit)) {
	nv := variants(s)
	pt, ptSig := passTypes(b, sref)
	for _, vi := range legalValues(s.GI) {
		for j := 0; j < nv; j++ {
			k := runKey{vi, j}
			sim, p := cache.get(s, k, values[vi], pt, ptSig)
			if sim.Skip != "" {
				f(hit{verdict{Info: "skipped"}, k, &observed{Mode: "none"}, sim})
				continue
			}
			for _, mode := range [2]string{"invoke", "stream"} {
				o := runOnce(b, p, values[vi], mode)
				f(hit{judge(s, sim, o, b, sref), k, o, sim})
			}
		}
	}
}

// ---- shrinking and classification -------------------------------------------------------

// normalise: reorder Calls into the attempt's order, so that the order is the identity.
func normalise(s *Spec, a attempt) (*Spec, attempt) {
	n := s.clone()
	n.Calls = n.Calls[:0]
	for _, ci := range a.Order {
		c := s.Calls[ci]
		c.To = append([]string(nil), c.To...)
		n.Calls = append(n.Calls, c)
	}
	return n, identity(len(n.Calls), a.Policy)
}

func identity(n, policy int) attempt {
	o := make([]int, n)
	for i := range o {
		o[i] = i
	}
	return attempt{Order: o, Policy: policy}
}

// classRank orders the manifestations of a defect; a minimal construction is
// reported under the worst one any of its runs shows.
var classRank = map[string]int{"panic-after-compile": 6, "recovered-panic": 5, "error-after-compile": 4, "missed-check": 3, "wrong-output-type": 2, "spurious-error": 1}

func violates(s *Spec, policy int, class string) (bool, *hit) {
	if !s.wellFormed() {
		return false, nil
	}
	b := build(s, identity(len(s.Calls), policy))
	if b.fns == nil {
		return false, nil
	}
	var first *hit
	explore(s, b, refStatic(s), simCache{}, func(h hit) {
		if first == nil && h.V.Class == class {
			hh := h
			first = &hh
		}
	})
	return first != nil, first
}

// worst returns the worst-ranked violating run of a construction.
func worst(s *Spec, policy int) *hit {
	b := build(s, identity(len(s.Calls), policy))
	if b.fns == nil {
		return nil
	}
	var w *hit
	explore(s, b, refStatic(s), simCache{}, func(h hit) {
		if h.V.Class != "" && (w == nil || classRank[h.V.Class] > classRank[w.V.Class]) {
			hh := h
			w = &hh
		}
	})
	return w
}

func shrinkCandidates(s *Spec) []*Spec {
	var out []*Spec
	emit := func(c *Spec) {
		c.prune()
		out = append(out, c)
	}
	for i, c := range s.Calls {
		if !c.Branch {
			continue
		}
		for _, e := range c.To { // branch -> plain edge
			n := s.clone()
			n.Calls[i] = Call{From: c.From, To: []string{e}}
			emit(n)
		}
		if len(c.To) > 2 {
			for j := range c.To {
				n := s.clone()
				n.Calls[i].To = append(append([]string(nil), c.To[:j]...), c.To[j+1:]...)
				emit(n)
			}
		}
		n := s.clone() // drop the branch call altogether (other calls may keep the node connected)
		n.Calls = append(n.Calls[:i], n.Calls[i+1:]...)
		emit(n)
	}
	for i := range s.Nodes { // contract a node with one way in and one edge out
		k := s.Nodes[i].Key
		in, outIdx, outs := 0, -1, 0
		for ci, c := range s.Calls {
			for _, t := range c.To {
				if t == k {
					in++
				}
			}
			if c.From == k {
				outs++
				if !c.Branch {
					outIdx = ci
				}
			}
		}
		if in != 1 || outs != 1 || outIdx < 0 {
			continue
		}
		succ := s.Calls[outIdx].To[0]
		n := s.clone()
		for ci := range n.Calls {
			for ti, t := range n.Calls[ci].To {
				if t == k {
					n.Calls[ci].To[ti] = succ
				}
			}
		}
		n.Calls = append(n.Calls[:outIdx], n.Calls[outIdx+1:]...)
		emit(n)
	}
	dec := func(f func(n *Spec) bool) {
		n := s.clone()
		if f(n) {
			out = append(out, n)
		}
	}
	for i := range s.Nodes {
		i := i
		dec(func(n *Spec) bool { x := &n.Nodes[i]; ok := x.Pre >= 0; x.Pre = -1; return ok })
		dec(func(n *Spec) bool { x := &n.Nodes[i]; ok := x.Post >= 0; x.Post = -1; return ok })
		dec(func(n *Spec) bool { x := &n.Nodes[i]; ok := x.InKey != ""; x.InKey = ""; return ok })
		dec(func(n *Spec) bool { x := &n.Nodes[i]; ok := x.OutKey != ""; x.OutKey = ""; return ok })
		dec(func(n *Spec) bool { x := &n.Nodes[i]; ok := x.Echo; x.Echo = false; return ok })
		dec(func(n *Spec) bool {
			x := &n.Nodes[i]
			ok := x.Kind == kTrans || x.Kind == kSub
			x.Kind = kInv
			return ok
		})
		dec(func(n *Spec) bool { x := &n.Nodes[i]; ok := x.Nil; x.Nil = false; return ok })
		dec(func(n *Spec) bool { x := &n.Nodes[i]; ok := x.Pre >= 0 && x.PreConv > 0; x.PreConv = 0; return ok })
		dec(func(n *Spec) bool { x := &n.Nodes[i]; ok := x.Post >= 0 && x.PostConv > 0; x.PostConv = 0; return ok })
		dec(func(n *Spec) bool { x := &n.Nodes[i]; ok := x.Pre >= 0 && x.PreConv == 2; x.PreConv = 1; return ok })
		dec(func(n *Spec) bool { x := &n.Nodes[i]; ok := x.Post >= 0 && x.PostConv == 2; x.PostConv = 1; return ok })
		dec(func(n *Spec) bool { x := &n.Nodes[i]; ok := x.PreStream; x.PreStream = false; return ok })
		dec(func(n *Spec) bool { x := &n.Nodes[i]; ok := x.PostStream; x.PostStream = false; return ok })
	}
	for i := range s.Calls {
		i := i
		dec(func(n *Spec) bool { ok := n.Calls[i].StreamCond; n.Calls[i].StreamCond = false; return ok })
	}
	for i := range s.Calls {
		i := i
		dec(func(n *Spec) bool { ok := n.Calls[i].mapped(); n.Calls[i].Maps = nil; return ok })
	}
	// the same construction through the Graph front end
	dec(func(n *Spec) bool {
		if n.Front == feGraph {
			return false
		}
		for _, c := range n.Calls {
			if c.mapped() {
				return false
			}
		}
		if n.Front == feWorkflow {
			n.DAG = true // a workflow runs in all-predecessor mode
			// and adds its branches before its connections
			var br, ed []Call
			for _, c := range n.Calls {
				if c.Branch {
					br = append(br, c)
				} else {
					ed = append(ed, c)
				}
			}
			n.Calls = append(br, ed...)
		}
		n.Front = feGraph
		return true
	})
	dec(func(n *Spec) bool { ok := n.DAG; n.DAG = false; return ok })
	dec(func(n *Spec) bool {
		if !n.State {
			return false
		}
		for _, x := range n.Nodes {
			if x.Pre >= 0 || x.Post >= 0 {
				return false
			}
		}
		n.State = false
		return true
	})
	return out
}

// shrink greedily removes calls, nodes and decorations while the construction
// (same relative order of the remaining calls, same node policy) still compiles
// and still shows a violation of the same class.
func shrink(s *Spec, policy int, class string, first *hit) (*Spec, *hit, int) {
	evals := 0
	for progress := true; progress && evals < 400; {
		progress = false
		for _, c := range shrinkCandidates(s) {
			evals++
			if ok, h := violates(c, policy, class); ok {
				s, first, progress = c, h, true
				break
			}
		}
	}
	return s, first, evals
}

// shapeOf names the feature of the minimal failing construction.
// failingForms: in which forms (Invoke / Stream) does the construction show the class?
func failingForms(s *Spec, policy int, class string) (invoke, stream bool) {
	b := build(s, identity(len(s.Calls), policy))
	if b.fns == nil {
		return false, false
	}
	explore(s, b, refStatic(s), simCache{}, func(h hit) {
		if h.V.Class == class {
			if h.Obs.Mode == "invoke" {
				invoke = true
			} else {
				stream = true
			}
		}
	})
	return
}

func shapeOf(s *Spec, h *hit, policy int) string {
	// where does the mismatch materialise when pass-through nodes are transparent?
	tr := simulate(s, paramsFor(s, h.Key), values[h.Key.In], nil)
	// (the run stops at the first mismatch; only an accepted statically decidable
	// mismatch is named after the statically decidable one)
	f := h.V.Fail
	for i := range tr.Fails {
		if h.V.Class == "error-after-compile" && !tr.Fails[i].static {
			continue
		}
		f = &tr.Fails[i]
		break
	}
	// the front end the minimal construction still needs (the Graph form of it was
	// tried while shrinking and did not fail in this way)
	front := ""
	if s.Front != feGraph {
		front = "@" + frontNames[s.Front]
	}
	// a branch on a pass-through node with an output key for which eino reports an inner
	// type that no typed neighbour of the node has: the condition (which reads the map the
	// node wraps its value in) typed the node's inside
	for _, c := range s.Calls {
		if n := s.node(c.From); c.Branch && n != nil && n.Kind == kPass && n.OutKey != "" {
			b := build(s, identity(len(s.Calls), policy))
			if t, ok := b.inferred[n.Key]; ok && t[0] >= 0 {
				known := false
				for _, ct := range refStatic(s).PassCands[n.Key] {
					known = known || ct == t[0]
				}
				if !known {
					return "branch-types-inside-of-keyed-passthrough" + front
				}
			}
		}
	}
	// a pass-through node that eino typed with the interface type of a successor (or of a branch
	// condition) although only concretely typed producers feed it: the connections through it are
	// judged against that interface type and a mismatch between two concrete ends is let through
	if h.V.Class == "error-after-compile" {
		b := build(s, identity(len(s.Calls), policy))
		sr := refStatic(s)
		for k, t := range b.inferred {
			if t[0] == t[1] && sr.launders(k, t[0]) {
				return "passthrough-typed-by-interface-successor"
			}
		}
	}
	handlerKind := func(k string) bool {
		return k == "pre-handler" || k == "post-handler" || k == "handler-state"
	}
	// decorations that survived shrinking (they would have been dropped if the failure
	// did not need them): a nil interface value emitted by a node or handed on by a
	// handler; a handler that hands on another value than it received; a handler on a
	// pass-through node that carries an input/output key
	for i := range s.Nodes {
		if n := &s.Nodes[i]; n.emitsNil() || (n.Pre >= 0 && n.PreConv == 2 && isIface(n.Pre)) || (n.Post >= 0 && n.PostConv == 2 && isIface(n.Post)) {
			// the value form trips over the nil value in the type assertions on node, branch
			// and handler inputs, the stream form only in the conversion of streams
			if inv, _ := failingForms(s, policy, h.V.Class); !inv {
				return "nil-interface-value-in-stream" + front
			}
			return "nil-interface-value" + front
		}
	}
	for i := range s.Nodes {
		if n := &s.Nodes[i]; (n.Pre >= 0 && n.PreConv > 0) || (n.Post >= 0 && n.PostConv > 0) {
			if f == nil || !handlerKind(f.Kind) {
				return "state-handler-changes-dynamic-type" + front
			}
		}
	}
	for i := range s.Nodes {
		if n := &s.Nodes[i]; n.Kind == kPass && (n.InKey != "" || n.OutKey != "") && (n.Pre >= 0 || n.Post >= 0) {
			if f == nil || !handlerKind(f.Kind) {
				return "state-handler-on-keyed-passthrough" + front
			}
		}
	}
	// a branch added on a pass-through node that already had a typed neighbour of
	// another type: the one construction feature left that re-types an inferred node
	for i, c := range s.Calls {
		if n := s.node(c.From); c.Branch && n != nil && n.transparent() {
			pre := s.clone()
			pre.Calls = pre.Calls[:i]
			for _, ct := range refStatic(pre).PassCands[c.From] {
				if ct != c.Cond {
					return "branch-retypes-inferred-passthrough" + front
				}
			}
		}
	}
	// a state handler that survived shrinking on a pass-through node (the handler
	// would have been dropped if the failure did not need it)
	for i := range s.Nodes {
		if n := &s.Nodes[i]; n.Kind == kPass && (n.Pre >= 0 || n.Post >= 0) {
			if f == nil || (f.Kind != "pre-handler" && f.Kind != "post-handler" && f.Kind != "handler-state") {
				return "state-handler-on-passthrough" + front
			}
		}
	}
	if f != nil {
		switch {
		case f.Kind == "branch-cond" && f.OnPass:
			return "branch-cond-on-passthrough" + front
		case f.OnPass:
			return f.Kind + "-on-passthrough" + front
		case f.ViaPass:
			return f.Kind + "-via-passthrough" + front
		default:
			return f.Kind + front
		}
	}
	// the reference predicts no mismatch at all: name the features that are left
	fs := s.features()
	has := func(x string) bool {
		for _, f := range fs {
			if f == x {
				return true
			}
		}
		return false
	}
	if has("pre-handler") || has("post-handler") {
		return "state-handler" + front
	}
	var rest []string
	for _, f := range fs {
		if !strings.HasPrefix(f, "front-") && !(strings.HasPrefix(f, "branch-") && f != "branch-on-passthrough" && f != "branch-on-start") {
			rest = append(rest, f)
		}
	}
	if len(rest) == 0 {
		return "well-typed-plain-edges" + front
	}
	return "well-typed:" + strings.Join(rest, "+") + front
}

// ---- the check -------------------------------------------------------------------------

func permutations(n int) [][]int {
	var res [][]int
	p := make([]int, n)
	for i := range p {
		p[i] = i
	}
	var rec func(k int)
	rec = func(k int) {
		if k == n {
			res = append(res, append([]int(nil), p...))
			return
		}
		for i := k; i < n; i++ {
			p[k], p[i] = p[i], p[k]
			rec(k + 1)
			p[k], p[i] = p[i], p[k]
		}
	}
	rec(0)
	return res
}

type witness struct {
	Spec     string   `json:"construction"`
	SpecJSON *Spec    `json:"spec"`
	Order    []string `json:"calls_in_order"`
	Policy   int      `json:"node_policy"`
	Run      runKey   `json:"run"`
	Input    string   `json:"input"`
	Mode     string   `json:"mode"`
	Mismatch *simFail `json:"reference_mismatch,omitempty"`
	Inferred string   `json:"eino_inferred_passthrough_types,omitempty"`
	Original string   `json:"original_construction"`
	OrigOrd  []int    `json:"original_order"`
}

const maxExhaustive = 5

func TestCheck(t *testing.T) {
	cfg := mon.Load("C07")
	rep := mon.NewReporter(cfg, "exploration",
		"one case = one generated well-formed construction over a 12-type universe (concrete, pointer, struct, map, slice, any, two interfaces, a named map and a named slice next to their unnamed literal forms; types partly hostile incl. such near misses) built through one of three front ends: Graph (edge/branch calls in every order for ≤5 calls, else 200 random orders, nodes up-front / reversed / lazily, each order 3×), Chain (nodes, Parallels with keyed lambdas / nested graphs / pass-through nodes, ChainBranches; 6 identical builds) and Workflow (inputs with and without field mappings from/to struct fields and map keys, AddBranch with data-only inputs of its ends, ≤12 orders × 4 identical builds because Compile resolves the declarations in map order). Node kinds: invokable and transformable lambdas, nested graphs, pass-through nodes, each with/without input and output keys and with typed state pre/post handlers in value and stream form that hand on what they received, another value of their declared type or a nil interface value; typed value/stream branches on START, nodes and pass-through nodes. Every accepted construction is run in Invoke and Stream with every legal dynamic input value × branch choices × emitted dynamic values (nil interface values between interface-typed ends included, never as a graph's final output); non-trivial = at least one order compiled and the construction contains a pass-through node, a branch or a may-assignable connection"+sharedBranchRule,
		[]string{
			"node, condition and handler bodies never fail by themselves and only forward errors they receive from the framework's streams, so every failure of a run over a compiled graph is the framework's",
			"the reference lattice is what a type assertion accepts — identical type, or Implements for an interface target (must / may / must-not); distinct types with the same underlying type (map[string]any vs Vars, []string vs Names) are must-not, unlike reflect's AssignableTo; a nil interface value is assignable to every interface type and to no other; a connection is judged between the declared types of its two ends, a pass-through node carrying the type eino reports for it in GraphInfo provided that type is the type of a typed neighbour of the node's pass-through component (otherwise the node is transparent); a keyed side of a pass-through node has the declared type map[string]any",
			"only soundness is judged: accepted ⇒ no panic, an ordinary error exactly when a dynamic value is not assignable across a may-connection; rejections of constructions the order-independent (transparent) reference considers well typed are only counted (info_completeness_*)",
			"one reference for the three front ends: a chain is a graph built in a dictated order; a workflow connection is an edge that may carry a field mapping (checked field against field; eino's mapping checkers use Go assignability, so a named/unnamed twin or a nil for a nillable kind crossing a mapping is unjudged); a workflow branch selects who runs, the data connections from its source to all its ends exist regardless: a mismatch on the connection to an end that does not run may be reported (value form) or not (stream form), never as a panic",
			"a nil value is never let through as the final output of a graph or nested graph (the engine reads it as 'no result yet'): such runs are not made; runs whose failure would be legitimate for another reason (input or mapped key absent from the map, several non-map chunks to concatenate) are not generated or counted as unjudged",
		}, cfg.Pick(350, 6000))
	defer func() {
		if err := rep.Flush(); err != nil {
			t.Fatalf("flush: %v", err)
		}
	}()
	n := int64(cfg.Pick(280, 2400))
	rep.Cases(n, func(idx int64, rng *mon.Rand) {
		runCase(rep, idx, rng)
		if idx%sbEvery == 0 {
			sharedBranchCase(rep, idx, rng.Sub("shared-branch")) // shared_branch_test.go
		}
	})
	rep.Require("sb_graphs_accepted_with_a_shared_object_at_differing_positions", 20)
	rep.Require("sb_runs_ok_behind_a_runtime_checked_shared_branch", 20)
	rep.Require("sb_runs_expected_error_at_a_branch_of_the_source", 20)
	rep.Require("attempts_accepted", 100)
	rep.Require("runs_expected_error", 20)
	rep.Require("runs_ok", 100)
	rep.Require("specs_order_dependent", 1)
}

func runCase(rep *mon.Reporter, idx int64, rng *mon.Rand) {
	s := genSpec(rng.Sub("spec"))
	sref := refStatic(s)
	nc := len(s.Calls)
	var orders [][]int
	repeats := 3
	switch {
	case s.Front == feChain:
		// a chain dictates the order of the calls; AppendBranch adds the arms in map order
		orders = [][]int{identity(nc, 0).Order}
		repeats = 6
		rep.Count("specs_chain_order", 1)
	case s.Front == feWorkflow:
		// a workflow resolves its declarations at Compile, node by node in map order: fewer
		// orders of the calls, more identical repetitions
		repeats = 4
		if nc <= 3 {
			orders = permutations(nc)
		} else {
			or := rng.Sub("orders")
			orders = append(orders, identity(nc, 0).Order)
			for len(orders) < 12 {
				orders = append(orders, or.Perm(nc))
			}
		}
		rep.Count("specs_workflow_orders", 1)
	case nc <= maxExhaustive:
		orders = permutations(nc)
		rep.Count("specs_all_orders", 1)
	default:
		or := rng.Sub("orders")
		orders = append(orders, identity(nc, 0).Order)
		for len(orders) < 200 {
			orders = append(orders, or.Perm(nc))
		}
		rep.Count("specs_sampled_orders", 1)
	}
	rep.Count("specs", 1)
	for _, f := range s.features() {
		rep.Count("specs_with_"+f, 1)
	}
	refReject := len(sref.concreteMustNot()) > 0
	if refReject {
		rep.Count("specs_reference_must_reject", 1)
	}
	if sref.May > 0 {
		rep.Count("specs_with_may_connection", 1)
	}
	cache := simCache{}
	accepted, rejected := 0, 0
	typings := map[string]bool{} // distinct inferred typings of the pass-through nodes over all accepted attempts
	done := map[string]string{}  // violation key -> signature (shrunk once per case)
	for oi, ord := range orders {
		a := attempt{Order: ord, Policy: oi % 3}
		rep.Distinct("orders", s.String()+fmt.Sprint(ord, a.Policy))
		firstOutcome := ""
		for r := 0; r < repeats; r++ {
			b := build(s, a)
			rep.Count("attempts", 1)
			rep.AddEvaluations(1)
			outcome := b.RejectedAt
			if r == 0 {
				firstOutcome = outcome
			} else if outcome != firstOutcome {
				rep.Count("info_acceptance_differs_between_identical_attempts", 1)
			}
			if b.BuildPanic != "" {
				rep.Count("info_panic_while_building", 1)
				rep.Sample(map[string]any{"build_panic": b.BuildPanic, "spec": s.String(), "order": ord})
				continue
			}
			if b.fns == nil {
				rejected++
				rep.Count("attempts_rejected", 1)
				if len(sref.MustNot) == 0 {
					rep.Count("info_completeness_rejected_though_reference_well_typed", 1)
				} else if refReject {
					rep.Count("attempts_rejected_as_reference_demands", 1)
				}
				continue
			}
			accepted++
			rep.Count("attempts_accepted", 1)
			rep.Count("attempts_accepted_"+frontNames[s.Front], 1)
			if refReject {
				rep.Count("info_attempts_accepted_though_transparent_reference_demands_rejection", 1)
			}
			_, ptSig := passTypes(b, sref)
			typings[ptSig] = true
			for k, t := range b.inferred {
				if t[0] == t[1] && sref.launders(k, t[0]) {
					rep.Count("passthrough_typed_by_an_interface_successor_only_kept_transparent", 1)
				}
				if t[0] >= 0 {
					rep.Count("passthrough_types_observed", 1)
					in := false
					for _, c := range sref.PassCands[k] {
						in = in || c == t[0]
					}
					if !in {
						rep.Count("info_inferred_type_not_a_neighbour_type", 1)
					}
				}
			}
			explore(s, b, sref, cache, func(h hit) {
				rep.Count("runs", 1)
				if h.V.Class == "" {
					switch h.V.Info {
					case "ok":
						rep.Count("runs_ok", 1)
						rep.Count("runs_ok_"+frontNames[s.Front], 1)
						if h.Sim.NilSeen {
							rep.Count("runs_ok_with_nil_interface_value", 1)
						}
					case "expected-error":
						rep.Count("runs_expected_error", 1)
						rep.Count("runs_expected_error_"+frontNames[s.Front], 1)
						rep.Count("runs_expected_error_at_"+h.V.Fail.Kind, 1)
						if h.Sim.NilSeen {
							rep.Count("runs_expected_error_with_nil_interface_value", 1)
						}
						if h.V.Fail.ViaPass || h.V.Fail.OnPass || h.V.Fail.Kind == "passthrough-input" {
							rep.Count("runs_expected_error_through_passthrough", 1)
						}
					case "expected-error-soft":
						rep.Count("runs_error_on_the_data_connection_to_an_unchosen_workflow_branch_end", 1)
					case "unjudged":
						rep.Count("runs_unjudged", 1)
					case "skipped":
						rep.Count("runs_not_made_nil_final_output", 1)
					default:
						rep.Count("harness_"+h.V.Info, 1)
						rep.Inconclusive(fmt.Sprintf("%s: %s | %s order %v", h.V.Info, h.V.Text, s.String(), ord))
					}
					return
				}
				rep.Count("violating_runs", 1)
				key := h.V.Class
				if h.V.Fail != nil {
					key += fmt.Sprintf("|%s|%v|%v", h.V.Fail.Kind, h.V.Fail.OnPass, h.V.Fail.ViaPass)
				}
				if _, ok := done[key]; ok {
					return
				}
				// the open finding passthrough-typed-by-interface-successor shows in many constructions;
				// once this process has shrunk and reported it a few times, further occurrences of exactly
				// that shape (an accepted concrete mismatch through a pass-through node that eino typed
				// from an interface-typed successor) are counted, not shrunk again
				if h.V.Class == "error-after-compile" && launderReports >= 4 && h.V.Fail != nil && h.V.Fail.ViaPass {
					if b := build(s, a); b.fns != nil {
						for k, t := range b.inferred {
							if t[0] == t[1] && sref.launders(k, t[0]) {
								rep.Count("violations_of_the_reported_shape_passthrough_typed_by_interface_successor_not_shrunk_again", 1)
								done[key] = launderSig
								return
							}
						}
					}
				}
				report(rep, s, a, h, done, key)
			})
		}
	}
	if accepted > 0 && rejected > 0 {
		rep.Count("specs_order_dependent_acceptance", 1)
	}
	if len(typings) > 1 {
		rep.Count("specs_order_dependent_inference", 1)
	}
	if len(typings) > 1 || (accepted > 0 && rejected > 0) {
		rep.Count("specs_order_dependent", 1)
	}
	if accepted > 0 {
		rep.Count("specs_accepted_in_some_order", 1)
		fs := s.features()
		nt := sref.May > 0
		for _, f := range fs {
			if f == "passthrough" || f == "branch" {
				nt = true
			}
		}
		if nt {
			rep.NonTrivial(s.String())
		}
	}
	if idx < 3 {
		rep.Sample(map[string]any{"spec": s.String(), "orders": len(orders), "accepted_attempts": accepted, "rejected_attempts": rejected,
			"reference_must_reject": refReject, "reference_may_connections": sref.May})
	}
}

const launderSig = "C07/error-after-compile/passthrough-typed-by-interface-successor"

// launderReports: how often this process has reported launderSig (a child runs its cases sequentially).
var launderReports int

func report(rep *mon.Reporter, s *Spec, a attempt, h hit, done map[string]string, key string) {
	ns, na := normalise(s, a)
	min, mh := ns, &h
	evals := 0
	if ok, h0 := violates(ns, na.Policy, h.V.Class); ok {
		min, mh, evals = shrink(ns, na.Policy, h.V.Class, h0)
		// the same minimal construction may fail in a worse way on another run
		if w := worst(min, na.Policy); w != nil && classRank[w.V.Class] > classRank[mh.V.Class] {
			var e2 int
			min, mh, e2 = shrink(min, na.Policy, w.V.Class, w)
			evals += e2
		}
	} else {
		rep.Count("info_violation_not_reproduced_on_rebuild", 1)
	}
	rep.Count("shrink_evaluations", int64(evals))
	shape := shapeOf(min, mh, na.Policy)
	sig := "C07/" + mh.V.Class + "/" + shape
	done[key] = sig
	if sig == launderSig {
		launderReports++
	}
	var calls []string
	for _, c := range min.Calls {
		calls = append(calls, c.String())
	}
	b := build(min, identity(len(min.Calls), na.Policy))
	var inf []string
	for k, t := range b.inferred {
		if t[0] >= 0 {
			inf = append(inf, k+":"+typeNames[t[0]])
		}
	}
	sort.Strings(inf)
	rep.Violation(sig,
		fmt.Sprintf("%s | minimal construction: %s | input %s, %s", mh.V.Text, min.String(), valueNames[mh.Key.In], mh.Obs.Mode),
		witness{Spec: min.String(), SpecJSON: min, Order: calls, Policy: na.Policy, Run: mh.Key, Input: valueNames[mh.Key.In],
			Mode: mh.Obs.Mode, Mismatch: mh.V.Fail, Inferred: strings.Join(inf, " "), Original: s.String(), OrigOrd: a.Order})
}
