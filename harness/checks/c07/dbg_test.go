package c07

import (
	"fmt"
	"testing"
	"verifharness/internal/mon"
)

func TestDbg(t *testing.T) {
	kinds := map[string]int{}
	acc, rej, refrej := 0, 0, 0
	calls := map[int]int{}
	shown := 0
	for i := 0; i < 400; i++ {
		rng := mon.Fork(1, "dbg", fmt.Sprint(i))
		s := genSpec(rng)
		calls[len(s.Calls)]++
		sref := refStatic(s)
		if len(sref.concreteMustNot()) > 0 {
			refrej++
			c := sref.concreteMustNot()[0]
			kinds[c.Kind]++
			if shown < 12 { shown++; fmt.Println(s.String(), "\n   =>", c.Kind, c.At, typeNames[max(c.From,0)], typeNames[max(c.To,0)]) }
		}
		b := build(s, identity(len(s.Calls), 0))
		if b.fns == nil { rej++ } else { acc++ }
	}
	fmt.Println("acc", acc, "rej", rej, "refrej", refrej, kinds, calls)
}
