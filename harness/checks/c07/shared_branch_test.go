package c07

// Sub-workload "shared branch object": reuse of ONE builder object (*compose.GraphBranch)
// across several attachment points.
//
// A GraphBranch is a value the caller creates once and hands to AddBranch; nothing
// forbids attaching the same object to two or three nodes (one condition reused for
// several nodes), to a node of another graph, or twice to one node. Which run-time type
// check guards the condition at a node must depend on THAT attachment only (declared
// output type of the node against the condition's input type), never on what the object
// went through at its other attachment points or on the order of the AddBranch calls.
//
//	graph       START[→n0] —selector→ {s1,s2[,s3]};  every s_j —[own…, S0, own…, S1 …]→ {x,y[,z]} → END
//	two-graphs  the sources are spread over two graphs with equally named ends; the AddBranch
//	            calls of the two graphs are interleaved
//	workflow    the same shape through Workflow.AddBranch (ends read their sources through
//	            data-only inputs mapped to distinct keys; the branches are handed to the graph
//	            at Compile in the order of the AddBranch calls)
//
// S0 (S1): the shared objects, attached to 2-3 sources at positions that differ from node to
// node and that change with the order of the calls (6-12 orders per plan, nodes up-front /
// lazily / reversed). Sources are concretely typed (must-assignable to the condition: no
// run-time check), interface-typed (any, I1, I2: run-time check) or - rarely - of a type no
// value of which fits (the attachment must be rejected). Every source emits, run by run,
// values of a right and of wrong dynamic types; Invoke and Stream.
//
// Oracle (nothing but the property and the identity of the builder object not being
// observable):
//
//	(a) acceptance: the construction with shared objects compiles exactly when the same
//	    construction with one fresh object per attachment does (each attachment taken alone);
//	    whether an accepted concrete mismatch exists is judged by the package's reference at
//	    run time (error-after-compile), as in the main workload;
//	(b) every run of an accepted construction is judged by the package's reference (simulate /
//	    judge): no panic, an ordinary error exactly when a dynamic value is not assignable
//	    where it arrives, else success;
//	(c) a run yields the same outcome (error-ness, output value, set of executed nodes) as
//	    the same run on the construction with fresh objects - hence the same in every order
//	    in which the shared object was attached.

import (
	"context"
	"errors"
	"fmt"
	"strings"

	"github.com/cloudwego/eino/compose"
	"verifharness/internal/mon"
)

const sharedBranchRule = " | sub-workload shared-branch-object (every 2nd case): one *GraphBranch attached to 2-3 nodes (of one graph, of two graphs, of a workflow; now and then twice to one node) at positions that vary with 6-12 orders of the AddBranch calls, concretely and interface-typed sources emitting right and wrong dynamic types, Invoke and Stream; acceptance and every run compared with the same construction built from one fresh object per attachment and judged by the same reference"

// sbEvery: the sub-workload runs in every sbEvery-th case of a shard.
const sbEvery = 2

type sbShared struct {
	Cond   int  `json:"cond"`
	Stream bool `json:"stream_cond,omitempty"`
}

type sbSource struct {
	Spec int    `json:"graph"`
	Key  string `json:"key"`
	Idx  int    `json:"index_in_selector"`
	Vals []int  `json:"emitted_values"` // ids of the dynamic values it emits, one per run
}

type sbPlan struct {
	Kind    string     `json:"kind"` // graph | two-graphs | workflow
	Specs   []*Spec    `json:"-"`
	Share   [][]int    `json:"-"` // per graph, per call: -1 = an object of its own (or an edge), k = shared object k
	Shared  []sbShared `json:"shared"`
	Sources []sbSource `json:"sources"`
	NEnds   int        `json:"ends"`
}

const (
	sbGrpSel  = 1
	sbGrpEnds = 2
)

var sbEndKeys = []string{"x", "y", "z"}
var sbMapKeys = []string{"a", "b", "c", "k"}

func (pl *sbPlan) String() string {
	var b strings.Builder
	b.WriteString(pl.Kind + ": ")
	for si, s := range pl.Specs {
		if si > 0 {
			b.WriteString(" || ")
		}
		b.WriteString(s.String())
		b.WriteString("shared:")
		for ci, k := range pl.Share[si] {
			if k >= 0 {
				fmt.Fprintf(&b, " #%d=S%d", ci, k)
			}
		}
	}
	return b.String()
}

// ---- generation -------------------------------------------------------------------------

func sbNodeKind(r *mon.Rand, allowSub bool) int {
	switch x := r.Float(); {
	case x < 0.3:
		return kTrans
	case x < 0.4 && allowSub:
		return kSub
	}
	return kInv
}

// mustTargets: the types every value of declared type t is assignable to.
func mustTargets(t int) []int {
	var c []int
	for x := 0; x < nTypes; x++ {
		if refLat(t, x) == latMust {
			c = append(c, x)
		}
	}
	return c
}

func genSharedPlan(r *mon.Rand) *sbPlan {
	pl := &sbPlan{}
	switch x := r.Float(); {
	case x < 0.5:
		pl.Kind = "graph"
	case x < 0.75:
		pl.Kind = "two-graphs"
	default:
		pl.Kind = "workflow"
	}
	nShared := 1
	if r.Prob(0.3) {
		nShared = 2
	}
	for i := 0; i < nShared; i++ {
		c := mon.PickOne(r, concreteTypes)
		if r.Prob(0.35) {
			c = pickType(r)
		}
		pl.Shared = append(pl.Shared, sbShared{Cond: c, Stream: r.Prob(0.3)})
	}
	pl.NEnds = r.Range(2, 3)
	switch pl.Kind {
	case "two-graphs":
		n1, n2 := r.Range(1, 2), r.Range(1, 2)
		pl.genSpec(r, feGraph, n1)
		pl.genSpec(r, feGraph, n2)
	case "workflow":
		pl.genSpec(r, feWorkflow, r.Range(2, 3))
	default:
		pl.genSpec(r, feGraph, r.Range(2, 3))
	}
	return pl
}

// genSpec appends one graph with nSrc sources to the plan.
func (pl *sbPlan) genSpec(r *mon.Rand, front, nSrc int) {
	wf := front == feWorkflow
	si := len(pl.Specs)
	s := &Spec{Front: front}
	var share []int
	addCall := func(c Call, k int) {
		s.Calls = append(s.Calls, c)
		share = append(share, k)
	}
	s.GI = pickType(r)
	s.GO = pickType(r)
	if wf {
		s.GO = mon.PickOne(r, []int{tMap, tMap, tAny})
	}
	curNode, cur := START, s.GI
	if wf || r.Prob(0.4) {
		t0 := mon.PickOne(r, concreteTypes)
		if r.Prob(0.25) {
			t0 = pickType(r)
		}
		in := compatType(r, s.GI, 0)
		if wf {
			in = mon.PickOne(r, mustTargets(s.GI))
		}
		s.Nodes = append(s.Nodes, Node{Key: "n0", Kind: sbNodeKind(r, false), In: in, Out: t0, Pre: -1, Post: -1, Echo: r.Prob(0.5)})
		addCall(Call{From: START, To: []string{"n0"}}, -1)
		curNode, cur = "n0", t0
	}
	// ---- sources and what is attached to them
	ends := append([]string(nil), sbEndKeys[:pl.NEnds]...)
	type entry struct {
		k      int // shared object or -1
		cond   int
		stream bool
	}
	var srcKeys []string
	var srcOuts []int
	srcEntries := map[string][]entry{}
	for j := 0; j < nSrc; j++ {
		key := fmt.Sprintf("s%d", j+1)
		// S0 goes to every source, the other shared objects to some
		att := []int{0}
		for k := 1; k < len(pl.Shared); k++ {
			if r.Prob(0.6) {
				att = append(att, k)
			}
		}
		var ifc, conc []int
		for t := 0; t < nTypes; t++ {
			ok := true
			for _, k := range att {
				ok = ok && genOK(t, pl.Shared[k].Cond)
			}
			if !ok {
				continue
			}
			if isIface(t) {
				ifc = append(ifc, t)
				if t == tAny {
					ifc = append(ifc, t)
				}
			} else {
				conc = append(conc, t)
			}
		}
		out := tAny
		switch x := r.Float(); {
		case x < 0.5 && len(ifc) > 0:
			out = mon.PickOne(r, ifc)
		case x < 0.93 && len(conc) > 0:
			out = mon.PickOne(r, conc)
		case x >= 0.93:
			out = pickType(r) // hostile: possibly a type no value of which fits the condition
		}
		in := compatType(r, cur, 0)
		if wf {
			in = mon.PickOne(r, mustTargets(cur))
		}
		s.Nodes = append(s.Nodes, Node{Key: key, Kind: sbNodeKind(r, true), In: in, Out: out, Pre: -1, Post: -1})
		var es []entry
		for _, k := range att {
			es = append(es, entry{k, pl.Shared[k].Cond, pl.Shared[k].Stream})
			if r.Prob(0.1) {
				es = append(es, entry{k, pl.Shared[k].Cond, pl.Shared[k].Stream}) // the same object twice at one node
			}
		}
		for n := r.Intn(3); n > 0; n-- {
			es = append(es, entry{-1, compatType(r, out, 0.05), r.Prob(0.3)})
		}
		perm := r.Perm(len(es))
		sh := make([]entry, len(es))
		for i, p := range perm {
			sh[i] = es[p]
		}
		srcEntries[key] = sh
		srcKeys = append(srcKeys, key)
		srcOuts = append(srcOuts, out)
	}
	// ---- the selector in front of the sources
	if nSrc >= 2 {
		c := Call{Branch: true, From: curNode, To: append([]string(nil), srcKeys...), Cond: compatType(r, cur, 0), StreamCond: r.Prob(0.3), Group: sbGrpSel}
		if wf {
			c.Maps = make([]Mapping, nSrc)
		}
		addCall(c, -1)
	} else {
		addCall(Call{From: curNode, To: []string{srcKeys[0]}}, -1)
	}
	// ---- the ends
	var endIn []int
	for t := 0; t < nTypes; t++ {
		ok := true
		for _, o := range srcOuts {
			ok = ok && genOK(o, t)
		}
		if ok {
			endIn = append(endIn, t)
		}
	}
	for _, e := range ends {
		in := tAny
		if wf {
			in = mon.PickOne(r, []int{tMap, tMap, tAny})
		} else if r.Prob(0.4) && len(endIn) > 0 {
			in = mon.PickOne(r, endIn)
		}
		out := s.GO
		if !wf && r.Prob(0.3) {
			out = revCompatType(r, s.GO, 0)
		} else if wf {
			out = pickType(r)
		}
		s.Nodes = append(s.Nodes, Node{Key: e, Kind: sbNodeKind(r, false), In: in, Out: out, Pre: -1, Post: -1, Echo: r.Prob(0.5)})
	}
	// ---- the attachments
	for j, key := range srcKeys {
		for _, e := range srcEntries[key] {
			c := Call{Branch: true, From: key, To: append([]string(nil), ends...), Cond: e.cond, StreamCond: e.stream, Group: sbGrpEnds}
			if wf {
				for range ends {
					c.Maps = append(c.Maps, Mapping{To: sbMapKeys[j]})
				}
			}
			addCall(c, e.k)
		}
	}
	for i, e := range ends {
		c := Call{From: e, To: []string{END}}
		if wf {
			c.Maps = []Mapping{{To: fmt.Sprintf("x%d", i)}}
		}
		addCall(c, -1)
	}
	// ---- the dynamic values every source emits, run by run
	for j, key := range srcKeys {
		var conds []int
		for _, e := range srcEntries[key] {
			conds = append(conds, e.cond)
		}
		var good, bad []int
		for _, v := range legalValues(srcOuts[j]) {
			ok := true
			for _, c := range conds {
				ok = ok && dynOK(values[v], c)
			}
			if ok {
				good = append(good, v)
			} else {
				bad = append(bad, v)
			}
		}
		var vals []int
		for _, l := range [][]int{good, bad} {
			p := r.Perm(len(l))
			for i := 0; i < len(p) && i < 2; i++ {
				vals = append(vals, l[p[i]])
			}
		}
		pl.Sources = append(pl.Sources, sbSource{Spec: si, Key: key, Idx: j, Vals: vals})
	}
	pl.Specs = append(pl.Specs, s)
	pl.Share = append(pl.Share, share)
}

// ---- runs ----------------------------------------------------------------------------------

type sbRun struct {
	Src int `json:"source"` // index into Sources
	Val int `json:"value"`  // index into its Vals
	End int `json:"end_choice"`
}

func (pl *sbPlan) runs(si int) []sbRun {
	var rs []sbRun
	for i, src := range pl.Sources {
		if src.Spec != si {
			continue
		}
		for v := range src.Vals {
			for e := 0; e < 2; e++ {
				rs = append(rs, sbRun{i, v, (e*(pl.NEnds-1) + v + i) % pl.NEnds})
			}
		}
	}
	return rs
}

// params: the run parameters and the graph input of a run (a pure function of the plan).
func (pl *sbPlan) params(rn sbRun) (*runParams, any) {
	src := pl.Sources[rn.Src]
	s := pl.Specs[src.Spec]
	p := &runParams{outVal: map[string]any{}, hVal: map[string]any{}, choice: map[int]int{sbGrpSel: src.Idx, sbGrpEnds: rn.End}}
	for i := range s.Nodes {
		n := &s.Nodes[i]
		lv := legalValues(n.Out)
		p.outVal[n.Key] = values[lv[(rn.Val+rn.End+i)%len(lv)]]
	}
	p.outVal[src.Key] = values[src.Vals[rn.Val]]
	lv := legalValues(s.GI)
	return p, values[lv[(rn.Src+rn.Val)%len(lv)]]
}

// ---- building ------------------------------------------------------------------------------

type sbStep struct{ Spec, Call int }

// sbBuild builds every graph of the plan, the calls of all graphs interleaved in the given
// order. shared: a shared object is created once and attached wherever the plan says;
// otherwise every attachment gets a fresh object (each attachment taken alone).
func sbBuild(pl *sbPlan, order []sbStep, policy int, shared bool) []*built {
	w := &world{cur: &runParams{}}
	bs := make([]*built, len(pl.Specs))
	for i := range bs {
		bs[i] = &built{w: w, inferred: map[string][2]int{}}
	}
	objs := map[int]*compose.GraphBranch{}
	branchFor := func(st sbStep) *compose.GraphBranch {
		c := &pl.Specs[st.Spec].Calls[st.Call]
		k := pl.Share[st.Spec][st.Call]
		if !shared || k < 0 {
			return branchOf(w, c)
		}
		if o, ok := objs[k]; ok {
			return o
		}
		objs[k] = branchOf(w, c)
		return objs[k]
	}
	p := mon.Safe(func() {
		hs := make([]*gHandle, len(pl.Specs))
		for si, s := range pl.Specs {
			hs[si] = perPair[s.GI][s.GO].front(s.Front, false)
		}
		if pl.Specs[0].Front == feWorkflow {
			sbBuildWorkflow(pl.Specs[0], order, policy, bs[0], hs[0], branchFor)
		} else {
			sbBuildGraphs(pl, order, policy, bs, hs, branchFor)
		}
		for si := range pl.Specs {
			if bs[si].RejectedAt != "" {
				continue
			}
			fns, err := hs[si].compile(context.Background())
			if err != nil {
				bs[si].RejectedAt, bs[si].RejectErr = "compile", err.Error()
				continue
			}
			bs[si].fns = fns
		}
	})
	if p != nil {
		for _, b := range bs {
			b.BuildPanic, b.RejectedAt, b.fns = p.Value, "panic", nil
		}
	}
	return bs
}

func sbBuildGraphs(pl *sbPlan, order []sbStep, policy int, bs []*built, hs []*gHandle, branchFor func(sbStep) *compose.GraphBranch) {
	added := make([]map[string]bool, len(pl.Specs))
	add := func(si int, key string) bool {
		if key == START || key == END || added[si][key] {
			return true
		}
		added[si][key] = true
		if err := addNode(hs[si], bs[si].w, pl.Specs[si].node(key)); err != nil {
			bs[si].RejectedAt, bs[si].RejectErr = "node:"+key, err.Error()
			return false
		}
		return true
	}
	for si, s := range pl.Specs {
		added[si] = map[string]bool{}
		switch policy {
		case 0:
			for i := range s.Nodes {
				add(si, s.Nodes[i].Key)
			}
		case 2:
			for i := len(s.Nodes) - 1; i >= 0; i-- {
				add(si, s.Nodes[i].Key)
			}
		}
	}
	for _, st := range order {
		si := st.Spec
		if bs[si].RejectedAt != "" {
			continue // this graph has refused a call already
		}
		c := &pl.Specs[si].Calls[st.Call]
		ok := add(si, c.From)
		for _, t := range c.To {
			ok = ok && add(si, t)
		}
		if !ok {
			continue
		}
		var err error
		if c.Branch {
			err = hs[si].b.AddBranch(ek(c.From), branchFor(st))
		} else {
			err = hs[si].b.AddEdge(ek(c.From), ek(c.To[0]))
		}
		if err != nil {
			bs[si].RejectedAt, bs[si].RejectErr = fmt.Sprintf("call:%d", st.Call), err.Error()
		}
	}
}

// sbBuildWorkflow: as buildWorkflow, with the branch objects of the plan.
func sbBuildWorkflow(s *Spec, order []sbStep, policy int, b *built, h *gHandle, branchFor func(sbStep) *compose.GraphBranch) {
	wn := map[string]*compose.WorkflowNode{}
	for i := range s.Nodes {
		n := &s.Nodes[i]
		if policy == 2 {
			n = &s.Nodes[len(s.Nodes)-1-i]
		}
		switch n.Kind {
		case kSub:
			wn[n.Key] = h.wf.AddGraphNode(n.Key, nestedOf(b.w, n))
		default:
			wn[n.Key] = h.wf.AddLambdaNode(n.Key, lambdaOf(b.w, n))
		}
	}
	wn[END] = h.wf.End()
	data := map[string]bool{}
	for _, st := range order {
		c := &s.Calls[st.Call]
		if c.Branch {
			h.wf.AddBranch(ek(c.From), branchFor(st))
		}
		for i, t := range c.To {
			k := c.From + ">" + t
			if data[k] {
				continue
			}
			data[k] = true
			if c.Branch {
				wn[t].AddInputWithOptions(ek(c.From), fieldMappings(c.mapping(i)), compose.WithNoDirectDependency())
			} else {
				wn[t].AddInput(ek(c.From), fieldMappings(c.mapping(i))...)
			}
		}
	}
}

// positions: where (graph:node#position) every shared object sits in the node's list of
// branches under this order, and whether some object sits at two different positions.
func (pl *sbPlan) positions(order []sbStep) (string, bool) {
	cnt := map[string]int{}
	at := map[int][]string{}
	pos := map[int]map[int]bool{}
	for _, st := range order {
		c := &pl.Specs[st.Spec].Calls[st.Call]
		if !c.Branch {
			continue
		}
		nk := fmt.Sprintf("g%d:%s", st.Spec, c.From)
		if k := pl.Share[st.Spec][st.Call]; k >= 0 {
			at[k] = append(at[k], fmt.Sprintf("%s#%d", nk, cnt[nk]))
			if pos[k] == nil {
				pos[k] = map[int]bool{}
			}
			pos[k][cnt[nk]] = true
		}
		cnt[nk]++
	}
	var parts []string
	differ := false
	for k := range pl.Shared {
		parts = append(parts, fmt.Sprintf("S%d@%s", k, strings.Join(at[k], ",")))
		differ = differ || len(pos[k]) > 1
	}
	return strings.Join(parts, " "), differ
}

// ---- the case -------------------------------------------------------------------------------

func sbOutcome(o *observed) string {
	switch {
	case o.Panic != nil:
		return "panic"
	case o.Err != nil && errors.Is(o.Err, errHarness):
		return "harness"
	case o.Recovered:
		return "recovered-panic"
	case o.Err != nil:
		return "error"
	}
	return "ok out=" + canon(o.Out) + " executed=" + strings.Join(execSet(o.Trace), ",")
}

var sbRank = map[string]int{"compile-verdict-differs": 70, "panic-after-compile": 60, "recovered-panic": 50, "error-after-compile": 40,
	"missed-check": 30, "wrong-output-type": 20, "spurious-error": 10, "run-differs-from-unshared-build": 5}

type sbWitness struct {
	Plan      *sbPlan  `json:"plan"`
	Graphs    []string `json:"graphs"`
	Calls     []string `json:"calls_in_order"`
	Positions string   `json:"shared_objects_at"`
	Policy    int      `json:"node_policy"`
	Graph     int      `json:"failing_graph"`
	Run       *sbRun   `json:"run,omitempty"`
	Source    string   `json:"running_source,omitempty"`
	Emits     string   `json:"source_emits,omitempty"`
	Input     string   `json:"input,omitempty"`
	Mode      string   `json:"mode,omitempty"`
	Observed  string   `json:"observed"`
	Unshared  string   `json:"same_construction_with_fresh_objects"`
	Mismatch  *simFail `json:"reference_mismatch,omitempty"`
}

type sbFinding struct {
	class, text string
	w           sbWitness
}

func sharedBranchCase(rep *mon.Reporter, idx int64, rng *mon.Rand) {
	pl := genSharedPlan(rng.Sub("plan"))
	rep.Count("sb_plans", 1)
	rep.Count("sb_plans_"+pl.Kind, 1)
	var steps []sbStep
	for si, s := range pl.Specs {
		for ci := range s.Calls {
			steps = append(steps, sbStep{si, ci})
		}
	}
	nOrders := rep.Config().Pick(6, 12)
	or := rng.Sub("orders")
	orders := [][]sbStep{steps}
	for len(orders) < nOrders {
		o := make([]sbStep, len(steps))
		for i, p := range or.Perm(len(steps)) {
			o[i] = steps[p]
		}
		orders = append(orders, o)
	}

	type simEntry struct {
		sim *simResult
		p   *runParams
		in  any
	}
	sims := map[sbRun]*simEntry{}
	baseline := map[string]string{} // run × mode -> outcome on the construction with fresh objects
	var worst *sbFinding
	found := func(f *sbFinding) {
		rep.Count("sb_violating_observations", 1)
		if worst == nil || sbRank[f.class] > sbRank[worst.class] {
			worst = f
		}
	}
	witness := func(ord []sbStep, policy, si int) sbWitness {
		w := sbWitness{Plan: pl, Policy: policy, Graph: si}
		for _, s := range pl.Specs {
			w.Graphs = append(w.Graphs, s.String())
		}
		for _, st := range ord {
			c := pl.Specs[st.Spec].Calls[st.Call]
			l := fmt.Sprintf("g%d:%s", st.Spec, c.String())
			if k := pl.Share[st.Spec][st.Call]; k >= 0 {
				l += fmt.Sprintf("[S%d]", k)
			}
			w.Calls = append(w.Calls, l)
		}
		w.Positions, _ = pl.positions(ord)
		return w
	}
	accepted, differing, mayShared := false, false, false

	for oi, ord := range orders {
		policy := oi % 3
		sh := sbBuild(pl, ord, policy, true)
		fr := sbBuild(pl, ord, policy, false)
		rep.Count("sb_builds", 2)
		rep.AddEvaluations(2)
		posSig, differ := pl.positions(ord)
		rep.Distinct("sb_attachment_patterns", pl.String()+posSig)
		for si, s := range pl.Specs {
			if sh[si].BuildPanic != "" || fr[si].BuildPanic != "" {
				rep.Count("sb_info_panic_while_building", 1)
				rep.Sample(map[string]any{"sb_build_panic": sh[si].BuildPanic + fr[si].BuildPanic, "plan": pl.String()})
				continue
			}
			// (a) acceptance must not depend on the objects being shared
			if (sh[si].fns != nil) != (fr[si].fns != nil) {
				w := witness(ord, policy, si)
				w.Observed = "shared objects: " + verdictOf(sh[si])
				w.Unshared = "fresh objects: " + verdictOf(fr[si])
				found(&sbFinding{"compile-verdict-differs", fmt.Sprintf("the construction is %s with the shared branch object(s) but %s with one fresh object per attachment", verdictOf(sh[si]), verdictOf(fr[si])), w})
				continue
			}
			if sh[si].fns == nil {
				rep.Count("sb_graphs_rejected", 1)
				continue
			}
			rep.Count("sb_graphs_accepted", 1)
			accepted = true
			if differ {
				differing = true
				rep.Count("sb_graphs_accepted_with_a_shared_object_at_differing_positions", 1)
			}
			for _, rn := range pl.runs(si) {
				e := sims[rn]
				if e == nil {
					p, in := pl.params(rn)
					e = &simEntry{simulate(s, p, in, nil), p, in}
					sims[rn] = e
				}
				if e.sim.Skip != "" {
					rep.Count("sb_runs_not_made_nil_final_output", 1)
					continue
				}
				src := pl.Sources[rn.Src]
				for _, mode := range [2]string{"invoke", "stream"} {
					bk := fmt.Sprintf("%d/%d/%d/%s", rn.Src, rn.Val, rn.End, mode)
					base, have := baseline[bk]
					if !have {
						base = sbOutcome(runOnce(fr[si], e.p, e.in, mode))
						baseline[bk] = base
						rep.Count("sb_runs_on_unshared_build", 1)
					}
					o := runOnce(sh[si], e.p, e.in, mode)
					rep.Count("sb_runs", 1)
					rep.AddEvaluations(1)
					v := judge(s, e.sim, o, nil, nil)
					got := sbOutcome(o)
					mk := func() sbWitness {
						w := witness(ord, policy, si)
						r := rn
						w.Run, w.Source, w.Emits, w.Input, w.Mode = &r, src.Key, valueNames[src.Vals[rn.Val]], dynName(e.in), mode
						w.Observed, w.Unshared, w.Mismatch = got, base, v.Fail
						return w
					}
					switch {
					case v.Class != "":
						found(&sbFinding{v.Class, v.Text + " | source " + src.Key + " emits a " + valueNames[src.Vals[rn.Val]] + " | " + posSig, mk()})
					case v.Info == "unjudged":
						rep.Count("sb_runs_unjudged", 1)
					case v.Info == "harness-broken":
						rep.Count("sb_harness_broken", 1)
						rep.Inconclusive("shared-branch workload: " + v.Text + " | " + pl.String())
					default:
						// (c) the same run on the construction with fresh objects
						if got != base {
							found(&sbFinding{"run-differs-from-unshared-build", fmt.Sprintf("%s: [%s] with the shared branch object(s), [%s] with one fresh object per attachment | source %s emits a %s | %s", mode, got, base, src.Key, valueNames[src.Vals[rn.Val]], posSig), mk()})
							break
						}
						switch v.Info {
						case "ok":
							rep.Count("sb_runs_ok", 1)
							if sbMayShared(pl, src) {
								mayShared = true
								rep.Count("sb_runs_ok_behind_a_runtime_checked_shared_branch", 1)
							}
						case "expected-error", "expected-error-soft":
							rep.Count("sb_runs_expected_error", 1)
							if v.Fail != nil && v.Fail.Kind == "branch-cond" && v.Fail.At == src.Key {
								rep.Count("sb_runs_expected_error_at_a_branch_of_the_source", 1)
							}
						default: // value-mismatch / trace-mismatch against the reference, alike on both builds
							rep.Count("sb_harness_"+v.Info, 1)
							rep.Inconclusive("shared-branch workload: " + v.Info + ": " + v.Text + " | " + pl.String())
						}
					}
				}
			}
		}
	}
	if worst != nil {
		rep.Violation("C07/"+worst.class+"/shared-branch-object@"+pl.Kind, worst.text+" | "+pl.String(), worst.w)
	}
	if accepted && differing {
		rep.Count("sb_plans_accepted_with_differing_positions", 1)
		if mayShared {
			rep.NonTrivial("shared-branch:" + pl.String())
		}
	}
	if idx < 2 {
		rep.Sample(map[string]any{"shared_branch_plan": pl.String(), "orders": len(orders), "accepted": accepted})
	}
}

// sbMayShared: is a shared object attached to this source behind a run-time check
// (interface-typed source, condition on another type)?
func sbMayShared(pl *sbPlan, src sbSource) bool {
	s := pl.Specs[src.Spec]
	out := s.node(src.Key).Out
	for ci, c := range s.Calls {
		if c.Branch && c.From == src.Key && pl.Share[src.Spec][ci] >= 0 && refLat(out, c.Cond) == latMay {
			return true
		}
	}
	return false
}

func verdictOf(b *built) string {
	if b.fns != nil {
		return "accepted"
	}
	return "rejected at " + b.RejectedAt
}
