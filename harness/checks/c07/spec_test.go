package c07

// Construction specs: a well-formed (series-parallel, every node on a path
// START→END, fan-in only where the run-time values can merge) graph shape whose
// TYPES are partly hostile. A spec is a pure function of the *mon.Rand.

import (
	"fmt"
	"sort"
	"strings"

	"verifharness/internal/mon"
)

const (
	START = "start"
	END   = "end"
)

const (
	kInv = iota
	kTrans
	kPass
	kSub // a nested graph START→(invokable lambda In→Out)→END added as one node
)

type Node struct {
	Key    string `json:"key"`
	Kind   int    `json:"kind"` // 0 invokable lambda, 1 transformable lambda, 2 passthrough, 3 nested graph
	In     int    `json:"in"`
	Out    int    `json:"out"`
	Echo   bool   `json:"echo,omitempty"`
	Nil    bool   `json:"nil,omitempty"` // emits a nil interface value in every second variant (interface-typed Out only)
	InKey  string `json:"in_key,omitempty"`
	OutKey string `json:"out_key,omitempty"`
	// state handlers: type index or -1
	Pre        int  `json:"pre"`
	Post       int  `json:"post"`
	PreStream  bool `json:"pre_stream,omitempty"`
	PostStream bool `json:"post_stream,omitempty"`
	PreState   int  `json:"pre_state,omitempty"` // 0: the graph's state type, 1: another one
	PostState  int  `json:"post_state,omitempty"`
	// what the handler hands on: 0 what it received, 1 another value of its declared
	// type, 2 a nil interface value (interface-typed handlers only)
	PreConv  int `json:"pre_conv,omitempty"`
	PostConv int `json:"post_conv,omitempty"`
}

// Mapping is a workflow field mapping of one data connection ("" = the whole value).
type Mapping struct {
	From string `json:"from,omitempty"`
	To   string `json:"to,omitempty"`
}

func (m Mapping) empty() bool { return m.From == "" && m.To == "" }

type Call struct {
	Branch     bool     `json:"branch,omitempty"`
	From       string   `json:"from"`
	To         []string `json:"to"`
	Cond       int      `json:"cond,omitempty"`
	StreamCond bool     `json:"stream_cond,omitempty"`
	Group      int      `json:"group,omitempty"` // branches of one group always choose the same end index
	// workflow only: field mapping of the data connection From→To[i] (nil: none)
	Maps []Mapping `json:"maps,omitempty"`
}

func (c *Call) mapping(i int) Mapping {
	if i < len(c.Maps) {
		return c.Maps[i]
	}
	return Mapping{}
}

func (c *Call) mapped() bool {
	for _, m := range c.Maps {
		if !m.empty() {
			return true
		}
	}
	return false
}

type Spec struct {
	Front int    `json:"front"` // 0 Graph, 1 Chain, 2 Workflow
	GI    int    `json:"gi"`
	GO    int    `json:"go"`
	State bool   `json:"state,omitempty"`
	DAG   bool   `json:"dag,omitempty"`
	Nodes []Node `json:"nodes"`
	Calls []Call `json:"calls"`
}

func (s *Spec) node(key string) *Node {
	for i := range s.Nodes {
		if s.Nodes[i].Key == key {
			return &s.Nodes[i]
		}
	}
	return nil
}

func (s *Spec) clone() *Spec {
	c := *s
	c.Nodes = append([]Node(nil), s.Nodes...)
	c.Calls = make([]Call, len(s.Calls))
	for i, k := range s.Calls {
		k.To = append([]string(nil), k.To...)
		k.Maps = append([]Mapping(nil), k.Maps...)
		c.Calls[i] = k
	}
	return &c
}

// inPort / outPort: the declared type of a node's ports (-1: a pass-through node's
// side without a key, which has no declared type of its own).
func (n *Node) inPort() int {
	if n.InKey != "" {
		return tMap
	}
	if n.Kind == kPass {
		return -1
	}
	return n.In
}

func (n *Node) outPort() int {
	if n.OutKey != "" {
		return tMap
	}
	if n.Kind == kPass {
		return -1
	}
	return n.Out
}

// emitsNil: the node emits a nil interface value in every second variant. Never a
// nested graph: the nil value would be the final output of that graph, which the
// engine reads as "no result yet" (outside the property).
func (n *Node) emitsNil() bool {
	return n.Nil && (n.Kind == kInv || n.Kind == kTrans) && isIface(n.Out)
}

// transparent: a pass-through node without keys hands on what it receives.
func (n *Node) transparent() bool { return n.Kind == kPass && n.InKey == "" && n.OutKey == "" }

// producerType: the declared type of what leaves the node (-1: whatever came in).
func (n *Node) producerType() int {
	if o := n.outPort(); o >= 0 {
		return o
	}
	if n.InKey != "" {
		return tAny // a map element
	}
	return -1
}

func (s *Spec) String() string {
	var b strings.Builder
	fmt.Fprintf(&b, "%s[%s→%s", [...]string{"G", "Chain", "Workflow"}[s.Front], typeNames[s.GI], typeNames[s.GO])
	if s.State {
		b.WriteString(",state")
	}
	if s.DAG {
		b.WriteString(",dag")
	}
	b.WriteString("] ")
	for _, n := range s.Nodes {
		switch n.Kind {
		case kPass:
			fmt.Fprintf(&b, "%s:pass", n.Key)
			if n.InKey != "" || n.OutKey != "" {
				var ks []string
				if n.InKey != "" {
					ks = append(ks, "ik="+n.InKey)
				}
				if n.OutKey != "" {
					ks = append(ks, "ok="+n.OutKey)
				}
				b.WriteString("(" + strings.Join(ks, ",") + ")")
			}
		default:
			fmt.Fprintf(&b, "%s:%s(%s→%s", n.Key, [...]string{"inv", "trans", "", "sub"}[n.Kind], typeNames[n.In], typeNames[n.Out])
			if n.Echo {
				b.WriteString(",echo")
			}
			if n.Nil {
				b.WriteString(",nil")
			}
			if n.InKey != "" {
				b.WriteString(",ik=" + n.InKey)
			}
			if n.OutKey != "" {
				b.WriteString(",ok=" + n.OutKey)
			}
			b.WriteString(")")
		}
		convs := [...]string{"", ",converts", ",hands-on-nil"}
		if n.Pre >= 0 {
			fmt.Fprintf(&b, "[pre %s%s%s]", typeNames[n.Pre], map[bool]string{true: ",stream"}[n.PreStream], convs[n.PreConv])
		}
		if n.Post >= 0 {
			fmt.Fprintf(&b, "[post %s%s%s]", typeNames[n.Post], map[bool]string{true: ",stream"}[n.PostStream], convs[n.PostConv])
		}
		b.WriteString(" ")
	}
	b.WriteString("| ")
	for _, c := range s.Calls {
		b.WriteString(c.String() + " ")
	}
	return b.String()
}

func (c Call) String() string {
	to := make([]string, len(c.To))
	for i, t := range c.To {
		to[i] = t
		if m := c.mapping(i); !m.empty() {
			to[i] = fmt.Sprintf("%s{%s>%s}", t, m.From, m.To)
		}
	}
	if c.Branch {
		return fmt.Sprintf("B(%s?%s%s→%s)", c.From, typeNames[c.Cond], map[bool]string{true: ",stream"}[c.StreamCond], strings.Join(to, ","))
	}
	return fmt.Sprintf("E(%s→%s)", c.From, to[0])
}

// ---- generator ----------------------------------------------------------------

var typeWeights = [nTypes]int{tString: 4, tInt: 2, tPT1: 2, tT1: 2, tMap: 3, tAny: 4, tI1: 3, tT2: 1, tI2: 2, tVars: 2, tStrs: 2, tNames: 2}

func pickType(r *mon.Rand) int {
	tot := 0
	for _, w := range typeWeights {
		tot += w
	}
	x := r.Intn(tot)
	for t, w := range typeWeights {
		if x < w {
			return t
		}
		x -= w
	}
	return tString
}

// compatType: a type a value of static type cur may/must be assignable to
// (identical type preferred), or a random type with probability pBad.
// pTwin: probability of the near miss "distinct type with the same underlying
// type" (map[string]any vs Vars, []string vs Names) where one is available.
const pTwin = 0.10

func compatType(r *mon.Rand, cur int, pBad float64) int {
	if cur < 0 || r.Prob(pBad) {
		return pickType(r)
	}
	if tw := twin(cur); tw >= 0 && pBad > 0 && r.Prob(pTwin) {
		return tw
	}
	if r.Prob(0.4) {
		return cur
	}
	var c []int
	for t := 0; t < nTypes; t++ {
		// (interface → unrelated interface is "may" for the reference but eino
		// rejects it; the generator's bias avoids it to keep graphs acceptable)
		if genOK(cur, t) {
			c = append(c, t)
		}
	}
	return mon.PickOne(r, c)
}

type gen struct {
	r    *mon.Rand
	s    *Spec
	nn   int
	grp  int
	pBad float64
}

func (g *gen) key(prefix string) string {
	g.nn++
	return fmt.Sprintf("%s%d", prefix, g.nn)
}

// genOK: the generator's notion of "acceptable" used only to bias types.
func genOK(from, to int) bool {
	return refLat(from, to) != latMustNot && !(isIface(from) && isIface(to) && !rtypes[to].Implements(rtypes[from]))
}

// revCompatType: a type whose values may/must be assignable to want.
func revCompatType(r *mon.Rand, want int, pBad float64) int {
	if want < 0 || r.Prob(pBad) {
		return pickType(r)
	}
	if tw := twin(want); tw >= 0 && pBad > 0 && r.Prob(pTwin) {
		return tw
	}
	if r.Prob(0.4) {
		return want
	}
	var c []int
	for t := 0; t < nTypes; t++ {
		if genOK(t, want) {
			c = append(c, t)
		}
	}
	return mon.PickOne(r, c)
}

type nodeReq struct {
	cur         int    // static type flowing in (-1 unknown)
	up          string // upstream node, "" unknown
	allowPass   bool
	forceOutKey string
	wantOut     int  // -1: free; else the type the successor expects
	exactIn     bool // input type = cur (join nodes)
	hasForceIn  bool // the input type is given and the node has no input key (targets of field mappings)
	forceIn     int
}

// convChoice: does a state handler declared on type t hand on what it received (0),
// another value of its declared type (1) or a nil interface value (2)?
func convChoice(r *mon.Rand, t int) int {
	if !r.Prob(0.35) {
		return 0
	}
	if t >= 0 && isIface(t) && r.Prob(0.3) {
		return 2
	}
	return 1
}

// newNode creates a node fed by a value of static type cur and returns its key.
func (g *gen) newNode(q nodeReq) string {
	r := g.r
	cur := q.cur
	n := Node{Pre: -1, Post: -1}
	upKey := func() string {
		if u := g.s.node(q.up); u != nil && u.OutKey != "" {
			return u.OutKey
		}
		return "k"
	}
	if q.allowPass && !q.hasForceIn && r.Prob(0.33) {
		n.Kind = kPass
		n.Key = g.key("p")
		// keys: a pass-through node with an output key wraps what it receives (this is
		// what Parallel.AddPassthrough creates), one with an input key unwraps a map element
		if q.forceOutKey != "" {
			n.OutKey = q.forceOutKey
		} else if r.Prob(0.22) {
			n.OutKey = "k"
		}
		// (never both keys: nothing tells eino the inner type of such a node and Compile
		// dereferences a nil pointer — a panic while building, outside this property)
		mapLike := cur == tMap || (cur >= 0 && isIface(cur) && r.Prob(0.3))
		if n.OutKey == "" && mapLike && r.Prob(0.5) {
			n.InKey = upKey()
		}
		// (handlers on keyed pass-through nodes are what Parallel.AddPassthrough users write: more of them)
		pPre, pPost, pBadH := 0.35, 0.3, 0.15
		if n.InKey != "" || n.OutKey != "" {
			pPre, pPost, pBadH = 0.55, 0.5, 0.25
		}
		if g.s.State && r.Prob(pPre) {
			n.Pre = tAny
			if n.InKey != "" {
				n.Pre = tMap
			}
			if r.Prob(pBadH) {
				n.Pre = pickType(r)
			}
			n.PreStream = r.Prob(0.3)
			n.PreConv = convChoice(r, n.Pre)
		}
		if g.s.State && r.Prob(pPost) {
			n.Post = tAny
			if n.OutKey != "" {
				n.Post = tMap
			}
			if r.Prob(pBadH) {
				n.Post = pickType(r)
			}
			n.PostStream = r.Prob(0.3)
			n.PostConv = convChoice(r, n.Post)
		}
		g.s.Nodes = append(g.s.Nodes, n)
		return n.Key
	}
	n.Key = g.key("n")
	if r.Prob(0.3) {
		n.Kind = kTrans
	} else if r.Prob(0.15) {
		n.Kind = kSub
	}
	n.Echo = r.Prob(0.5)
	// input side
	mapLike := cur == tMap || (cur >= 0 && isIface(cur) && r.Prob(0.15))
	if q.hasForceIn {
		n.In = q.forceIn
	} else if (mapLike && r.Prob(0.5)) || r.Prob(0.02) {
		n.InKey = upKey()
		n.In = pickType(r)
	} else if q.exactIn && r.Prob(0.7) {
		n.In = cur
	} else {
		n.In = compatType(r, cur, g.pBad)
	}
	// output side
	switch {
	case q.forceOutKey != "":
		n.Out = pickType(r)
	case q.wantOut >= 0:
		n.Out = revCompatType(r, q.wantOut, g.pBad)
	case n.Echo && r.Prob(0.5):
		n.Out = compatType(r, n.In, 0)
	default:
		n.Out = pickType(r)
	}
	if q.forceOutKey != "" {
		n.OutKey = q.forceOutKey
	} else if q.wantOut == tMap && r.Prob(0.5) || r.Prob(0.06) {
		n.OutKey = "k"
		if q.wantOut == tMap {
			n.Out = pickType(r)
		}
	}
	if isIface(n.Out) && n.Kind != kSub && r.Prob(0.22) {
		n.Nil = true
	}
	if g.s.State && r.Prob(0.35) {
		n.Pre = n.inPort()
		if r.Prob(0.15) {
			n.Pre = pickType(r)
		}
		n.PreStream = r.Prob(0.3)
		n.PreConv = convChoice(r, n.Pre)
		if r.Prob(0.18) {
			n.PreState = 1
		}
	}
	if g.s.State && r.Prob(0.35) {
		n.Post = n.outPort()
		if r.Prob(0.15) {
			n.Post = pickType(r)
		}
		n.PostStream = r.Prob(0.3)
		n.PostConv = convChoice(r, n.Post)
		if r.Prob(0.18) {
			n.PostState = 1
		}
	}
	g.s.Nodes = append(g.s.Nodes, n)
	return n.Key
}

func (g *gen) edge(from, to string) {
	g.s.Calls = append(g.s.Calls, Call{From: from, To: []string{to}})
}

func (g *gen) mappedEdge(from, to string, m Mapping) {
	g.s.Calls = append(g.s.Calls, Call{From: from, To: []string{to}, Maps: []Mapping{m}})
}

// staticOut: the static type of what node key emits, cur = what flows in.
func (g *gen) staticOut(key string, cur int) int {
	if key == START {
		return g.s.GI
	}
	n := g.s.node(key)
	if t := n.producerType(); t >= 0 {
		return t
	}
	return cur
}

// mappable: can a field mapping start at this node (START or a typed node)?
func (g *gen) mappable(key string) bool {
	if key == START {
		return true
	}
	n := g.s.node(key)
	return n != nil && n.Kind != kPass
}

// mappedNode (workflow): a typed node fed through a field mapping of the value of
// static type cur that node `up` emits: a struct field or map key of it becomes the
// node's input, or it becomes a struct field / map key of the node's input.
func (g *gen) mappedNode(cur int, up string) (string, Mapping) {
	r := g.r
	var m Mapping
	in := -1
	srcKey := "k"
	if u := g.s.node(up); u != nil && u.OutKey != "" {
		srcKey = u.OutKey
	}
	fromOK := cur == tT1 || cur == tPT1 || cur == tT2 || cur == tMap || cur == tVars
	switch {
	case r.Prob(g.pBad * 2): // hostile: any mapping towards any type
		m = mon.PickOne(r, []Mapping{{From: "V"}, {From: "W"}, {From: srcKey}, {To: "V"}, {To: "W"}, {To: "k"}})
		in = pickType(r)
	case fromOK && r.Prob(0.5):
		switch cur {
		case tT1, tPT1:
			m.From, in = "V", compatType(r, tInt, g.pBad)
		case tT2:
			m.From, in = "W", compatType(r, tString, g.pBad)
		default: // a map element is only known as `any`: checked at run time
			m.From, in = srcKey, pickType(r)
		}
	default:
		switch {
		case cur == tInt && r.Prob(0.7):
			m.To, in = "V", mon.PickOne(r, []int{tT1, tPT1})
		case cur == tString && r.Prob(0.6):
			m.To, in = "W", tT2
		case cur >= 0 && isIface(cur) && r.Prob(0.35): // checked at run time
			if r.Bool() {
				m.To, in = "V", mon.PickOne(r, []int{tT1, tPT1})
			} else {
				m.To, in = "W", tT2
			}
		default:
			m.To, in = "k", mon.PickOne(r, []int{tMap, tMap, tAny})
		}
	}
	k := g.newNode(nodeReq{cur: cur, up: up, wantOut: -1, hasForceIn: true, forceIn: in})
	return k, m
}

func genSpec(r *mon.Rand) *Spec {
	for {
		s := genSpecOnce(r)
		if len(s.Calls) >= 2 && len(s.Calls) <= 9 {
			return s
		}
	}
}

func genSpecOnce(r *mon.Rand) *Spec {
	g := &gen{r: r, s: &Spec{GO: -1}, pBad: 0.05}
	s := g.s
	switch x := r.Float(); {
	case x < 0.40:
		s.Front = feGraph
	case x < 0.70:
		s.Front = feChain
	default:
		s.Front = feWorkflow
	}
	wf, chain := s.Front == feWorkflow, s.Front == feChain
	s.GI = pickType(r)
	s.State = r.Prob(0.5)
	s.DAG = s.Front == feGraph && r.Prob(0.3)
	mapJoin := func() int { return mon.PickOne(r, []int{tMap, tMap, tAny}) }
	curNode, cur := START, s.GI
	nElems := r.Range(1, 3)
	for e := 0; e < nElems; e++ {
		last := e == nElems-1
		if !chain && r.Prob(0.12) {
			// a pass-through node between concretely typed producers and interface-typed / conflicting
			// consumers (launder_test.go); it ends the construction (the number of calls is bounded)
			curNode, cur = g.launderBlock(curNode, cur, true)
			break
		}
		x := r.Float()
		if wf && curNode == START && x >= 0.45 && x < 0.90 {
			// a workflow branch on START gives the workflow no start node ("start node not
			// set" at Compile): a workflow begins with a node or a fan-out
			x = 0
		}
		switch {
		case x < 0.45: // plain node
			if wf && g.mappable(curNode) && r.Prob(0.4) {
				k, m := g.mappedNode(cur, curNode)
				g.mappedEdge(curNode, k, m)
				curNode, cur = k, g.staticOut(k, cur)
				break
			}
			k := g.newNode(nodeReq{cur: cur, up: curNode, allowPass: true, wantOut: -1})
			g.edge(curNode, k)
			curNode, cur = k, g.staticOut(k, cur)
		case x < 0.90: // branch block (possibly two branches of one group on the same source)
			k := r.Range(2, 3)
			double := !chain && r.Prob(0.15)
			if double {
				s.DAG = false
			}
			g.grp++
			grp := g.grp
			conds := []int{compatType(r, cur, g.pBad*2)}
			if double {
				conds = append(conds, compatType(r, cur, g.pBad*2))
			}
			streamCond := []bool{r.Prob(0.3), r.Prob(0.3)}
			// the type the join expects; every arm is built towards it. In a workflow a node
			// has one whole-value source at most: the arms meet through field mappings
			// (distinct keys of a map or `any` input).
			toEnd := last && r.Prob(0.6)
			J := compatType(r, cur, g.pBad)
			if wf {
				J = mapJoin()
			}
			if toEnd {
				if s.GO < 0 {
					s.GO = J
				}
				J = s.GO
			}
			type arm struct{ first, lastN string }
			arms := make([]arm, k)
			emptyUsed := false
			for a := 0; a < k; a++ {
				ln := r.Intn(3) // 0,1,2 but 2 rare
				if ln == 2 && r.Prob(0.6) {
					ln = 1
				}
				if ln == 0 && (emptyUsed || (wf && !g.mappable(curNode))) {
					ln = 1
				}
				if chain {
					ln = 1 // a ChainBranch arm is exactly one node
				}
				if ln == 0 {
					emptyUsed = true
					continue
				}
				ac, an := cur, curNode
				for j := 0; j < ln; j++ {
					want := -1
					if j == ln-1 && !wf {
						want = J
					}
					nk := g.newNode(nodeReq{cur: ac, up: an, allowPass: !(wf && j == ln-1), wantOut: want})
					if j == 0 {
						arms[a].first = nk
					} else {
						g.edge(an, nk)
					}
					an, ac = nk, g.staticOut(nk, ac)
				}
				arms[a].lastN = an
			}
			join := END
			if !toEnd {
				if wf {
					join = g.newNode(nodeReq{cur: J, wantOut: -1, hasForceIn: true, forceIn: J})
					s.node(join).Echo = false
				} else {
					join = g.newNode(nodeReq{cur: J, allowPass: true, wantOut: -1, exactIn: true})
				}
			}
			var ends []string
			var maps []Mapping
			for i, a := range arms {
				if a.first == "" {
					ends = append(ends, join)
					if wf {
						maps = append(maps, Mapping{To: fmt.Sprintf("x%d", i)})
					}
				} else {
					ends = append(ends, a.first)
					if wf {
						maps = append(maps, Mapping{})
					}
				}
			}
			for i, c := range conds {
				s.Calls = append(s.Calls, Call{Branch: true, From: curNode, To: append([]string(nil), ends...), Cond: c, StreamCond: streamCond[i], Group: grp,
					Maps: append([]Mapping(nil), maps...)})
			}
			for i, a := range arms {
				if a.first == "" {
					continue
				}
				if wf {
					g.mappedEdge(a.lastN, join, Mapping{To: fmt.Sprintf("x%d", i)})
				} else {
					g.edge(a.lastN, join)
				}
			}
			if join == END {
				curNode, cur = END, J
			} else {
				curNode, cur = join, g.staticOut(join, J)
			}
		default: // fan-out, fan-in on a map consumer: keyed outputs (a Parallel in a chain), field mappings in a workflow
			keys := []string{"a", "b"}
			if r.Prob(0.25) {
				keys = append(keys, "c")
			}
			var fan []string
			for _, key := range keys {
				var nk string
				if wf {
					nk = g.newNode(nodeReq{cur: cur, up: curNode, wantOut: -1})
				} else {
					nk = g.newNode(nodeReq{cur: cur, up: curNode, allowPass: true, forceOutKey: key, wantOut: -1})
				}
				g.edge(curNode, nk)
				fan = append(fan, nk)
			}
			join := END
			if !last || r.Prob(0.5) {
				if wf {
					jt := mapJoin()
					join = g.newNode(nodeReq{cur: jt, wantOut: -1, hasForceIn: true, forceIn: jt})
					s.node(join).Echo = false
				} else {
					join = g.newNode(nodeReq{cur: tMap, up: fan[0], allowPass: true, wantOut: -1, exactIn: true})
					if jn := s.node(join); jn.InKey != "" {
						jn.InKey = mon.PickOne(r, keys)
					}
				}
			} else if wf && s.GO < 0 {
				s.GO = mapJoin()
			}
			for i, nk := range fan {
				if wf {
					g.mappedEdge(nk, join, Mapping{To: keys[i]})
				} else {
					g.edge(nk, join)
				}
			}
			if join == END {
				curNode, cur = END, tMap
			} else {
				curNode, cur = join, g.staticOut(join, tMap)
			}
		}
		if curNode == END {
			break
		}
	}
	if curNode != END {
		g.edge(curNode, END)
	}
	if s.GO < 0 {
		s.GO = compatType(r, cur, g.pBad)
	}
	// hostile mutation of one type
	if r.Prob(0.25) {
		mutateType(r, s)
	}
	return s
}

func mutateType(r *mon.Rand, s *Spec) {
	type slot struct{ p *int }
	slots := []slot{{&s.GI}, {&s.GO}}
	for i := range s.Nodes {
		n := &s.Nodes[i]
		if n.Kind != kPass {
			slots = append(slots, slot{&n.In}, slot{&n.Out})
		}
		if n.Pre >= 0 {
			slots = append(slots, slot{&n.Pre})
		}
		if n.Post >= 0 {
			slots = append(slots, slot{&n.Post})
		}
	}
	for i := range s.Calls {
		if s.Calls[i].Branch {
			slots = append(slots, slot{&s.Calls[i].Cond}, slot{&s.Calls[i].Cond})
		}
	}
	p := mon.PickOne(r, slots).p
	if tw := twin(*p); tw >= 0 && r.Prob(0.5) {
		*p = tw
		return
	}
	*p = pickType(r)
}

// ---- structure helpers ----------------------------------------------------------

// succ returns, per node, the (call index, target) pairs.
func (s *Spec) reachable() map[string]bool {
	seen := map[string]bool{START: true}
	q := []string{START}
	for len(q) > 0 {
		u := q[0]
		q = q[1:]
		for _, c := range s.Calls {
			if c.From != u {
				continue
			}
			for _, t := range c.To {
				if !seen[t] {
					seen[t] = true
					q = append(q, t)
				}
			}
		}
	}
	return seen
}

// prune drops nodes not reachable from START and their calls.
func (s *Spec) prune() {
	seen := s.reachable()
	var ns []Node
	for _, n := range s.Nodes {
		if seen[n.Key] {
			ns = append(ns, n)
		}
	}
	s.Nodes = ns
	var cs []Call
	for _, c := range s.Calls {
		if seen[c.From] {
			cs = append(cs, c)
		}
	}
	s.Calls = cs
}

// wellFormed: every node reachable, every node has a way out, no duplicate
// connection, branches have ≥2 distinct ends, END reachable.
func (s *Spec) wellFormed() bool {
	seen := s.reachable()
	if !seen[END] {
		return false
	}
	out := map[string]int{}
	dup := map[string]bool{}
	for _, c := range s.Calls {
		if c.Branch {
			if len(c.To) < 2 {
				return false
			}
			e := map[string]bool{}
			for _, t := range c.To {
				if e[t] {
					return false
				}
				e[t] = true
			}
		} else {
			k := c.From + ">" + c.To[0]
			if dup[k] {
				return false
			}
			dup[k] = true
		}
		out[c.From]++
		for _, t := range c.To {
			if t != END && s.node(t) == nil {
				return false
			}
		}
		if c.From != START && s.node(c.From) == nil {
			return false
		}
	}
	for _, n := range s.Nodes {
		if !seen[n.Key] || out[n.Key] == 0 {
			return false
		}
	}
	// the generator's fan-out discipline (keeps "every failure is the framework's"
	// true): a source has exactly one edge, or only branches of one group with the
	// same ends, or several edges to nodes that meet again at one consumer where
	// their values merge: distinct output keys, or (workflow) distinct mapped fields.
	srcs := map[string][]Call{}
	for _, c := range s.Calls {
		srcs[c.From] = append(srcs[c.From], c)
	}
	indeg := map[string]int{}
	for _, c := range s.Calls {
		for _, t := range c.To {
			indeg[t]++
		}
	}
	for _, cs := range srcs {
		nb, ne := 0, 0
		for _, c := range cs {
			if c.Branch {
				nb++
			} else {
				ne++
			}
		}
		switch {
		case nb == 0 && ne == 1:
		case ne == 0:
			for _, c := range cs[1:] {
				if c.Group != cs[0].Group || strings.Join(c.To, ",") != strings.Join(cs[0].To, ",") || fmt.Sprint(c.Maps) != fmt.Sprint(cs[0].Maps) {
					return false
				}
			}
		case nb == 0 && ne >= 2:
			keys := map[string]bool{}
			join := ""
			for _, c := range cs {
				a := s.node(c.To[0])
				if a == nil || indeg[a.Key] != 1 || len(srcs[a.Key]) != 1 || srcs[a.Key][0].Branch {
					return false
				}
				o := srcs[a.Key][0]
				k := a.OutKey
				if m := o.mapping(0); m.To != "" {
					k = m.To
				}
				if k == "" || keys[k] || (join != "" && join != o.To[0]) {
					return false
				}
				keys[k], join = true, o.To[0]
			}
		default:
			return false
		}
	}
	// field mappings: workflow only, never at a pass-through node, a node is fed either
	// by one whole value (alternatives behind an exclusive branch aside) or by
	// mappings to distinct fields
	type feed struct{ whole, mapped int }
	feeds := map[string]*feed{}
	toKeys := map[string]map[string]bool{}
	for ci := range s.Calls {
		c := &s.Calls[ci]
		if len(c.Maps) != 0 && len(c.Maps) != len(c.To) {
			return false
		}
		if c.mapped() && s.Front != feWorkflow {
			return false
		}
		for i, t := range c.To {
			m := c.mapping(i)
			if feeds[t] == nil {
				feeds[t], toKeys[t] = &feed{}, map[string]bool{}
			}
			if !m.empty() {
				if a := s.node(c.From); a != nil && a.Kind == kPass {
					return false
				}
				if b := s.node(t); b != nil && (b.Kind == kPass || b.InKey != "") {
					return false
				}
			}
			if m.To == "" {
				feeds[t].whole++
			} else {
				// two branches of one group repeat the same connection
				if toKeys[t][c.From+">"+m.To] {
					continue
				}
				for k := range toKeys[t] {
					if strings.HasSuffix(k, ">"+m.To) {
						return false
					}
				}
				toKeys[t][c.From+">"+m.To] = true
				feeds[t].mapped++
			}
		}
	}
	for _, f := range feeds {
		if f.whole > 0 && f.mapped > 0 {
			return false
		}
	}
	if s.Front == feWorkflow {
		// one whole-value source per node: count distinct sources
		src := map[string]map[string]bool{}
		for ci := range s.Calls {
			c := &s.Calls[ci]
			for i, t := range c.To {
				if c.mapping(i).To == "" {
					if src[t] == nil {
						src[t] = map[string]bool{}
					}
					src[t][c.From] = true
				}
			}
		}
		for _, m := range src {
			if len(m) > 1 {
				return false
			}
		}
		if s.DAG {
			return false
		}
	}
	if s.Front == feChain {
		if _, ok := s.chainPlan(); !ok || s.DAG {
			return false
		}
	}
	return true
}

// ---- the chain reading of a construction ------------------------------------------------

type chainElem struct {
	Kind int      // 0 node, 1 parallel, 2 branch
	Keys []string // node keys
	Call int      // index of the branch call
}

// chainPlan reads the construction as a sequence of chain elements: single nodes,
// Parallels (several keyed nodes that meet at the next element) and ChainBranches
// (one node per arm, all meeting at the next element). ok=false: not chain shaped.
func (s *Spec) chainPlan() ([]chainElem, bool) {
	indeg := map[string]int{}
	for _, c := range s.Calls {
		for _, t := range c.To {
			indeg[t]++
		}
	}
	outs := func(u string) []int {
		var r []int
		for i, c := range s.Calls {
			if c.From == u {
				r = append(r, i)
			}
		}
		return r
	}
	var plan []chainElem
	used := 0
	cur := START
	for steps := 0; steps < 64; steps++ {
		os := outs(cur)
		if len(os) == 0 {
			return nil, false
		}
		var group []string // nodes that must all lead to the next element
		if s.Calls[os[0]].Branch {
			if len(os) != 1 {
				return nil, false
			}
			c := s.Calls[os[0]]
			for _, t := range c.To {
				if t == END {
					return nil, false
				}
			}
			plan = append(plan, chainElem{Kind: 2, Keys: append([]string(nil), c.To...), Call: os[0]})
			group = c.To
			used++
		} else if len(os) == 1 {
			t := s.Calls[os[0]].To[0]
			used++
			if t == END {
				break
			}
			if indeg[t] != 1 {
				return nil, false
			}
			plan = append(plan, chainElem{Kind: 0, Keys: []string{t}})
			cur = t
			continue
		} else {
			keys := map[string]bool{}
			for _, ci := range os {
				if s.Calls[ci].Branch {
					return nil, false
				}
				t := s.Calls[ci].To[0]
				n := s.node(t)
				if n == nil || n.OutKey == "" || keys[n.OutKey] {
					return nil, false
				}
				keys[n.OutKey] = true
				group = append(group, t)
				used++
			}
			plan = append(plan, chainElem{Kind: 1, Keys: append([]string(nil), group...)})
		}
		// every node of the group has one way in and one edge out, to the same successor
		next := ""
		for _, k := range group {
			o := outs(k)
			if indeg[k] != 1 || len(o) != 1 || s.Calls[o[0]].Branch {
				return nil, false
			}
			t := s.Calls[o[0]].To[0]
			if next != "" && next != t {
				return nil, false
			}
			next = t
			used++
		}
		if next == END {
			break
		}
		if indeg[next] != len(group) {
			return nil, false
		}
		plan = append(plan, chainElem{Kind: 0, Keys: []string{next}})
		cur = next
	}
	if used != len(s.Calls) {
		return nil, false
	}
	return plan, true
}

// features of a spec, for evidence counters.
func (s *Spec) features() []string {
	f := map[string]bool{}
	for _, n := range s.Nodes {
		if n.Kind == kPass {
			f["passthrough"] = true
			if n.InKey != "" || n.OutKey != "" {
				f["keyed-passthrough"] = true
				if n.Pre >= 0 || n.Post >= 0 {
					f["handler-on-keyed-passthrough"] = true
				}
			}
			if n.Pre >= 0 || n.Post >= 0 {
				f["handler-on-passthrough"] = true
			}
		}
		if n.emitsNil() {
			f["nil-emitter"] = true
		}
		if (n.Pre >= 0 && n.PreConv > 0) || (n.Post >= 0 && n.PostConv > 0) {
			f["converting-handler"] = true
		}
		if (n.Pre >= 0 && n.PreConv == 2) || (n.Post >= 0 && n.PostConv == 2) {
			f["nil-handler"] = true
		}
		if n.Kind == kTrans {
			f["transform-lambda"] = true
		}
		if n.Kind == kSub {
			f["nested-graph"] = true
		}
		if n.InKey != "" {
			f["input-key"] = true
		}
		if n.OutKey != "" {
			f["output-key"] = true
		}
		if n.Pre >= 0 {
			f["pre-handler"] = true
		}
		if n.Post >= 0 {
			f["post-handler"] = true
		}
	}
	f["front-"+frontNames[s.Front]] = true
	for _, c := range s.Calls {
		if c.mapped() {
			f["field-mapping"] = true
		}
		if c.Branch {
			f["branch"] = true
			f["branch-"+frontNames[s.Front]] = true
			if c.StreamCond {
				f["stream-branch"] = true
			}
			if n := s.node(c.From); n != nil && n.Kind == kPass {
				f["branch-on-passthrough"] = true
			}
			if c.From == START {
				f["branch-on-start"] = true
			}
		}
	}
	var r []string
	for k := range f {
		r = append(r, k)
	}
	sort.Strings(r)
	return r
}
