package c07

// Construction specs: a well-formed (series-parallel, every node on a path
// START→END, fan-in only where the run-time values can merge) graph shape whose
// TYPES are partly hostile. A spec is a pure function of the *mon.Rand.

import (
	"fmt"
	"sort"
	"strings"

	"verifharness/internal/mon"
)

const (
	START = "start"
	END   = "end"
)

const (
	kInv = iota
	kTrans
	kPass
)

type Node struct {
	Key    string `json:"key"`
	Kind   int    `json:"kind"` // 0 invokable lambda, 1 transformable lambda, 2 passthrough
	In     int    `json:"in"`
	Out    int    `json:"out"`
	Echo   bool   `json:"echo,omitempty"`
	InKey  string `json:"in_key,omitempty"`
	OutKey string `json:"out_key,omitempty"`
	// state handlers: type index or -1
	Pre        int  `json:"pre"`
	Post       int  `json:"post"`
	PreStream  bool `json:"pre_stream,omitempty"`
	PostStream bool `json:"post_stream,omitempty"`
	PreState   int  `json:"pre_state,omitempty"` // 0: the graph's state type, 1: another one
	PostState  int  `json:"post_state,omitempty"`
}

type Call struct {
	Branch     bool     `json:"branch,omitempty"`
	From       string   `json:"from"`
	To         []string `json:"to"`
	Cond       int      `json:"cond,omitempty"`
	StreamCond bool     `json:"stream_cond,omitempty"`
	Group      int      `json:"group,omitempty"` // branches of one group always choose the same end index
}

type Spec struct {
	GI    int    `json:"gi"`
	GO    int    `json:"go"`
	State bool   `json:"state,omitempty"`
	DAG   bool   `json:"dag,omitempty"`
	Nodes []Node `json:"nodes"`
	Calls []Call `json:"calls"`
}

func (s *Spec) node(key string) *Node {
	for i := range s.Nodes {
		if s.Nodes[i].Key == key {
			return &s.Nodes[i]
		}
	}
	return nil
}

func (s *Spec) clone() *Spec {
	c := *s
	c.Nodes = append([]Node(nil), s.Nodes...)
	c.Calls = make([]Call, len(s.Calls))
	for i, k := range s.Calls {
		k.To = append([]string(nil), k.To...)
		c.Calls[i] = k
	}
	return &c
}

// inPort / outPort: the declared type of a node's ports (-1 for passthrough).
func (n *Node) inPort() int {
	if n.Kind == kPass {
		return -1
	}
	if n.InKey != "" {
		return tMap
	}
	return n.In
}

func (n *Node) outPort() int {
	if n.Kind == kPass {
		return -1
	}
	if n.OutKey != "" {
		return tMap
	}
	return n.Out
}

func (s *Spec) String() string {
	var b strings.Builder
	fmt.Fprintf(&b, "G[%s→%s", typeNames[s.GI], typeNames[s.GO])
	if s.State {
		b.WriteString(",state")
	}
	if s.DAG {
		b.WriteString(",dag")
	}
	b.WriteString("] ")
	for _, n := range s.Nodes {
		switch n.Kind {
		case kPass:
			fmt.Fprintf(&b, "%s:pass", n.Key)
		default:
			fmt.Fprintf(&b, "%s:%s(%s→%s", n.Key, [...]string{"inv", "trans"}[n.Kind], typeNames[n.In], typeNames[n.Out])
			if n.Echo {
				b.WriteString(",echo")
			}
			if n.InKey != "" {
				b.WriteString(",ik=" + n.InKey)
			}
			if n.OutKey != "" {
				b.WriteString(",ok=" + n.OutKey)
			}
			b.WriteString(")")
		}
		if n.Pre >= 0 {
			fmt.Fprintf(&b, "[pre %s%s]", typeNames[n.Pre], map[bool]string{true: ",stream"}[n.PreStream])
		}
		if n.Post >= 0 {
			fmt.Fprintf(&b, "[post %s%s]", typeNames[n.Post], map[bool]string{true: ",stream"}[n.PostStream])
		}
		b.WriteString(" ")
	}
	b.WriteString("| ")
	for _, c := range s.Calls {
		b.WriteString(c.String() + " ")
	}
	return b.String()
}

func (c Call) String() string {
	if c.Branch {
		return fmt.Sprintf("B(%s?%s%s→%s)", c.From, typeNames[c.Cond], map[bool]string{true: ",stream"}[c.StreamCond], strings.Join(c.To, ","))
	}
	return fmt.Sprintf("E(%s→%s)", c.From, c.To[0])
}

// ---- generator ----------------------------------------------------------------

var typeWeights = [nTypes]int{tString: 4, tInt: 2, tPT1: 2, tT1: 2, tMap: 3, tAny: 4, tI1: 3, tT2: 1, tI2: 2, tVars: 2, tStrs: 2, tNames: 2}

func pickType(r *mon.Rand) int {
	tot := 0
	for _, w := range typeWeights {
		tot += w
	}
	x := r.Intn(tot)
	for t, w := range typeWeights {
		if x < w {
			return t
		}
		x -= w
	}
	return tString
}

// compatType: a type a value of static type cur may/must be assignable to
// (identical type preferred), or a random type with probability pBad.
// pTwin: probability of the near miss "distinct type with the same underlying
// type" (map[string]any vs Vars, []string vs Names) where one is available.
const pTwin = 0.10

func compatType(r *mon.Rand, cur int, pBad float64) int {
	if cur < 0 || r.Prob(pBad) {
		return pickType(r)
	}
	if tw := twin(cur); tw >= 0 && pBad > 0 && r.Prob(pTwin) {
		return tw
	}
	if r.Prob(0.4) {
		return cur
	}
	var c []int
	for t := 0; t < nTypes; t++ {
		// (interface → unrelated interface is "may" for the reference but eino
		// rejects it; the generator's bias avoids it to keep graphs acceptable)
		if genOK(cur, t) {
			c = append(c, t)
		}
	}
	return mon.PickOne(r, c)
}

type gen struct {
	r    *mon.Rand
	s    *Spec
	nn   int
	grp  int
	pBad float64
}

func (g *gen) key(prefix string) string {
	g.nn++
	return fmt.Sprintf("%s%d", prefix, g.nn)
}

// genOK: the generator's notion of "acceptable" used only to bias types.
func genOK(from, to int) bool {
	return refLat(from, to) != latMustNot && !(isIface(from) && isIface(to) && !rtypes[to].Implements(rtypes[from]))
}

// revCompatType: a type whose values may/must be assignable to want.
func revCompatType(r *mon.Rand, want int, pBad float64) int {
	if want < 0 || r.Prob(pBad) {
		return pickType(r)
	}
	if tw := twin(want); tw >= 0 && pBad > 0 && r.Prob(pTwin) {
		return tw
	}
	if r.Prob(0.4) {
		return want
	}
	var c []int
	for t := 0; t < nTypes; t++ {
		if genOK(t, want) {
			c = append(c, t)
		}
	}
	return mon.PickOne(r, c)
}

type nodeReq struct {
	cur         int    // static type flowing in (-1 unknown)
	up          string // upstream node, "" unknown
	allowPass   bool
	forceOutKey string
	wantOut     int  // -1: free; else the type the successor expects
	exactIn     bool // input type = cur (join nodes)
}

// newNode creates a node fed by a value of static type cur and returns its key.
func (g *gen) newNode(q nodeReq) string {
	r := g.r
	cur := q.cur
	n := Node{Pre: -1, Post: -1}
	if q.allowPass && q.forceOutKey == "" && r.Prob(0.33) {
		n.Kind = kPass
		n.Key = g.key("p")
		if g.s.State && r.Prob(0.2) {
			n.Pre = tAny
			if r.Prob(0.1) {
				n.Pre = pickType(r)
			}
			n.PreStream = r.Prob(0.3)
		}
		if g.s.State && r.Prob(0.2) {
			n.Post = tAny
			if r.Prob(0.1) {
				n.Post = pickType(r)
			}
			n.PostStream = r.Prob(0.3)
		}
		g.s.Nodes = append(g.s.Nodes, n)
		return n.Key
	}
	n.Key = g.key("n")
	if r.Prob(0.3) {
		n.Kind = kTrans
	}
	n.Echo = r.Prob(0.5)
	// input side
	mapLike := cur == tMap || (cur >= 0 && isIface(cur) && r.Prob(0.15))
	if (mapLike && r.Prob(0.5)) || r.Prob(0.02) {
		n.InKey = "k"
		if u := g.s.node(q.up); u != nil && u.OutKey != "" {
			n.InKey = u.OutKey
		}
		n.In = pickType(r)
	} else if q.exactIn && r.Prob(0.7) {
		n.In = cur
	} else {
		n.In = compatType(r, cur, g.pBad)
	}
	// output side
	switch {
	case q.forceOutKey != "":
		n.Out = pickType(r)
	case q.wantOut >= 0:
		n.Out = revCompatType(r, q.wantOut, g.pBad)
	case n.Echo && r.Prob(0.5):
		n.Out = compatType(r, n.In, 0)
	default:
		n.Out = pickType(r)
	}
	if q.forceOutKey != "" {
		n.OutKey = q.forceOutKey
	} else if q.wantOut == tMap && r.Prob(0.5) || r.Prob(0.06) {
		n.OutKey = "k"
		if q.wantOut == tMap {
			n.Out = pickType(r)
		}
	}
	if g.s.State && r.Prob(0.35) {
		n.Pre = n.inPort()
		if r.Prob(0.15) {
			n.Pre = pickType(r)
		}
		n.PreStream = r.Prob(0.3)
		if r.Prob(0.18) {
			n.PreState = 1
		}
	}
	if g.s.State && r.Prob(0.35) {
		n.Post = n.outPort()
		if r.Prob(0.15) {
			n.Post = pickType(r)
		}
		n.PostStream = r.Prob(0.3)
		if r.Prob(0.18) {
			n.PostState = 1
		}
	}
	g.s.Nodes = append(g.s.Nodes, n)
	return n.Key
}

func (g *gen) edge(from, to string) {
	g.s.Calls = append(g.s.Calls, Call{From: from, To: []string{to}})
}

// staticOut: the static type of what node key emits, cur = what flows in.
func (g *gen) staticOut(key string, cur int) int {
	if key == START {
		return g.s.GI
	}
	n := g.s.node(key)
	if n.Kind == kPass {
		return cur
	}
	return n.outPort()
}

func genSpec(r *mon.Rand) *Spec {
	for {
		s := genSpecOnce(r)
		if len(s.Calls) >= 2 && len(s.Calls) <= 9 {
			return s
		}
	}
}

func genSpecOnce(r *mon.Rand) *Spec {
	g := &gen{r: r, s: &Spec{GO: -1}, pBad: 0.05}
	s := g.s
	s.GI = pickType(r)
	s.State = r.Prob(0.4)
	s.DAG = r.Prob(0.3)
	curNode, cur := START, s.GI
	nElems := r.Range(1, 3)
	for e := 0; e < nElems; e++ {
		last := e == nElems-1
		x := r.Float()
		switch {
		case x < 0.45: // plain node
			k := g.newNode(nodeReq{cur: cur, up: curNode, allowPass: true, wantOut: -1})
			g.edge(curNode, k)
			curNode, cur = k, g.staticOut(k, cur)
		case x < 0.90: // branch block (possibly two branches of one group on the same source)
			k := r.Range(2, 3)
			double := r.Prob(0.15)
			if double {
				s.DAG = false
			}
			g.grp++
			grp := g.grp
			conds := []int{compatType(r, cur, g.pBad*2)}
			if double {
				conds = append(conds, compatType(r, cur, g.pBad*2))
			}
			streamCond := []bool{r.Prob(0.3), r.Prob(0.3)}
			// the type the join expects; every arm is built towards it
			toEnd := last && r.Prob(0.6)
			J := compatType(r, cur, g.pBad)
			if toEnd {
				if s.GO < 0 {
					s.GO = J
				}
				J = s.GO
			}
			type arm struct{ first, lastN string }
			arms := make([]arm, k)
			emptyUsed := false
			for a := 0; a < k; a++ {
				ln := r.Intn(3) // 0,1,2 but 2 rare
				if ln == 2 && r.Prob(0.6) {
					ln = 1
				}
				if ln == 0 && emptyUsed {
					ln = 1
				}
				if ln == 0 {
					emptyUsed = true
					continue
				}
				ac, an := cur, curNode
				for j := 0; j < ln; j++ {
					want := -1
					if j == ln-1 {
						want = J
					}
					nk := g.newNode(nodeReq{cur: ac, up: an, allowPass: true, wantOut: want})
					if j == 0 {
						arms[a].first = nk
					} else {
						g.edge(an, nk)
					}
					an, ac = nk, g.staticOut(nk, ac)
				}
				arms[a].lastN = an
			}
			join := END
			if !toEnd {
				join = g.newNode(nodeReq{cur: J, allowPass: true, wantOut: -1, exactIn: true})
			}
			var ends []string
			for _, a := range arms {
				if a.first == "" {
					ends = append(ends, join)
				} else {
					ends = append(ends, a.first)
				}
			}
			for i, c := range conds {
				s.Calls = append(s.Calls, Call{Branch: true, From: curNode, To: append([]string(nil), ends...), Cond: c, StreamCond: streamCond[i], Group: grp})
			}
			for _, a := range arms {
				if a.first != "" {
					g.edge(a.lastN, join)
				}
			}
			if join == END {
				curNode, cur = END, J
			} else {
				curNode, cur = join, g.staticOut(join, J)
			}
		default: // fan-out with keyed outputs, fan-in on a map consumer
			ak := g.newNode(nodeReq{cur: cur, up: curNode, forceOutKey: "a", wantOut: -1})
			bk := g.newNode(nodeReq{cur: cur, up: curNode, forceOutKey: "b", wantOut: -1})
			g.edge(curNode, ak)
			g.edge(curNode, bk)
			join := END
			if !last || r.Prob(0.5) {
				join = g.newNode(nodeReq{cur: tMap, up: ak, allowPass: true, wantOut: -1, exactIn: true})
				if jn := s.node(join); jn.InKey != "" {
					jn.InKey = mon.PickOne(r, []string{"a", "b"})
				}
			}
			g.edge(ak, join)
			g.edge(bk, join)
			if join == END {
				curNode, cur = END, tMap
			} else {
				curNode, cur = join, g.staticOut(join, tMap)
			}
		}
		if curNode == END {
			break
		}
	}
	if curNode != END {
		g.edge(curNode, END)
	}
	if s.GO < 0 {
		s.GO = compatType(r, cur, g.pBad)
	}
	// hostile mutation of one type
	if r.Prob(0.25) {
		mutateType(r, s)
	}
	return s
}

func mutateType(r *mon.Rand, s *Spec) {
	type slot struct{ p *int }
	slots := []slot{{&s.GI}, {&s.GO}}
	for i := range s.Nodes {
		n := &s.Nodes[i]
		if n.Kind != kPass {
			slots = append(slots, slot{&n.In}, slot{&n.Out})
		}
		if n.Pre >= 0 {
			slots = append(slots, slot{&n.Pre})
		}
		if n.Post >= 0 {
			slots = append(slots, slot{&n.Post})
		}
	}
	for i := range s.Calls {
		if s.Calls[i].Branch {
			slots = append(slots, slot{&s.Calls[i].Cond}, slot{&s.Calls[i].Cond})
		}
	}
	p := mon.PickOne(r, slots).p
	if tw := twin(*p); tw >= 0 && r.Prob(0.5) {
		*p = tw
		return
	}
	*p = pickType(r)
}

// ---- structure helpers ----------------------------------------------------------

// succ returns, per node, the (call index, target) pairs.
func (s *Spec) reachable() map[string]bool {
	seen := map[string]bool{START: true}
	q := []string{START}
	for len(q) > 0 {
		u := q[0]
		q = q[1:]
		for _, c := range s.Calls {
			if c.From != u {
				continue
			}
			for _, t := range c.To {
				if !seen[t] {
					seen[t] = true
					q = append(q, t)
				}
			}
		}
	}
	return seen
}

// prune drops nodes not reachable from START and their calls.
func (s *Spec) prune() {
	seen := s.reachable()
	var ns []Node
	for _, n := range s.Nodes {
		if seen[n.Key] {
			ns = append(ns, n)
		}
	}
	s.Nodes = ns
	var cs []Call
	for _, c := range s.Calls {
		if seen[c.From] {
			cs = append(cs, c)
		}
	}
	s.Calls = cs
}

// wellFormed: every node reachable, every node has a way out, no duplicate
// connection, branches have ≥2 distinct ends, END reachable.
func (s *Spec) wellFormed() bool {
	seen := s.reachable()
	if !seen[END] {
		return false
	}
	out := map[string]int{}
	dup := map[string]bool{}
	for _, c := range s.Calls {
		if c.Branch {
			if len(c.To) < 2 {
				return false
			}
			e := map[string]bool{}
			for _, t := range c.To {
				if e[t] {
					return false
				}
				e[t] = true
			}
		} else {
			k := c.From + ">" + c.To[0]
			if dup[k] {
				return false
			}
			dup[k] = true
		}
		out[c.From]++
		for _, t := range c.To {
			if t != END && s.node(t) == nil {
				return false
			}
		}
		if c.From != START && s.node(c.From) == nil {
			return false
		}
	}
	for _, n := range s.Nodes {
		if !seen[n.Key] || out[n.Key] == 0 {
			return false
		}
	}
	// the generator's fan-out discipline (keeps "every failure is the framework's"
	// true): a source has exactly one edge, or only branches of one group with the
	// same ends, or two edges to keyed lambdas that meet again at one consumer.
	srcs := map[string][]Call{}
	for _, c := range s.Calls {
		srcs[c.From] = append(srcs[c.From], c)
	}
	indeg := map[string]int{}
	for _, c := range s.Calls {
		for _, t := range c.To {
			indeg[t]++
		}
	}
	for _, cs := range srcs {
		nb, ne := 0, 0
		for _, c := range cs {
			if c.Branch {
				nb++
			} else {
				ne++
			}
		}
		switch {
		case nb == 0 && ne == 1:
		case ne == 0:
			for _, c := range cs[1:] {
				if c.Group != cs[0].Group || strings.Join(c.To, ",") != strings.Join(cs[0].To, ",") {
					return false
				}
			}
		case nb == 0 && ne == 2:
			a, b := s.node(cs[0].To[0]), s.node(cs[1].To[0])
			if a == nil || b == nil || a.Kind == kPass || b.Kind == kPass || a.OutKey == "" || b.OutKey == "" || a.OutKey == b.OutKey {
				return false
			}
			if indeg[a.Key] != 1 || indeg[b.Key] != 1 || len(srcs[a.Key]) != 1 || len(srcs[b.Key]) != 1 ||
				srcs[a.Key][0].Branch || srcs[b.Key][0].Branch || srcs[a.Key][0].To[0] != srcs[b.Key][0].To[0] {
				return false
			}
		default:
			return false
		}
	}
	return true
}

// features of a spec, for evidence counters.
func (s *Spec) features() []string {
	f := map[string]bool{}
	for _, n := range s.Nodes {
		if n.Kind == kPass {
			f["passthrough"] = true
		}
		if n.Kind == kTrans {
			f["transform-lambda"] = true
		}
		if n.InKey != "" {
			f["input-key"] = true
		}
		if n.OutKey != "" {
			f["output-key"] = true
		}
		if n.Pre >= 0 {
			f["pre-handler"] = true
		}
		if n.Post >= 0 {
			f["post-handler"] = true
		}
	}
	for _, c := range s.Calls {
		if c.Branch {
			f["branch"] = true
			if c.StreamCond {
				f["stream-branch"] = true
			}
			if n := s.node(c.From); n != nil && n.Kind == kPass {
				f["branch-on-passthrough"] = true
			}
			if c.From == START {
				f["branch-on-start"] = true
			}
		}
	}
	var r []string
	for k := range f {
		r = append(r, k)
	}
	sort.Strings(r)
	return r
}
