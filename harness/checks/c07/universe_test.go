package c07

// The type universe of the check, the dynamic values that flow, the reference
// assignability lattice, and the statically instantiated generic makers
// (lambdas, graphs, branches, state handlers) for every type of the universe.

import (
	"context"
	"errors"
	"fmt"
	"io"
	"reflect"
	"sort"
	"strings"
	"sync"
	"unsafe"

	"github.com/cloudwego/eino/compose"
	"github.com/cloudwego/eino/schema"
)

// ---- types -----------------------------------------------------------------

type T1 struct{ V int }

func (T1) M() {}
func (T1) N() {}

type T2 struct{ W string }

func (T2) N() {}

type I1 interface{ M() }
type I2 interface{ N() }

// named composite types next to their unnamed literal forms: distinct types with
// the same underlying type. Go's assignability (and reflect's AssignableTo)
// accepts map[string]any -> Vars and Names <-> []string, but a type assertion
// v.(T) — what eino's nodes, conditions and converters do — does not.
type Vars map[string]any
type Names []string

const (
	tString = iota
	tInt
	tPT1
	tT1
	tMap
	tAny
	tI1
	tT2
	tI2
	tVars  // named map, twin of tMap
	tStrs  // []string
	tNames // named slice, twin of tStrs
	nTypes
)

// twin: the distinct type with the same underlying type (-1 if none).
func twin(t int) int {
	switch t {
	case tMap:
		return tVars
	case tVars:
		return tMap
	case tStrs:
		return tNames
	case tNames:
		return tStrs
	}
	return -1
}

var typeNames = [nTypes]string{"string", "int", "*T1", "T1", "map", "any", "I1", "T2", "I2", "Vars", "[]string", "Names"}

var rtypes = [nTypes]reflect.Type{
	reflect.TypeOf(""),
	reflect.TypeOf(0),
	reflect.TypeOf(&T1{}),
	reflect.TypeOf(T1{}),
	reflect.TypeOf(map[string]any{}),
	reflect.TypeOf((*any)(nil)).Elem(),
	reflect.TypeOf((*I1)(nil)).Elem(),
	reflect.TypeOf(T2{}),
	reflect.TypeOf((*I2)(nil)).Elem(),
	reflect.TypeOf(Vars{}),
	reflect.TypeOf([]string{}),
	reflect.TypeOf(Names{}),
}

func typeIdx(t reflect.Type) int {
	for i, r := range rtypes {
		if r == t {
			return i
		}
	}
	return -1
}

func isIface(t int) bool { return rtypes[t].Kind() == reflect.Interface }

// ---- reference lattice ------------------------------------------------------

type lat int

const (
	latMustNot lat = iota
	latMust
	latMay
)

func (l lat) String() string { return [...]string{"must-not", "must", "may"}[l] }

// refLat is the reference assignability lattice between a declared upstream
// type and a declared downstream type, computed with reflect only:
//
//	must     every value of the upstream type is assignable downstream
//	may      upstream is an interface and some dynamic value can be assignable
//	must-not no value of the upstream type can ever be assignable
//
// The lattice is about what a type ASSERTION accepts (a value travels as `any`
// between nodes): identical types, or a type that implements the downstream
// interface ⇒ must. It is deliberately NOT reflect's AssignableTo, which also
// accepts two distinct types with identical underlying types when one of them is
// unnamed (map[string]any -> Vars, Names <-> []string): those are must-not.
func asserts(dyn, to reflect.Type) bool {
	if dyn == to {
		return true
	}
	return to.Kind() == reflect.Interface && dyn.Implements(to)
}

func refLat(from, to int) lat {
	f, t := rtypes[from], rtypes[to]
	if asserts(f, t) {
		return latMust
	}
	if f.Kind() == reflect.Interface {
		if t.Kind() == reflect.Interface {
			return latMay // a dynamic type may implement both
		}
		if t.Implements(f) {
			return latMay
		}
	}
	return latMustNot
}

// dynOK: is the dynamic value assignable to the declared type. A nil interface
// value (no dynamic type) is assignable to every interface type and to nothing else.
func dynOK(v any, to int) bool {
	if v == nil {
		return isIface(to)
	}
	return asserts(reflect.TypeOf(v), rtypes[to])
}

// goAssignable: Go's (reflect's) assignability, which eino's field-mapping
// checkers use. It differs from dynOK exactly for the named/unnamed twins.
func goAssignable(v any, to int) bool {
	if v == nil {
		return isIface(to)
	}
	return reflect.TypeOf(v).AssignableTo(rtypes[to])
}

// cast is v.(O) that lets a nil interface value through when O is an interface type.
func cast[O any](v any) (O, bool) {
	if v == nil {
		var z O
		return z, reflect.TypeOf((*O)(nil)).Elem().Kind() == reflect.Interface
	}
	o, ok := v.(O)
	return o, ok
}

// ---- struct fields and map keys (workflow field mappings) ---------------------------

// fieldType: the declared type found at path `f` below a value of declared type t.
// asTarget: t is the input type of a successor (an `any` input is expanded to a
// map[string]any by the framework), otherwise the output type of a predecessor.
func fieldType(t int, f string, asTarget bool) (int, bool) {
	switch t {
	case tMap, tVars:
		return tAny, true
	case tAny:
		return tAny, asTarget
	case tT1, tPT1:
		if f == "V" {
			return tInt, true
		}
	case tT2:
		if f == "W" {
			return tString, true
		}
	}
	return -1, false
}

// takeField: the dynamic value at path f of v (ok=false: absent).
func takeField(v any, f string) (any, bool) {
	switch x := v.(type) {
	case map[string]any:
		e, ok := x[f]
		return e, ok
	case Vars:
		e, ok := x[f]
		return e, ok
	case T1:
		return x.V, f == "V"
	case *T1:
		if x == nil {
			return nil, false
		}
		return x.V, f == "V"
	case T2:
		return x.W, f == "W"
	}
	return nil, false
}

// buildFromFields: the input of declared type t the framework assembles from mapped fields.
func buildFromFields(t int, fields map[string]any) any {
	cp := func() map[string]any {
		m := map[string]any{}
		for k, v := range fields {
			m[k] = v
		}
		return m
	}
	switch t {
	case tMap, tAny:
		return cp()
	case tVars:
		return Vars(cp())
	case tT1:
		v, _ := fields["V"].(int)
		return T1{V: v}
	case tPT1:
		v, _ := fields["V"].(int)
		return &T1{V: v}
	case tT2:
		w, _ := fields["W"].(string)
		return T2{W: w}
	}
	return nil
}

// ---- dynamic values ----------------------------------------------------------

var (
	ptrT1 = &T1{V: 1}
)

func mapOf(e any) map[string]any { return map[string]any{"k": e, "a": e, "b": e, "c": e} }

// values of the universe (index = value id). Maps carry every key the generator uses.
var values = []any{
	"s",
	7,
	ptrT1,
	T1{V: 2},
	mapOf("s"),
	mapOf(7),
	T2{W: "w"},
	mapOf(T1{V: 3}),
	Vars(mapOf("s")),
	[]string{"x", "y"},
	Names{"x", "y"},
}

var valueNames = []string{"string", "int", "*T1", "T1", "map[str]", "map[int]", "T2", "map[T1]", "Vars", "[]string", "Names"}

// legalValues: ids of the values assignable to declared type t.
func legalValues(t int) []int {
	var r []int
	for i, v := range values {
		if dynOK(v, t) {
			r = append(r, i)
		}
	}
	return r
}

// canon renders a value (type + content) deterministically.
func canon(v any) string {
	switch x := v.(type) {
	case nil:
		return "<nil>"
	case map[string]any:
		ks := make([]string, 0, len(x))
		for k := range x {
			ks = append(ks, k)
		}
		sort.Strings(ks)
		var b strings.Builder
		b.WriteString("map{")
		for i, k := range ks {
			if i > 0 {
				b.WriteByte(',')
			}
			b.WriteString(k + ":" + canon(x[k]))
		}
		b.WriteByte('}')
		return b.String()
	case Vars:
		return "Vars" + canon(map[string]any(x))
	case *T1:
		if x == nil {
			return "*T1(nil)"
		}
		return fmt.Sprintf("*T1{%d}", x.V)
	default:
		return fmt.Sprintf("%T(%v)", v, v)
	}
}

func dynName(v any) string {
	if v == nil {
		return "<nil>"
	}
	return reflect.TypeOf(v).String()
}

// ---- run-time side of the generated nodes -----------------------------------

// runParams are the per-run choices (set before each run; runs are sequential).
type runParams struct {
	outVal map[string]any // node key -> dynamic value to emit (when not echoing); a present nil entry = emit a nil interface value
	hVal   map[string]any // "pre:<key>" / "post:<key>" -> value a converting state handler hands on (nil entry = nil interface value)
	choice map[int]int    // branch group -> chosen end index
}

type event struct {
	Kind string // node | cond | pre | post
	Key  string
	Dyn  string
}

// world is shared by all callbacks of one built graph.
type world struct {
	mu     sync.Mutex
	cur    *runParams
	trace  []event
	broken []string // harness self-check failures
}

func (w *world) rec(kind, key string, v any) {
	w.mu.Lock()
	w.trace = append(w.trace, event{kind, key, dynName(v)})
	w.mu.Unlock()
}

func (w *world) bug(s string) {
	w.mu.Lock()
	w.broken = append(w.broken, s)
	w.mu.Unlock()
}

type nodeRT struct {
	w    *world
	key  string
	echo bool
}

// combine the chunks a stream node received (one chunk, or several map chunks
// after a fan-in of keyed outputs).
func combineChunks(chunks []any) (any, bool) {
	if len(chunks) == 1 {
		return chunks[0], true
	}
	if len(chunks) == 0 {
		return nil, false
	}
	m := map[string]any{}
	named := true
	for _, c := range chunks {
		var cm map[string]any
		switch x := c.(type) {
		case map[string]any:
			cm, named = x, false
		case Vars:
			cm = x
		default:
			return nil, false
		}
		for k, v := range cm {
			m[k] = v
		}
	}
	if named {
		return Vars(m), true
	}
	return m, true
}

func produce[O any](n *nodeRT, in any) (O, error) {
	n.w.rec("node", n.key, in)
	if n.echo && in != nil {
		if o, ok := in.(O); ok {
			return o, nil
		}
	}
	n.w.mu.Lock()
	v, have := n.w.cur.outVal[n.key]
	n.w.mu.Unlock()
	o, ok := cast[O](v)
	if !ok || !have {
		n.w.bug(fmt.Sprintf("node %s: emitted value %s is not of the declared output type", n.key, dynName(v)))
	}
	return o, nil // node bodies never fail by themselves
}

func mkInvLambda[I, O any](n *nodeRT) *compose.Lambda {
	return compose.InvokableLambda(func(ctx context.Context, in I) (O, error) {
		return produce[O](n, any(in))
	})
}

func mkTransLambda[I, O any](n *nodeRT) *compose.Lambda {
	return compose.TransformableLambda(func(ctx context.Context, in *schema.StreamReader[I]) (*schema.StreamReader[O], error) {
		var chunks []any
		for {
			c, err := in.Recv()
			if err == io.EOF {
				break
			}
			if err != nil {
				in.Close()
				var zero *schema.StreamReader[O]
				return zero, err // an upstream (framework) error is only forwarded
			}
			chunks = append(chunks, any(c))
		}
		in.Close()
		v, ok := combineChunks(chunks)
		if !ok && len(chunks) > 0 {
			n.w.bug(fmt.Sprintf("node %s: %d chunks that cannot be combined", n.key, len(chunks)))
		}
		o, _ := produce[O](n, v)
		return schema.StreamReaderFromArray([]O{o}), nil
	})
}

type branchRT struct {
	w     *world
	key   string // source node
	group int
	ends  []string
}

func (b *branchRT) pick() string {
	b.w.mu.Lock()
	defer b.w.mu.Unlock()
	return b.ends[b.w.cur.choice[b.group]%len(b.ends)]
}

func mkBranch[T any](b *branchRT, stream bool) *compose.GraphBranch {
	ends := map[string]bool{}
	for _, e := range b.ends {
		ends[e] = true
	}
	if stream {
		return compose.NewStreamGraphBranch(streamCond[T](b), ends)
	}
	return compose.NewGraphBranch(valueCond[T](b), ends)
}

func valueCond[T any](b *branchRT) func(ctx context.Context, in T) (string, error) {
	return func(ctx context.Context, in T) (string, error) {
		b.w.rec("cond", b.key, any(in))
		return b.pick(), nil
	}
}

func streamCond[T any](b *branchRT) func(ctx context.Context, in *schema.StreamReader[T]) (string, error) {
	return func(ctx context.Context, in *schema.StreamReader[T]) (string, error) {
		defer in.Close()
		c, err := in.Recv()
		if err != nil {
			return "", err // forwarded framework error (or unexpected EOF)
		}
		b.w.rec("cond", b.key, any(c))
		return b.pick(), nil
	}
}

// mkChainBranch: the chain form of a branch; its ends are the keys under which the
// arms are added to the ChainBranch afterwards (= the node keys of the spec).
func mkChainBranch[T any](b *branchRT, stream bool) *compose.ChainBranch {
	if stream {
		return compose.NewStreamChainBranch(streamCond[T](b))
	}
	return compose.NewChainBranch(valueCond[T](b))
}

// two state types: stA is the one graphs are created with, stB only appears in
// (ill-formed) handlers.
type stA struct{ N int }
type stB struct{ N int }

// handed: what a state handler hands on. conv 0: what it received; otherwise the
// value the run parameters name for it (always a value of its declared type T, a
// nil interface value included when T is an interface type).
func handed[T any](w *world, slot string, conv int, in T) T {
	if conv == 0 {
		return in
	}
	w.mu.Lock()
	v, have := w.cur.hVal[slot]
	w.mu.Unlock()
	o, ok := cast[T](v)
	if !ok || !have {
		w.bug(fmt.Sprintf("handler %s: value %s is not of the handler's declared type", slot, dynName(v)))
	}
	return o
}

// drain reads a handler's input stream to its end; a framework error is forwarded.
func drain[T any](in *schema.StreamReader[T]) (last T, n int, err error) {
	defer in.Close()
	for {
		c, e := in.Recv()
		if e == io.EOF {
			return last, n, nil
		}
		if e != nil {
			return last, n, e
		}
		last, n = c, n+1
	}
}

func mkPre[T, S any](w *world, key string, stream bool, conv int) compose.GraphAddNodeOpt {
	if stream {
		return compose.WithStreamStatePreHandler(func(ctx context.Context, in *schema.StreamReader[T], s S) (*schema.StreamReader[T], error) {
			if conv == 0 {
				w.rec("pre", key, nil)
				return in, nil
			}
			last, _, err := drain(in)
			if err != nil {
				return nil, err
			}
			w.rec("pre", key, any(last))
			return schema.StreamReaderFromArray([]T{handed(w, "pre:"+key, conv, last)}), nil
		})
	}
	return compose.WithStatePreHandler(func(ctx context.Context, in T, s S) (T, error) {
		w.rec("pre", key, any(in))
		return handed(w, "pre:"+key, conv, in), nil
	})
}

func mkPost[T, S any](w *world, key string, stream bool, conv int) compose.GraphAddNodeOpt {
	if stream {
		return compose.WithStreamStatePostHandler(func(ctx context.Context, out *schema.StreamReader[T], s S) (*schema.StreamReader[T], error) {
			if conv == 0 {
				w.rec("post", key, nil)
				return out, nil
			}
			last, _, err := drain(out)
			if err != nil {
				return nil, err
			}
			w.rec("post", key, any(last))
			return schema.StreamReaderFromArray([]T{handed(w, "post:"+key, conv, last)}), nil
		})
	}
	return compose.WithStatePostHandler(func(ctx context.Context, out T, s S) (T, error) {
		w.rec("post", key, any(out))
		return handed(w, "post:"+key, conv, out), nil
	})
}

// ---- the three front ends -----------------------------------------------------------

const (
	feGraph = iota
	feChain
	feWorkflow
)

var frontNames = [...]string{"graph", "chain", "workflow"}

// builder is the part of *compose.Graph[I,O] the check drives.
type builder interface {
	AddLambdaNode(key string, node *compose.Lambda, opts ...compose.GraphAddNodeOpt) error
	AddPassthroughNode(key string, opts ...compose.GraphAddNodeOpt) error
	AddGraphNode(key string, node compose.AnyGraph, opts ...compose.GraphAddNodeOpt) error
	AddEdge(startNode, endNode string) error
	AddBranch(startNode string, branch *compose.GraphBranch) error
}

// chainOps is the part of *compose.Chain[I,O] the check drives (errors surface at Compile).
type chainOps interface {
	AppendLambda(node *compose.Lambda, opts ...compose.GraphAddNodeOpt)
	AppendPassthrough(opts ...compose.GraphAddNodeOpt)
	AppendGraph(node compose.AnyGraph, opts ...compose.GraphAddNodeOpt)
	AppendParallel(p *compose.Parallel)
	AppendBranch(b *compose.ChainBranch)
}

type chainAd[I, O any] struct{ c *compose.Chain[I, O] }

func (a chainAd[I, O]) AppendLambda(node *compose.Lambda, opts ...compose.GraphAddNodeOpt) {
	a.c.AppendLambda(node, opts...)
}
func (a chainAd[I, O]) AppendPassthrough(opts ...compose.GraphAddNodeOpt) {
	a.c.AppendPassthrough(opts...)
}
func (a chainAd[I, O]) AppendGraph(node compose.AnyGraph, opts ...compose.GraphAddNodeOpt) {
	a.c.AppendGraph(node, opts...)
}
func (a chainAd[I, O]) AppendParallel(p *compose.Parallel)  { a.c.AppendParallel(p) }
func (a chainAd[I, O]) AppendBranch(b *compose.ChainBranch) { a.c.AppendBranch(b) }

// wfOps is the part of *compose.Workflow[I,O] the check drives (errors surface at Compile).
type wfOps interface {
	AddLambdaNode(key string, node *compose.Lambda, opts ...compose.GraphAddNodeOpt) *compose.WorkflowNode
	AddPassthroughNode(key string, opts ...compose.GraphAddNodeOpt) *compose.WorkflowNode
	AddGraphNode(key string, node compose.AnyGraph, opts ...compose.GraphAddNodeOpt) *compose.WorkflowNode
	End() *compose.WorkflowNode
	AddBranch(from string, branch *compose.GraphBranch)
}

type wfAd[I, O any] struct{ w *compose.Workflow[I, O] }

func (a wfAd[I, O]) AddLambdaNode(key string, node *compose.Lambda, opts ...compose.GraphAddNodeOpt) *compose.WorkflowNode {
	return a.w.AddLambdaNode(key, node, opts...)
}
func (a wfAd[I, O]) AddPassthroughNode(key string, opts ...compose.GraphAddNodeOpt) *compose.WorkflowNode {
	return a.w.AddPassthroughNode(key, opts...)
}
func (a wfAd[I, O]) AddGraphNode(key string, node compose.AnyGraph, opts ...compose.GraphAddNodeOpt) *compose.WorkflowNode {
	return a.w.AddGraphNode(key, node, opts...)
}
func (a wfAd[I, O]) End() *compose.WorkflowNode { return a.w.End() }
func (a wfAd[I, O]) AddBranch(from string, branch *compose.GraphBranch) {
	a.w.AddBranch(from, branch)
}

type runFns struct {
	invoke func(ctx context.Context, in any) (any, error)
	stream func(ctx context.Context, in any) ([]any, error)
}

type gHandle struct {
	b       builder          // front end: Graph
	ch      chainOps         // front end: Chain
	wf      wfOps            // front end: Workflow
	any     compose.AnyGraph // the same object, to be nested into another graph
	compile func(ctx context.Context, opts ...compose.GraphCompileOption) (*runFns, error)
}

func wrapRunnable[I, O any](r compose.Runnable[I, O]) *runFns {
	conv := func(in any) I {
		var i I
		if in != nil {
			i = in.(I)
		}
		return i
	}
	return &runFns{
		invoke: func(ctx context.Context, in any) (any, error) {
			o, err := r.Invoke(ctx, conv(in))
			if err != nil {
				return nil, err
			}
			return any(o), nil
		},
		stream: func(ctx context.Context, in any) ([]any, error) {
			sr, err := r.Stream(ctx, conv(in))
			if err != nil {
				return nil, err
			}
			defer sr.Close()
			var out []any
			for {
				c, err := sr.Recv()
				if err == io.EOF {
					return out, nil
				}
				if err != nil {
					return nil, err
				}
				out = append(out, any(c))
			}
		},
	}
}

func mkFront[I, O any](front int, withState bool) *gHandle {
	var nopts []compose.NewGraphOption
	if withState {
		nopts = append(nopts, compose.WithGenLocalState(func(ctx context.Context) *stA { return &stA{} }))
	}
	h := &gHandle{}
	var compile func(ctx context.Context, opts ...compose.GraphCompileOption) (compose.Runnable[I, O], error)
	switch front {
	case feChain:
		c := compose.NewChain[I, O](nopts...)
		h.ch, h.any, compile = chainAd[I, O]{c}, c, c.Compile
	case feWorkflow:
		w := compose.NewWorkflow[I, O](nopts...)
		h.wf, h.any, compile = wfAd[I, O]{w}, w, w.Compile
	default:
		g := compose.NewGraph[I, O](nopts...)
		h.b, h.any, compile = g, g, g.Compile
	}
	h.compile = func(ctx context.Context, opts ...compose.GraphCompileOption) (*runFns, error) {
		r, err := compile(ctx, opts...)
		if err != nil {
			return nil, err
		}
		return wrapRunnable(r), nil
	}
	return h
}

// ---- static instantiation tables --------------------------------------------

type typeMakers struct {
	branch      func(b *branchRT, stream bool) *compose.GraphBranch
	chainBranch func(b *branchRT, stream bool) *compose.ChainBranch
	pre         [2]func(w *world, key string, stream bool, conv int) compose.GraphAddNodeOpt // by state type
	post        [2]func(w *world, key string, stream bool, conv int) compose.GraphAddNodeOpt
}

type pairMakers struct {
	inv   func(n *nodeRT) *compose.Lambda
	trans func(n *nodeRT) *compose.Lambda
	front func(front int, withState bool) *gHandle
}

var (
	perType [nTypes]typeMakers
	perPair [nTypes][nTypes]pairMakers
)

func regPair[I, O any](i, o int) {
	perPair[i][o] = pairMakers{inv: mkInvLambda[I, O], trans: mkTransLambda[I, O], front: mkFront[I, O]}
}

func regType[T any](t int) {
	perType[t] = typeMakers{
		branch:      mkBranch[T],
		chainBranch: mkChainBranch[T],
		pre:         [2]func(*world, string, bool, int) compose.GraphAddNodeOpt{mkPre[T, *stA], mkPre[T, *stB]},
		post:        [2]func(*world, string, bool, int) compose.GraphAddNodeOpt{mkPost[T, *stA], mkPost[T, *stB]},
	}
	regPair[T, string](t, tString)
	regPair[T, int](t, tInt)
	regPair[T, *T1](t, tPT1)
	regPair[T, T1](t, tT1)
	regPair[T, map[string]any](t, tMap)
	regPair[T, any](t, tAny)
	regPair[T, I1](t, tI1)
	regPair[T, T2](t, tT2)
	regPair[T, I2](t, tI2)
	regPair[T, Vars](t, tVars)
	regPair[T, []string](t, tStrs)
	regPair[T, Names](t, tNames)
}

func init() {
	regType[string](tString)
	regType[int](tInt)
	regType[*T1](tPT1)
	regType[T1](tT1)
	regType[map[string]any](tMap)
	regType[any](tAny)
	regType[I1](tI1)
	regType[T2](tT2)
	regType[I2](tI2)
	regType[Vars](tVars)
	regType[[]string](tStrs)
	regType[Names](tNames)
}

// ---- error inspection --------------------------------------------------------

var errType = reflect.TypeOf((*error)(nil)).Elem()

// recoveredPanic reports whether err carries a panic that eino recovered on a
// node goroutine (internal/safe.panicErr). Decided on the TYPE of the errors in
// the chain, never on message text. eino's internalError has no Unwrap, so
// struct fields of type error are followed structurally as well.
func recoveredPanic(err error) bool {
	seen := 0
	var walk func(e error) bool
	walk = func(e error) bool {
		if e == nil || seen > 64 {
			return false
		}
		seen++
		if reflect.TypeOf(e).String() == "*safe.panicErr" {
			return true
		}
		if u, ok := e.(interface{ Unwrap() error }); ok {
			if walk(u.Unwrap()) {
				return true
			}
		}
		if u, ok := e.(interface{ Unwrap() []error }); ok {
			for _, x := range u.Unwrap() {
				if walk(x) {
					return true
				}
			}
		}
		v := reflect.ValueOf(e)
		if v.Kind() == reflect.Ptr && !v.IsNil() && v.Elem().Kind() == reflect.Struct {
			s := v.Elem()
			for i := 0; i < s.NumField(); i++ {
				f := s.Field(i)
				if f.Type() != errType || f.IsNil() {
					continue
				}
				inner := *(*error)(unsafe.Pointer(f.UnsafeAddr()))
				if walk(inner) {
					return true
				}
			}
		}
		return false
	}
	return walk(err)
}

var errHarness = errors.New("harness")
