package c07

// The independent reference: (1) a static, insertion-order independent typing of
// a construction in which pass-through nodes without keys are transparent (every
// typed producer that reaches a typed consumer through a chain of pass-through
// nodes is checked against it with the reference lattice); (2) a simulation of one
// run that predicts, sink by sink, whether the dynamic value is assignable. Both
// are the same for the three front ends (Graph, Chain, Workflow): a chain is a
// graph built in a fixed order, a workflow connection is an edge that may carry a
// field mapping, a workflow branch hands its source's value to the chosen end
// through the data connection the end declares.

import (
	"fmt"
	"reflect"
	"sort"
)

// ---- static reference ---------------------------------------------------------

type conn struct {
	Kind    string `json:"kind"` // node-input | branch-cond | graph-output | pre-handler | post-handler | handler-state | field-mapping | field-path
	At      string `json:"at"`
	From    int    `json:"from"`
	To      int    `json:"to"`
	Lat     lat    `json:"lat"`
	ViaPass bool   `json:"via_pass,omitempty"`
}

type staticRef struct {
	MustNot   []conn           // connections no value can cross
	May       int              // number of may-connections (run-time check expected)
	PassCands map[string][]int // passthrough key -> types of every typed neighbour of its component
	PassIn    map[string][]int // passthrough key -> the types that ENTER its component (typed producers, START)
}

func (s *Spec) targetInPort(t string) int {
	if t == END {
		return s.GO
	}
	return s.node(t).inPort()
}

// sinksOf: typed consumers reached from the output of node u, looking through
// transparent pass-through nodes. viaPass tells whether one was crossed.
// from = the declared type that leaves u (needed where a field mapping takes a part of it).
func (s *Spec) sinksOf(u string, from int, viaPass bool, seen map[string]bool, f func(kind, at string, from, to int, viaPass bool)) {
	for ci := range s.Calls {
		c := &s.Calls[ci]
		if c.From != u {
			continue
		}
		if c.Branch {
			f("branch-cond", u, from, c.Cond, viaPass)
		}
		for i, t := range c.To {
			if m := c.mapping(i); !m.empty() {
				// a field mapping: the part taken from the source against the part of the target it is put into
				ft, tt := from, s.targetInPort(t)
				ok1, ok2 := true, true
				if m.From != "" {
					ft, ok1 = fieldType(from, m.From, false)
				}
				if m.To != "" {
					tt, ok2 = fieldType(tt, m.To, true)
				}
				if !ok1 || !ok2 {
					f("field-path", t, -1, -1, viaPass)
				} else if m.To != "" {
					f("field-mapping", t, ft, tt, viaPass)
				} else {
					f("node-input", t, ft, tt, viaPass)
				}
				continue
			}
			if t == END {
				f("graph-output", END, from, s.GO, viaPass)
				continue
			}
			n := s.node(t)
			if n.Kind != kPass {
				f("node-input", t, from, n.inPort(), viaPass)
				continue
			}
			// a pass-through node
			if n.InKey != "" {
				f("node-input", t, from, tMap, viaPass)
			}
			if n.Pre >= 0 {
				f("pre-handler", t, from, n.Pre, true)
			}
			if !n.transparent() {
				continue // it is a producer of its own (a map, or a map element)
			}
			if n.Post >= 0 {
				f("post-handler", t, from, n.Post, true)
			}
			if !seen[t] {
				seen[t] = true
				s.sinksOf(t, from, true, seen, f)
			}
		}
	}
}

func refStatic(s *Spec) *staticRef {
	r := &staticRef{PassCands: map[string][]int{}, PassIn: map[string][]int{}}
	add := func(kind, at string, from, to int, via bool) {
		if kind == "field-path" {
			r.MustNot = append(r.MustNot, conn{kind, at, -1, -1, latMustNot, via})
			return
		}
		l := refLat(from, to)
		switch l {
		case latMustNot:
			r.MustNot = append(r.MustNot, conn{kind, at, from, to, l, via})
		case latMay:
			r.May++
		}
	}
	s.sinksOf(START, s.GI, false, map[string]bool{}, add)
	for i := range s.Nodes {
		n := &s.Nodes[i]
		if n.transparent() {
			continue
		}
		s.sinksOf(n.Key, n.producerType(), false, map[string]bool{}, add)
		// handlers sit on the node's own declared ports
		if n.Pre >= 0 && n.inPort() >= 0 && n.Pre != n.inPort() {
			r.MustNot = append(r.MustNot, conn{"pre-handler", n.Key, n.inPort(), n.Pre, refLat(n.inPort(), n.Pre), false})
		}
		if n.Post >= 0 && n.outPort() >= 0 && n.Post != n.outPort() {
			r.MustNot = append(r.MustNot, conn{"post-handler", n.Key, n.outPort(), n.Post, refLat(n.outPort(), n.Post), false})
		}
	}
	for i := range s.Nodes {
		n := &s.Nodes[i]
		if (n.Pre >= 0 && (n.PreState == 1 || !s.State)) || (n.Post >= 0 && (n.PostState == 1 || !s.State)) {
			r.MustNot = append(r.MustNot, conn{"handler-state", n.Key, -1, -1, latMustNot, false})
		}
	}
	// candidate types of the (inner) type of pass-through nodes: the types of the typed
	// neighbours of the node's component. Two connected pass-through nodes belong to one
	// component unless a key sits in between (a keyed side has the declared type map).
	linked := func(a, b *Node) bool {
		return a != nil && b != nil && a.Kind == kPass && b.Kind == kPass && a.OutKey == "" && b.InKey == ""
	}
	for i := range s.Nodes {
		p := &s.Nodes[i]
		if p.Kind != kPass {
			continue
		}
		set := map[int]bool{}
		entering := map[int]bool{}
		comp := map[string]bool{p.Key: true}
		for changed := true; changed; {
			changed = false
			for _, c := range s.Calls {
				for _, t := range c.To {
					a, b := s.node(c.From), s.node(t)
					if !linked(a, b) {
						continue
					}
					if comp[a.Key] != comp[b.Key] {
						comp[a.Key], comp[b.Key] = true, true
						changed = true
					}
				}
			}
		}
		for _, c := range s.Calls {
			a := s.node(c.From)
			if comp[c.From] && c.Branch && a.OutKey == "" {
				set[c.Cond] = true
			}
			for _, t := range c.To {
				b := s.node(t)
				if comp[c.From] && a.OutKey == "" && !(comp[t] && linked(a, b)) {
					// what leaves the component here
					if t == END {
						set[s.GO] = true
					} else if b.inPort() >= 0 {
						set[b.inPort()] = true
					}
				}
				if comp[t] && b.InKey == "" && !(comp[c.From] && linked(a, b)) {
					// what enters the component here
					if c.From == START {
						set[s.GI], entering[s.GI] = true, true
					} else if pt := a.producerType(); pt >= 0 {
						set[pt], entering[pt] = true, true
					}
				}
			}
		}
		var l []int
		for t := range set {
			l = append(l, t)
		}
		sort.Ints(l)
		r.PassCands[p.Key] = l
		var li []int
		for t := range entering {
			li = append(li, t)
		}
		sort.Ints(li)
		r.PassIn[p.Key] = li
	}
	return r
}

// launders: eino reports the interface type t for the pass-through node k, but no value of an
// interface type ever enters the node's component: every producer that feeds it is concretely typed,
// t is only the input type of a successor (or of a branch condition) that happened to be connected
// first. Treating t as the node's declared type would turn every connection producer ⇒ consumer
// through the node into "interface upstream, checked at run time" - also those whose two declared
// types are both concrete and can never fit. The property says such connections are rejected "also
// when the types are only inferred through pass-through nodes": for the reference the node stays
// transparent.
func (r *staticRef) launders(k string, t int) bool {
	if t < 0 || !isIface(t) || len(r.PassIn[k]) == 0 {
		return false
	}
	for _, e := range r.PassIn[k] {
		if e == t || isIface(e) {
			return false
		}
	}
	return true
}

// concreteMustNot: connections between two typed ends whose upstream type is
// not an interface and that no value can cross: the construction must be
// rejected (the part of the property about concretely typed connections).
func (r *staticRef) concreteMustNot() []conn {
	var out []conn
	for _, c := range r.MustNot {
		if c.Kind == "handler-state" || c.Kind == "field-path" || !isIface(c.From) {
			out = append(out, c)
		}
	}
	return out
}

// ---- simulation of one run -----------------------------------------------------

type flow struct {
	val      any
	st       int    // static type: of the last typed producer, or the inferred type of the last typed pass-through
	via      bool   // crossed a pass-through since the last typed producer
	multi    bool   // in Stream mode this value arrives as several chunks (fan-in of keyed outputs / mapped fields)
	to       string // arrives through a field mapping into this field of the target's input ("" = as the whole input)
	lenient  bool   // taken by a field mapping: eino checks it with Go's assignability, not with a type assertion
	dataOnly bool   // workflow: the data connection from a branch's source to an end the branch did not choose
}

type simFail struct {
	Kind    string `json:"kind"` // node-input | passthrough-input | branch-cond | pre-handler | post-handler | handler-output | input-key-element | field-mapping | field-path | graph-output | handler-state
	At      string `json:"at"`
	OnPass  bool   `json:"on_pass,omitempty"`  // the sink sits on a pass-through node (branch / handler)
	ViaPass bool   `json:"via_pass,omitempty"` // the value crossed a pass-through on its way
	From    string `json:"from"`
	To      string `json:"to"`
	Lat     string `json:"lat"`
	Dyn     string `json:"dyn"`
	static  bool   // upstream not an interface: statically decidable
}

type simResult struct {
	Unjudged       string
	UnjudgedStream string // only the Stream run cannot be judged (needs a concat of non-map chunks)
	Skip           string // the run is not made at all (a nil value would be the graph's final output)
	Fails          []simFail
	Soft           []simFail // mismatches at data connections towards workflow branch ends that were not chosen: an ordinary error and success are both acceptable
	Out            any
	Reached        bool
	Exec           []string // typed + pass-through nodes expected to execute (sorted)
	NilSeen        bool     // a nil interface value reached some sink
}

type simulator struct {
	s     *Spec
	p     *runParams
	ptype map[string]int // declared (= inferred, as reported by eino) inner types of pass-through nodes; missing: unknown
	res   *simResult
	arr   map[string][]flow
}

func (m *simulator) check(f flow, to int, kind, at string, onPass bool) bool {
	if f.val == nil {
		m.res.NilSeen = true
	}
	if dynOK(f.val, to) {
		return true
	}
	if f.lenient {
		// eino's field-mapping checker: reflect's AssignableTo (twins pass), a nil value passes for every nillable kind
		nillable := false
		switch rtypes[to].Kind() {
		case reflect.Map, reflect.Slice, reflect.Ptr:
			nillable = true
		}
		if (f.val == nil && nillable) || (f.val != nil && goAssignable(f.val, to)) {
			if m.res.Unjudged == "" {
				m.res.Unjudged = fmt.Sprintf("a %s value taken by a field mapping for a %s at %s %s: outside the type-assertion lattice", dynName(f.val), typeNames[to], kind, at)
			}
			return false
		}
	}
	l := refLat(f.st, to)
	if l == latMust {
		m.res.Unjudged = fmt.Sprintf("simulator inconsistent: %s value for static %s at %s %s", dynName(f.val), typeNames[f.st], kind, at)
		return false
	}
	m.res.Fails = append(m.res.Fails, simFail{Kind: kind, At: at, OnPass: onPass, ViaPass: f.via,
		From: typeNames[f.st], To: typeNames[to], Lat: l.String(), Dyn: dynName(f.val), static: !isIface(f.st)})
	return false
}

func (m *simulator) badPath(at, what string) {
	m.res.Fails = append(m.res.Fails, simFail{Kind: "field-path", At: at, From: what, static: true})
}

// needConcat: a consumer that reads its input as ONE value of declared type t.
func (m *simulator) needConcat(f flow, t int, what string) {
	if f.multi && t != tMap && m.res.UnjudgedStream == "" {
		m.res.UnjudgedStream = "several chunks must be concatenated as " + typeNames[t] + " at " + what
	}
}

func (m *simulator) emit(u string, f flow, onPass bool) {
	// every branch on u evaluates its condition on the value first
	for _, c := range m.s.Calls {
		if c.From == u && c.Branch {
			if !c.StreamCond {
				m.needConcat(f, c.Cond, "branch of "+u)
			}
			if !m.check(f, c.Cond, "branch-cond", u, onPass) {
				return
			}
		}
	}
	sent := map[string]bool{}
	for ci := range m.s.Calls {
		c := &m.s.Calls[ci]
		if c.From != u {
			continue
		}
		chosen := 0
		if c.Branch {
			chosen = m.p.choice[c.Group] % len(c.To)
		}
		for ti, t := range c.To {
			if ti != chosen && !(c.Branch && m.s.Front == feWorkflow) {
				continue
			}
			if sent[t] {
				continue
			}
			sent[t] = true
			g, ok := m.across(c, ti, f, u)
			if !ok {
				continue
			}
			// a workflow branch only selects who runs: the data connection from its source to
			// an end that was NOT chosen exists all the same (dataOnly: it does not make the end run)
			g.dataOnly = ti != chosen
			m.arr[t] = append(m.arr[t], g)
		}
	}
}

// active: does any of the arrivals make the node run? If not, the data connections
// into it are still there: in value form eino checks the values on them (and fails
// the run), in stream form nobody reads the checked streams: both outcomes are
// accepted (Soft), a panic is not.
func (m *simulator) active(t string, fl []flow) bool {
	for _, f := range fl {
		if !f.dataOnly {
			return true
		}
	}
	n0 := len(m.res.Fails)
	for _, f := range fl {
		m.dryArrive(t, f)
	}
	m.res.Soft = append(m.res.Soft, m.res.Fails[n0:]...)
	m.res.Fails = m.res.Fails[:n0]
	return false
}

// across: what travels over the data connection From→To[ti] of call c when f leaves u
// (a field mapping takes a part of it and/or names the field of the target it goes to).
func (m *simulator) across(c *Call, ti int, f flow, u string) (flow, bool) {
	g := f
	mp := c.mapping(ti)
	if mp.empty() {
		return g, true
	}
	t := c.To[ti]
	if mp.From != "" {
		ft, ok := fieldType(f.st, mp.From, false)
		if !ok {
			m.badPath(t, fmt.Sprintf("%s has no field %q", typeNames[f.st], mp.From))
			return g, false
		}
		v, have := takeField(f.val, mp.From)
		if !have {
			if m.res.Unjudged == "" {
				m.res.Unjudged = fmt.Sprintf("mapped key %q missing in the value of %s", mp.From, u)
			}
			return g, false
		}
		g = flow{val: v, st: ft}
	}
	g.to = mp.To
	g.lenient = true
	return g, true
}

// portOf: the declared type a value arriving at t as a whole is checked against (-1: none).
func (m *simulator) portOf(t string) (int, string) {
	if t == END {
		return m.s.GO, "graph-output"
	}
	n := m.s.node(t)
	if p := n.inPort(); p >= 0 {
		return p, "node-input"
	}
	if pt, ok := m.ptype[t]; ok && pt >= 0 {
		return pt, "passthrough-input"
	}
	return -1, "passthrough-input"
}

// dryArrive: the checks on the connection into t, without t running.
func (m *simulator) dryArrive(t string, g flow) {
	port, kind := m.portOf(t)
	if g.to != "" {
		tin := m.s.targetInPort(t)
		tt, ok := fieldType(tin, g.to, true)
		if !ok {
			m.badPath(t, fmt.Sprintf("%s has no field %q", typeNames[tin], g.to))
			return
		}
		m.check(g, tt, "field-mapping", t, false)
		return
	}
	if port >= 0 {
		m.check(g, port, kind, t, false)
	}
}

func mergeFlows(fl []flow) (flow, bool) {
	if len(fl) == 1 {
		return fl[0], true
	}
	mm := map[string]any{}
	for _, f := range fl {
		x, ok := f.val.(map[string]any)
		if !ok {
			return flow{}, false
		}
		for k, v := range x {
			if _, dup := mm[k]; dup {
				return flow{}, false
			}
			mm[k] = v
		}
	}
	return flow{val: mm, st: tMap, via: false, multi: true}, true
}

// assemble: the input of a node (or END) of declared type inPort fed by field
// mappings: every mapped value is checked against the field it is put into.
func (m *simulator) assemble(fl []flow, inPort int, at string) (flow, bool) {
	fields := map[string]any{}
	for _, f := range fl {
		if f.to == "" {
			m.res.Unjudged = "whole value and mapped fields meet at " + at
			return flow{}, false
		}
		tt, ok := fieldType(inPort, f.to, true)
		if !ok {
			m.badPath(at, fmt.Sprintf("%s has no field %q", typeNames[inPort], f.to))
			return flow{}, false
		}
		if !m.check(f, tt, "field-mapping", at, false) {
			return flow{}, false
		}
		if _, dup := fields[f.to]; dup {
			m.res.Unjudged = "two values for one mapped field at " + at
			return flow{}, false
		}
		fields[f.to] = f.val
	}
	return flow{val: buildFromFields(inPort, fields), st: inPort, multi: len(fl) > 1}, true
}

func anyMapped(fl []flow) bool {
	for _, f := range fl {
		if f.to != "" {
			return true
		}
	}
	return false
}

func (m *simulator) handlerState(n *Node, pre bool) bool {
	bad := !m.s.State
	if pre && n.PreState == 1 || !pre && n.PostState == 1 {
		bad = true
	}
	if bad {
		m.res.Fails = append(m.res.Fails, simFail{Kind: "handler-state", At: n.Key, OnPass: n.Kind == kPass, static: true})
	}
	return !bad
}

// handler runs a state handler declared on type ht over f: the value must fit the
// handler's type; what the handler hands on (its own declared type travels with
// it) must fit the port the handler sits on (port < 0: no declared type there).
func (m *simulator) handler(n *Node, pre bool, f flow, port int) (flow, bool) {
	ht, stream, conv, kind, slot := n.Pre, n.PreStream, n.PreConv, "pre-handler", "pre:"+n.Key
	if !pre {
		ht, stream, conv, kind, slot = n.Post, n.PostStream, n.PostConv, "post-handler", "post:"+n.Key
	}
	onPass := n.Kind == kPass
	if !m.handlerState(n, pre) {
		return f, false
	}
	if !stream || conv > 0 {
		if !stream {
			m.needConcat(f, ht, kind+" of "+n.Key)
		}
		f.multi = false
	}
	if !m.check(f, ht, kind, n.Key, onPass) {
		return f, false
	}
	if conv > 0 {
		f.val = m.p.hVal[slot]
	}
	if port >= 0 {
		if !m.check(flow{val: f.val, st: ht, via: f.via}, port, "handler-output", n.Key, onPass) {
			return f, false
		}
		f.st = port
	} else if conv > 0 || !isIface(ht) {
		f.st = ht
	}
	return f, true
}

func simulate(s *Spec, p *runParams, input any, ptype map[string]int) *simResult {
	m := &simulator{s: s, p: p, ptype: ptype, res: &simResult{}, arr: map[string][]flow{}}
	res := m.res
	m.emit(START, flow{val: input, st: s.GI}, false)
	for i := range s.Nodes {
		n := &s.Nodes[i]
		fl := m.arr[n.Key]
		if len(fl) == 0 {
			continue
		}
		if res.Unjudged != "" {
			return res
		}
		if !m.active(n.Key, fl) {
			continue
		}
		pass := n.Kind == kPass
		// the declared type of the node's inside: a lambda's input type, the (inferred,
		// reported) type of a pass-through node or -1
		inner := n.In
		if pass {
			inner = -1
			if pt, ok := ptype[n.Key]; ok && pt >= 0 {
				inner = pt
			}
		}
		portIn, portOut := n.inPort(), n.outPort()
		if pass && portIn < 0 {
			portIn = inner
		}
		if pass && portOut < 0 {
			portOut = inner
		}
		var f flow
		if anyMapped(fl) {
			if pass {
				res.Unjudged = "field mapping into a pass-through node " + n.Key
				return res
			}
			var ok bool
			if f, ok = m.assemble(fl, portIn, n.Key); !ok {
				if res.Unjudged != "" {
					return res
				}
				continue
			}
		} else {
			// every incoming connection is checked against the input port
			okAll := true
			for _, x := range fl {
				kind := "node-input"
				if pass && n.InKey == "" {
					kind = "passthrough-input"
				}
				if portIn >= 0 && !m.check(x, portIn, kind, n.Key, false) {
					okAll = false
					break
				}
			}
			if !okAll {
				if res.Unjudged != "" {
					return res
				}
				continue
			}
			var ok bool
			if f, ok = mergeFlows(fl); !ok {
				res.Unjudged = "fan-in of values that cannot merge at " + n.Key
				return res
			}
		}
		if pass {
			f.via = true
			if portIn >= 0 {
				f.st = portIn
			}
			res.Exec = append(res.Exec, n.Key)
		} else {
			f.st, f.via = portIn, false
		}
		if n.Pre >= 0 {
			var ok bool
			if f, ok = m.handler(n, true, f, portIn); !ok {
				if res.Unjudged != "" {
					return res
				}
				continue
			}
		}
		if n.Kind == kInv || n.Kind == kSub {
			m.needConcat(f, portIn, "invokable node "+n.Key)
		}
		if n.InKey != "" {
			mm, isMap := f.val.(map[string]any)
			if !isMap {
				res.Unjudged = "simulator inconsistent: input key on a non-map value at " + n.Key
				return res
			}
			e, ok := mm[n.InKey]
			if !ok {
				res.Unjudged = "input key missing at " + n.Key
				return res
			}
			f = flow{val: e, st: tAny, via: f.via}
			if inner >= 0 {
				if !m.check(f, inner, "input-key-element", n.Key, false) {
					if res.Unjudged != "" {
						return res
					}
					continue
				}
				f.st = inner
			}
		}
		var of flow
		if pass {
			of = f
		} else {
			res.Exec = append(res.Exec, n.Key)
			var out any
			if n.Echo && f.val != nil && dynOK(f.val, n.Out) {
				out = f.val
			} else {
				out = p.outVal[n.Key]
			}
			of = flow{val: out, st: n.Out}
		}
		if n.OutKey != "" {
			if of.multi && res.UnjudgedStream == "" {
				res.UnjudgedStream = "several chunks are wrapped under one output key at " + n.Key
			}
			of = flow{val: map[string]any{n.OutKey: of.val}, st: tMap}
		}
		if n.Post >= 0 {
			var ok bool
			if of, ok = m.handler(n, false, of, portOut); !ok {
				if res.Unjudged != "" {
					return res
				}
				continue
			}
		}
		m.emit(n.Key, of, pass)
	}
	if res.Unjudged != "" {
		return res
	}
	fl := m.arr[END]
	for _, x := range fl {
		if x.val == nil {
			// the engine reads a nil final output as "no result yet": outside the property
			res.Skip = "a nil value would be delivered to END as the final output"
		}
	}
	if len(fl) > 0 && m.active(END, fl) {
		var f flow
		ok := true
		if anyMapped(fl) {
			f, ok = m.assemble(fl, s.GO, END)
		} else {
			for _, x := range fl {
				if !m.check(x, s.GO, "graph-output", END, false) {
					ok = false
					break
				}
			}
			if ok {
				if f, ok = mergeFlows(fl); !ok {
					res.Unjudged = "fan-in of values that cannot merge at END"
					return res
				}
			}
		}
		if res.Unjudged != "" {
			return res
		}
		if ok {
			res.Out, res.Reached = f.val, true
		}
	}
	if !res.Reached && len(res.Fails) == 0 && res.Unjudged == "" {
		res.Unjudged = "END not reached in the simulation"
	}
	sort.Strings(res.Exec)
	return res
}
