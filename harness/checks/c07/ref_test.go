package c07

// The independent reference: (1) a static, insertion-order independent typing of
// a construction in which pass-through nodes are transparent (every typed
// producer that reaches a typed consumer through a chain of pass-through nodes is
// checked against it with the reference lattice); (2) a simulation of one run that
// predicts, sink by sink, whether the dynamic value is assignable.

import (
	"fmt"
	"sort"
)

// ---- static reference ---------------------------------------------------------

type conn struct {
	Kind    string `json:"kind"` // node-input | branch-cond | graph-output | pre-handler | post-handler | handler-state
	At      string `json:"at"`
	From    int    `json:"from"`
	To      int    `json:"to"`
	Lat     lat    `json:"lat"`
	ViaPass bool   `json:"via_pass,omitempty"`
}

type staticRef struct {
	MustNot   []conn           // connections no value can cross
	May       int              // number of may-connections (run-time check expected)
	PassCands map[string][]int // passthrough key -> types of every typed neighbour of its component
}

// sinksOf: typed consumers reached from the output of node u, looking through
// pass-through nodes. viaPass tells whether a pass-through was crossed.
func (s *Spec) sinksOf(u string, viaPass bool, seen map[string]bool, f func(kind, at string, to int, viaPass bool)) {
	for _, c := range s.Calls {
		if c.From != u {
			continue
		}
		if c.Branch {
			f("branch-cond", u, c.Cond, viaPass)
		}
		for _, t := range c.To {
			if t == END {
				f("graph-output", END, s.GO, viaPass)
				continue
			}
			n := s.node(t)
			if n.Kind != kPass {
				f("node-input", t, n.inPort(), viaPass)
				continue
			}
			if n.Pre >= 0 {
				f("pre-handler", t, n.Pre, true)
			}
			if n.Post >= 0 {
				f("post-handler", t, n.Post, true)
			}
			if !seen[t] {
				seen[t] = true
				s.sinksOf(t, true, seen, f)
			}
		}
	}
}

func refStatic(s *Spec) *staticRef {
	r := &staticRef{PassCands: map[string][]int{}}
	add := func(from int) func(kind, at string, to int, via bool) {
		return func(kind, at string, to int, via bool) {
			l := refLat(from, to)
			switch l {
			case latMustNot:
				r.MustNot = append(r.MustNot, conn{kind, at, from, to, l, via})
			case latMay:
				r.May++
			}
		}
	}
	s.sinksOf(START, false, map[string]bool{}, add(s.GI))
	for i := range s.Nodes {
		n := &s.Nodes[i]
		if n.Kind == kPass {
			continue
		}
		s.sinksOf(n.Key, false, map[string]bool{}, add(n.outPort()))
		// handlers of a typed node sit on its own ports
		if n.Pre >= 0 {
			if n.Pre != n.inPort() {
				r.MustNot = append(r.MustNot, conn{"pre-handler", n.Key, n.inPort(), n.Pre, refLat(n.inPort(), n.Pre), false})
			}
		}
		if n.Post >= 0 {
			if n.Post != n.outPort() {
				r.MustNot = append(r.MustNot, conn{"post-handler", n.Key, n.outPort(), n.Post, refLat(n.outPort(), n.Post), false})
			}
		}
	}
	for i := range s.Nodes {
		n := &s.Nodes[i]
		if (n.Pre >= 0 && (n.PreState == 1 || !s.State)) || (n.Post >= 0 && (n.PostState == 1 || !s.State)) {
			r.MustNot = append(r.MustNot, conn{"handler-state", n.Key, -1, -1, latMustNot, false})
		}
	}
	// candidate types of pass-through components
	for i := range s.Nodes {
		p := &s.Nodes[i]
		if p.Kind != kPass {
			continue
		}
		set := map[int]bool{}
		// component of p (undirected over pass-through/pass-through connections)
		comp := map[string]bool{p.Key: true}
		for changed := true; changed; {
			changed = false
			for _, c := range s.Calls {
				for _, t := range c.To {
					a, b := s.node(c.From), s.node(t)
					if a == nil || b == nil || a.Kind != kPass || b.Kind != kPass {
						continue
					}
					if comp[a.Key] != comp[b.Key] {
						comp[a.Key], comp[b.Key] = true, true
						changed = true
					}
				}
			}
		}
		for _, c := range s.Calls {
			if comp[c.From] && c.Branch {
				set[c.Cond] = true
			}
			for _, t := range c.To {
				if comp[c.From] && !comp[t] {
					if t == END {
						set[s.GO] = true
					} else if n := s.node(t); n.Kind != kPass {
						set[n.inPort()] = true
					}
				}
				if comp[t] && !comp[c.From] {
					if c.From == START {
						set[s.GI] = true
					} else if n := s.node(c.From); n.Kind != kPass {
						set[n.outPort()] = true
					}
				}
			}
		}
		var l []int
		for t := range set {
			l = append(l, t)
		}
		sort.Ints(l)
		r.PassCands[p.Key] = l
	}
	return r
}

// staticConcreteMismatch: a connection between two typed ends whose upstream
// type is not an interface and that no value can cross: the construction must
// be rejected (the part of the property about concretely typed connections).
func (r *staticRef) concreteMustNot() []conn {
	var out []conn
	for _, c := range r.MustNot {
		if c.Kind == "handler-state" || !isIface(c.From) {
			out = append(out, c)
		}
	}
	return out
}

// ---- simulation of one run -----------------------------------------------------

type flow struct {
	val   any
	st    int  // static type: of the last typed producer, or the inferred type of the last typed pass-through
	via   bool // crossed a pass-through since the last typed producer
	multi bool // in Stream mode this value arrives as several chunks (fan-in of keyed outputs)
}

type simFail struct {
	Kind    string `json:"kind"` // node-input | passthrough-input | branch-cond | pre-handler | post-handler | input-key-element | graph-output | handler-state
	At      string `json:"at"`
	OnPass  bool   `json:"on_pass,omitempty"`  // the sink sits on a pass-through node (branch / handler)
	ViaPass bool   `json:"via_pass,omitempty"` // the value crossed a pass-through on its way
	From    string `json:"from"`
	To      string `json:"to"`
	Lat     string `json:"lat"`
	Dyn     string `json:"dyn"`
	static  bool   // upstream not an interface: statically decidable
}

type simResult struct {
	Unjudged       string
	UnjudgedStream string // only the Stream run cannot be judged (needs a concat of non-map chunks)
	Fails          []simFail
	Out            any
	Reached        bool
	Exec           []string // typed + pass-through nodes expected to execute (sorted)
}

type simulator struct {
	s     *Spec
	p     *runParams
	ptype map[string]int // declared (= inferred, as reported by eino) types of pass-through nodes; missing: transparent
	res   *simResult
	arr   map[string][]flow
}

func (m *simulator) check(f flow, to int, kind, at string, onPass bool) bool {
	if dynOK(f.val, to) {
		return true
	}
	l := refLat(f.st, to)
	if l == latMust {
		m.res.Unjudged = fmt.Sprintf("simulator inconsistent: %s value for static %s at %s %s", dynName(f.val), typeNames[f.st], kind, at)
		return false
	}
	m.res.Fails = append(m.res.Fails, simFail{Kind: kind, At: at, OnPass: onPass, ViaPass: f.via,
		From: typeNames[f.st], To: typeNames[to], Lat: l.String(), Dyn: dynName(f.val), static: !isIface(f.st)})
	return false
}

// needConcat: a consumer that reads its input as ONE value of declared type t.
func (m *simulator) needConcat(f flow, t int, what string) {
	if f.multi && t != tMap && m.res.UnjudgedStream == "" {
		m.res.UnjudgedStream = "several chunks must be concatenated as " + typeNames[t] + " at " + what
	}
}

func (m *simulator) emit(u string, f flow, onPass bool) {
	// every branch on u evaluates its condition on the value first
	for _, c := range m.s.Calls {
		if c.From == u && c.Branch {
			if !c.StreamCond {
				m.needConcat(f, c.Cond, "branch of "+u)
			}
			if !m.check(f, c.Cond, "branch-cond", u, onPass) {
				return
			}
		}
	}
	sent := map[string]bool{}
	for _, c := range m.s.Calls {
		if c.From != u {
			continue
		}
		t := c.To[0]
		if c.Branch {
			t = c.To[m.p.choice[c.Group]%len(c.To)]
		}
		if sent[t] {
			continue
		}
		sent[t] = true
		m.arr[t] = append(m.arr[t], f)
	}
}

func mergeFlows(fl []flow) (flow, bool) {
	if len(fl) == 1 {
		return fl[0], true
	}
	mm := map[string]any{}
	for _, f := range fl {
		x, ok := f.val.(map[string]any)
		if !ok {
			return flow{}, false
		}
		for k, v := range x {
			if _, dup := mm[k]; dup {
				return flow{}, false
			}
			mm[k] = v
		}
	}
	return flow{val: mm, st: tMap, via: false, multi: true}, true
}

func (m *simulator) handlerState(n *Node, pre bool) bool {
	bad := !m.s.State
	if pre && n.PreState == 1 || !pre && n.PostState == 1 {
		bad = true
	}
	if bad {
		m.res.Fails = append(m.res.Fails, simFail{Kind: "handler-state", At: n.Key, OnPass: n.Kind == kPass, static: true})
	}
	return !bad
}

func simulate(s *Spec, p *runParams, input any, ptype map[string]int) *simResult {
	m := &simulator{s: s, p: p, ptype: ptype, res: &simResult{}, arr: map[string][]flow{}}
	res := m.res
	m.emit(START, flow{val: input, st: s.GI}, false)
	for i := range s.Nodes {
		n := &s.Nodes[i]
		fl := m.arr[n.Key]
		if len(fl) == 0 {
			continue
		}
		if res.Unjudged != "" {
			return res
		}
		if n.Kind == kPass {
			pt, typed := ptype[n.Key]
			typed = typed && pt >= 0
			okAll := true
			for _, f := range fl {
				if typed && !m.check(f, pt, "passthrough-input", n.Key, false) {
					okAll = false
					break
				}
			}
			if !okAll {
				continue
			}
			f, ok := mergeFlows(fl)
			if !ok {
				res.Unjudged = "fan-in of values that cannot merge at " + n.Key
				return res
			}
			f.via = true
			if typed {
				f.st = pt
			}
			res.Exec = append(res.Exec, n.Key)
			if n.Pre >= 0 {
				if !m.handlerState(n, true) {
					continue
				}
				if !n.PreStream {
					m.needConcat(f, n.Pre, "pre handler of "+n.Key)
					f.multi = false
				}
				if !m.check(f, n.Pre, "pre-handler", n.Key, true) {
					continue
				}
			}
			if n.Post >= 0 {
				if !m.handlerState(n, false) {
					continue
				}
				if !n.PostStream {
					m.needConcat(f, n.Post, "post handler of "+n.Key)
					f.multi = false
				}
				if !m.check(f, n.Post, "post-handler", n.Key, true) {
					continue
				}
			}
			m.emit(n.Key, f, true)
			continue
		}
		// typed node: every incoming connection is checked against the input port
		okAll := true
		for _, f := range fl {
			if !m.check(f, n.inPort(), "node-input", n.Key, false) {
				okAll = false
				break
			}
		}
		if !okAll {
			continue
		}
		f, ok := mergeFlows(fl)
		if !ok {
			res.Unjudged = "fan-in of values that cannot merge at " + n.Key
			return res
		}
		f.st, f.via = n.inPort(), false
		if n.Pre >= 0 {
			if !m.handlerState(n, true) {
				continue
			}
			if !n.PreStream {
				m.needConcat(f, n.Pre, "pre handler of "+n.Key)
				f.multi = false
			}
			if !m.check(f, n.Pre, "pre-handler", n.Key, false) {
				continue
			}
			// the handler returns a value of its own declared type, which the node then asserts
			if !m.check(flow{val: f.val, st: n.Pre}, n.inPort(), "node-input", n.Key, false) {
				continue
			}
		}
		if n.Kind == kInv {
			m.needConcat(f, n.inPort(), "invokable node "+n.Key)
		}
		in := f.val
		if n.InKey != "" {
			mm := in.(map[string]any)
			e, ok := mm[n.InKey]
			if !ok {
				res.Unjudged = "input key missing at " + n.Key
				return res
			}
			if !m.check(flow{val: e, st: tAny}, n.In, "input-key-element", n.Key, false) {
				continue
			}
			in = e
		}
		res.Exec = append(res.Exec, n.Key)
		var out any
		if n.Echo && dynOK(in, n.Out) {
			out = in
		} else {
			out = p.outVal[n.Key]
		}
		of := flow{val: out, st: n.Out}
		if n.OutKey != "" {
			of = flow{val: map[string]any{n.OutKey: out}, st: tMap}
		}
		if n.Post >= 0 {
			if !m.handlerState(n, false) {
				continue
			}
			if !m.check(of, n.Post, "post-handler", n.Key, false) {
				continue
			}
		}
		m.emit(n.Key, of, false)
	}
	if res.Unjudged != "" {
		return res
	}
	fl := m.arr[END]
	if len(fl) > 0 {
		ok := true
		for _, f := range fl {
			if !m.check(f, s.GO, "graph-output", END, false) {
				ok = false
				break
			}
		}
		if ok {
			f, mok := mergeFlows(fl)
			if !mok {
				res.Unjudged = "fan-in of values that cannot merge at END"
				return res
			}
			res.Out, res.Reached = f.val, true
		}
	}
	if !res.Reached && len(res.Fails) == 0 && res.Unjudged == "" {
		res.Unjudged = "END not reached in the simulation"
	}
	sort.Strings(res.Exec)
	return res
}
