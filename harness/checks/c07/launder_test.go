package c07

// A targeted element of the spec generator (hunting finding
// passthrough-typed-by-interface-successor): a pass-through node (or a chain of them)
// behind concretely typed producers whose consumers are partly interface-typed - such a
// consumer (or an interface-typed branch condition) types the node if it happens to be
// connected first - and partly concretely typed, with types that conflict with what the
// producers emit half of the time. The order of the Add* calls is explored by runCase (all
// orders / 200 random orders, three node policies), so the interface-typed neighbour is the
// FIRST typed neighbour in some orders and a later one in others.
//
//	fan-out     s(→C) → p → {a(I→·, key a), b(C'→·, key b)[, c]} → map consumer / END
//	branch      s(→C) → p —cond(I | C | C')→ {a(I→J), b(C'→J)} → join(J) / END
//	fan-in      cur —branch→ {s1(→C1), s2(→C2)} → p → fan-out as above        (Graph only)
//
// C, C', C1, C2 concrete; I an interface type the values of C implement (any, I1, I2).
// The block keeps the generator's fan-out discipline (wellFormed): fan-out members carry
// distinct output keys (Graph) or meet through mappings to distinct keys (Workflow).

import (
	"fmt"

	"verifharness/internal/mon"
)

var concreteTypes = []int{tString, tInt, tPT1, tT1, tMap, tT2, tVars, tStrs, tNames}

// ifaceFor: an interface type every value of the concrete type c implements.
func ifaceFor(r *mon.Rand, c int) int {
	cands := []int{tAny, tAny}
	for _, i := range []int{tI1, tI2} {
		if refLat(c, i) == latMust {
			cands = append(cands, i)
		}
	}
	return mon.PickOne(r, cands)
}

// conflicting: a concrete type no value of c can be assigned to.
func conflicting(r *mon.Rand, c int) int {
	for {
		t := mon.PickOne(r, concreteTypes)
		if t != c {
			return t
		}
	}
}

func (g *gen) plainNode(prefix string, in, out int) *Node {
	r := g.r
	n := Node{Key: g.key(prefix), Kind: kInv, In: in, Out: out, Pre: -1, Post: -1, Echo: r.Prob(0.5)}
	if r.Prob(0.3) {
		n.Kind = kTrans
	}
	g.s.Nodes = append(g.s.Nodes, n)
	return &g.s.Nodes[len(g.s.Nodes)-1]
}

func (g *gen) plainPass() string {
	n := Node{Key: g.key("p"), Kind: kPass, Pre: -1, Post: -1}
	if g.s.State && g.r.Prob(0.15) {
		n.Pre = tAny
		n.PreStream = g.r.Prob(0.3)
	}
	g.s.Nodes = append(g.s.Nodes, n)
	return n.Key
}

// launderBlock appends the element behind curNode (static type cur) and returns the node the
// construction continues from (END: finished) and its static type.
func (g *gen) launderBlock(curNode string, cur int, last bool) (string, int) {
	r, s := g.r, g.s
	wf := s.Front == feWorkflow
	mapJoin := func() int { return mon.PickOne(r, []int{tMap, tMap, tAny}) }

	// ---- producers: one concretely typed producer, or (Graph) two behind an exclusive branch
	var prodTypes []int
	p := ""
	if !wf && r.Prob(0.3) {
		c1 := mon.PickOne(r, concreteTypes)
		c2 := c1
		if r.Prob(0.6) {
			c2 = conflicting(r, c1)
		}
		s1 := g.plainNode("n", compatType(r, cur, 0), c1)
		s2 := g.plainNode("n", compatType(r, cur, 0), c2)
		g.grp++
		s.Calls = append(s.Calls, Call{Branch: true, From: curNode, To: []string{s1.Key, s2.Key}, Cond: compatType(r, cur, 0), StreamCond: r.Prob(0.3), Group: g.grp})
		p = g.plainPass()
		g.edge(s1.Key, p)
		g.edge(s2.Key, p)
		prodTypes = []int{c1, c2}
	} else {
		c := cur
		if cur < 0 || isIface(cur) || curNode == START && wf || r.Prob(0.5) {
			c = mon.PickOne(r, concreteTypes)
			sn := g.plainNode("n", compatType(r, cur, 0), c)
			g.edge(curNode, sn.Key)
			curNode = sn.Key
		}
		p = g.plainPass()
		g.edge(curNode, p)
		prodTypes = []int{c}
	}
	// a chain of pass-through nodes now and then
	if r.Prob(0.25) {
		p2 := g.plainPass()
		g.edge(p, p2)
		p = p2
	}
	c0 := prodTypes[r.Intn(len(prodTypes))]

	// ---- consumers: an interface-typed one and concretely typed ones, in any creation order
	type consumer struct {
		in  int
		key string
	}
	n := 2
	if r.Prob(0.25) {
		n = 3
	}
	ins := []int{ifaceFor(r, c0)}
	for len(ins) < n {
		switch {
		case r.Prob(0.55):
			ins = append(ins, conflicting(r, c0))
		case r.Prob(0.3):
			ins = append(ins, ifaceFor(r, c0))
		default:
			ins = append(ins, c0)
		}
	}
	perm := r.Perm(len(ins))
	branch := r.Prob(0.4)
	keys := []string{"a", "b", "c"}

	if !branch {
		// fan-out with keyed members (Graph) / mapped joins (Workflow)
		var fan []*Node
		for i := range ins {
			nd := g.plainNode("n", ins[perm[i]], pickType(r))
			nd.Echo = nd.Echo && !wf
			if !wf {
				nd.OutKey = keys[i]
			}
			fan = append(fan, nd)
		}
		fanKeys := make([]string, len(fan))
		for i, nd := range fan {
			fanKeys[i] = nd.Key
		}
		for _, k := range fanKeys {
			g.edge(p, k)
		}
		join := END
		if !last || r.Prob(0.5) {
			jt := tMap
			if wf {
				jt = mapJoin()
			}
			jn := g.plainNode("n", jt, pickType(r))
			jn.Echo = false
			join = jn.Key
		} else if s.GO < 0 {
			s.GO = tMap
			if wf {
				s.GO = mapJoin()
			}
		} else if s.GO != tMap && s.GO != tAny {
			jn := g.plainNode("n", tMap, revCompatType(r, s.GO, 0))
			jn.Echo = false
			join = jn.Key
		}
		for i, k := range fanKeys {
			if wf {
				g.mappedEdge(k, join, Mapping{To: keys[i]})
			} else {
				g.edge(k, join)
			}
		}
		if join == END {
			return END, tMap
		}
		return join, g.staticOut(join, tMap)
	}

	// a branch on the pass-through node: the condition types the node too
	var cond int
	switch {
	case r.Prob(0.5):
		cond = ifaceFor(r, c0)
	case r.Prob(0.5):
		cond = c0
	default:
		cond = conflicting(r, c0)
	}
	J := mon.PickOne(r, concreteTypes)
	if wf {
		J = mapJoin()
	}
	toEnd := last && r.Prob(0.6)
	if wf && toEnd && s.GO >= 0 && s.GO != tMap && s.GO != tAny {
		toEnd = false // the arms of a workflow branch meet through mappings to the keys of a map
	}
	if toEnd {
		if s.GO < 0 {
			s.GO = J
		}
		J = s.GO
	}
	var ends []string
	var maps []Mapping
	var arms []*Node
	for i := range ins {
		out := J
		if wf {
			out = pickType(r)
		}
		nd := g.plainNode("n", ins[perm[i]], out)
		arms = append(arms, nd)
		ends = append(ends, nd.Key)
		maps = append(maps, Mapping{})
	}
	armKeys := make([]string, len(arms))
	for i, nd := range arms {
		armKeys[i] = nd.Key
	}
	join := END
	if !toEnd {
		jn := g.plainNode("n", J, pickType(r))
		jn.Echo = false
		join = jn.Key
	}
	g.grp++
	c := Call{Branch: true, From: p, To: ends, Cond: cond, StreamCond: r.Prob(0.3), Group: g.grp}
	if wf {
		c.Maps = maps
	}
	s.Calls = append(s.Calls, c)
	for i, k := range armKeys {
		if wf {
			g.mappedEdge(k, join, Mapping{To: fmt.Sprintf("x%d", i)})
		} else {
			g.edge(k, join)
		}
	}
	if join == END {
		return END, J
	}
	return join, g.staticOut(join, J)
}
