package c07

import (
	"encoding/json"
	"fmt"
	"os"
	"strconv"
	"testing"

	"verifharness/internal/mon"
)

// TestDebugGen prints generated specs and what eino says about them (debug helper).
func TestDebugGen(t *testing.T) {
	if os.Getenv("C07_DEBUG") == "" {
		t.Skip()
	}
	n, _ := strconv.Atoi(os.Getenv("C07_DEBUG"))
	front := os.Getenv("C07_FRONT")
	cfg := mon.Load("C07")
	_ = cfg
	for i := 0; i < n; i++ {
		rng := mon.NewRand(uint64(1000 + i))
		s := genSpec(rng.Sub("spec"))
		if front != "" && frontNames[s.Front] != front {
			continue
		}
		sref := refStatic(s)
		b := build(s, identity(len(s.Calls), 0))
		fmt.Printf("#%d wf=%v %s\n   ref mustnot=%v may=%d\n   eino: rejectedAt=%q err=%.200s panic=%.200s inferred=%v\n", i, s.wellFormed(), s.String(), sref.concreteMustNot(), sref.May, b.RejectedAt, b.RejectErr, b.BuildPanic, b.inferred)
	}
}

// TestDebugReplay builds the minimal construction of a replay file and prints what every run does.
func TestDebugReplay(t *testing.T) {
	f := os.Getenv("C07_REPLAY")
	if f == "" {
		t.Skip()
	}
	raw, err := os.ReadFile(f)
	if err != nil {
		t.Fatal(err)
	}
	var doc struct {
		Witness struct {
			Spec   *Spec  `json:"spec"`
			Policy int    `json:"node_policy"`
			Run    runKey `json:"run"`
			Mode   string `json:"mode"`
		} `json:"witness"`
	}
	if err := json.Unmarshal(raw, &doc); err != nil {
		t.Fatal(err)
	}
	s := doc.Witness.Spec
	fmt.Println(s.String())
	b := build(s, identity(len(s.Calls), doc.Witness.Policy))
	fmt.Printf("rejectedAt=%q err=%s panic=%s inferred=%v\n", b.RejectedAt, b.RejectErr, b.BuildPanic, b.inferred)
	if b.fns == nil {
		return
	}
	sref := refStatic(s)
	pt, sig := passTypes(b, sref)
	fmt.Println("passTypes", sig)
	k := doc.Witness.Run
	p := paramsFor(s, k)
	sim := simulate(s, p, values[k.In], pt)
	fmt.Printf("params out=%v h=%v choice=%v\nsim: unjudged=%q stream=%q skip=%q fails=%+v out=%s\n", p.outVal, p.hVal, p.choice, sim.Unjudged, sim.UnjudgedStream, sim.Skip, sim.Fails, canon(sim.Out))
	for _, mode := range []string{"invoke", "stream"} {
		o := runOnce(b, p, values[k.In], mode)
		fmt.Printf("== %s: ok=%v out=%s recovered=%v\n   err=%v\n", mode, o.OK, canon(o.Out), o.Recovered, o.Err)
		if o.Panic != nil {
			fmt.Printf("   PANIC %s\n%s\n", o.Panic.Value, o.Panic.Stack)
		}
		fmt.Printf("   trace=%v\n", o.Trace)
	}
}
