package c08

// Generator: a tree spec is a pure function of the case rng.

import (
	"verifharness/internal/mon"
)

type winGen struct {
	src      *srcSpec
	gap      int // filler cells before the window
	capMode  int // 0: clipped to len, 1: up to the end of the buffer (plain two-index slice), 2: len + capExtra
	capExtra int
}

type bufGen struct {
	et   etype
	wins []*winGen
	tail int // filler cells after the last window
	open bool
}

type gen struct {
	r      *mon.Rand
	t      *tree
	m      *model
	pool   []int
	nextR  int
	nSrc   int32
	nConv  int32
	nItems int
	typed  bool
	bufs   []*bufGen
	// set by the array probe: the next array source becomes a window of this buffer
	forceBuf *bufGen
}

const (
	maxSources   = 16
	maxEndpoints = 10
	maxDepth     = 3
)

func (g *gen) newReader() int { g.nextR++; return g.nextR - 1 }

func (g *gen) add(op opSpec) {
	g.t.Ops = append(g.t.Ops, op)
	g.m.addOp(len(g.t.Ops)-1, &g.t.Ops[len(g.t.Ops)-1])
}

func (g *gen) et(id int) etype { return g.m.readers[id].et }

// pickType: element type of a new source.
func (g *gen) pickType() etype {
	if !g.typed {
		return tTok
	}
	return []etype{tTok, tAny, tAny, tAny, tErr, tErr, tStr, tStr, tPtr, tPtr}[g.r.Intn(10)]
}

func (g *gen) newSource() int { return g.newSourceWith(g.pickType(), nil) }

func (g *gen) newSourceOf(et etype) int { return g.newSourceWith(et, nil) }

// newSourceWith: tweak may adjust the freshly drawn spec before it is added to the tree.
func (g *gen) newSourceWith(et etype, tweak func(*srcSpec)) int {
	r := g.r
	s := &srcSpec{ID: g.nSrc, Pipe: r.Prob(0.68), Elem: et}
	g.nSrc++
	n := 0
	switch x := r.Intn(100); {
	case x < 5:
		n = 0
	case x < 70:
		n = r.Range(1, 6)
	case x < 93:
		n = r.Range(7, 12)
	default:
		n = r.Range(14, 30)
	}
	if g.nItems > 160 && n > 3 {
		n = r.Range(0, 3)
	}
	s.Items = make([]int8, n)
	if s.Pipe {
		s.Cap = r.Intn(5)
		for i := range s.Items {
			switch x := r.Intn(100); {
			case x < 9:
				s.Items[i] = 1
			case x < 14:
				s.Items[i] = 2
			}
		}
		s.Pace = []int{0, 0, 0, 1, 1, 2}[r.Intn(6)]
		s.Continue = r.Bool()
		s.NeverClose = r.Prob(0.06)
		s.Early = r.Bool()
	}
	if tweak != nil {
		tweak(s)
	}
	g.nItems += len(s.Items)
	if s.Elem != tTok {
		// dynamic kinds: nil interface values / nil pointers at a per-source rate, the rest mixed
		pNil := []float64{0.08, 0.2, 0.2, 0.45, 1}[r.Intn(5)]
		al, nn := allowedDyn[s.Elem], nNilish[s.Elem]
		s.Dyn = make([]int8, len(s.Items))
		for i := range s.Dyn {
			if nn > 0 && r.Prob(pNil) {
				s.Dyn[i] = int8(al[r.Intn(nn)])
			} else {
				s.Dyn[i] = int8(al[nn+r.Intn(len(al)-nn)])
			}
		}
	}
	kind := "pipe"
	if !s.Pipe {
		kind = "array"
		g.placeArray(s)
	}
	out := g.newReader()
	g.add(opSpec{Kind: kind, Out: []int{out}, Src: s})
	return out
}

// placeArray decides which caller-owned slice an array source is a window of: a slice of
// exactly its length (cap == len), a slice with spare capacity (what append produces), or a
// window of a buffer shared with other array sources (adjacent windows, gaps, spare tail).
func (g *gen) placeArray(s *srcSpec) {
	r := g.r
	w := &winGen{src: s}
	var b *bufGen
	if g.forceBuf != nil {
		b = g.forceBuf
	} else {
		switch x := r.Intn(100); {
		case x < 38: // exact
			b = &bufGen{et: s.Elem}
			g.bufs = append(g.bufs, b)
		case x < 62: // own slice with spare capacity
			b = &bufGen{et: s.Elem, tail: r.Range(1, 6), open: r.Prob(0.5)}
			g.bufs = append(g.bufs, b)
			w.capMode = r.Range(1, 2)
		default: // window of a shared buffer
			var cand []*bufGen
			for _, x := range g.bufs {
				if x.open && x.et == s.Elem {
					cand = append(cand, x)
				}
			}
			if len(cand) > 0 {
				b = cand[r.Intn(len(cand))]
			} else {
				b = &bufGen{et: s.Elem, tail: r.Intn(5), open: true}
				g.bufs = append(g.bufs, b)
			}
			w.capMode = []int{0, 1, 1, 2}[r.Intn(4)]
			if r.Prob(0.3) {
				w.gap = r.Range(1, 2)
			}
		}
	}
	if w.capMode == 2 {
		w.capExtra = r.Range(1, 5)
	}
	b.wins = append(b.wins, w)
	s.Buf = -1
	for i, x := range g.bufs {
		if x == b {
			s.Buf = i
		}
	}
}

// layout fixes offsets and capacities once every window of every buffer is known.
func (g *gen) layout() {
	for _, b := range g.bufs {
		off := 0
		for _, w := range b.wins {
			off += w.gap
			w.src.Off = off
			off += len(w.src.Items)
		}
		total := off + b.tail
		for _, w := range b.wins {
			n := len(w.src.Items)
			room := total - w.src.Off
			switch w.capMode {
			case 0:
				w.src.SliceCap = n
			case 1:
				w.src.SliceCap = room
			default:
				w.src.SliceCap = n + w.capExtra
				if w.src.SliceCap > room {
					w.src.SliceCap = room
				}
			}
		}
		g.t.Bufs = append(g.t.Bufs, bufSpec{Elem: b.et, Len: total})
	}
}

// take removes pool entry i and returns the reader.
func (g *gen) take(i int) int {
	id := g.pool[i]
	g.pool = append(g.pool[:i], g.pool[i+1:]...)
	return id
}

// input takes a reader of depth <= maxD out of the pool or creates a new source.
func (g *gen) input(maxD int) int {
	var cand []int
	for i, id := range g.pool {
		if g.m.readers[id].depth <= maxD {
			cand = append(cand, i)
		}
	}
	fromPool := len(cand) > 0 && (g.r.Prob(0.55) || g.nSrc >= maxSources)
	if fromPool {
		return g.take(cand[g.r.Intn(len(cand))])
	}
	return g.newSource()
}

// inputOf: like input, but the reader must have element type et: a pooled reader of that
// type, a pooled reader of another type behind a type-changing converter, or a new source.
func (g *gen) inputOf(maxD int, et etype) int {
	var same, other []int
	for i, id := range g.pool {
		rm := &g.m.readers[id]
		if rm.depth > maxD {
			continue
		}
		if rm.et == et {
			same = append(same, i)
		} else if rm.depth < maxD {
			other = append(other, i)
		}
	}
	if len(same)+len(other) > 0 && (g.r.Prob(0.55) || g.nSrc >= maxSources) {
		if len(same) > 0 && (len(other) == 0 || g.r.Prob(0.65)) {
			return g.take(same[g.r.Intn(len(same))])
		}
		if len(other) > 0 {
			return g.convertTo(g.take(other[g.r.Intn(len(other))]), et, false, nil)
		}
	}
	return g.newSourceOf(et)
}

func (g *gen) convert(in int, panicky bool) int { return g.convertTo(in, -1, panicky, nil) }

// convertTo: to < 0 leaves the target element type to the generator.
func (g *gen) convertTo(in int, to etype, panicky bool, tweak func(*convSpec)) int {
	r := g.r
	from := g.et(in)
	c := &convSpec{ID: g.nConv, Seed: r.Uint64(), Wrap: r.Prob(0.3), From: from}
	g.nConv++
	switch r.Intn(5) {
	case 0: // pure map
	case 1:
		c.Drop = r.Range(2, 8)
	case 2:
		c.Fail = r.Range(1, 5)
	default:
		c.Drop = r.Range(1, 5)
		c.Fail = r.Range(0, 3)
	}
	if panicky {
		c.Panic = r.Range(2, 6)
	}
	switch {
	case to >= 0:
		c.To = to
	case !g.typed:
		c.To = tTok
	case r.Bool():
		c.To = from
	default:
		c.To = etype(r.Intn(int(nEtypes)))
	}
	if g.typed {
		c.Keep = r.Bool()
		if nNilish[c.To] > 0 {
			c.NilOut = []int{0, 0, 1, 2, 4, 8}[r.Intn(6)]
		}
	}
	if tweak != nil {
		tweak(c)
	}
	out := g.newReader()
	g.add(opSpec{Kind: "convert", In: []int{in}, Out: []int{out}, Conv: c})
	return out
}

func (g *gen) step() {
	r := g.r
	switch x := r.Intn(100); {
	case x < 42: // merge
		m := 0
		switch y := r.Intn(100); {
		case y < 3:
			m = 1
		case y < 55:
			m = r.Range(2, 4)
		case y < 78:
			m = r.Range(5, 6)
		default:
			m = r.Range(7, 8)
		}
		var ins []int
		et := etype(-1)
		for len(ins) < m {
			var in int
			if et < 0 {
				in = g.input(maxDepth - 1)
			} else {
				in = g.inputOf(maxDepth-1, et)
			}
			if g.m.readers[in].depth <= 1 && r.Prob(0.22) {
				in = g.convertTo(in, et, false, nil)
			}
			if m >= 2 && g.m.readers[in].depth <= 1 && len(g.m.readers[in].strands) == 1 && !g.m.readers[in].strands[0].Pan && r.Prob(0.14) {
				// a panicking converter is only ever placed where a forwarder goroutine will run it:
				// on a single-strand input that goes (through converters only) straight into a merge.
				in = g.convertTo(in, et, true, nil)
				if g.m.readers[in].depth <= 1 && r.Prob(0.3) {
					in = g.convertTo(in, et, false, nil)
				}
			}
			et = g.et(in)
			ins = append(ins, in)
		}
		out := g.newReader()
		g.add(opSpec{Kind: "merge", In: ins, Out: []int{out}})
		g.pool = append(g.pool, out)
	case x < 68: // copy
		in := g.input(maxDepth - 1)
		n := []int{1, 2, 2, 2, 3, 3, 4, 5, 6}[r.Intn(9)]
		if room := maxEndpoints - len(g.pool); n > room {
			n = room
		}
		if n < 1 {
			n = 1
		}
		g.pool = append(g.pool, g.copyN(in, n)...)
	case x < 93: // convert
		in := g.input(maxDepth - 1)
		g.pool = append(g.pool, g.convert(in, false))
	default: // pre-read a few items of a static (array-backed) single-strand reader before it is used further
		for i, id := range g.pool {
			rm := g.m.readers[id]
			if rm.static && len(rm.strands) == 1 && len(rm.strands[0].Els) > 0 {
				g.pool[i] = g.skip(id, r.Range(1, len(rm.strands[0].Els)))
				return
			}
		}
		g.pool = append(g.pool, g.newSource())
	}
}

func (g *gen) copyN(in, n int) []int {
	outs := make([]int, n)
	for i := range outs {
		outs[i] = g.newReader()
	}
	g.add(opSpec{Kind: "copy", In: []int{in}, Out: outs, N: n})
	return outs
}

func (g *gen) skip(in, k int) int {
	out := g.newReader()
	g.add(opSpec{Kind: "skip", In: []int{in}, Out: []int{out}, N: k})
	return out
}

func (g *gen) merge(ins []int) int {
	out := g.newReader()
	g.add(opSpec{Kind: "merge", In: ins, Out: []int{out}})
	return out
}

func genTree(r *mon.Rand) *tree {
	g := &gen{r: r, t: &tree{}, m: newModel()}
	g.t.Procs = []int{1, 4, 16}[r.Intn(3)]
	g.typed = r.Prob(0.35)
	g.t.Typed = g.typed
	switch x := r.Intn(100); {
	case x < 3:
		g.t.Probe = "filter"
		g.filterProbe()
	case x < 6:
		g.t.Probe = "array"
		g.arrayProbe()
	default:
		nOps := r.Range(1, 7)
		for i := 0; i < nOps; i++ {
			g.step()
		}
	}
	filterProbe := g.t.Probe == "filter"
	if len(g.pool) == 0 {
		g.pool = append(g.pool, g.newSource())
	}
	g.layout()
	// endpoints, in a random start order
	perm := r.Perm(len(g.pool))
	for _, pi := range perm {
		id := g.pool[pi]
		rm := &g.m.readers[id]
		e := endSpec{Reader: id, Pace: []int{0, 0, 0, 1, 1, 2}[r.Intn(6)], Close: true}
		switch x := r.Intn(100); {
		case filterProbe:
			e.Mode = modeCloseNow
		case x < 45:
			e.Mode = modeAll
			e.Close = r.Prob(0.85)
		case x < 82:
			e.Mode = modePrefix
			e.K = r.Range(0, rm.total())
		default:
			e.Mode = modeCloseNow
		}
		g.t.Ends = append(g.t.Ends, e)
	}
	g.m.finish(g.t)
	// A writer that never closes would block a read-to-EOF forever: such readers read
	// exactly the (deterministic) complete length instead, then close.
	for s, spec := range g.m.srcs {
		if !spec.Pipe || !spec.NeverClose {
			continue
		}
		for _, ei := range g.m.derived[s] {
			e := &g.t.Ends[ei]
			if e.Mode == modeAll {
				e.Mode = modePrefix
				e.K = g.m.readers[e.Reader].total()
				e.Close = true
			}
		}
	}
	// Writers whose derived readers all close at once may be scripted to start only after
	// those closes returned: then every Send is a "send after the last Close".
	for _, spec := range sortedSrcs(g.m) {
		if !spec.Pipe || len(g.m.derived[spec.ID]) == 0 {
			continue
		}
		all := true
		for _, ei := range g.m.derived[spec.ID] {
			if g.t.Ends[ei].Mode != modeCloseNow {
				all = false
			}
		}
		if all && (filterProbe || r.Prob(0.6)) {
			spec.AfterEnds = true
		}
	}
	g.t.m = g.m
	return g.t
}

// filterProbe: a small family of trees aimed at close propagation through a filtering
// converter below a forwarder goroutine; every reader is closed at once and the writer
// starts late. The filtering converter (dropping 14/16 or all items) sits
//
//	chain:   directly below the merge, or below another converter that is merged;
//	copy:    below a Copy whose children are merged (forwarded) or closed;
//	nested:  directly below a merge whose reader is consumed by another forwarder
//	         (a converter or a Copy child merged again).
func (g *gen) filterProbe() {
	r := g.r
	in := g.newSourceWith(g.pickType(), func(s *srcSpec) {
		if !s.Pipe {
			s.Pipe, s.Cap, s.Pace = true, r.Intn(5), r.Intn(2)
		}
		s.Items = make([]int8, r.Range(10, 18))
		s.Continue, s.NeverClose = true, false
	})
	pure := func(c *convSpec) { c.Fail, c.Drop = 0, 0 }
	filter := func(c *convSpec) { c.Fail, c.Drop = 0, []int{16, 16, 14}[r.Intn(3)] }
	others := func(first int) []int {
		ins := []int{first}
		for k := r.Range(1, 3); k > 0; k-- {
			ins = append(ins, g.newSourceOf(g.et(first)))
		}
		p := r.Intn(len(ins)) // position of the probed input among the merge inputs
		ins[0], ins[p] = ins[p], ins[0]
		return ins
	}
	switch r.Intn(4) {
	case 0, 1: // chain
		n := r.Range(1, 2)
		hot := r.Intn(n)
		for i := 0; i < n; i++ {
			f := pure
			if i == hot {
				f = filter
			}
			in = g.convertTo(in, -1, false, f)
		}
		g.pool = append(g.pool, g.merge(others(in)))
	case 2: // copy
		if r.Bool() {
			in = g.convertTo(in, -1, false, pure)
		}
		in = g.convertTo(in, -1, false, filter)
		kids := g.copyN(in, r.Range(2, 3))
		merged := 0
		var common []int
		for i, k := range kids {
			switch x := r.Intn(3); {
			case x == 0 && (merged > 0 || i < len(kids)-1):
				g.pool = append(g.pool, k) // an end, closed at once
			case x == 1:
				g.pool = append(g.pool, g.merge(others(k)))
				merged++
			default:
				common = append(common, k)
				merged++
			}
		}
		if len(common) == 1 {
			g.pool = append(g.pool, g.merge(others(common[0])))
		} else if len(common) > 1 {
			g.pool = append(g.pool, g.merge(common))
		}
	default: // nested
		in = g.convertTo(in, -1, false, filter)
		m1 := g.merge(others(in))
		if r.Bool() {
			m1 = g.convertTo(m1, -1, false, pure)
		} else {
			kids := g.copyN(m1, 2)
			m1 = kids[r.Intn(2)]
			g.pool = append(g.pool, kids[0]+kids[1]-m1)
		}
		g.pool = append(g.pool, g.merge(others(m1)))
	}
}

// arrayProbe: array readers over windows of one caller-owned buffer (adjacent, spare
// capacity behind them), pre-read and copied, every copy merged with further array-backed
// readers (own slices, other windows, array-only merges) and sometimes a pipe; the readers
// over the remaining windows are ends of their own.
func (g *gen) arrayProbe() {
	r := g.r
	et := g.pickType()
	b := &bufGen{et: et, tail: r.Intn(5), open: true}
	g.bufs = append(g.bufs, b)
	arr := func(s *srcSpec) {
		s.Pipe, s.Cap, s.Pace, s.Continue, s.NeverClose, s.Early = false, 0, 0, false, false, false
		if len(s.Items) > 6 {
			s.Items = s.Items[:r.Range(1, 6)]
		}
		for i := range s.Items {
			s.Items[i] = 0
		}
	}
	window := func() int {
		g.forceBuf = b
		id := g.newSourceWith(et, arr)
		g.forceBuf = nil
		w := b.wins[len(b.wins)-1]
		w.capMode, w.gap = []int{1, 1, 1, 2, 0}[r.Intn(5)], 0
		if w.capMode == 2 {
			w.capExtra = r.Range(1, 5)
		}
		return id
	}
	nw := r.Range(1, 4)
	wins := make([]int, nw)
	for i := range wins {
		wins[i] = window()
	}
	// the probed reader: one of the windows, possibly pre-read, possibly copied
	pi := r.Intn(nw)
	if r.Prob(0.6) {
		pi = 0
	}
	probed := wins[pi]
	wins = append(wins[:pi], wins[pi+1:]...)
	if n := len(g.m.readers[probed].strands[0].Els); n > 0 && r.Prob(0.3) {
		probed = g.skip(probed, r.Range(1, n))
	}
	heads := []int{probed}
	if r.Prob(0.7) {
		heads = g.copyN(probed, r.Range(2, 3))
	}
	further := func() int {
		switch x := r.Intn(10); {
		case x < 2 && len(wins) > 0:
			i := r.Intn(len(wins))
			id := wins[i]
			wins = append(wins[:i], wins[i+1:]...)
			return id
		case x < 4:
			return g.merge([]int{g.newSourceWith(et, arr), g.newSourceWith(et, arr)})
		}
		return g.newSourceWith(et, arr)
	}
	if len(heads) > 1 && r.Prob(0.2) {
		// the sibling copies meet again in one merge, further array readers between them
		var ins []int
		for _, h := range heads {
			ins = append(ins, h)
			if r.Bool() {
				ins = append(ins, further())
			}
		}
		g.pool = append(g.pool, g.merge(ins))
		heads = nil
	}
	for _, h := range heads {
		if len(heads) > 1 && r.Prob(0.15) {
			g.pool = append(g.pool, h) // a copy read on its own
			continue
		}
		ins := []int{h}
		for k := r.Range(1, 3); k > 0; k-- {
			ins = append(ins, further())
		}
		if r.Prob(0.25) {
			ins = append(ins, g.newSourceWith(et, func(s *srcSpec) { s.Pipe = true }))
		}
		if r.Prob(0.3) {
			p := r.Intn(len(ins))
			ins[0], ins[p] = ins[p], ins[0]
		}
		g.pool = append(g.pool, g.merge(ins))
	}
	g.pool = append(g.pool, wins...)
}
