package c08

// Execution side: builds the real eino readers/writers for a tree spec through
// the public API of package schema only, drives every end with exactly one
// goroutine running its PRNG script, and returns the goroutine-local logs.

import (
	"errors"
	"fmt"
	"io"
	"runtime"
	"sync"
	"sync/atomic"
	"time"

	"github.com/cloudwego/eino/schema"

	"verifharness/internal/mon"
)

type sendRec struct {
	T0, T1 uint64
	Closed bool
}

type wlog struct {
	sends  []sendRec
	closed bool
	closeT uint64
	pan    *mon.Panic
	op     string
}

type obsRec struct {
	e elem
	t uint64
}

type elog struct {
	obs        []obsRec
	sawEOF     bool
	closed     bool
	closeBegin uint64
	closeEnd   uint64
	pan        *mon.Panic
	op         string
	foreign    []string      // texts of error items that are neither ours nor io.EOF (diagnostics only)
	fin        chan struct{} // closed when the goroutine of this end is done: its log may then be read even though the run as a whole is stuck
}

// schedule describes how one execution of a tree is perturbed.
//
// quiet: the harness adds NO synchronisation of its own (no logical clock, no
// shared counters in the yield hook), so the race detector sees eino's own
// happens-before relation only; the order-dependent oracles (bounded progress,
// premature close, interleaving digest) are skipped in such runs.
type schedule struct {
	Index int    `json:"index"`
	Quiet bool   `json:"quiet"`
	Lvl   int    `json:"lvl"`
	Hot   int    `json:"hot"`
	Seed  uint64 `json:"seed"`
}

var (
	clock    atomic.Uint64
	yieldCnt [32]atomic.Int64
	schedCtr atomic.Uint64
	schedCfg atomic.Uint64 // 0: hook inert; else 1<<63 | hot<<8 | lvl
)

var pointNames = []string{"send_enter", "send_select", "recv_enter", "close_send", "close_recv", "peek_enter",
	"peek_after_once", "child_close", "parent_close", "multi_recv", "forward_loop"}

// yieldHook is installed once with schema.SetVerifYield. It is called from eino's
// own goroutines too, hence atomics only.
func yieldHook(p int) {
	cfg := schedCfg.Load()
	if cfg == 0 {
		return
	}
	if p >= 0 && p < len(yieldCnt) {
		yieldCnt[p].Add(1)
	}
	lvl := int(cfg & 0xff)
	hot := int(cfg>>8&0xff) == p
	x := mix64(schedCtr.Add(0x9e3779b97f4a7c15))
	r := int(x & 0xff)
	yieldTh, sleepTh := 0, 0
	switch lvl {
	case 1:
		yieldTh = 24
	case 2:
		yieldTh = 110
	case 3:
		yieldTh, sleepTh = 80, 10
	}
	if hot {
		yieldTh = 190
		if lvl >= 2 {
			sleepTh = 28
		}
	}
	switch {
	case r < sleepTh:
		time.Sleep(time.Duration(1+(x>>8)%25) * time.Microsecond)
	case r < sleepTh+yieldTh:
		runtime.Gosched()
		if x>>40&3 == 0 {
			runtime.Gosched()
		}
	}
}

func pace(r *mon.Rand, mode int) {
	switch mode {
	case 1:
		if r.Bool() {
			runtime.Gosched()
		}
	case 2:
		switch x := r.Intn(8); {
		case x < 2:
			time.Sleep(time.Duration(r.Range(1, 20)) * time.Microsecond)
		case x < 6:
			runtime.Gosched()
		}
	}
}

func classify(v any, err error) elem {
	if err == nil {
		return describe(v)
	}
	if errors.Is(err, io.EOF) {
		return elem{K: eEOF}
	}
	var se *srcErr
	if errors.As(err, &se) {
		return elem{K: eSrcErr, Src: se.Src, Seq: se.Seq}
	}
	var ce *convErr
	if errors.As(err, &ce) {
		return elem{K: eConvErr, Src: ce.Src, Seq: ce.Seq, Conv: ce.Conv}
	}
	if errors.Is(err, schema.ErrRecvAfterClosed) {
		return elem{K: eRecvClosed}
	}
	return elem{K: ePanic}
}

type runOut struct {
	sc       schedule
	wl       map[int32]*wlog
	el       []*elog
	buildPan *mon.Panic
	buildOp  *opSpec // operator being built when buildPan happened
	buildErr string
	wait     mon.WaitResult
	dump     []mon.G
	leaked   []mon.G
	stuck    []mon.G
	settled  bool
	leakRun  bool
	bufDiffs []bufDiff // cells of caller-owned slices that differ from what the caller put there
}

type bufDiff struct {
	Buf, Cell int
	Want, Got elem
	Owner     int32 // source whose window covers the cell, -1: spare capacity / gap
}

type reader = xReader

func runWriter(sw xWriter, s *srcSpec, gate <-chan struct{}, r *mon.Rand, lg *wlog, stamp func() uint64) {
	lg.pan = mon.Safe(func() {
		lg.op = "Send"
		if gate != nil {
			<-gate // scripted to start only after the readers derived from this stream were closed
		}
		for i, k := range s.Items {
			pace(r, s.Pace)
			var chunk *elem
			var err error
			if k != 1 {
				e := s.elemAt(i)
				e.K = eVal
				chunk = &e
			}
			if k != 0 {
				err = &srcErr{Src: s.ID, Seq: int32(i)}
			}
			t0 := stamp()
			closed := sw.Send(chunk, err)
			t1 := stamp()
			lg.sends = append(lg.sends, sendRec{T0: t0, T1: t1, Closed: closed})
			if closed && !s.Continue {
				break
			}
		}
		if !s.NeverClose {
			lg.op = "Writer.Close"
			pace(r, s.Pace)
			sw.Close()
			lg.closeT = stamp()
			lg.closed = true
		}
	})
}

// runEnd: limit is the length of the complete expected sequence; a reader that
// delivers more than that is cut off after two surplus items (the sequence oracle
// reports them), so that no harness goroutine can loop for ever.
func runEnd(rd reader, e *endSpec, limit int, r *mon.Rand, lg *elog, stamp func() uint64) {
	lg.pan = mon.Safe(func() {
		lg.op = "Recv"
		if e.Mode != modeCloseNow {
			for n := 0; (e.Mode == modeAll || n < e.K) && n < limit+2; n++ {
				pace(r, e.Pace)
				v, err := rd.Recv()
				t := stamp()
				el := classify(v, err)
				if el.K == ePanic || el.K == eRecvClosed {
					txt := err.Error()
					if len(txt) > 1500 {
						txt = txt[:1500] + "…"
					}
					lg.foreign = append(lg.foreign, txt)
				}
				if el.K == eEOF {
					lg.sawEOF = true
					lg.obs = append(lg.obs, obsRec{el, t})
					break
				}
				lg.obs = append(lg.obs, obsRec{el, t})
			}
		}
		if e.Close {
			lg.op = "Close"
			pace(r, e.Pace)
			lg.closeBegin = stamp()
			rd.Close()
			lg.closeEnd = stamp()
			lg.closed = true
		}
	})
	if lg.pan != nil && lg.op == "Recv" {
		// Recv panicked (reported by the oracle): release the reader like a caller with a deferred
		// Close would, so that the writers of this tree are not left blocked by the harness.
		mon.Safe(func() { rd.Close() })
	}
}

// ignoredG: goroutines known to be parked for ever because of an earlier
// reported deadlock / leak; they must not be reported again by later cases.
var ignoredG = map[int]bool{}

func markIgnored(gs []mon.G) {
	for i, g := range gs {
		if i > 0 {
			ignoredG[g.ID] = true
		}
	}
}

func runTree(t *tree, sc schedule, rr *mon.Rand) *runOut {
	out := &runOut{sc: sc, wl: map[int32]*wlog{}}
	m := t.m
	clock.Store(0)
	schedCtr.Store(sc.Seed)
	if sc.Quiet {
		schedCfg.Store(0)
	} else {
		schedCfg.Store(1<<63 | uint64(sc.Hot&0xff)<<8 | uint64(sc.Lvl&0xff))
	}
	defer schedCfg.Store(0)
	stamp := func() uint64 { return clock.Add(1) }
	if sc.Quiet {
		stamp = func() uint64 { return 0 }
	}

	var wg sync.WaitGroup
	type launch func()
	var late []launch
	readers := make([]reader, len(m.readers))
	writers := map[int32]xWriter{}
	// caller-owned slices the array readers are windows of
	bufs := make([]xBuf, len(t.Bufs))
	bufWant := make([][]elem, len(t.Bufs))
	bufOwner := make([][]int32, len(t.Bufs))
	for bi, b := range t.Bufs {
		bufWant[bi] = make([]elem, b.Len)
		bufOwner[bi] = make([]int32, b.Len)
		for c := range bufWant[bi] {
			bufWant[bi][c] = junk(b.Elem, -9, int32(c))
			bufOwner[bi][c] = -1
		}
	}
	for oi := range t.Ops {
		if s := t.Ops[oi].Src; s != nil && !s.Pipe {
			for i := range s.Items {
				bufWant[s.Buf][s.Off+i] = s.elemAt(i)
				bufOwner[s.Buf][s.Off+i] = s.ID
			}
		}
	}
	gates := map[int32]chan struct{}{}

	out.buildPan = mon.Safe(func() {
		for bi, b := range t.Bufs {
			bufs[bi] = newBuf(b.Elem, bufWant[bi])
		}
		for oi := range t.Ops {
			op := &t.Ops[oi]
			out.buildOp = op
			switch op.Kind {
			case "pipe":
				rd, sw := newPipe(op.Src.Elem, op.Src.Cap)
				readers[op.Out[0]] = rd
				writers[op.Src.ID] = sw
				lg := &wlog{}
				out.wl[op.Src.ID] = lg
				s, wr := op.Src, mon.NewRand(rr.Uint64())
				var gate chan struct{}
				if s.AfterEnds && !sc.Quiet {
					gate = make(chan struct{})
					gates[s.ID] = gate
				}
				wg.Add(1)
				start := func() {
					go func() {
						defer wg.Done()
						runWriter(sw, s, gate, wr, lg, stamp)
					}()
				}
				if s.Early {
					start()
				} else {
					late = append(late, start)
				}
			case "array":
				readers[op.Out[0]] = bufs[op.Src.Buf].window(op.Src.Off, len(op.Src.Items), op.Src.SliceCap)
			case "copy":
				outs := readers[op.In[0]].Copy(op.N)
				if len(outs) != len(op.Out) {
					out.buildErr = fmt.Sprintf("Copy(%d) returned %d readers", op.N, len(outs))
					panic("harness: abort build")
				}
				for i, o := range op.Out {
					readers[o] = outs[i]
				}
			case "convert":
				readers[op.Out[0]] = readers[op.In[0]].convert(op.Conv)
			case "merge":
				ins := make([]reader, len(op.In))
				for i, id := range op.In {
					ins[i] = readers[id]
				}
				readers[op.Out[0]] = ins[0].mergeAll(ins)
			case "skip":
				rd := readers[op.In[0]]
				want := m.readers[op.In[0]].strands[0].Els
				for k := 0; k < op.N; k++ {
					v, err := rd.Recv()
					if got := classify(v, err); !got.eq(want[k]) {
						out.buildErr = fmt.Sprintf("pre-read item %d of a static reader: got %v want %v", k, got, want[k])
						panic("harness: abort build")
					}
				}
				readers[op.Out[0]] = rd
			}
		}
	})
	if out.buildPan != nil {
		// early writers may be blocked for ever on readers nobody will drive: give up on this run
		runtime.Gosched()
		markIgnored(mon.Dump())
		return out
	}

	// gate of a late writer: closed when all readers derived from its stream are done
	endGates := make([][]*sync.WaitGroup, len(t.Ends))
	for id, gate := range gates {
		dwg := &sync.WaitGroup{}
		dwg.Add(len(m.derived[id]))
		for _, ei := range m.derived[id] {
			endGates[ei] = append(endGates[ei], dwg)
		}
		go func() { dwg.Wait(); close(gate) }()
	}
	out.el = make([]*elog, len(t.Ends))
	for i := range t.Ends {
		e, lg, er := &t.Ends[i], &elog{fin: make(chan struct{})}, mon.NewRand(rr.Uint64())
		out.el[i] = lg
		rd := readers[e.Reader]
		limit := m.readers[e.Reader].total()
		mine := endGates[i]
		wg.Add(1)
		late = append(late, func() {
			go func() {
				defer wg.Done()
				defer close(lg.fin)
				defer func() {
					for _, d := range mine {
						d.Done()
					}
				}()
				runEnd(rd, e, limit, er, lg, stamp)
			}()
		})
	}
	for _, i := range rr.Perm(len(late)) {
		late[i]()
		if rr.Intn(4) == 0 {
			runtime.Gosched()
		}
	}
	done := make(chan struct{})
	go func() { wg.Wait(); close(done) }()

	out.wait, out.dump = mon.WaitDone(done, 90*time.Second)
	if out.wait != mon.Inconclusive {
		// every harness goroutine is done or parked for good: the caller's slices must still
		// hold exactly what the caller put there
		for bi := range bufs {
			for c, got := range bufs[bi].cells() {
				if want := bufWant[bi][c]; !got.eq(want) {
					out.bufDiffs = append(out.bufDiffs, bufDiff{Buf: bi, Cell: c, Want: want, Got: got, Owner: bufOwner[bi][c]})
				}
			}
		}
	}
	if out.wait != mon.Finished {
		for i, g := range out.dump {
			if i > 0 && !ignoredG[g.ID] {
				out.stuck = append(out.stuck, g)
			}
		}
		markIgnored(out.dump)
		return out
	}
	// post-run clean-up: writers that were scripted never to close are closed by the
	// harness now, so that forwarders waiting on them can end.
	allEndsDone := true
	for i, lg := range out.el {
		if lg.pan != nil || !(lg.closed || lg.sawEOF) {
			allEndsDone = false
		}
		_ = i
	}
	for id, s := range m.srcs {
		if s.Pipe && s.NeverClose {
			sw := writers[id]
			mon.Safe(func() { sw.Close() })
		}
		if s.Pipe && out.wl[id].pan != nil {
			allEndsDone = false
		}
	}
	if allEndsDone {
		out.leakRun = true
		dump, ok := mon.Settle(2, 400)
		out.settled = ok
		if ok {
			for _, g := range mon.Parked(dump, "github.com/cloudwego/eino/") {
				if !ignoredG[g.ID] {
					out.leaked = append(out.leaked, g)
				}
			}
			if len(out.leaked) > 0 {
				markIgnored(dump)
			}
		}
	}
	return out
}
