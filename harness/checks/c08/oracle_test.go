package c08

// Oracle side: decides, from the goroutine-local logs of one execution and the
// reference model of the tree, whether property C08 was violated.

import (
	"fmt"
	"sort"
	"strings"

	"verifharness/internal/mon"
)

// ---------------------------------------------------------------------------
// (a) per-reader sequence oracle: the observed sequence must be a prefix of an
// interleaving of the reader's strands that preserves every strand's order; if
// EOF was observed, the interleaving must be complete.

type matcher struct {
	st      []strand
	obs     []elem
	eof     bool
	dead    map[string]bool
	bestI   int
	bestPos []int
	steps   int
	cls     []int // cls[j]: index of the first strand with exactly the same content as strand j
}

func posKey(pos []int) string {
	b := make([]byte, 2*len(pos))
	for i, p := range pos {
		b[2*i], b[2*i+1] = byte(p>>8), byte(p)
	}
	return string(b)
}

func (m *matcher) note(i int, pos []int) {
	if i > m.bestI || m.bestPos == nil {
		m.bestI = i
		m.bestPos = append([]int(nil), pos...)
	}
}

func (m *matcher) rec(i int, pos []int) bool {
	m.steps++
	if i == len(m.obs) {
		if !m.eof {
			return true
		}
		for j := range m.st {
			if pos[j] != len(m.st[j].Els) {
				m.note(i, pos)
				return false
			}
		}
		return true
	}
	key := posKey(pos)
	if m.dead[key] {
		return false
	}
	for j := range m.st {
		if pos[j] >= len(m.st[j].Els) || !m.st[j].Els[pos[j]].eq(m.obs[i]) {
			continue
		}
		sym := false
		for j2 := 0; j2 < j; j2++ {
			if m.cls[j2] == m.cls[j] && pos[j2] == pos[j] {
				sym = true // an identical strand in the identical state was already tried
				break
			}
		}
		if sym {
			continue
		}
		pos[j]++
		if m.rec(i+1, pos) {
			return true
		}
		pos[j]--
	}
	m.note(i, pos)
	m.dead[key] = true
	return false
}

func sameStrand(a, b *strand) bool {
	if a.sig != b.sig || a.Src != b.Src || len(a.Els) != len(b.Els) {
		return false
	}
	for i := range a.Els {
		if a.Els[i] != b.Els[i] {
			return false
		}
	}
	return true
}

// matchObs returns "" when the observation is allowed, else a violation class and text.
func matchObs(st []strand, obs []elem, eof bool) (class, text string) {
	m := &matcher{st: st, obs: obs, eof: eof, dead: map[string]bool{}, bestI: -1}
	pos := make([]int, len(st))
	m.cls = make([]int, len(st))
	for j := range st {
		m.cls[j] = j
		for j2 := 0; j2 < j; j2++ {
			if sameStrand(&st[j2], &st[j]) {
				m.cls[j] = j2
				break
			}
		}
	}
	if m.rec(0, pos) {
		return "", ""
	}
	i, bp := m.bestI, m.bestPos
	var where []string
	for j, s := range st {
		where = append(where, fmt.Sprintf("strand%d(src %d)@%d/%d", j, s.Src, bp[j], len(s.Els)))
	}
	if i >= len(obs) {
		return "early-eof", fmt.Sprintf("EOF observed after %d items although not every source strand was fully delivered: %s", len(obs), strings.Join(where, " "))
	}
	o := obs[i]
	class = "alien"
	switch o.K {
	case eRecvClosed:
		class = "recv-after-closed-error"
	case ePanic:
		class = "foreign-error"
	default:
		sameID := false
		for j, s := range st {
			for k, e := range s.Els {
				if e.eq(o) {
					if k < bp[j] {
						class = "duplicate"
					} else if class != "duplicate" {
						class = "skipped-or-reordered"
					}
				}
				if e.Src == o.Src && e.Seq == o.Seq {
					sameID = true
				}
			}
		}
		if class == "alien" && sameID {
			class = "wrong-mapping"
		}
	}
	return class, fmt.Sprintf("observed item #%d = %v is not the next item of any source strand (%s); observed so far: %v",
		i, o, strings.Join(where, " "), obs[:i+1])
}

// ---------------------------------------------------------------------------

type witness struct {
	Tree     *tree    `json:"tree"`
	Schedule schedule `json:"schedule"`
	Note     string   `json:"note,omitempty"`
}

func stripGen(f string) string {
	for {
		i := strings.IndexByte(f, '[')
		if i < 0 {
			return f
		}
		depth, j := 0, i
		for ; j < len(f); j++ {
			if f[j] == '[' {
				depth++
			} else if f[j] == ']' {
				depth--
				if depth == 0 {
					break
				}
			}
		}
		if j >= len(f) {
			return f[:i]
		}
		f = f[:i] + f[j+1:]
	}
}

const einoPfx = "github.com/cloudwego/eino/"

func einoFrame(g mon.G) string {
	for _, f := range g.Frames {
		if strings.Contains(f, einoPfx) {
			return stripGen(strings.TrimPrefix(f, einoPfx))
		}
	}
	return ""
}

func frameSet(gs []mon.G) string {
	set := map[string]bool{}
	for _, g := range gs {
		if f := einoFrame(g); f != "" {
			set[f] = true
		}
	}
	var ks []string
	for k := range set {
		ks = append(ks, k)
	}
	sort.Strings(ks)
	return strings.Join(ks, ",")
}

// entrySet names the public stream calls in which harness goroutines are parked
// (the stable part of a deadlock: who waits in which API call).
func entrySet(gs []mon.G) string {
	set := map[string]bool{}
	for _, g := range gs {
		for _, f := range g.Frames {
			if strings.Contains(f, "schema.(*StreamReader") || strings.Contains(f, "schema.(*StreamWriter") {
				f = stripGen(f)
				set[strings.TrimPrefix(f[strings.LastIndex(f, "(*"):], "(*")] = true
				break
			}
		}
	}
	var ks []string
	for k := range set {
		ks = append(ks, strings.ReplaceAll(k, ")", ""))
	}
	sort.Strings(ks)
	if len(ks) == 0 {
		return frameSet(gs)
	}
	return strings.Join(ks, "+")
}

func panicSig(p *mon.Panic) string {
	f := p.FirstFrame(einoPfx)
	if f == "" {
		return "no-eino-frame"
	}
	return stripGen(strings.TrimPrefix(strings.TrimSpace(f), einoPfx))
}

// nilChunkSymptom: a converter that is handed a nil interface value (a legal chunk of a
// StreamReader[any], [error], [fmt.Stringer]) must map it like any other item. When a run shows
// the symptom of a converter choking on such a chunk -- the Recv that runs the converter
// panics; the forwarder goroutine that runs it surfaces the panic as an error item nobody
// sent; a copy is unusable because the panic happened while a sibling filled the shared
// element -- that is reported under its own signature and nothing else is concluded from
// this run: the dying forwarder closed its source, the copy parent never closes it, ... are
// all consequences. Only the logs of ends whose goroutine is done are looked at.
func nilChunkSymptom(t *tree, out *runOut, rep *mon.Reporter, w witness) bool {
	m := t.m
	primary := map[string]string{}
	for i, lg := range out.el {
		rm := &m.readers[t.Ends[i].Reader]
		if !rm.nilIn() {
			continue
		}
		select {
		case <-lg.fin:
		default:
			continue
		}
		who := fmt.Sprintf("end %d (reader %d, %s reader of StreamReader[%s], %d source strands)", i, t.Ends[i].Reader, typNames[rm.typ], etNames[rm.et], len(rm.strands))
		if lg.pan != nil {
			if lg.op == "Recv" {
				primary["Recv-panics"] = fmt.Sprintf("%s panicked in Recv: %s\n%s", who, lg.pan.Value, lg.pan.Stack)
			}
			continue
		}
		var obs []elem
		foreign, afterClosed := 0, 0
		for _, o := range lg.obs {
			switch o.e.K {
			case ePanic:
				foreign++
			case eRecvClosed:
				afterClosed++
			}
			if o.e.K != eEOF {
				obs = append(obs, o.e)
			}
		}
		if foreign+afterClosed == 0 {
			continue
		}
		if class, text := matchObs(rm.strands, obs, lg.sawEOF); class != "" {
			k := "forwarder-surfaces-a-panic-as-error-item"
			if afterClosed > 0 {
				k = "copy-unusable-after-panic-in-sibling"
			} else if class != "foreign-error" {
				continue // the sequence is wrong for another reason: judged by the general oracle
			}
			primary[k] = fmt.Sprintf("%s received an error item that nobody sent, on a path where a converter is handed a nil interface value: %s\nforeign error items seen by this end: %q", who, text, lg.foreign)
		}
	}
	for _, k := range mon.SortedKeys(primary) {
		rep.Violation("C08/convert/nil-interface-chunk/"+k, primary[k], w)
	}
	return len(primary) > 0
}

type stats struct {
	items, recvs, sends, sendsClosed, eofs             int64
	boundExact, boundFwd, told, premChecked            int64
	panicItems, convErrs, srcErrs, ambiguous, copyCons int64
	leakRuns, settleFail                               int64
	endsClosedEarly                                    int64
	filterDelayed                                      int64
	nilItems, bufCells                                 int64
}

// judge evaluates one execution. It reports violations through rep and returns
// the evidence counters of the run plus the digest of the global event order.
func judge(t *tree, out *runOut, rep *mon.Reporter) (st stats, order string) {
	m := t.m
	w := witness{Tree: t, Schedule: out.sc}

	if out.buildPan != nil {
		if op := out.buildOp; op != nil && op.Kind == "skip" && out.buildErr == "" && m.readers[op.In[0]].nilIn() {
			rep.Violation("C08/convert/nil-interface-chunk/Recv-panics", "Recv of a converted array reader (pre-read before it is copied/merged) panicked: "+out.buildPan.Value+"\n"+out.buildPan.Stack, w)
			return
		}
		if out.buildErr != "" {
			rep.Violation("C08/build/"+strings.SplitN(out.buildErr, " ", 2)[0], out.buildErr, w)
		} else {
			rep.Violation("C08/panic/build/"+panicSig(out.buildPan), "panic while building the operator tree: "+out.buildPan.Value+"\n"+out.buildPan.Stack, w)
		}
		return
	}
	// the caller's slices (array sources are windows of them) hold exactly what the caller put there
	st.bufCells = 0
	for _, b := range t.Bufs {
		st.bufCells += int64(b.Len)
	}
	if len(out.bufDiffs) > 0 {
		kinds := map[string][]string{}
		for _, d := range out.bufDiffs {
			k := "spare-capacity"
			if d.Owner >= 0 {
				k = "window-of-another-reader"
			}
			kinds[k] = append(kinds[k], fmt.Sprintf("buffer %d cell %d (array source %d): was %v, is now %v", d.Buf, d.Cell, d.Owner, d.Want, d.Got))
		}
		for _, k := range mon.SortedKeys(kinds) {
			rep.Violation("C08/array/caller-slice-overwritten/"+k,
				fmt.Sprintf("the slice handed to StreamReaderFromArray (a window buf[off:off+len] of a caller-owned buffer) was written to by the stream operators; the readers over that memory no longer deliver the sequence that was put there: %s", strings.Join(kinds[k], "; ")), w)
		}
	}
	switch out.wait {
	case mon.Stuck:
		if nilChunkSymptom(t, out, rep, w) {
			return
		}
		var b strings.Builder
		for _, g := range out.stuck {
			b.WriteString(g.Raw + "\n\n")
		}
		rep.Violation("C08/deadlock/"+entrySet(out.stuck), "parked in: "+frameSet(out.stuck)+"\nprocess quiescent while writers/readers of the tree are unfinished (every goroutine parked, no timer pending):\n"+b.String(), w)
		return
	case mon.Inconclusive:
		rep.Inconclusive("wall-clock watchdog fired while goroutines were still active (not quiescent)")
		return
	}

	if nilChunkSymptom(t, out, rep, w) {
		return
	}

	// panics in the calls made by the ends
	for i, lg := range out.el {
		if lg.pan != nil {
			rep.Violation("C08/panic/"+lg.op+"/"+panicSig(lg.pan), fmt.Sprintf("end %d (reader %d) panicked in %s: %s\n%s", i, t.Ends[i].Reader, lg.op, lg.pan.Value, lg.pan.Stack), w)
		}
	}
	for id, s := range sortedSrcs(m) {
		_ = id
		if lg := out.wl[s.ID]; s.Pipe && lg != nil && lg.pan != nil {
			rep.Violation("C08/panic/"+lg.op+"/"+panicSig(lg.pan), fmt.Sprintf("writer %d panicked in %s: %s\n%s", s.ID, lg.op, lg.pan.Value, lg.pan.Stack), w)
		}
	}

	// (a) sequences
	seqs := make([][]elem, len(out.el))
	for i, lg := range out.el {
		rm := &m.readers[t.Ends[i].Reader]
		var obs []elem
		for _, o := range lg.obs {
			if o.e.K == eEOF {
				continue
			}
			obs = append(obs, o.e)
			switch o.e.K {
			case ePanic:
				st.panicItems++
			case eConvErr:
				st.convErrs++
			case eSrcErr:
				st.srcErrs++
			}
		}
		seqs[i] = obs
		st.items += int64(len(obs))
		st.recvs += int64(len(lg.obs))
		if lg.sawEOF {
			st.eofs++
		} else if lg.closed {
			st.endsClosedEarly++
		}
		if lg.pan != nil {
			continue
		}
		for _, o := range obs {
			if o.K == eVal && nilish(o.Dyn) {
				st.nilItems++
			}
		}
		if class, text := matchObs(rm.strands, obs, lg.sawEOF); class != "" {
			rep.Violation("C08/seq/"+class+"/"+typNames[rm.typ],
				fmt.Sprintf("end %d (reader %d, %s reader of StreamReader[%s], %d source strands): %s\nforeign error items seen by this end: %q", i, t.Ends[i].Reader, typNames[rm.typ], etNames[rm.et], len(rm.strands), text, lg.foreign), w)
		}
	}

	// (b) every copy of a stream sees the same sequence
	for oi := range t.Ops {
		op := &t.Ops[oi]
		if op.Kind != "copy" || op.N < 2 {
			continue
		}
		type kid struct {
			end   int
			chain []*convSpec
		}
		var kids []kid
		for _, c := range op.Out {
			k := kid{end: -1}
			cur := c
			for {
				ci := m.consumer[cur]
				if ci < 0 {
					k.end = m.endOf[cur]
					break
				}
				if t.Ops[ci].Kind != "convert" {
					break
				}
				k.chain = append(k.chain, t.Ops[ci].Conv)
				cur = t.Ops[ci].Out[0]
			}
			if k.end >= 0 && out.el[k.end].pan == nil {
				kids = append(kids, k)
			}
		}
		ref := -1
		for i, k := range kids {
			if len(k.chain) == 0 && (ref < 0 || len(seqs[k.end]) > len(seqs[kids[ref].end])) {
				ref = i
			}
		}
		if ref < 0 || len(kids) < 2 {
			continue
		}
		R := seqs[kids[ref].end]
		for i, k := range kids {
			if i == ref {
				continue
			}
			exp := R
			for _, c := range k.chain {
				exp = convStrand(strand{Els: exp}, c).Els
			}
			got := seqs[k.end]
			n := len(exp)
			if len(got) < n {
				n = len(got)
			}
			st.copyCons++
			for x := 0; x < n; x++ {
				if !exp[x].eq(got[x]) {
					rep.Violation("C08/copy/divergent/"+typNames[m.readers[op.In[0]].typ],
						fmt.Sprintf("two copies of reader %d disagree at position %d: the copy read by end %d saw %v, the copy read by end %d (through %d converters) saw %v where %v was expected",
							op.In[0], x, kids[ref].end, R, k.end, len(k.chain), got, exp), w)
					break
				}
			}
		}
	}

	// writer-side counters
	for _, s := range sortedSrcs(m) {
		if !s.Pipe {
			continue
		}
		for _, r := range out.wl[s.ID].sends {
			st.sends++
			if r.Closed {
				st.sendsClosed++
			}
		}
	}
	if out.leakRun {
		st.leakRuns++
		if !out.settled {
			st.settleFail++
		}
		if len(out.leaked) > 0 {
			var b strings.Builder
			for _, g := range out.leaked {
				b.WriteString(g.Raw + "\n\n")
			}
			rep.Violation("C08/leak/"+frameSet(out.leaked), fmt.Sprintf("%d goroutine(s) with eino frames still parked after every reader was closed or read to EOF and every writer closed:\n%s", len(out.leaked), b.String()), w)
		}
	}
	if out.sc.Quiet {
		return
	}

	// (c) close propagation as bounded progress, (d) no premature "closed"
	for _, s := range sortedSrcs(m) {
		if !s.Pipe {
			continue
		}
		lg := out.wl[s.ID]
		ends := m.derived[s.ID]
		allClosed, T := true, uint64(0)
		for _, ei := range ends {
			el := out.el[ei]
			if !el.closed {
				allClosed = false
				break
			}
			if el.closeEnd > T {
				T = el.closeEnd
			}
		}
		F := m.fwd[s.ID]
		kind := "direct"
		if F > 0 {
			kind = "forwarded"
		}
		if allClosed && len(ends) > 0 {
			accepted, after := 0, 0
			for _, r := range lg.sends {
				if r.T0 > T {
					after++
					if !r.Closed {
						accepted++
					}
				}
			}
			allowed := 0
			if F > 0 {
				allowed = s.Cap + 6*F
			}
			if after > 0 {
				if F == 0 {
					st.boundExact++
				} else {
					st.boundFwd++
				}
				if accepted < after {
					st.told++
				}
			}
			if accepted > allowed {
				// Sends absorbed by a forwarder whose converter dropped the item (no send attempt,
				// so the forwarder never looked at the closed signal) are told apart: if they
				// explain the excess, it is the filtering-forwarder defect, else a plain bound violation.
				// Two shapes are told apart: "deep" = the drop happens where the forwarder cannot see
				// the closed signal at all (inside the recv loop of a converter below the forwarded
				// converter, below a forwarded Copy child, or below a merge read by another
				// forwarder); "shallow" = the dropping converter is itself the input of the merge.
				deep, shallow := 0, 0
				for i, r := range lg.sends {
					if r.T0 > T && !r.Closed {
						if m.fdrop[s.ID][int32(i)] {
							deep++
						} else if m.sdrop[s.ID][int32(i)] {
							shallow++
						}
					}
				}
				sig := "C08/close/not-told-within-bound/" + kind
				if F > 0 && accepted-deep <= allowed {
					sig = "C08/close/not-told-while-converter-drops-items/forwarded"
					st.filterDelayed++
				} else if F > 0 && accepted-deep-shallow <= allowed {
					sig = "C08/close/not-told-while-converter-drops-items/forwarded/converter-directly-below-merge"
					st.filterDelayed++
				}
				rep.Violation(sig,
					fmt.Sprintf("writer of source %d (cap %d, %d forwarder goroutine(s) downstream): the Close of the last of its %d derived readers returned at logical time %d; of the %d Send calls started after that, %d were still accepted (allowed: %d = cap + 6 per forwarder; of the accepted items %d are dropped as no-value by a converter deep below a forwarder and %d by a converter that is directly the input of a merge). sends=%v",
						s.ID, s.Cap, F, len(ends), T, after, accepted, allowed, deep, shallow, lg.sends), w)
			}
		}
		if !m.canPanic[s.ID] {
			for _, r := range lg.sends {
				if !r.Closed {
					continue
				}
				st.premChecked++
				for _, ei := range ends {
					el := out.el[ei]
					if !el.closed || el.closeBegin > r.T1 {
						rep.Violation("C08/close/premature/"+kind,
							fmt.Sprintf("writer of source %d: Send returned closed=true at logical time %d although end %d (reader %d), derived from this stream, had not begun its Close (closed=%v, closeBegin=%d)",
								s.ID, r.T1, ei, t.Ends[ei].Reader, el.closed, el.closeBegin), w)
						break
					}
				}
				break // first report only
			}
		}
	}

	// global order of events
	type ev struct {
		t uint64
		s string
	}
	var evs []ev
	for i, lg := range out.el {
		for _, o := range lg.obs {
			evs = append(evs, ev{o.t, fmt.Sprintf("e%d:%d", i, o.e.K)})
		}
		if lg.closed {
			evs = append(evs, ev{lg.closeEnd, fmt.Sprintf("e%d:c", i)})
		}
	}
	for _, s := range sortedSrcs(m) {
		if !s.Pipe {
			continue
		}
		lg := out.wl[s.ID]
		for _, r := range lg.sends {
			evs = append(evs, ev{r.T1, fmt.Sprintf("w%d:%v", s.ID, r.Closed)})
		}
		if lg.closed {
			evs = append(evs, ev{lg.closeT, fmt.Sprintf("w%d:c", s.ID)})
		}
	}
	sort.Slice(evs, func(i, j int) bool { return evs[i].t < evs[j].t })
	var b strings.Builder
	for _, e := range evs {
		b.WriteString(e.s)
		b.WriteByte(' ')
	}
	return st, b.String()
}

func sortedSrcs(m *model) []*srcSpec {
	ids := make([]int, 0, len(m.srcs))
	for id := range m.srcs {
		ids = append(ids, int(id))
	}
	sort.Ints(ids)
	out := make([]*srcSpec, len(ids))
	for i, id := range ids {
		out[i] = m.srcs[int32(id)]
	}
	return out
}
