package c08

// Specification side of the C08 check: item identities, the operator-tree
// spec (a pure function of the case rng), and the reference model that derives
// from the tree, for every reader, the set of "strands" (source-to-reader paths
// with their deterministic item-wise transformation). No eino code is used in
// this file except the sentinel schema.ErrNoValue handed out by converters.

import (
	"fmt"
	"sort"
	"strings"

	"github.com/cloudwego/eino/schema"

	"verifharness/internal/mon"
)

// ---------------------------------------------------------------------------
// items

// tok is the chunk type of every stream of the workload. (Src, Seq) is the
// unique identity given by the producer; Val is rewritten by every converter on
// the path, so that the path taken by a delivered value is visible in it.
type tok struct {
	Src, Seq int32
	Val      uint64
}

// srcErr is an error item sent by a writer.
type srcErr struct{ Src, Seq int32 }

func (e *srcErr) Error() string { return fmt.Sprintf("srcErr(%d,%d)", e.Src, e.Seq) }

// convErr is an error returned by a converter for one item.
type convErr struct{ Conv, Src, Seq int32 }

func (e *convErr) Error() string { return fmt.Sprintf("convErr(c%d:%d,%d)", e.Conv, e.Src, e.Seq) }

// panicVal is what a panicking converter panics with.
type panicVal struct{ Conv, Src, Seq int32 }

const (
	eVal        uint8 = iota // a value
	eSrcErr                  // error item sent by a writer
	eConvErr                 // error item produced by a converter
	ePanic                   // foreign error item: a recovered converter panic surfaced by a forwarder
	eRecvClosed              // schema.ErrRecvAfterClosed (never expected)
	eEOF
)

var kindNames = []string{"val", "srcErr", "convErr", "foreignErr", "recvAfterClosed", "EOF"}

// elem is one expected / observed stream item.
type elem struct {
	K    uint8
	Src  int32
	Seq  int32
	Conv int32
	Val  uint64
}

func (e elem) String() string {
	switch e.K {
	case eVal:
		return fmt.Sprintf("v(%d.%d:%x)", e.Src, e.Seq, e.Val&0xffff)
	case eSrcErr:
		return fmt.Sprintf("E(%d.%d)", e.Src, e.Seq)
	case eConvErr:
		return fmt.Sprintf("CE(c%d:%d.%d)", e.Conv, e.Src, e.Seq)
	}
	return kindNames[e.K]
}

func (e elem) eq(o elem) bool {
	if e.K != o.K {
		return false
	}
	if e.K == ePanic || e.K == eRecvClosed || e.K == eEOF {
		return true
	}
	return e == o
}

func mix64(z uint64) uint64 {
	z += 0x9e3779b97f4a7c15
	z = (z ^ (z >> 30)) * 0xbf58476d1ce4e5b9
	z = (z ^ (z >> 27)) * 0x94d049bb133111eb
	return z ^ (z >> 31)
}

func val0(src, seq int32) uint64 { return mix64(uint64(uint32(src))<<32 | uint64(uint32(seq))) }

// ---------------------------------------------------------------------------
// spec

type srcSpec struct {
	ID    int32  `json:"id"`
	Pipe  bool   `json:"pipe"`
	Cap   int    `json:"cap,omitempty"`
	Items []int8 `json:"items"` // kind per item: 0 value, 1 error only, 2 error and chunk both set
	// writer script (Pipe only)
	Pace       int  `json:"pace,omitempty"`       // 0 fast, 1 gosched, 2 sleepy
	Continue   bool `json:"continue,omitempty"`   // keep sending after Send reported closed
	NeverClose bool `json:"neverClose,omitempty"` // writer does not Close during the run (harness closes it afterwards)
	Early      bool `json:"early,omitempty"`      // writer goroutine started while the tree is still being built
	AfterEnds  bool `json:"afterEnds,omitempty"`  // writer starts sending only after all readers derived from it were closed (they all close at once)
}

const (
	bPass = iota
	bDrop
	bFail
	bPanic
)

type convSpec struct {
	ID    int32  `json:"id"`
	Seed  uint64 `json:"seed"`
	Drop  int    `json:"drop"`  // of 16
	Fail  int    `json:"fail"`  // of 16
	Panic int    `json:"panic"` // of 16
	Wrap  bool   `json:"wrap"`  // return ErrNoValue wrapped with %w
}

func (c *convSpec) beh(src, seq int32) int {
	h := int(mix64(c.Seed^val0(src, seq)) % 16)
	switch {
	case h < c.Drop:
		return bDrop
	case h < c.Drop+c.Fail:
		return bFail
	case h < c.Drop+c.Fail+c.Panic:
		return bPanic
	}
	return bPass
}

func (c *convSpec) mapVal(v uint64) uint64 { return mix64(v ^ c.Seed) }

// fn is the real converter handed to eino: a pure function (no shared state, so
// it adds no synchronisation of its own).
func (c *convSpec) fn() func(tok) (tok, error) {
	return func(t tok) (tok, error) {
		switch c.beh(t.Src, t.Seq) {
		case bDrop:
			if c.Wrap {
				return tok{Src: -7}, fmt.Errorf("skipped by c%d: %w", c.ID, schema.ErrNoValue)
			}
			return tok{Src: -7}, schema.ErrNoValue
		case bFail:
			return tok{Src: -8}, &convErr{Conv: c.ID, Src: t.Src, Seq: t.Seq}
		case bPanic:
			panic(panicVal{Conv: c.ID, Src: t.Src, Seq: t.Seq})
		}
		return tok{Src: t.Src, Seq: t.Seq, Val: c.mapVal(t.Val)}, nil
	}
}

type opSpec struct {
	Kind string    `json:"op"` // pipe | array | copy | merge | convert | skip
	In   []int     `json:"in,omitempty"`
	Out  []int     `json:"out"`
	Src  *srcSpec  `json:"src,omitempty"`
	Conv *convSpec `json:"conv,omitempty"`
	N    int       `json:"n,omitempty"` // copy count / skip count
}

const (
	modeAll = iota
	modePrefix
	modeCloseNow
)

type endSpec struct {
	Reader int  `json:"reader"`
	Mode   int  `json:"mode"` // 0 read to EOF, 1 read K items, 2 close at once
	K      int  `json:"k,omitempty"`
	Close  bool `json:"close"`
	Pace   int  `json:"pace,omitempty"`
}

type tree struct {
	Procs int       `json:"gomaxprocs"`
	Ops   []opSpec  `json:"ops"`
	Ends  []endSpec `json:"ends"`

	m *model
}

// ---------------------------------------------------------------------------
// model

type rtyp int

const (
	tStream rtyp = iota
	tArray
	tMulti
	tConv
	tChild
)

var typNames = []string{"stream", "array", "merge", "convert", "child"}

type strand struct {
	Src  int32
	Els  []elem
	sig  uint64
	Pan  bool // ends with a forwarder-surfaced panic item
	conv []int32
	// seqs of the source's items dropped (no-value) by converters on this path so far, and the
	// subset of them dropped *below* a forwarder goroutine (such an item is consumed by the
	// forwarder without a send attempt, i.e. without the forwarder looking at `closed`)
	drops  []int32
	fdrops []int32
}

func (s *strand) seal() {
	h := mix64(uint64(1469598103934665603) ^ uint64(uint32(s.Src)))
	for _, e := range s.Els {
		h = mix64(h ^ uint64(e.K))
		h = mix64(h ^ uint64(uint32(e.Seq)) ^ uint64(uint32(e.Conv))<<32)
		h = mix64(h ^ e.Val)
	}
	s.sig = h
}

type rmodel struct {
	typ      rtyp
	depth    int
	strands  []strand
	nStreams int  // tMulti: number of channel streams selected over
	static   bool // array-backed, never blocks
	up       []int32
}

func (m *rmodel) total() int {
	n := 0
	for _, s := range m.strands {
		n += len(s.Els)
	}
	return n
}

type model struct {
	readers  []rmodel
	consumer []int // reader id -> op index consuming it, -1: endpoint
	srcs     map[int32]*srcSpec
	fwd      map[int32]int // pipe source -> number of forwarder goroutines downstream
	nFwd     int
	canPanic map[int32]bool
	fdrop    map[int32]map[int32]bool // pipe source -> seqs dropped by a converter below a forwarder
	derived  map[int32][]int          // pipe source -> indices into tree.Ends
	endOf    map[int]int              // reader id -> index into Ends
	nStatic  int                      // merges using the static select (2..5 streams)
	nReflect int                      // merges using reflect.Select (>5 streams)
}

func unionSrc(a, b []int32) []int32 {
	seen := map[int32]bool{}
	var out []int32
	for _, x := range a {
		if !seen[x] {
			seen[x] = true
			out = append(out, x)
		}
	}
	for _, x := range b {
		if !seen[x] {
			seen[x] = true
			out = append(out, x)
		}
	}
	sort.Slice(out, func(i, j int) bool { return out[i] < out[j] })
	return out
}

func cloneStrands(in []strand) []strand {
	out := make([]strand, len(in))
	copy(out, in)
	return out
}

func srcStrand(s *srcSpec) strand {
	st := strand{Src: s.ID}
	for i, k := range s.Items {
		if k == 0 {
			st.Els = append(st.Els, elem{K: eVal, Src: s.ID, Seq: int32(i), Val: val0(s.ID, int32(i))})
		} else {
			st.Els = append(st.Els, elem{K: eSrcErr, Src: s.ID, Seq: int32(i)})
		}
	}
	st.seal()
	return st
}

// convStrand is the reference semantics of StreamReaderWithConvert on one
// strand: values are mapped, no-value items dropped, converter errors become
// error items at that position, error items pass untouched; a converter panic
// ends the strand with one foreign error item (the forwarder surfaces it).
func convStrand(in strand, c *convSpec) strand {
	out := strand{Src: in.Src, Pan: in.Pan, conv: append(append([]int32{}, in.conv...), c.ID),
		drops: append([]int32{}, in.drops...), fdrops: in.fdrops}
	for _, e := range in.Els {
		if e.K != eVal {
			out.Els = append(out.Els, e)
			continue
		}
		switch c.beh(e.Src, e.Seq) {
		case bPass:
			e.Val = c.mapVal(e.Val)
			out.Els = append(out.Els, e)
		case bDrop:
			out.drops = append(out.drops, e.Seq)
		case bFail:
			out.Els = append(out.Els, elem{K: eConvErr, Src: e.Src, Seq: e.Seq, Conv: c.ID})
		case bPanic:
			out.Els = append(out.Els, elem{K: ePanic})
			out.Pan = true
			out.seal()
			return out
		}
	}
	out.seal()
	return out
}

// addOp extends the model by one operator; ops must be added in construction order.
func (m *model) addOp(idx int, op *opSpec) {
	need := 0
	for _, o := range op.Out {
		if o+1 > need {
			need = o + 1
		}
	}
	for len(m.readers) < need {
		m.readers = append(m.readers, rmodel{})
		m.consumer = append(m.consumer, -1)
	}
	for _, in := range op.In {
		m.consumer[in] = idx
	}
	switch op.Kind {
	case "pipe":
		m.srcs[op.Src.ID] = op.Src
		m.readers[op.Out[0]] = rmodel{typ: tStream, strands: []strand{srcStrand(op.Src)}, up: []int32{op.Src.ID}}
	case "array":
		m.srcs[op.Src.ID] = op.Src
		m.readers[op.Out[0]] = rmodel{typ: tArray, strands: []strand{srcStrand(op.Src)}, static: true}
	case "copy":
		in := m.readers[op.In[0]]
		for _, o := range op.Out {
			c := in
			c.strands = cloneStrands(in.strands)
			if op.N >= 2 {
				c.depth = in.depth + 1
				if in.typ != tArray {
					c.typ = tChild
					c.static = false
					c.nStreams = 0
				}
			}
			m.readers[o] = c
		}
	case "convert":
		in := m.readers[op.In[0]]
		c := rmodel{typ: tConv, depth: in.depth + 1, static: in.static, up: in.up}
		for _, s := range in.strands {
			c.strands = append(c.strands, convStrand(s, op.Conv))
		}
		m.readers[op.Out[0]] = c
	case "skip":
		in := m.readers[op.In[0]]
		c := in
		c.strands = cloneStrands(in.strands)
		c.strands[0].Els = c.strands[0].Els[op.N:]
		c.strands[0].seal()
		m.readers[op.Out[0]] = c
	case "merge":
		if len(op.In) == 1 {
			m.readers[op.Out[0]] = m.readers[op.In[0]]
			return
		}
		c := rmodel{typ: tMulti}
		streams, arrLen := 0, 0
		for _, i := range op.In {
			in := m.readers[i]
			if in.depth+1 > c.depth {
				c.depth = in.depth + 1
			}
			ins := cloneStrands(in.strands)
			if in.typ == tConv || in.typ == tChild {
				for k := range ins {
					ins[k].fdrops = append(append([]int32{}, ins[k].fdrops...), ins[k].drops...)
				}
			}
			c.strands = append(c.strands, ins...)
			c.up = unionSrc(c.up, in.up)
			switch in.typ {
			case tStream:
				streams++
			case tArray:
				arrLen += in.total()
			case tMulti:
				streams += in.nStreams
			case tConv, tChild:
				streams++
				m.nFwd++
				for _, s := range in.up {
					m.fwd[s]++
				}
			}
		}
		if streams == 0 && arrLen != 0 {
			c.typ = tArray
			c.static = true
		} else {
			if arrLen != 0 {
				streams++
			}
			c.nStreams = streams
			if streams > 5 {
				m.nReflect++
			} else if streams >= 2 {
				m.nStatic++
			}
		}
		m.readers[op.Out[0]] = c
	default:
		panic("unknown op " + op.Kind)
	}
}

func newModel() *model {
	return &model{srcs: map[int32]*srcSpec{}, fwd: map[int32]int{}, canPanic: map[int32]bool{}, fdrop: map[int32]map[int32]bool{},
		derived: map[int32][]int{}, endOf: map[int]int{}}
}

// finish computes the per-source facts once the endpoints are known.
func (m *model) finish(t *tree) {
	for i, e := range t.Ends {
		m.endOf[e.Reader] = i
		r := &m.readers[e.Reader]
		for _, s := range r.up {
			m.derived[s] = append(m.derived[s], i)
		}
		for _, st := range r.strands {
			if st.Pan {
				m.canPanic[st.Src] = true
			}
			for _, q := range st.fdrops {
				if m.fdrop[st.Src] == nil {
					m.fdrop[st.Src] = map[int32]bool{}
				}
				m.fdrop[st.Src][q] = true
			}
		}
	}
}

// ---------------------------------------------------------------------------
// generator

type gen struct {
	r      *mon.Rand
	t      *tree
	m      *model
	pool   []int
	nextR  int
	nSrc   int32
	nConv  int32
	nItems int
}

const (
	maxSources   = 16
	maxEndpoints = 10
	maxDepth     = 3
)

func (g *gen) newReader() int { g.nextR++; return g.nextR - 1 }

func (g *gen) add(op opSpec) {
	g.t.Ops = append(g.t.Ops, op)
	g.m.addOp(len(g.t.Ops)-1, &g.t.Ops[len(g.t.Ops)-1])
}

func (g *gen) newSource() int { return g.newSourceWith(nil) }

// newSourceWith: tweak may adjust the freshly drawn spec before it is added to the tree.
func (g *gen) newSourceWith(tweak func(*srcSpec)) int {
	r := g.r
	s := &srcSpec{ID: g.nSrc, Pipe: r.Prob(0.68)}
	g.nSrc++
	n := 0
	switch x := r.Intn(100); {
	case x < 5:
		n = 0
	case x < 70:
		n = r.Range(1, 6)
	case x < 93:
		n = r.Range(7, 12)
	default:
		n = r.Range(14, 30)
	}
	if g.nItems > 160 && n > 3 {
		n = r.Range(0, 3)
	}
	g.nItems += n
	s.Items = make([]int8, n)
	kind := "array"
	if s.Pipe {
		kind = "pipe"
		s.Cap = r.Intn(5)
		for i := range s.Items {
			switch x := r.Intn(100); {
			case x < 9:
				s.Items[i] = 1
			case x < 14:
				s.Items[i] = 2
			}
		}
		s.Pace = []int{0, 0, 0, 1, 1, 2}[r.Intn(6)]
		s.Continue = r.Bool()
		s.NeverClose = r.Prob(0.06)
		s.Early = r.Bool()
	}
	if tweak != nil {
		tweak(s)
		kind = "pipe"
		if !s.Pipe {
			kind = "array"
		}
	}
	out := g.newReader()
	g.add(opSpec{Kind: kind, Out: []int{out}, Src: s})
	return out
}

// input takes a reader of depth <= maxD out of the pool or creates a new source.
func (g *gen) input(maxD int) int {
	var cand []int
	for i, id := range g.pool {
		if g.m.readers[id].depth <= maxD {
			cand = append(cand, i)
		}
	}
	fromPool := len(cand) > 0 && (g.r.Prob(0.55) || g.nSrc >= maxSources)
	if fromPool {
		i := cand[g.r.Intn(len(cand))]
		id := g.pool[i]
		g.pool = append(g.pool[:i], g.pool[i+1:]...)
		return id
	}
	return g.newSource()
}

func (g *gen) convert(in int, panicky bool) int { return g.convertWith(in, panicky, nil) }

func (g *gen) convertWith(in int, panicky bool, tweak func(*convSpec)) int {
	r := g.r
	c := &convSpec{ID: g.nConv, Seed: r.Uint64(), Wrap: r.Prob(0.3)}
	g.nConv++
	switch r.Intn(5) {
	case 0: // pure map
	case 1:
		c.Drop = r.Range(2, 8)
	case 2:
		c.Fail = r.Range(1, 5)
	default:
		c.Drop = r.Range(1, 5)
		c.Fail = r.Range(0, 3)
	}
	if panicky {
		c.Panic = r.Range(2, 6)
	}
	if tweak != nil {
		tweak(c)
	}
	out := g.newReader()
	g.add(opSpec{Kind: "convert", In: []int{in}, Out: []int{out}, Conv: c})
	return out
}

func (g *gen) step() {
	r := g.r
	switch x := r.Intn(100); {
	case x < 42: // merge
		m := 0
		switch y := r.Intn(100); {
		case y < 3:
			m = 1
		case y < 55:
			m = r.Range(2, 4)
		case y < 78:
			m = r.Range(5, 6)
		default:
			m = r.Range(7, 8)
		}
		var ins []int
		for len(ins) < m {
			in := g.input(maxDepth - 1)
			if g.m.readers[in].depth <= 1 && r.Prob(0.22) {
				in = g.convert(in, false)
			}
			if m >= 2 && g.m.readers[in].depth <= 1 && len(g.m.readers[in].strands) == 1 && !g.m.readers[in].strands[0].Pan && r.Prob(0.14) {
				// a panicking converter is only ever placed where a forwarder goroutine will run it:
				// on a single-strand input that goes (through converters only) straight into a merge.
				in = g.convert(in, true)
				if g.m.readers[in].depth <= 1 && r.Prob(0.3) {
					in = g.convert(in, false)
				}
			}
			ins = append(ins, in)
		}
		out := g.newReader()
		g.add(opSpec{Kind: "merge", In: ins, Out: []int{out}})
		g.pool = append(g.pool, out)
	case x < 68: // copy
		in := g.input(maxDepth - 1)
		n := []int{1, 2, 2, 2, 3, 3, 4, 5, 6}[r.Intn(9)]
		if room := maxEndpoints - len(g.pool); n > room {
			n = room
		}
		if n < 1 {
			n = 1
		}
		outs := make([]int, n)
		for i := range outs {
			outs[i] = g.newReader()
		}
		g.add(opSpec{Kind: "copy", In: []int{in}, Out: outs, N: n})
		g.pool = append(g.pool, outs...)
	case x < 93: // convert
		in := g.input(maxDepth - 1)
		g.pool = append(g.pool, g.convert(in, false))
	default: // pre-read a few items of a static (array-backed) single-strand reader before it is used further
		for i, id := range g.pool {
			rm := g.m.readers[id]
			if rm.static && len(rm.strands) == 1 && len(rm.strands[0].Els) > 0 {
				out := g.newReader()
				g.add(opSpec{Kind: "skip", In: []int{id}, Out: []int{out}, N: r.Range(1, len(rm.strands[0].Els))})
				g.pool[i] = out
				return
			}
		}
		g.pool = append(g.pool, g.newSource())
	}
}

func genTree(r *mon.Rand) *tree {
	g := &gen{r: r, t: &tree{}, m: newModel()}
	g.t.Procs = []int{1, 4, 16}[r.Intn(3)]
	probe := r.Prob(0.02)
	if probe {
		g.probe()
	} else {
		nOps := r.Range(1, 7)
		for i := 0; i < nOps; i++ {
			g.step()
		}
	}
	if len(g.pool) == 0 {
		g.pool = append(g.pool, g.newSource())
	}
	// endpoints, in a random start order
	perm := r.Perm(len(g.pool))
	for _, pi := range perm {
		id := g.pool[pi]
		rm := &g.m.readers[id]
		e := endSpec{Reader: id, Pace: []int{0, 0, 0, 1, 1, 2}[r.Intn(6)], Close: true}
		switch x := r.Intn(100); {
		case probe:
			e.Mode = modeCloseNow
		case x < 45:
			e.Mode = modeAll
			e.Close = r.Prob(0.85)
		case x < 82:
			e.Mode = modePrefix
			e.K = r.Range(0, rm.total())
		default:
			e.Mode = modeCloseNow
		}
		g.t.Ends = append(g.t.Ends, e)
	}
	g.m.finish(g.t)
	// A writer that never closes would block a read-to-EOF forever: such readers read
	// exactly the (deterministic) complete length instead, then close.
	for s, spec := range g.m.srcs {
		if !spec.Pipe || !spec.NeverClose {
			continue
		}
		for _, ei := range g.m.derived[s] {
			e := &g.t.Ends[ei]
			if e.Mode == modeAll {
				e.Mode = modePrefix
				e.K = g.m.readers[e.Reader].total()
				e.Close = true
			}
		}
	}
	// Writers whose derived readers all close at once may be scripted to start only after
	// those closes returned: then every Send is a "send after the last Close".
	for _, spec := range sortedSrcs(g.m) {
		if !spec.Pipe || len(g.m.derived[spec.ID]) == 0 {
			continue
		}
		all := true
		for _, ei := range g.m.derived[spec.ID] {
			if g.t.Ends[ei].Mode != modeCloseNow {
				all = false
			}
		}
		if all && (probe || r.Prob(0.6)) {
			spec.AfterEnds = true
		}
	}
	g.t.m = g.m
	return g.t
}

// probe: a small family of trees aimed at close propagation through a filtering
// converter below a forwarder: Pipe -> converters (one of them dropping most or all
// items) -> merge with other sources -> reader closed at once, writer starting late.
func (g *gen) probe() {
	r := g.r
	in := g.newSourceWith(func(s *srcSpec) {
		if !s.Pipe {
			s.Pipe, s.Cap, s.Pace = true, r.Intn(5), r.Intn(2)
		}
		s.Items = make([]int8, r.Range(10, 18))
		s.Continue, s.NeverClose = true, false
	})
	n := r.Range(1, 2)
	hot := r.Intn(n)
	for i := 0; i < n; i++ {
		drop := 0
		if i == hot {
			drop = []int{16, 16, 14}[r.Intn(3)]
		}
		in = g.convertWith(in, false, func(c *convSpec) { c.Fail, c.Drop = 0, drop })
	}
	ins := []int{in}
	for k := r.Range(1, 3); k > 0; k-- {
		ins = append(ins, g.newSource())
	}
	out := g.newReader()
	g.add(opSpec{Kind: "merge", In: ins, Out: []int{out}})
	g.pool = append(g.pool, out)
}

// shape is the operator-tree shape without item contents and scripts.
func (t *tree) shape() string {
	var b strings.Builder
	for _, op := range t.Ops {
		switch op.Kind {
		case "pipe":
			fmt.Fprintf(&b, "P%d;", op.Src.Cap)
		case "array":
			b.WriteString("A;")
		case "copy":
			fmt.Fprintf(&b, "C%d(%d);", op.N, op.In[0])
		case "merge":
			fmt.Fprintf(&b, "M%v;", op.In)
		case "convert":
			k := "m"
			if op.Conv.Drop > 0 {
				k += "d"
			}
			if op.Conv.Fail > 0 {
				k += "f"
			}
			if op.Conv.Panic > 0 {
				k += "p"
			}
			fmt.Fprintf(&b, "V%s(%d);", k, op.In[0])
		case "skip":
			fmt.Fprintf(&b, "S(%d);", op.In[0])
		}
	}
	return b.String()
}
