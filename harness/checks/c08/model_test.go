package c08

// Specification side of the C08 check: item identities, the operator-tree
// spec (a pure function of the case rng), and the reference model that derives
// from the tree, for every reader, the set of "strands" (source-to-reader paths
// with their deterministic item-wise transformation). No eino code is used in
// this file except the sentinel schema.ErrNoValue handed out by converters.

import (
	"fmt"
	"sort"
	"strings"
)

// ---------------------------------------------------------------------------
// items

// tok is the chunk type of every stream of the workload. (Src, Seq) is the
// unique identity given by the producer; Val is rewritten by every converter on
// the path, so that the path taken by a delivered value is visible in it.
type tok struct {
	Src, Seq int32
	Val      uint64
}

// srcErr is an error item sent by a writer.
type srcErr struct{ Src, Seq int32 }

func (e *srcErr) Error() string { return fmt.Sprintf("srcErr(%d,%d)", e.Src, e.Seq) }

// convErr is an error returned by a converter for one item.
type convErr struct{ Conv, Src, Seq int32 }

func (e *convErr) Error() string { return fmt.Sprintf("convErr(c%d:%d,%d)", e.Conv, e.Src, e.Seq) }

// panicVal is what a panicking converter panics with.
type panicVal struct{ Conv, Src, Seq int32 }

const (
	eVal        uint8 = iota // a value
	eSrcErr                  // error item sent by a writer
	eConvErr                 // error item produced by a converter
	ePanic                   // foreign error item: a recovered converter panic surfaced by a forwarder
	eRecvClosed              // schema.ErrRecvAfterClosed (never expected)
	eEOF
)

var kindNames = []string{"val", "srcErr", "convErr", "foreignErr", "recvAfterClosed", "EOF"}

// elem is one expected / observed stream item.
// Dyn/Src/Seq/Conv/Val are the visible content (a nil item carries no identity: Src = Seq = -1);
// org is model-only: the seq of the source item this element descends from (never compared
// with an observation).
type elem struct {
	K    uint8
	Dyn  uint8
	Src  int32
	Seq  int32
	Conv int32
	Val  uint64
	org  int32
}

func (e elem) String() string {
	switch e.K {
	case eVal:
		if e.Dyn != dTok {
			return fmt.Sprintf("v<%s>(%d.%d:%x)", dynNames[e.Dyn], e.Src, e.Seq, e.Val&0xffff)
		}
		return fmt.Sprintf("v(%d.%d:%x)", e.Src, e.Seq, e.Val&0xffff)
	case eSrcErr:
		return fmt.Sprintf("E(%d.%d)", e.Src, e.Seq)
	case eConvErr:
		return fmt.Sprintf("CE(c%d:%d.%d)", e.Conv, e.Src, e.Seq)
	}
	return kindNames[e.K]
}

func (e elem) eq(o elem) bool {
	if e.K != o.K {
		return false
	}
	if e.K == ePanic || e.K == eRecvClosed || e.K == eEOF {
		return true
	}
	return e.Dyn == o.Dyn && e.Src == o.Src && e.Seq == o.Seq && e.Conv == o.Conv && e.Val == o.Val
}

func mix64(z uint64) uint64 {
	z += 0x9e3779b97f4a7c15
	z = (z ^ (z >> 30)) * 0xbf58476d1ce4e5b9
	z = (z ^ (z >> 27)) * 0x94d049bb133111eb
	return z ^ (z >> 31)
}

func val0(src, seq int32) uint64 { return mix64(uint64(uint32(src))<<32 | uint64(uint32(seq))) }

// ---------------------------------------------------------------------------
// spec

type srcSpec struct {
	ID    int32  `json:"id"`
	Pipe  bool   `json:"pipe"`
	Cap   int    `json:"cap,omitempty"`
	Elem  etype  `json:"elem,omitempty"` // element type of the stream (0: tok)
	Items []int8 `json:"items"`          // kind per item: 0 value, 1 error only, 2 error and chunk both set
	Dyn   []int8 `json:"dyn,omitempty"`  // dynamic kind of the chunk of every item (absent: tok)
	// array sources: the reader is created over buf[Off : Off+len(Items) : Off+Cap] of caller-owned buffer Buf
	Buf      int `json:"buf,omitempty"`
	Off      int `json:"off,omitempty"`
	SliceCap int `json:"slicecap,omitempty"`
	// writer script (Pipe only)
	Pace       int  `json:"pace,omitempty"`       // 0 fast, 1 gosched, 2 sleepy
	Continue   bool `json:"continue,omitempty"`   // keep sending after Send reported closed
	NeverClose bool `json:"neverClose,omitempty"` // writer does not Close during the run (harness closes it afterwards)
	Early      bool `json:"early,omitempty"`      // writer goroutine started while the tree is still being built
	AfterEnds  bool `json:"afterEnds,omitempty"`  // writer starts sending only after all readers derived from it were closed (they all close at once)
}

// elemAt: what the producer sends as item i (visible content + model-only origin).
func (s *srcSpec) elemAt(i int) elem {
	if s.Items[i] == 1 {
		return elem{K: eSrcErr, Src: s.ID, Seq: int32(i), org: int32(i)}
	}
	d := dTok
	if len(s.Dyn) > 0 {
		d = uint8(s.Dyn[i])
	}
	e := elem{K: eVal, Dyn: d, Src: -1, Seq: -1, org: int32(i)}
	if !nilish(d) {
		e.Src, e.Seq, e.Val = s.ID, int32(i), val0(s.ID, int32(i))
	}
	return e
}

const (
	bPass = iota
	bDrop
	bFail
	bPanic
)

type convSpec struct {
	ID    int32  `json:"id"`
	Seed  uint64 `json:"seed"`
	Drop  int    `json:"drop"`  // of 16
	Fail  int    `json:"fail"`  // of 16
	Panic int    `json:"panic"` // of 16
	Wrap  bool   `json:"wrap"`  // return ErrNoValue wrapped with %w
	// element types: the converter is a func(From) (To, error)
	From   etype `json:"from,omitempty"`
	To     etype `json:"to,omitempty"`
	NilOut int   `json:"nilOut,omitempty"` // of 16: share of the passed items mapped to a nil value of To (if To admits one)
	Keep   bool  `json:"keep,omitempty"`   // keep the dynamic kind of the input when To admits it
}

// apply is the item-wise semantics of the converter: a pure function of the *visible*
// content of the input chunk (a nil chunk carries no identity, so all nil chunks of one
// kind are treated alike). Used by the real converter (convFn) and by the model.
func (c *convSpec) apply(in elem) (int, elem) {
	h := mix64(c.Seed ^ mix64(uint64(in.Dyn)<<56^uint64(uint32(in.Src))<<32^uint64(uint32(in.Seq))))
	switch x := int(h % 16); {
	case x < c.Drop:
		return bDrop, elem{}
	case x < c.Drop+c.Fail:
		return bFail, elem{}
	case x < c.Drop+c.Fail+c.Panic:
		return bPanic, elem{}
	}
	al, nn := allowedDyn[c.To], nNilish[c.To]
	var d uint8
	switch {
	case nn > 0 && int((h>>8)%16) < c.NilOut:
		d = al[int((h>>16)%uint64(nn))]
	case c.Keep && !nilish(in.Dyn) && admits(c.To, in.Dyn):
		d = in.Dyn
	default:
		non := al[nn:]
		d = non[int((h>>24)%uint64(len(non)))]
	}
	if nilish(d) {
		return bPass, elem{K: eVal, Dyn: d, Src: -1, Seq: -1}
	}
	return bPass, elem{K: eVal, Dyn: d, Src: in.Src, Seq: in.Seq, Val: c.mapVal(in.Val)}
}

func admits(et etype, d uint8) bool {
	for _, x := range allowedDyn[et] {
		if x == d {
			return true
		}
	}
	return false
}

func (c *convSpec) mapVal(v uint64) uint64 { return mix64(v ^ c.Seed) }

type opSpec struct {
	Kind string    `json:"op"` // pipe | array | copy | merge | convert | skip
	In   []int     `json:"in,omitempty"`
	Out  []int     `json:"out"`
	Src  *srcSpec  `json:"src,omitempty"`
	Conv *convSpec `json:"conv,omitempty"`
	N    int       `json:"n,omitempty"` // copy count / skip count
}

const (
	modeAll = iota
	modePrefix
	modeCloseNow
)

type endSpec struct {
	Reader int  `json:"reader"`
	Mode   int  `json:"mode"` // 0 read to EOF, 1 read K items, 2 close at once
	K      int  `json:"k,omitempty"`
	Close  bool `json:"close"`
	Pace   int  `json:"pace,omitempty"`
}

// bufSpec: a slice owned by the caller; array sources are windows of it, every cell not
// covered by a window holds a filler item. It must be unchanged after the run.
type bufSpec struct {
	Elem etype `json:"elem,omitempty"`
	Len  int   `json:"len"`
}

type tree struct {
	Procs int       `json:"gomaxprocs"`
	Typed bool      `json:"typed,omitempty"`
	Probe string    `json:"probe,omitempty"`
	Bufs  []bufSpec `json:"bufs,omitempty"`
	Ops   []opSpec  `json:"ops"`
	Ends  []endSpec `json:"ends"`

	m *model
}

// ---------------------------------------------------------------------------
// model

type rtyp int

const (
	tStream rtyp = iota
	tArray
	tMulti
	tConv
	tChild
)

var typNames = []string{"stream", "array", "merge", "convert", "child"}

type strand struct {
	Src  int32
	Els  []elem
	sig  uint64
	Pan  bool // ends with a forwarder-surfaced panic item
	conv []int32
	// seqs of the source's items dropped (no-value) by converters on this path so far, and the
	// subset of them dropped *below* a forwarder goroutine (such an item is consumed by the
	// forwarder without a send attempt, i.e. without the forwarder looking at `closed`)
	//
	// The forwarder of a converter that is itself the merge input looks at `closed` whenever its
	// own converter drops an item (/repo b8aefe9); it does not when the drop happens further
	// down: in a converter below that converter, below a forwarded Copy child, or below a merge
	// whose reader is consumed by another forwarder. last = drops of the most recent converter
	// on the path; sdrops = "shallow" drops (by a converter that is directly the input of a
	// merge, no further forwarder downstream); fdrops = all other drops below a forwarder.
	drops  []int32
	last   []int32
	fdrops []int32
	sdrops []int32
	// a converter on this path is handed a nil interface value as its input chunk
	NilIn bool
}

func (s *strand) seal() {
	h := mix64(uint64(1469598103934665603) ^ uint64(uint32(s.Src)))
	for _, e := range s.Els {
		h = mix64(h ^ uint64(e.K))
		h = mix64(h ^ uint64(uint32(e.Seq)) ^ uint64(uint32(e.Conv))<<32)
		h = mix64(h ^ e.Val)
	}
	s.sig = h
}

type rmodel struct {
	et       etype
	typ      rtyp
	depth    int
	strands  []strand
	nStreams int  // tMulti: number of channel streams selected over
	static   bool // array-backed, never blocks
	up       []int32
}

// nilIn: on some path to this reader a converter is handed a nil interface value.
func (m *rmodel) nilIn() bool {
	for i := range m.strands {
		if m.strands[i].NilIn {
			return true
		}
	}
	return false
}

func (m *rmodel) total() int {
	n := 0
	for _, s := range m.strands {
		n += len(s.Els)
	}
	return n
}

type model struct {
	readers   []rmodel
	consumer  []int // reader id -> op index consuming it, -1: endpoint
	srcs      map[int32]*srcSpec
	fwd       map[int32]int // pipe source -> number of forwarder goroutines downstream
	nFwd      int
	canPanic  map[int32]bool
	fdrop     map[int32]map[int32]bool // pipe source -> seqs dropped by a converter deep below a forwarder
	sdrop     map[int32]map[int32]bool // pipe source -> seqs dropped only by converters directly below a merge (nothing forwarded further down)
	derived   map[int32][]int          // pipe source -> indices into tree.Ends
	endOf     map[int]int              // reader id -> index into Ends
	nStatic   int                      // merges using the static select (2..5 streams)
	nReflect  int                      // merges using reflect.Select (>5 streams)
	nArrMerge int                      // merges with at least two array-backed inputs
}

func unionSrc(a, b []int32) []int32 {
	seen := map[int32]bool{}
	var out []int32
	for _, x := range a {
		if !seen[x] {
			seen[x] = true
			out = append(out, x)
		}
	}
	for _, x := range b {
		if !seen[x] {
			seen[x] = true
			out = append(out, x)
		}
	}
	sort.Slice(out, func(i, j int) bool { return out[i] < out[j] })
	return out
}

func cloneStrands(in []strand) []strand {
	out := make([]strand, len(in))
	copy(out, in)
	return out
}

func srcStrand(s *srcSpec) strand {
	st := strand{Src: s.ID}
	for i, k := range s.Items {
		if k == 0 {
			st.Els = append(st.Els, s.elemAt(i))
		} else {
			st.Els = append(st.Els, elem{K: eSrcErr, Src: s.ID, Seq: int32(i), org: int32(i)})
		}
	}
	st.seal()
	return st
}

// convStrand is the reference semantics of StreamReaderWithConvert on one
// strand: values are mapped, no-value items dropped, converter errors become
// error items at that position, error items pass untouched; a converter panic
// ends the strand with one foreign error item (the forwarder surfaces it).
func convStrand(in strand, c *convSpec) strand {
	out := strand{Src: in.Src, Pan: in.Pan, NilIn: in.NilIn, conv: append(append([]int32{}, in.conv...), c.ID),
		drops: append([]int32{}, in.drops...), fdrops: in.fdrops, sdrops: in.sdrops}
	for _, e := range in.Els {
		if e.K != eVal {
			out.Els = append(out.Els, e)
			continue
		}
		if e.Dyn == dNil {
			out.NilIn = true
		}
		beh, o := c.apply(e)
		o.org = e.org
		switch beh {
		case bPass:
			out.Els = append(out.Els, o)
		case bDrop:
			out.drops = append(out.drops, e.org)
			out.last = append(out.last, e.org)
		case bFail:
			out.Els = append(out.Els, elem{K: eConvErr, Src: e.Src, Seq: e.Seq, Conv: c.ID, org: e.org})
		case bPanic:
			out.Els = append(out.Els, elem{K: ePanic})
			out.Pan = true
			out.seal()
			return out
		}
	}
	out.seal()
	return out
}

// addOp extends the model by one operator; ops must be added in construction order.
func (m *model) addOp(idx int, op *opSpec) {
	need := 0
	for _, o := range op.Out {
		if o+1 > need {
			need = o + 1
		}
	}
	for len(m.readers) < need {
		m.readers = append(m.readers, rmodel{})
		m.consumer = append(m.consumer, -1)
	}
	for _, in := range op.In {
		m.consumer[in] = idx
	}
	switch op.Kind {
	case "pipe":
		m.srcs[op.Src.ID] = op.Src
		m.readers[op.Out[0]] = rmodel{et: op.Src.Elem, typ: tStream, strands: []strand{srcStrand(op.Src)}, up: []int32{op.Src.ID}}
	case "array":
		m.srcs[op.Src.ID] = op.Src
		m.readers[op.Out[0]] = rmodel{et: op.Src.Elem, typ: tArray, strands: []strand{srcStrand(op.Src)}, static: true}
	case "copy":
		in := m.readers[op.In[0]]
		for _, o := range op.Out {
			c := in
			c.strands = cloneStrands(in.strands)
			if op.N >= 2 {
				c.depth = in.depth + 1
				if in.typ != tArray {
					c.typ = tChild
					c.static = false
					c.nStreams = 0
				}
			}
			m.readers[o] = c
		}
	case "convert":
		in := m.readers[op.In[0]]
		if in.et != op.Conv.From {
			panic("harness: converter input type mismatch")
		}
		c := rmodel{et: op.Conv.To, typ: tConv, depth: in.depth + 1, static: in.static, up: in.up}
		for _, s := range in.strands {
			c.strands = append(c.strands, convStrand(s, op.Conv))
		}
		m.readers[op.Out[0]] = c
	case "skip":
		in := m.readers[op.In[0]]
		c := in
		c.strands = cloneStrands(in.strands)
		c.strands[0].Els = c.strands[0].Els[op.N:]
		c.strands[0].seal()
		m.readers[op.Out[0]] = c
	case "merge":
		if len(op.In) == 1 {
			m.readers[op.Out[0]] = m.readers[op.In[0]]
			return
		}
		c := rmodel{typ: tMulti, et: m.readers[op.In[0]].et}
		streams, arrLen, arrIns := 0, 0, 0
		for _, i := range op.In {
			in := m.readers[i]
			if in.et != c.et {
				panic("harness: merge of readers of different element types")
			}
			if in.depth+1 > c.depth {
				c.depth = in.depth + 1
			}
			ins := cloneStrands(in.strands)
			if in.typ == tConv || in.typ == tChild {
				// a forwarder goroutine is started for this input
				for k := range ins {
					st := &ins[k]
					deep := st.drops
					var shallow []int32
					if in.typ == tConv {
						deep, shallow = st.drops[:len(st.drops)-len(st.last)], st.last
					}
					fd := append([]int32{}, st.fdrops...)
					fd = append(fd, deep...)
					fd = append(fd, st.sdrops...) // shallow so far, but now with another forwarder downstream
					st.fdrops, st.sdrops = fd, append([]int32{}, shallow...)
				}
			}
			c.strands = append(c.strands, ins...)
			c.up = unionSrc(c.up, in.up)
			switch in.typ {
			case tStream:
				streams++
			case tArray:
				arrLen += in.total()
				arrIns++
			case tMulti:
				streams += in.nStreams
			case tConv, tChild:
				streams++
				m.nFwd++
				for _, s := range in.up {
					m.fwd[s]++
				}
			}
		}
		if arrIns >= 2 {
			m.nArrMerge++
		}
		if streams == 0 && arrLen != 0 {
			c.typ = tArray
			c.static = true
		} else {
			if arrLen != 0 {
				streams++
			}
			c.nStreams = streams
			if streams > 5 {
				m.nReflect++
			} else if streams >= 2 {
				m.nStatic++
			}
		}
		m.readers[op.Out[0]] = c
	default:
		panic("unknown op " + op.Kind)
	}
}

func newModel() *model {
	return &model{srcs: map[int32]*srcSpec{}, fwd: map[int32]int{}, canPanic: map[int32]bool{}, fdrop: map[int32]map[int32]bool{}, sdrop: map[int32]map[int32]bool{},
		derived: map[int32][]int{}, endOf: map[int]int{}}
}

// finish computes the per-source facts once the endpoints are known.
func (m *model) finish(t *tree) {
	for i, e := range t.Ends {
		m.endOf[e.Reader] = i
		r := &m.readers[e.Reader]
		for _, s := range r.up {
			m.derived[s] = append(m.derived[s], i)
		}
		for _, st := range r.strands {
			if st.Pan {
				m.canPanic[st.Src] = true
			}
			for _, q := range st.fdrops {
				if m.fdrop[st.Src] == nil {
					m.fdrop[st.Src] = map[int32]bool{}
				}
				m.fdrop[st.Src][q] = true
			}
			for _, q := range st.sdrops {
				if m.sdrop[st.Src] == nil {
					m.sdrop[st.Src] = map[int32]bool{}
				}
				m.sdrop[st.Src][q] = true
			}
		}
	}
	for s, deep := range m.fdrop {
		for q := range deep {
			delete(m.sdrop[s], q) // dropped deep on some path: the deep class wins
		}
	}
}

// shape is the operator-tree shape without item contents and scripts.
func (t *tree) shape() string {
	var b strings.Builder
	for _, op := range t.Ops {
		switch op.Kind {
		case "pipe":
			fmt.Fprintf(&b, "P%d%s;", op.Src.Cap, etNames[op.Src.Elem][:1])
		case "array":
			fmt.Fprintf(&b, "A%s%s;", etNames[op.Src.Elem][:1], map[bool]string{true: "+"}[op.Src.SliceCap > len(op.Src.Items)])
		case "copy":
			fmt.Fprintf(&b, "C%d(%d);", op.N, op.In[0])
		case "merge":
			fmt.Fprintf(&b, "M%v;", op.In)
		case "convert":
			k := "m"
			if op.Conv.Drop > 0 {
				k += "d"
			}
			if op.Conv.Fail > 0 {
				k += "f"
			}
			if op.Conv.Panic > 0 {
				k += "p"
			}
			if op.Conv.From != op.Conv.To {
				k += ">" + etNames[op.Conv.To][:1]
			}
			fmt.Fprintf(&b, "V%s(%d);", k, op.In[0])
		case "skip":
			fmt.Fprintf(&b, "S(%d);", op.In[0])
		}
	}
	return b.String()
}
