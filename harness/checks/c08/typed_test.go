package c08

// Element types of the workload and the type-erased handles through which the
// (dynamically built) operator trees drive the generic public API of package
// schema.
//
// The property is quantified over every item sequence of every element type. A
// tree is therefore not confined to one concrete chunk type: its streams are
// StreamReader[tok], [any], [error], [fmt.Stringer] or [*pt]; the interface
// typed ones carry nil interface values, typed nil pointers and values of mixed
// dynamic types, and converters change the element type (T -> D for every pair).
//
// An item is described by its *visible content* (elem: dynamic kind + the
// identity/value fields it carries, if any). A nil item carries nothing, so two
// nil items are indistinguishable for the oracle -- which the backtracking
// sequence matcher copes with.

import (
	"fmt"

	"github.com/cloudwego/eino/schema"
)

type etype int8

const (
	tTok etype = iota // tok, a concrete struct
	tAny              // any
	tErr              // error
	tStr              // fmt.Stringer (a named interface)
	tPtr              // *pt (nil pointer is an ordinary value)
	nEtypes
)

var etNames = []string{"tok", "any", "error", "Stringer", "ptr"}

func (e etype) iface() bool { return e == tAny || e == tErr || e == tStr }

// dynamic kinds of a value item
const (
	dTok     uint8 = iota // tok{...}
	dNil                  // nil interface value
	dNilPtr               // (*pt)(nil)
	dPtr                  // &pt{...}
	dVt                   // vt{...}
	dString               // "src:seq:val" (any only)
	dUnknown = 250
)

var dynNames = map[uint8]string{dTok: "tok", dNil: "nil", dNilPtr: "nil*pt", dPtr: "*pt", dVt: "vt", dString: "string", dUnknown: "unknown-dynamic-type"}

func nilish(d uint8) bool { return d == dNil || d == dNilPtr }

// allowedDyn[T]: dynamic kinds a chunk of static type T can have; the nil-ish ones first.
var (
	allowedDyn = [][]uint8{
		tTok: {dTok},
		tAny: {dNil, dNilPtr, dPtr, dVt, dString, dTok},
		tErr: {dNil, dNilPtr, dPtr, dVt},
		tStr: {dNil, dNilPtr, dPtr, dVt},
		tPtr: {dNilPtr, dPtr},
	}
	nNilish = []int{tTok: 0, tAny: 2, tErr: 2, tStr: 2, tPtr: 1}
)

// pt: pointer type implementing error and fmt.Stringer; vt: value type implementing both.
type pt struct {
	Src, Seq int32
	Val      uint64
}

func (p *pt) Error() string {
	if p == nil {
		return "pt(nil)"
	}
	return fmt.Sprintf("pt(%d.%d)", p.Src, p.Seq)
}
func (p *pt) String() string { return p.Error() }

type vt struct {
	Src, Seq int32
	Val      uint64
}

func (v vt) Error() string  { return fmt.Sprintf("vt(%d.%d)", v.Src, v.Seq) }
func (v vt) String() string { return v.Error() }

// describe: visible content of a chunk (boxed into any by the caller: a nil
// interface value of any interface type arrives as nil).
func describe(x any) elem {
	switch v := x.(type) {
	case nil:
		return elem{K: eVal, Dyn: dNil, Src: -1, Seq: -1}
	case tok:
		return elem{K: eVal, Dyn: dTok, Src: v.Src, Seq: v.Seq, Val: v.Val}
	case *pt:
		if v == nil {
			return elem{K: eVal, Dyn: dNilPtr, Src: -1, Seq: -1}
		}
		return elem{K: eVal, Dyn: dPtr, Src: v.Src, Seq: v.Seq, Val: v.Val}
	case vt:
		return elem{K: eVal, Dyn: dVt, Src: v.Src, Seq: v.Seq, Val: v.Val}
	case string:
		e := elem{K: eVal, Dyn: dString}
		var s, q int32
		var val uint64
		if n, _ := fmt.Sscanf(v, "%d:%d:%x", &s, &q, &val); n != 3 {
			e.Dyn = dUnknown
		}
		e.Src, e.Seq, e.Val = s, q, val
		return e
	}
	return elem{K: eVal, Dyn: dUnknown, Src: -1, Seq: -1}
}

// build constructs the chunk of static type T with the visible content e.
func build[T any](e elem) T {
	var x any
	switch e.Dyn {
	case dTok:
		x = tok{Src: e.Src, Seq: e.Seq, Val: e.Val}
	case dNil:
	case dNilPtr:
		x = (*pt)(nil)
	case dPtr:
		x = &pt{Src: e.Src, Seq: e.Seq, Val: e.Val}
	case dVt:
		x = vt{Src: e.Src, Seq: e.Seq, Val: e.Val}
	case dString:
		x = fmt.Sprintf("%d:%d:%x", e.Src, e.Seq, e.Val)
	default:
		panic("harness: build of unknown dynamic kind")
	}
	if x == nil {
		var z T
		return z
	}
	return x.(T) // the generator only asks for kinds the static type admits
}

// junk: a recognisable chunk (Src = code < -1) of element type et; returned by converters
// along with an error (must never be delivered) and used to fill unused buffer cells.
func junk(et etype, code int32, cell int32) elem {
	d := dVt
	switch et {
	case tTok:
		d = dTok
	case tPtr:
		d = dPtr
	}
	return elem{K: eVal, Dyn: d, Src: code, Seq: cell, Val: uint64(uint32(cell))}
}

// ---------------------------------------------------------------------------
// type-erased handles

type xReader interface {
	Recv() (any, error)
	Close()
	Copy(n int) []xReader
	mergeAll(ins []xReader) xReader // ins[0] is the receiver; all of the same element type
	convert(c *convSpec) xReader
}

type xWriter interface {
	Send(chunk *elem, err error) bool
	Close()
}

type xBuf interface {
	window(off, n, cp int) xReader // reader over buf[off : off+n : off+cp]
	cells() []elem
}

type xr[T any] struct{ r *schema.StreamReader[T] }

func (x xr[T]) Recv() (any, error) {
	v, err := x.r.Recv()
	return v, err
}
func (x xr[T]) Close() { x.r.Close() }
func (x xr[T]) Copy(n int) []xReader {
	rs := x.r.Copy(n)
	out := make([]xReader, len(rs))
	for i, r := range rs {
		out[i] = xr[T]{r}
	}
	return out
}
func (x xr[T]) mergeAll(ins []xReader) xReader {
	rs := make([]*schema.StreamReader[T], len(ins))
	for i, in := range ins {
		rs[i] = in.(xr[T]).r
	}
	return xr[T]{schema.MergeStreamReaders(rs)}
}
func (x xr[T]) convert(c *convSpec) xReader {
	switch c.To {
	case tTok:
		return xr[tok]{schema.StreamReaderWithConvert(x.r, convFn[T, tok](c))}
	case tAny:
		return xr[any]{schema.StreamReaderWithConvert(x.r, convFn[T, any](c))}
	case tErr:
		return xr[error]{schema.StreamReaderWithConvert(x.r, convFn[T, error](c))}
	case tStr:
		return xr[fmt.Stringer]{schema.StreamReaderWithConvert(x.r, convFn[T, fmt.Stringer](c))}
	case tPtr:
		return xr[*pt]{schema.StreamReaderWithConvert(x.r, convFn[T, *pt](c))}
	}
	panic("harness: unknown target element type")
}

// convFn is the real converter handed to eino: a pure function of the visible
// content of its argument (no shared state: it adds no synchronisation of its own).
func convFn[T, D any](c *convSpec) func(T) (D, error) {
	return func(t T) (D, error) {
		in := describe(any(t))
		beh, out := c.apply(in)
		switch beh {
		case bDrop:
			if c.Wrap {
				return build[D](junk(c.To, -7, 0)), fmt.Errorf("skipped by c%d: %w", c.ID, schema.ErrNoValue)
			}
			return build[D](junk(c.To, -7, 0)), schema.ErrNoValue
		case bFail:
			return build[D](junk(c.To, -8, 0)), &convErr{Conv: c.ID, Src: in.Src, Seq: in.Seq}
		case bPanic:
			panic(panicVal{Conv: c.ID, Src: in.Src, Seq: in.Seq})
		}
		return build[D](out), nil
	}
}

type xw[T any] struct{ w *schema.StreamWriter[T] }

func (x xw[T]) Send(chunk *elem, err error) bool {
	var c T
	if chunk != nil {
		c = build[T](*chunk)
	}
	return x.w.Send(c, err)
}
func (x xw[T]) Close() { x.w.Close() }

func pipeOf[T any](cp int) (xReader, xWriter) {
	r, w := schema.Pipe[T](cp)
	return xr[T]{r}, xw[T]{w}
}

func newPipe(et etype, cp int) (xReader, xWriter) {
	switch et {
	case tTok:
		return pipeOf[tok](cp)
	case tAny:
		return pipeOf[any](cp)
	case tErr:
		return pipeOf[error](cp)
	case tStr:
		return pipeOf[fmt.Stringer](cp)
	case tPtr:
		return pipeOf[*pt](cp)
	}
	panic("harness: unknown element type")
}

// xb is a slice owned by the caller (the harness): array readers are created over
// windows of it, and it is inspected again after the run.
type xb[T any] struct{ b []T }

func (x xb[T]) window(off, n, cp int) xReader {
	return xr[T]{schema.StreamReaderFromArray(x.b[off : off+n : off+cp])}
}
func (x xb[T]) cells() []elem {
	out := make([]elem, len(x.b))
	for i := range x.b {
		out[i] = describe(any(x.b[i]))
	}
	return out
}

func bufOf[T any](cells []elem) xBuf {
	b := make([]T, len(cells))
	for i, e := range cells {
		b[i] = build[T](e)
	}
	return xb[T]{b}
}

func newBuf(et etype, cells []elem) xBuf {
	switch et {
	case tTok:
		return bufOf[tok](cells)
	case tAny:
		return bufOf[any](cells)
	case tErr:
		return bufOf[error](cells)
	case tStr:
		return bufOf[fmt.Stringer](cells)
	case tPtr:
		return bufOf[*pt](cells)
	}
	panic("harness: unknown element type")
}
