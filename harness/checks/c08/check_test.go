package c08

import (
	"encoding/json"
	"runtime"
	"testing"

	"github.com/cloudwego/eino/schema"

	"verifharness/internal/mon"
)

func nontrivial(t *tree, items int64) bool {
	pipes, ops := 0, 0
	for _, op := range t.Ops {
		switch op.Kind {
		case "pipe":
			if len(op.Src.Items) >= 2 {
				pipes++
			}
		case "copy":
			if op.N >= 2 {
				ops++
			}
		case "merge":
			if len(op.In) >= 2 {
				ops++
			}
		case "convert":
			ops++
		}
	}
	return pipes >= 1 && ops >= 2 && items >= 5
}

func TestCheck(t *testing.T) {
	cfg := mon.Load("C08")
	rep := mon.NewReporter(cfg,
		"exploration",
		"random operator trees over schema streams (Pipe cap 0..4 with one writer goroutine each, array sources, Copy n<=6, MergeStreamReaders of 1..8 mixed sources incl. already merged readers, StreamReaderWithConvert with no-value/error/panicking converters, pre-read static readers; nesting depth <= 3); 35% of the trees use several element types (tok struct, any, error, fmt.Stringer, *pt) with nil interface values, typed nil pointers and mixed dynamic types as chunks and type-changing converters; array sources are windows of caller-owned buffers (exact, with spare capacity, adjacent windows of one shared buffer) that are inspected after the run; 3% filter probes (filtering converter below a merge / below another converter / below a forwarded Copy child / below a merge read by another forwarder, all readers closed at once, late writer) and 3% array probes (windows, pre-read, copies each merged with further array readers). One goroutine per end running a PRNG script (read to EOF / read a prefix then Close / Close at once; fast, yielding or sleeping), executed under several schedules (one without any harness synchronisation for the race detector, the others with PRNG yields/sleeps at eino's own suspension points, GOMAXPROCS in {1,4,16}). A case is distinct by its full tree+script spec and non-trivial when it has a Pipe source with >=2 items, >=2 copy/merge/convert operators and >=5 items were delivered.",
		[]string{
			"each stream end is driven by exactly one goroutine and Close is called at most once per reader (documented contract)",
			"io.EOF is never sent as an error item; converters are pure functions",
			"panicking converters are only placed where a forwarder goroutine of a merge runs them (a panic in the caller's own Recv is the caller's business)",
			"an error item is identified by its error; the chunk sent along with an error is not compared",
			"a nil chunk carries no identity: nil items of one kind are interchangeable for the sequence oracle; a converter is a pure function of the visible content of its argument",
			"the caller does not touch the slice it handed to StreamReaderFromArray while the readers are in use",
			"schedules are sampled, not enumerated; the thread interleaving of a replayed case may differ",
			"quiescence monitor: harness and eino start no timers other than time.Sleep",
		},
		cfg.Pick(400, 20000))
	defer func() {
		if err := rep.Flush(); err != nil {
			t.Fatalf("flush: %v", err)
		}
	}()

	schema.SetVerifYield(yieldHook)
	defer schema.SetVerifYield(nil)
	oldProcs := runtime.GOMAXPROCS(0)
	defer runtime.GOMAXPROCS(oldProcs)

	perShard := int64(cfg.Pick(6000, 16*24000)) / int64(cfg.Shards)
	if perShard < 1 {
		perShard = 1
	}
	nSched := cfg.Pick(2, 4)

	var tot stats
	var trees, runs, fwd, mStatic, mReflect, copies, converts, pipes, arrays, skips, neverClose int64
	var typedTrees, filterProbes, arrayProbes, convTypeChange, ifaceSources, arrSpare, arrShared, arrMerges int64
	aborted := false
	rep.Cases(perShard, func(idx int64, rng *mon.Rand) {
		if aborted {
			return
		}
		tr := genTree(rng.Sub("tree"))
		runtime.GOMAXPROCS(tr.Procs)
		trees++
		fwd += int64(tr.m.nFwd)
		mStatic += int64(tr.m.nStatic)
		mReflect += int64(tr.m.nReflect)
		arrMerges += int64(tr.m.nArrMerge)
		if tr.Typed {
			typedTrees++
		}
		switch tr.Probe {
		case "filter":
			filterProbes++
		case "array":
			arrayProbes++
		}
		perBuf := map[int]int{}
		for _, op := range tr.Ops {
			if op.Src != nil && op.Src.Elem.iface() {
				ifaceSources++
			}
			switch op.Kind {
			case "copy":
				copies++
			case "convert":
				converts++
				if op.Conv.From != op.Conv.To {
					convTypeChange++
				}
			case "pipe":
				pipes++
				if op.Src.NeverClose {
					neverClose++
				}
			case "array":
				arrays++
				if op.Src.SliceCap > len(op.Src.Items) {
					arrSpare++
				}
				if perBuf[op.Src.Buf]++; perBuf[op.Src.Buf] == 2 {
					arrShared++
				}
			case "skip":
				skips++
			}
		}
		rep.Distinct("shapes", tr.shape())
		var maxItems int64
		srng := rng.Sub("sched")
		for si := 0; si < nSched; si++ {
			sc := schedule{Index: si, Quiet: si == 0, Seed: srng.Uint64()}
			if !sc.Quiet {
				sc.Lvl = srng.Range(1, 3)
				sc.Hot = srng.Intn(int(schema.VerifPoints) + 3) // sometimes no hot point
			}
			out := runTree(tr, sc, mon.NewRand(srng.Uint64()))
			st, order := judge(tr, out, rep)
			if out.buildPan == nil && out.wait == mon.Inconclusive {
				// goroutines of that run are still active (live-lock?): nothing observed in
				// this process afterwards could be trusted; the shard stops here, inconclusive.
				aborted = true
				rep.Inconclusive("shard stopped after a run that neither finished nor became quiescent within the watchdog")
				break
			}
			runs++
			if si > 0 {
				rep.AddEvaluations(1)
			}
			if order != "" {
				rep.Distinct("interleavings", order)
			}
			if st.items > maxItems {
				maxItems = st.items
			}
			tot.add(st)
		}
		if nontrivial(tr, maxItems) {
			b, _ := json.Marshal(tr)
			rep.NonTrivial(string(b))
		}
		if idx < 2 {
			rep.Sample(tr)
		}
	})

	rep.Count("trees", trees)
	rep.Count("executions", runs)
	rep.Count("items_checked", tot.items)
	rep.Count("recv_calls", tot.recvs)
	rep.Count("send_calls", tot.sends)
	rep.Count("sends_reported_closed", tot.sendsClosed)
	rep.Count("eof_observed", tot.eofs)
	rep.Count("readers_closed_before_eof", tot.endsClosedEarly)
	rep.Count("error_items_from_writers", tot.srcErrs)
	rep.Count("error_items_from_converters", tot.convErrs)
	rep.Count("panic_items_surfaced", tot.panicItems)
	rep.Count("copy_consistency_comparisons", tot.copyCons)
	rep.Count("close_bound_checks_exact_next_send", tot.boundExact)
	rep.Count("close_bound_checks_forwarded", tot.boundFwd)
	rep.Count("close_writer_told", tot.told)
	rep.Count("close_delayed_by_filtered_items", tot.filterDelayed)
	rep.Count("premature_close_checks", tot.premChecked)
	rep.Count("leak_checks", tot.leakRuns)
	rep.Count("leak_checks_not_settled", tot.settleFail)
	rep.Count("op_pipe", pipes)
	rep.Count("op_array", arrays)
	rep.Count("op_copy", copies)
	rep.Count("op_convert", converts)
	rep.Count("op_preread", skips)
	rep.Count("writers_never_closing", neverClose)
	rep.Count("merge_static_select", mStatic)
	rep.Count("merge_reflect_select", mReflect)
	rep.Count("forwarder_goroutines_expected", fwd)
	rep.Count("trees_with_typed_streams", typedTrees)
	rep.Count("trees_filter_probe", filterProbes)
	rep.Count("trees_array_probe", arrayProbes)
	rep.Count("sources_with_interface_element_type", ifaceSources)
	rep.Count("converters_changing_element_type", convTypeChange)
	rep.Count("nil_items_delivered", tot.nilItems)
	rep.Count("array_sources_with_spare_capacity", arrSpare)
	rep.Count("caller_buffers_shared_by_array_sources", arrShared)
	rep.Count("merges_of_two_or_more_array_readers", arrMerges)
	rep.Count("caller_slice_cells_checked_after_run", tot.bufCells)
	for i, n := range pointNames {
		rep.Count("yield_point_"+n, yieldCnt[i].Load())
	}
	if cfg.ReplayCase < 0 {
		// minimums are per run (driver sums the shards): small and robust
		rep.Require("items_checked", 5000)
		rep.Require("merge_static_select", 50)
		rep.Require("merge_reflect_select", 20)
		rep.Require("forwarder_goroutines_expected", 50)
		rep.Require("panic_items_surfaced", 5)
		rep.Require("error_items_from_converters", 20)
		rep.Require("close_bound_checks_exact_next_send", 10)
		rep.Require("close_bound_checks_forwarded", 5)
		rep.Require("leak_checks", 100)
		rep.Require("copy_consistency_comparisons", 10)
		rep.Require("nil_items_delivered", 200)
		rep.Require("converters_changing_element_type", 100)
		rep.Require("array_sources_with_spare_capacity", 100)
		rep.Require("caller_buffers_shared_by_array_sources", 30)
		rep.Require("merges_of_two_or_more_array_readers", 50)
		rep.Require("caller_slice_cells_checked_after_run", 1000)
		rep.Require("trees_filter_probe", 20)
		rep.Require("trees_array_probe", 20)
		for _, n := range []string{"send_enter", "send_select", "recv_enter", "close_send", "close_recv", "peek_enter",
			"peek_after_once", "child_close", "parent_close", "multi_recv", "forward_loop"} {
			rep.Require("yield_point_"+n, 50)
		}
		if tot.settleFail > tot.leakRuns/20 {
			rep.Inconclusive("the process did not become quiescent after more than 5% of the executions (leak check not decidable)")
		}
	}
}

func (a *stats) add(b stats) {
	a.items += b.items
	a.recvs += b.recvs
	a.sends += b.sends
	a.sendsClosed += b.sendsClosed
	a.eofs += b.eofs
	a.boundExact += b.boundExact
	a.boundFwd += b.boundFwd
	a.told += b.told
	a.premChecked += b.premChecked
	a.panicItems += b.panicItems
	a.convErrs += b.convErrs
	a.srcErrs += b.srcErrs
	a.ambiguous += b.ambiguous
	a.copyCons += b.copyCons
	a.leakRuns += b.leakRuns
	a.settleFail += b.settleFail
	a.endsClosedEarly += b.endsClosedEarly
	a.filterDelayed += b.filterDelayed
	a.nilItems += b.nilItems
	a.bufCells += b.bufCells
}
