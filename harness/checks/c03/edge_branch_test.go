package c03

import (
	"context"
	"fmt"
	"runtime"
	"sort"
	"strings"
	"sync/atomic"

	"github.com/cloudwego/eino/compose"

	"verifharness/internal/gspec"
	"verifharness/internal/mon"
)

// Sub-workload "edge-plus-branch" (order dependence): a node x that its predecessor a reaches by a
// plain edge AND lists among the end nodes of a branch on a, with further predecessors that are
// skipped or selected by branches of nodes running concurrently with a. Whether x runs is decided by
// the graph and the branch outcomes alone (a finished and its edge routes to x): for one spec, input and
// forced outcome vector the result and the executions feeding it must be the same under every
// completion order. The generator of internal/gspec never puts an edge and a branch on one pair, so
// the specs are built by hand; the completion orders are forced with the gate controller: "a
// finishes before everything else that is in flight", "a finishes after everything else",
// enumerated and PRNG orders, and an ungated run with yields at the hook points.

const ebSub = "edge-plus-branch"

type ebPred struct {
	Kind string `json:"kind"` // fin | skip | branch | sibling
	O    string `json:"o"`
	Q    string `json:"q"`
}

type ebShape struct {
	Mode     gspec.Mode       `json:"mode"`
	Nested   bool             `json:"nested"`
	Outer    gspec.Mode       `json:"outer_mode"`
	AVia     string           `json:"a_via"` // edge | chain | branch
	XOut     string           `json:"x_out"` // end | via | sink
	EdgeData bool             `json:"edge_carries_data"`
	Preds    []ebPred         `json:"preds"`
	Inner    *gspec.GraphSpec `json:"-"`
	Spec     *gspec.GraphSpec `json:"spec"`
}

func (s *ebShape) kindDigest() string {
	ks := []string{}
	for _, p := range s.Preds {
		ks = append(ks, p.Kind)
	}
	sort.Strings(ks)
	return fmt.Sprintf("%v|n%v|o%v|%s|%s|d%v|%v|b%d", s.Mode, s.Nested, s.Outer, s.AVia, s.XOut, s.EdgeData, ks, len(s.Inner.Branches))
}

// genEdgeBranch builds one shape (invoke-only bodies: every body passes the gate). Pure function of r.
func genEdgeBranch(r *mon.Rand) *ebShape {
	sh := &ebShape{Mode: gspec.Workflow}
	if r.Prob(0.35) {
		sh.Mode = gspec.DAG
	}
	wf := sh.Mode == gspec.Workflow
	sh.Nested = r.Prob(0.2)
	g := &gspec.GraphSpec{Mode: sh.Mode}
	node := func(k string) {
		g.Nodes = append(g.Nodes, gspec.NodeSpec{Key: k, Kind: gspec.Hash, Para: gspec.PI, PipeCap: -1, Chunk: r.Uint64(), Wide: r.Prob(0.2)})
	}
	// Workflow: data is field-mapped by the key of the source (every node is a Hash node whose output
	// has its own key); START hands over its whole value (it is the only data input of the nodes it feeds)
	edge := func(from, to string, data bool) {
		e := gspec.EdgeSpec{From: from, To: to}
		if wf {
			if !data {
				e.NoData = true
			} else if from != gspec.START {
				e.Fields = []string{from}
			}
		}
		g.Edges = append(g.Edges, e)
	}
	dataOnly := func(from, to string) {
		if wf && r.Prob(0.6) {
			g.Edges = append(g.Edges, gspec.EdgeSpec{From: from, To: to, NoControl: true, Fields: []string{from}})
		}
	}
	toEnd := func(k string) { edge(k, gspec.END, true) }
	branch := func(id, from string, targets ...string) gspec.BranchSpec {
		b := gspec.BranchSpec{ID: id, From: from, Targets: targets, Multi: r.Prob(0.4), Stream: r.Prob(0.15)}
		if b.Multi {
			b.AllowEmpty = r.Prob(0.3)
		}
		return b
	}

	node("a")
	node("x")
	node("y")
	switch r.Intn(5) {
	case 0:
		sh.AVia = "chain"
		node("s")
		edge(gspec.START, "s", true)
		edge("s", "a", true)
	case 1:
		sh.AVia = "branch"
		node("s")
		node("v")
		edge(gspec.START, "s", true)
		g.Branches = append(g.Branches, branch("bs", "s", "a", "v"))
		dataOnly("s", "a")
		dataOnly("s", "v")
		toEnd("v")
	default:
		sh.AVia = "edge"
		edge(gspec.START, "a", true)
	}
	sh.EdgeData = !wf || r.Prob(0.7)
	edge("a", "x", sh.EdgeData)
	b0 := branch("b0", "a", "x", "y")
	dataOnly("a", "y")
	toEnd("y")
	if r.Prob(0.25) {
		node("y2")
		b0.Targets = append(b0.Targets, "y2")
		dataOnly("a", "y2")
		toEnd("y2")
	}
	if !wf && r.Prob(0.15) {
		b0.Targets = append(b0.Targets, gspec.END)
	}
	xCtrl := []string{"a"}
	np := []int{0, 1, 1, 1, 2, 2}[r.Intn(6)]
	for i := 0; i < np; i++ {
		o, q, z := fmt.Sprintf("o%d", i), fmt.Sprintf("q%d", i), fmt.Sprintf("z%d", i)
		switch []int{0, 1, 1, 1, 2, 3}[r.Intn(6)] {
		case 0: // finishes
			node(o)
			edge(gspec.START, o, true)
			edge(o, "x", !wf || r.Prob(0.7))
			xCtrl = append(xCtrl, o)
			sh.Preds = append(sh.Preds, ebPred{Kind: "fin", O: o})
		case 1: // skipped (or selected) by the branch of a node that runs concurrently with a
			node(q)
			node(o)
			node(z)
			edge(gspec.START, q, true)
			g.Branches = append(g.Branches, branch("bq"+fmt.Sprint(i), q, o, z))
			dataOnly(q, o)
			dataOnly(q, z)
			edge(o, "x", !wf || r.Prob(0.7))
			toEnd(z)
			xCtrl = append(xCtrl, o)
			sh.Preds = append(sh.Preds, ebPred{Kind: "skip", O: o, Q: q})
		case 2: // a concurrently running node that lists x in a branch of its own
			node(q)
			node(z)
			edge(gspec.START, q, true)
			g.Branches = append(g.Branches, branch("bq"+fmt.Sprint(i), q, "x", z))
			dataOnly(q, "x")
			dataOnly(q, z)
			toEnd(z)
			xCtrl = append(xCtrl, q)
			sh.Preds = append(sh.Preds, ebPred{Kind: "branch", Q: q})
		default: // another end node of a's own branch
			node(o)
			b0.Targets = append(b0.Targets, o)
			dataOnly("a", o)
			edge(o, "x", !wf || r.Prob(0.7))
			xCtrl = append(xCtrl, o)
			sh.Preds = append(sh.Preds, ebPred{Kind: "sibling", O: o, Q: "a"})
		}
	}
	g.Branches = append(g.Branches, b0)
	if r.Prob(0.25) {
		node("y3")
		dataOnly("a", "y3")
		toEnd("y3")
		if r.Bool() {
			g.Branches = append(g.Branches, branch("b1", "a", "x", "y3"))
		} else {
			g.Branches = append(g.Branches, branch("b1", "a", "y", "y3"))
		}
	}
	switch r.Intn(5) {
	case 0:
		sh.XOut = "via"
		node("t")
		edge("x", "t", true)
		toEnd("t")
	case 1:
		// x does not feed END; its companion c1 has the same control predecessors (plain edges only) and
		// feeds END through c2: whenever x is triggered it is triggered together with c1, two steps
		// before END can be reached, so x has been started when the run returns
		sh.XOut = "sink"
		node("c1")
		node("c2")
		for _, p := range xCtrl {
			edge(p, "c1", true)
		}
		edge("c1", "c2", true)
		toEnd("c2")
	default:
		sh.XOut = "end"
		toEnd("x")
	}
	perm := r.Perm(len(g.Edges))
	es := make([]gspec.EdgeSpec, len(g.Edges))
	for i, p := range perm {
		es[i] = g.Edges[p]
	}
	g.Edges = es
	sh.Inner = g
	sh.Spec = g
	if sh.Nested {
		sh.Outer = gspec.Mode(r.Intn(3))
		sh.Spec = &gspec.GraphSpec{Mode: sh.Outer, Nodes: []gspec.NodeSpec{{Key: "sub", Kind: gspec.Sub, Sub: g, PipeCap: -1}},
			Edges: []gspec.EdgeSpec{{From: gspec.START, To: "sub"}, {From: "sub", To: gspec.END}}}
	}
	gspec.FixNames(sh.Spec, "")
	return sh
}

// ebVectors: the targeted outcome vector (no branch of a selects x, every branch of a concurrent node
// selects its z: all further predecessors of x are skipped or do not route) plus PRNG vectors.
func ebVectors(r *mon.Rand, sh *ebShape, n int) []map[string][]string {
	brs := gspec.AllBranches(sh.Spec)
	target := map[string][]string{}
	for _, b := range brs {
		switch {
		case b.ID == "bs":
			target[b.ID] = []string{"a"}
		case b.From == "a":
			for _, t := range b.Targets {
				if strings.HasPrefix(t, "y") {
					target[b.ID] = []string{t}
					break
				}
			}
		default:
			for _, t := range b.Targets {
				if strings.HasPrefix(t, "z") {
					target[b.ID] = []string{t}
				}
			}
		}
	}
	out := []map[string][]string{target}
	for len(out) < n {
		m := map[string][]string{}
		for _, b := range brs {
			opts := gspec.BranchOptions(b)
			m[b.ID] = opts[r.Intn(len(opts))]
		}
		out = append(out, m)
	}
	return out
}

func renderChoices(m map[string][]string) string {
	s := ""
	for _, k := range mon.SortedKeys(m) {
		s += fmt.Sprintf("%s=%v;", k, m[k])
	}
	return s
}

// endAncestors: nodes of g from which END is reachable through edges (control or data) and branches.
func endAncestors(g *gspec.GraphSpec) map[string]bool {
	preds := map[string][]string{}
	for _, e := range g.Edges {
		preds[e.To] = append(preds[e.To], e.From)
	}
	for _, b := range g.Branches {
		for _, t := range b.Targets {
			preds[t] = append(preds[t], b.From)
		}
	}
	anc := map[string]bool{}
	var walk func(n string)
	walk = func(n string) {
		for _, p := range preds[n] {
			if !anc[p] {
				anc[p] = true
				walk(p)
			}
		}
	}
	walk(gspec.END)
	return anc
}

type ebOutcome struct {
	digest string
	orders []string // schedule name: completion order
}

func edgeBranchCase(ctx context.Context, rep *mon.Reporter, rng *mon.Rand, cfg mon.Config, sample bool) {
	sh := genEdgeBranch(rng)
	spec := sh.Spec
	r, err := gspec.Build(ctx, spec, gspec.BuildOpts{})
	if err != nil {
		rep.Violation(ID+"/"+ebSub+"/build-error", err.Error(), sh)
		return
	}
	rep.Count("edge_plus_branch_specs", 1)
	rep.Distinct("edge_plus_branch_shapes", sh.kindDigest())
	in := gspec.V{"in": rng.Str(1, 5)}
	bodies := map[string]bool{}
	bodyNodes(spec, bodies)
	feeds := endAncestors(sh.Inner)
	for k := range endAncestors(spec) {
		feeds[k] = true
	}
	modeName := sh.Mode.String()
	for vi, ch := range ebVectors(rng, sh, cfg.Pick(3, 4)) {
		ref := gspec.EvalGraph(spec, in, &gspec.RefEnv{Choices: ch})
		if ref.Incomplete || ref.Err == "collision" || ref.Err == "keymissing" {
			continue
		}
		var wantFeed []string
		for _, e := range ref.Execs {
			if feeds[e.Node] {
				wantFeed = append(wantFeed, e.Path+"("+e.In+")")
			}
		}
		sort.Strings(wantFeed)
		refX := false
		for _, e := range ref.Execs {
			if e.Node == "x" {
				refX = true
			}
		}
		refDigest := "error"
		if ref.Err == "" {
			refDigest = fmt.Sprintf("result=%s feeding=%v", gspec.Canon(ref.Out), wantFeed)
			if sh.XOut == "sink" {
				refDigest += fmt.Sprintf(" x-executed=%v", refX)
			}
		}
		var outcomes []*ebOutcome
		scheds := []string{"a-first", "a-last", "enum1", "prng", "prng", "yield"}
		if cfg.Pick(0, 1) == 1 {
			scheds = append(scheds, "enum2", "prng", "yield")
		}
		for si, sname := range scheds {
			var g *gate
			switch sname {
			case "a-first", "a-last":
				g = newGate(0, nil)
				first := sname == "a-first"
				g.pick = func(nodes []string) int {
					ia, other := -1, -1
					for i, n := range nodes {
						if n == "a" {
							ia = i
						} else if other < 0 {
							other = i
						}
					}
					if first && ia >= 0 {
						return ia
					}
					if !first && other >= 0 {
						return other
					}
					return 0
				}
			case "enum1":
				g = newGate(1, nil)
			case "enum2":
				g = newGate(2, nil)
			case "prng":
				g = newGate(0, rng.Sub(fmt.Sprint("gate", si)))
			}
			procs := []int{1, 2, 16}[rng.Intn(3)]
			runtime.GOMAXPROCS(procs)
			atomic.StoreUint64(&yieldState, rng.Uint64())
			atomic.StoreUint64(&yieldProb, uint64([]int{0, 30, 60, 90}[rng.Intn(4)]))
			if sname == "yield" {
				atomic.StoreUint64(&yieldProb, uint64([]int{30, 60, 90}[rng.Intn(3)]))
			}
			res := ebRunSchedule(ctx, rep, sh, r, in, ch, g, bodies, sname, procs)
			if !res.ok {
				return
			}
			extra := fmt.Sprintf("schedule=%s GOMAXPROCS=%d input=%s forced=%s\nreference: %s\ncompletion order: %s", sname, procs, gspec.Canon(in), renderChoices(ch), ref.String(), res.pushSeq)
			wit := map[string]any{"shape": sh, "input": in, "choices": ch, "schedule": sname, "gomaxprocs": procs}
			for _, v := range res.viol {
				rep.Violation(ID+"/"+v.Class, v.Detail+"\n"+extra, wit)
			}
			if len(res.viol) > 0 {
				return
			}
			if res.out.Panic != nil {
				rep.Violation(ID+"/"+ebSub+"/panic", res.out.Panic.Value+"\n"+res.out.Panic.Stack+"\n"+extra, wit)
				return
			}
			// what this completion order produced
			digest := "error"
			if res.out.Err == nil {
				var feed []string
				for _, e := range res.atReturn {
					if feeds[e.Node] {
						if e.EndSeq == 0 && ref.Err == "" {
							rep.Violation(ID+"/returned-before-node-finished", fmt.Sprintf("the run returned while the body of %s (an ancestor of END) had not returned\n%s\n%s", e.Path, extra, gspec.RenderExecs(res.atReturn)), wit)
							return
						}
						feed = append(feed, e.Path+"("+e.In+")")
					}
				}
				sort.Strings(feed)
				digest = fmt.Sprintf("result=%s feeding=%v", gspec.Canon(res.out.Out), feed)
				if sh.XOut == "sink" {
					nx := 0
					for _, e := range res.settled {
						if e.Node == "x" {
							nx++
						}
					}
					digest += fmt.Sprintf(" x-executed=%v", nx > 0)
				}
			}
			desc := sname + ": " + res.pushSeq
			if res.out.Err != nil && ref.Err == "" {
				digest = "error (the reference has a result)"
				desc += "   [" + res.out.Err.Error() + "]"
			}
			found := false
			for _, o := range outcomes {
				if o.digest == digest {
					o.orders = append(o.orders, desc)
					found = true
				}
			}
			if !found {
				outcomes = append(outcomes, &ebOutcome{digest: digest, orders: []string{desc}})
			}
			// at-most-once / nothing untriggered, under every order
			if ref.Err == "" {
				if mm := gspec.CompareExecsAllPred(ref, res.settled); mm != nil {
					rep.Violation(ID+"/"+ebSub+"/executions/"+mm.Class, mm.Detail+"\n"+extra, wit)
					return
				}
			}
			rep.Count("edge_plus_branch_runs", 1)
			rep.Distinct("completion_orders", spec.Digest()+"|"+renderChoices(ch)+"|"+res.pushSeq)
			if res.maxParked >= 2 || res.windows > 0 {
				rep.NonTrivial(spec.Digest() + "|" + renderChoices(ch) + "|" + res.pushSeq)
			}
		}
		wit := map[string]any{"shape": sh, "input": in, "choices": ch}
		render := func() string {
			var b strings.Builder
			for _, o := range outcomes {
				fmt.Fprintf(&b, "  outcome %s\n", o.digest)
				for _, s := range o.orders {
					fmt.Fprintf(&b, "      under %s\n", s)
				}
			}
			return b.String()
		}
		head := fmt.Sprintf("x is reached from a by a plain edge and is an end node of a branch of a; further predecessors of x: %v; forced branch outcomes %s; input %s\nreference (decided by graph and outcomes alone): %s\n", sh.Preds, renderChoices(ch), gspec.Canon(in), refDigest)
		switch {
		case len(outcomes) > 1:
			rep.Violation(ID+"/"+ebSub+"/"+modeName+"/outcome-depends-on-completion-order",
				head+"deterministic node functions, the same spec, input and branch outcomes - but the result / the executions feeding it differ with the order in which concurrently running nodes finish:\n"+render(), wit)
			return
		case len(outcomes) == 1 && outcomes[0].digest != refDigest:
			rep.Violation(ID+"/"+ebSub+"/"+modeName+"/outcome-differs-from-reference-under-every-order",
				head+"every completion order produced the same outcome, which is not the reference's:\n"+render(), wit)
			return
		}
		rep.Count("edge_plus_branch_vectors_order_independent", 1)
		if !refX {
			rep.Count("edge_plus_branch_vectors_x_skipped_in_reference", 1)
		} else {
			picked := false
			for _, b := range sh.Inner.Branches {
				if b.From == "a" {
					for _, t := range ch[b.ID] {
						if t == "x" {
							picked = true
						}
					}
				}
			}
			if !picked {
				rep.Count("edge_plus_branch_vectors_x_triggered_by_edge_alone", 1)
			}
		}
		if sample && vi == 0 {
			rep.Sample(map[string]any{"sub_workload": ebSub, "shape": sh, "input": in, "forced_branch_outcomes": ch, "outcome_under_every_order": refDigest})
		}
	}
}

type ebRunResult struct {
	ok        bool
	out       gspec.Outcome
	atReturn  []gspec.Exec
	settled   []gspec.Exec
	viol      []gspec.Mismatch
	pushSeq   string
	windows   int64
	maxParked int32
}

// ebRunSchedule: one run under one completion-order regime, watched by the protocol monitor.
func ebRunSchedule(ctx context.Context, rep *mon.Reporter, sh *ebShape, r compose.Runnable[gspec.V, gspec.V], in gspec.V, ch map[string][]string, g *gate, bodies map[string]bool, sname string, procs int) (res ebRunResult) {
	spec := sh.Spec
	m := &monitor{mgrs: map[uint64]*mgr{}, bodyNode: bodies, gate: g, watermark: atomic.LoadUint64(&maxManager)}
	cur.Store(monBox{m})
	ctl := gspec.NewCtl("r")
	ctl.Choices = ch
	var maxParked int32
	if g != nil {
		go g.controller()
		ctl.OnBodyEnd = func(_ context.Context, node string) {
			g.mu.Lock()
			if int32(len(g.parked)+1) > atomic.LoadInt32(&maxParked) {
				atomic.StoreInt32(&maxParked, int32(len(g.parked)+1))
			}
			g.mu.Unlock()
			g.park(node)
		}
	}
	out, wres, dump := gspec.CallGuarded(gspec.WithCtl(ctx, ctl), r, "I", in, 0, -1)
	res.atReturn, _, _, _ = ctl.Log.Snapshot() // at the moment the run returned
	if g != nil {
		g.close()
	}
	cur.Store(monBox{nil})
	rep.AddEvaluations(1)
	// stragglers (bodies that do not feed END) finish before the execution set is judged and before
	// the next run starts
	if _, ok := mon.Settle(2, 400); !ok {
		rep.Count("settle_incomplete", 1)
	}
	res.settled, _, _, _ = ctl.Log.Snapshot()
	wit := map[string]any{"shape": sh, "input": in, "choices": ch, "schedule": sname, "gomaxprocs": procs}
	if wres == mon.Stuck {
		where, detail := gspec.StuckSignature(dump)
		rep.Violation(ID+"/hang/"+where, "the run can never finish: every goroutine is parked ("+sname+" schedule, edge-plus-branch sub-workload)\n"+detail, wit)
		return
	}
	if wres == mon.Inconclusive {
		rep.Inconclusive("watchdog fired while goroutines were active")
		return
	}
	if out.Err == nil && out.Panic == nil {
		// every task that feeds END has been collected when a result is returned
		must := map[string]bool{}
		for k := range endAncestors(spec) {
			must[k] = true
		}
		for k := range endAncestors(sh.Inner) {
			must[k] = true
		}
		m.finish(true, must)
	}
	m.mu.Lock()
	res.viol = append([]gspec.Mismatch(nil), m.viol...)
	res.pushSeq = strings.Join(m.pushSeq, ",")
	res.windows = m.windows
	rep.Count("hook_events", m.events)
	rep.Count("window_recv_then_push_before_refill", m.windows)
	for p, c := range m.points {
		rep.Count(fmt.Sprintf("hook_point_%d", p), c)
	}
	rep.Distinct("interleavings", m.order.String())
	m.mu.Unlock()
	rep.Count("runs_edge_plus_branch_"+sname, 1)
	res.out = out
	res.maxParked = atomic.LoadInt32(&maxParked)
	res.ok = true
	return res
}
