package c03

import (
	"context"
	"fmt"
	"runtime"
	"sync/atomic"

	"verifharness/internal/gspec"
	"verifharness/internal/mon"
)

// deadEndCase: eager (Workflow) execution returns as soon as END is ready and neither awaits nor collects
// a node that does not lead to END. When such a node FAILS, the run's outcome depends on whether it
// finishes before or after the nodes that feed END: "the result of a run ... do[es] not depend on the
// order or timing in which concurrently running nodes finish" and "every node execution that was started
// is collected exactly once". Shape: START -> a1 -> ... -> aL -> END, START -> d (no successor, fails).
// Orders: d finishes first / d finishes last. (Open known finding; no small repair: either the run waits
// for every started task or it does not start what it will not await.)
func deadEndCase(ctx context.Context, rep *mon.Reporter, rng *mon.Rand, cfg mon.Config) {
	l := 1 + rng.Intn(3)
	mk := func(k string) gspec.NodeSpec {
		return gspec.NodeSpec{Key: k, Kind: gspec.Hash, Para: gspec.PI, PipeCap: -1}
	}
	spec := &gspec.GraphSpec{Mode: gspec.Workflow}
	prev := gspec.START
	for i := 0; i < l; i++ {
		k := fmt.Sprintf("a%d", i)
		spec.Nodes = append(spec.Nodes, mk(k))
		spec.Edges = append(spec.Edges, gspec.EdgeSpec{From: prev, To: k})
		prev = k
	}
	spec.Edges = append(spec.Edges, gspec.EdgeSpec{From: prev, To: gspec.END})
	spec.Nodes = append(spec.Nodes, mk("d"))
	spec.Edges = append(spec.Edges, gspec.EdgeSpec{From: gspec.START, To: "d"})
	gspec.FixNames(spec, "")
	r, err := gspec.Build(ctx, spec, gspec.BuildOpts{})
	if err != nil {
		rep.Violation(ID+"/dead-end/build-error", err.Error(), spec)
		return
	}
	in := gspec.V{"in": rng.Str(1, 5)}
	bodies := map[string]bool{}
	bodyNodes(spec, bodies)
	outcome := map[string]string{}
	for _, order := range []string{"dead-end-first", "dead-end-last"} {
		g := newGate(0, nil)
		first := order == "dead-end-first"
		g.pick = func(nodes []string) int {
			id, other := -1, -1
			for i, n := range nodes {
				if n == "d" {
					id = i
				} else if other < 0 {
					other = i
				}
			}
			if first && id >= 0 {
				return id
			}
			if !first && other >= 0 {
				return other
			}
			return 0
		}
		runtime.GOMAXPROCS([]int{2, 16}[rng.Intn(2)])
		atomic.StoreUint64(&yieldProb, 0)
		m := &monitor{mgrs: map[uint64]*mgr{}, bodyNode: bodies, gate: g, watermark: atomic.LoadUint64(&maxManager)}
		cur.Store(monBox{m})
		ctl := gspec.NewCtl("r")
		ctl.Faults = map[string]gspec.Fault{"d": gspec.FailSentinel}
		go g.controller()
		ctl.OnBody = func(_ context.Context, node string, _ any) {
			if node == "d" {
				g.park(node) // the failing body parks before it fails
			}
		}
		ctl.OnBodyEnd = func(_ context.Context, node string) { g.park(node) }
		out, wres, dump := gspec.CallGuarded(gspec.WithCtl(ctx, ctl), r, "I", in, 0, -1)
		g.close()
		cur.Store(monBox{nil})
		rep.AddEvaluations(1)
		rep.Count("runs_dead_end_"+order, 1)
		if _, ok := mon.Settle(2, 400); !ok {
			rep.Count("settle_incomplete", 1)
		}
		wit := map[string]any{"spec": spec, "input": in, "order": order}
		if wres == mon.Stuck {
			where, detail := gspec.StuckSignature(dump)
			rep.Violation(ID+"/dead-end/hang/"+where, detail, wit)
			return
		}
		if wres != mon.Finished {
			rep.Inconclusive("watchdog")
			return
		}
		switch {
		case out.Panic != nil:
			outcome[order] = "panic"
		case out.Err != nil:
			outcome[order] = "error"
		default:
			outcome[order] = "value " + gspec.Canon(out.Out)
		}
	}
	if outcome["dead-end-first"] != outcome["dead-end-last"] {
		rep.Violation(ID+"/dead-end/outcome-depends-on-completion-order", fmt.Sprintf("Workflow START->a..->END (%d nodes) plus START->d where d fails and leads nowhere: when d finishes first the run gives [%s], when it finishes last [%s]", l, outcome["dead-end-first"], outcome["dead-end-last"]), map[string]any{"spec": spec, "input": in})
		return
	}
	rep.NonTrivial(fmt.Sprintf("deadend|%d|%s", l, gspec.Canon(in)))
}
