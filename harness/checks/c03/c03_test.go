// Package c03: run result independent of completion order; no completion lost; no hang.
package c03

import (
	"context"
	"fmt"
	"runtime"
	"sort"
	"strings"
	"sync"
	"sync/atomic"
	"testing"
	"time"

	"github.com/cloudwego/eino/compose"

	"verifharness/internal/gspec"
	"verifharness/internal/mon"
)

const ID = "C03"

// ---------------------------------------------------------------- protocol monitor

type tstate struct {
	node      string
	stage     int // last protocol point seen (0/1 submit, 2 bodyDone, 3 pushed, 4 handoff, 6 recv, 7 collected)
	unlocked  bool
	handedOff bool
	received  bool
	submitSeq int64
	manager   uint64
}

type mgr struct {
	stale        bool // first seen through a non-submit event: a straggler of an earlier run
	needAll      bool
	tasks        map[uint64]*tstate
	pushOrder    []uint64
	handoffOrder []uint64
	recvOrder    []uint64
	lastCollect  int64
	submitted    int
	collected    int
	// window detection: a task received but not yet collected
	inWindow uint64
}

type monitor struct {
	mu        sync.Mutex
	seq       int64
	mgrs      map[uint64]*mgr
	viol      []gspec.Mismatch
	events    int64
	order     strings.Builder // global event order (for interleaving digests)
	pushSeq   []string        // completion order (node keys in push order)
	windows   int64
	bodyNode  map[string]bool // nodes that have a body (gate accounting)
	watermark uint64
	gate      *gate
	points    [8]int64
}

var cur atomic.Value // *monitor (nil-able through a wrapper)

// maxManager is the largest task-manager id any hook event carried so far; ids are handed
// out monotonically, so managers with an id at or below the watermark taken at the start
// of a run belong to stragglers of earlier runs (eager runs may return while tasks that do
// not feed END are still executing).
var maxManager uint64

type monBox struct{ m *monitor }

var yieldState uint64
var yieldProb uint64 // 0..100

func nextRand() uint64 {
	z := atomic.AddUint64(&yieldState, 0x9e3779b97f4a7c15)
	z = (z ^ (z >> 30)) * 0xbf58476d1ce4e5b9
	z = (z ^ (z >> 27)) * 0x94d049bb133111eb
	return z ^ (z >> 31)
}

func perturb() {
	p := atomic.LoadUint64(&yieldProb)
	if p == 0 {
		return
	}
	r := nextRand()
	if r%100 >= p {
		return
	}
	switch (r >> 8) % 8 {
	case 0:
		time.Sleep(time.Duration(1+(r>>16)%40) * time.Microsecond)
	default:
		for i := uint64(0); i <= (r>>16)%3; i++ {
			runtime.Gosched()
		}
	}
}

func (m *monitor) fail(class, format string, a ...any) {
	if len(m.viol) < 5 {
		m.viol = append(m.viol, gspec.Mismatch{Class: class, Detail: fmt.Sprintf(format, a...)})
	}
}

func hook(ev compose.VerifTaskEvent) {
	for {
		old := atomic.LoadUint64(&maxManager)
		if ev.Manager <= old || atomic.CompareAndSwapUint64(&maxManager, old, ev.Manager) {
			break
		}
	}
	box, _ := cur.Load().(monBox)
	m := box.m
	if m == nil || ev.Manager <= m.watermark {
		return
	}
	m.onEvent(ev)
	// schedule perturbation only at points outside the manager's mutex
	switch ev.Point {
	case compose.VerifPushed, compose.VerifHandoff:
	default:
		perturb()
	}
}

func (m *monitor) onEvent(ev compose.VerifTaskEvent) {
	m.mu.Lock()
	m.seq++
	m.events++
	m.points[ev.Point]++
	fmt.Fprintf(&m.order, "%d%s;", ev.Point, ev.NodeKey)
	g := m.mgrs[ev.Manager]
	if g == nil {
		g = &mgr{needAll: ev.NeedAll, tasks: map[uint64]*tstate{}}
		if ev.Point != compose.VerifSubmitAsync && ev.Point != compose.VerifSubmitSync {
			g.stale = true
		}
		m.mgrs[ev.Manager] = g
	}
	if g.stale {
		m.mu.Unlock()
		return
	}
	t := g.tasks[ev.Task]
	var gateSubmit, gateDone string
	switch ev.Point {
	case compose.VerifSubmitAsync, compose.VerifSubmitSync:
		if t != nil {
			m.fail("protocol/submitted-twice", "task %d (%s) submitted twice", ev.Task, ev.NodeKey)
			break
		}
		t = &tstate{node: ev.NodeKey, stage: 0, submitSeq: m.seq, manager: ev.Manager}
		g.tasks[ev.Task] = t
		g.submitted++
		if g.needAll {
			// batch mode: nothing submitted before the last collection may still be uncollected
			for id, o := range g.tasks {
				if id != ev.Task && o.stage < 7 && o.submitSeq < g.lastCollect {
					m.fail("protocol/batch-overlap", "batch mode: task %s submitted while %s of an earlier step is still uncollected", ev.NodeKey, o.node)
				}
			}
		}
		gateSubmit = ev.NodeKey
	case compose.VerifBodyDone:
		if t == nil || t.stage != 0 {
			m.fail("protocol/order", "bodyDone of %s in stage %v", ev.NodeKey, stageOf(t))
			break
		}
		t.stage = 2
		gateDone = ev.NodeKey
	case compose.VerifPushed:
		if t == nil || t.stage != 2 {
			m.fail("protocol/order", "pushed of %s in stage %v (a finished task must be pushed exactly once)", ev.NodeKey, stageOf(t))
			break
		}
		t.stage = 3
		g.pushOrder = append(g.pushOrder, ev.Task)
		m.pushSeq = append(m.pushSeq, ev.NodeKey)
		if g.inWindow != 0 && g.inWindow != ev.Task {
			m.windows++ // another task was pushed while the collector sits between receive and re-fill
		}
	case compose.VerifHandoff:
		if t == nil || t.stage < 3 || t.handedOff {
			m.fail("protocol/order", "handoff of %s in stage %v handedOff=%v (a pushed task must be handed off exactly once)", ev.NodeKey, stageOf(t), t != nil && t.handedOff)
			break
		}
		t.handedOff = true
		if t.stage == 3 {
			t.stage = 4
		}
		g.handoffOrder = append(g.handoffOrder, ev.Task)
		k := len(g.handoffOrder) - 1
		if k >= len(g.pushOrder) || g.pushOrder[k] != ev.Task {
			m.fail("protocol/fifo", "hand-off number %d is %s but push number %d was another task: hand-offs overtake", k, ev.NodeKey, k)
		}
		// the channel has one slot: hand-offs minus receptions observed is at most 2
		// (1 in the slot + 1 received whose event is still to be emitted by the collector)
		if len(g.handoffOrder)-len(g.recvOrder) > 2 {
			m.fail("protocol/slot", "%d tasks handed off but only %d received: more than one task in the 1-slot channel", len(g.handoffOrder), len(g.recvOrder))
		}
	case compose.VerifUnlocked:
		if t == nil || t.stage < 3 {
			m.fail("protocol/order", "unlocked of %s in stage %v", ev.NodeKey, stageOf(t))
			break
		}
		t.unlocked = true
	case compose.VerifRecv:
		// the sender emits its hand-off event after the send (still under the mutex), so the
		// collector's receive event may be observed first: only "pushed, not yet received" is required
		if t == nil || t.stage < 3 || t.received {
			m.fail("protocol/order", "task %s received by the collector in stage %v received=%v (received twice or never pushed)", ev.NodeKey, stageOf(t), t != nil && t.received)
			break
		}
		t.received = true
		t.stage = 6
		g.recvOrder = append(g.recvOrder, ev.Task)
		g.inWindow = ev.Task
	case compose.VerifCollected:
		if t == nil || t.stage != 6 || !t.handedOff {
			m.fail("protocol/order", "collected of %s in stage %v handedOff=%v", ev.NodeKey, stageOf(t), t != nil && t.handedOff)
			break
		}
		t.stage = 7
		g.collected++
		g.lastCollect = m.seq
		if g.inWindow == ev.Task {
			g.inWindow = 0
		}
		// FIFO through the channel: the k-th reception is the k-th hand-off (all hand-off events up
		// to here have been emitted, because the collector took the mutex after receiving)
		k := -1
		for i, id := range g.recvOrder {
			if id == ev.Task {
				k = i
			}
		}
		if k < 0 || k >= len(g.handoffOrder) || g.handoffOrder[k] != ev.Task {
			m.fail("protocol/fifo", "reception number %d is %s, but hand-off number %d was another task", k, ev.NodeKey, k)
		}
	}
	gt := m.gate
	hasBody := m.bodyNode[ev.NodeKey]
	m.mu.Unlock()
	if gt != nil && hasBody {
		if gateSubmit != "" {
			gt.submitted()
		}
		if gateDone != "" {
			gt.bodyDone()
		}
	}
}

func stageOf(t *tstate) any {
	if t == nil {
		return "unknown-task"
	}
	return t.stage
}

// finish checks the end-of-run conditions.
func (m *monitor) finish(success bool, mustCollect map[string]bool) {
	m.mu.Lock()
	defer m.mu.Unlock()
	for _, g := range m.mgrs {
		for _, t := range g.tasks {
			if !success {
				continue // on an error return the framework legitimately leaves tasks uncollected
			}
			if g.needAll || mustCollect[t.node] {
				if t.stage != 7 {
					m.fail("protocol/not-collected", "run returned a result but task %s stopped in stage %d (submitted and never collected)", t.node, t.stage)
				}
			}
		}
	}
}

// ---------------------------------------------------------------- gate controller

// gate parks node bodies just before they return and releases them one at a time in a
// schedule-chosen order, so that completion orders are forced, not hoped for.
type gate struct {
	mu          sync.Mutex
	cond        *sync.Cond
	parked      map[string]chan struct{}
	outstanding int
	closed      bool
	sched       uint64 // mixed-radix schedule number: digit i selects among the parked bodies
	rng         *mon.Rand
	released    []string
	nodeOf      map[string]string // parked/released key -> node key
	// eager (optional): called at every decision point once the whole process is quiescent, with the
	// node keys of the bodies parked at the gate and of the bodies released so far
	eager func(parked, released []string)
	// pick (optional) chooses which of the parked bodies (node keys, sorted by park key) is released
	// next; it overrides sched/rng (targeted completion orders: "node n first", "node n last")
	pick func(parkedNodes []string) int
}

func newGate(sched uint64, rng *mon.Rand) *gate {
	g := &gate{parked: map[string]chan struct{}{}, sched: sched, rng: rng}
	g.cond = sync.NewCond(&g.mu)
	return g
}

func (g *gate) submitted() {
	g.mu.Lock()
	g.outstanding++
	g.mu.Unlock()
	g.cond.Broadcast()
}

func (g *gate) bodyDone() {
	g.mu.Lock()
	g.outstanding--
	g.mu.Unlock()
	g.cond.Broadcast()
}

// park is called from a node body (OnBodyEnd).
func (g *gate) park(node string) {
	g.mu.Lock()
	if g.closed {
		g.mu.Unlock()
		return
	}
	ch := make(chan struct{})
	key := node + fmt.Sprint(len(g.parked), len(g.released))
	g.parked[key] = ch
	if g.nodeOf == nil {
		g.nodeOf = map[string]string{}
	}
	g.nodeOf[key] = node
	g.mu.Unlock()
	g.cond.Broadcast()
	<-ch
}

func (g *gate) close() {
	g.mu.Lock()
	g.closed = true
	for k, ch := range g.parked {
		close(ch)
		delete(g.parked, k)
	}
	g.mu.Unlock()
	g.cond.Broadcast()
}

func (g *gate) controller() {
	for {
		g.mu.Lock()
		for !g.closed && !(len(g.parked) > 0 && len(g.parked) >= g.outstanding) {
			g.cond.Wait()
		}
		if g.closed {
			g.mu.Unlock()
			return
		}
		g.mu.Unlock()
		// let the run loop submit whatever it is about to submit
		for i := 0; i < 6; i++ {
			runtime.Gosched()
		}
		settled := false
		if g.eager != nil {
			// the eagerness invariant is judged on a quiescent process only: whatever the run loop
			// was going to start after the last completion has been started by now
			_, settled = mon.SettleIgnoring(3, 400, "mon.WaitDone")
		}
		g.mu.Lock()
		if g.closed {
			g.mu.Unlock()
			return
		}
		if len(g.parked) > 0 && len(g.parked) >= g.outstanding {
			keys := make([]string, 0, len(g.parked))
			for k := range g.parked {
				keys = append(keys, k)
			}
			sort.Strings(keys)
			if settled {
				var pk, rl []string
				for _, k := range keys {
					pk = append(pk, g.nodeOf[k])
				}
				for _, k := range g.released {
					rl = append(rl, g.nodeOf[k])
				}
				g.eager(pk, rl)
			}
			var idx int
			if g.pick != nil {
				nodes := make([]string, len(keys))
				for i, k := range keys {
					nodes[i] = g.nodeOf[k]
				}
				idx = g.pick(nodes)
				if idx < 0 || idx >= len(keys) {
					idx = 0
				}
			} else if g.rng != nil {
				idx = g.rng.Intn(len(keys))
			} else {
				idx = int(g.sched % uint64(len(keys)))
				g.sched /= uint64(len(keys))
			}
			k := keys[idx]
			close(g.parked[k])
			delete(g.parked, k)
			g.released = append(g.released, k)
		}
		g.mu.Unlock()
	}
}

// ---------------------------------------------------------------- workload

func genOpts(r *mon.Rand, cfg mon.Config, mode gspec.Mode) gspec.GenOpts {
	o := gspec.GenOpts{
		Mode: mode, MinNodes: 3, MaxNodes: cfg.Pick(8, 9),
		Branches: 0.35, Multi: 0.5, StreamCond: 0.2, AllowEmpty: 0.2,
		Nest: 1, NestProb: 0.08, State: 0.2, StreamState: 0.2,
		Streamy: false, Keys: 0.1, Renames: 0.1, Passthrough: 0.1, Wide: 0.2,
		CtrlOnly: 0.2, DataOnly: 0.3, Fields: 0.4, TwoBranches: 0.2,
	}
	if mode == gspec.Pregel {
		o.Cycles = 0.25
	}
	return o
}

// flat: no nested graphs
func flat(g *gspec.GraphSpec) bool {
	for i := range g.Nodes {
		if g.Nodes[i].Sub != nil {
			return false
		}
	}
	return true
}

// notStarted: eager execution starts a node as soon as every control predecessor has finished or is
// known to be skipped. Given the bodies that have returned (released) and those in flight (parked) at
// a quiescent point, it returns the nodes of the reference run that should have begun but have not.
func notStarted(spec *gspec.GraphSpec, ref *gspec.RefResult, parked, released []string) []string {
	done := map[string]bool{gspec.START: true}
	for _, n := range released {
		done[n] = true
	}
	begun := map[string]bool{}
	for _, n := range parked {
		begun[n] = true
	}
	ctrl := map[string][]string{}
	for _, e := range spec.Edges {
		if !e.NoControl {
			ctrl[e.To] = append(ctrl[e.To], e.From)
		}
	}
	for _, b := range spec.Branches {
		for _, t := range b.Targets {
			ctrl[t] = append(ctrl[t], b.From)
		}
	}
	body := map[string]bool{}
	bodyNodes(spec, body)
	var known func(n string, depth int) bool
	known = func(n string, depth int) bool {
		if done[n] {
			return true
		}
		if depth > 64 || (ref.Ran[n] && body[n]) {
			return false
		}
		// skipped in the reference, or a pass-through node (no body): settled once its own control
		// predecessors are (the process is quiescent, so the run loop has handled it)
		for _, p := range ctrl[n] {
			if !known(p, depth+1) {
				return false
			}
		}
		return true
	}
	var miss []string
	for i := range spec.Nodes {
		k := spec.Nodes[i].Key
		if !ref.Ran[k] || !body[k] || done[k] || begun[k] {
			continue
		}
		ok := true
		for _, p := range ctrl[k] {
			if !known(p, 0) {
				ok = false
			}
		}
		if ok {
			miss = append(miss, k)
		}
	}
	sort.Strings(miss)
	return miss
}

func hasEagerSub(g *gspec.GraphSpec) bool {
	for _, n := range g.Nodes {
		if n.Sub != nil && (n.Sub.Mode == gspec.Workflow || hasEagerSub(n.Sub)) {
			return true
		}
	}
	return false
}

func bodyNodes(g *gspec.GraphSpec, out map[string]bool) {
	for _, n := range g.Nodes {
		switch n.Kind {
		case gspec.Sub:
			bodyNodes(n.Sub, out)
		case gspec.Passthrough:
		default:
			out[n.Key] = true
		}
	}
}

func TestCheck(t *testing.T) {
	cfg := mon.Load(ID)
	rep := mon.NewReporter(cfg, "exploration",
		"generated specs with parallel nodes in Pregel-batch, DAG-batch and Workflow-eager mode; each spec is run under a set of schedules: (a) gated completion — every node body parks before returning and a controller releases the parked bodies one at a time in a chosen order (mixed-radix schedule numbers 0..k enumerate the permutations of the first parallel steps, PRNG orders beyond), (b) PRNG yields/µs-sleeps at the 6 hook points of the task hand-off protocol that lie outside the manager's mutex, GOMAXPROCS ∈ {1,2,16}; panicking bodies are mixed in; one case in eight is a hand-built spec with a plain edge AND a branch between the same pair of nodes (edge_branch_test.go: x with further predecessors skipped or selected by branches of concurrently running nodes) run under forced branch outcomes and the completion orders a-first / a-last / enumerated / PRNG / yields: result and the executions feeding it must be identical under every order and equal to the reference. Oracles: result and execution multiset equal to the reference under every schedule; an online protocol monitor over the hook events (per task submit→bodyDone→pushed→handoff→recv→collected exactly once and in order, FIFO hand-off = push order = receive order, 1-slot channel bound, batch steps do not overlap, on a successful return every batch task / every task feeding END is collected, bodies feeding END have returned before the run returns); the quiescence monitor for hangs; the race detector. Non-trivial: a schedule of a spec in which >=2 bodies were in flight together (>=2 parked at the gate or >=2 pushes between two collections); distinct = (spec, completion order).",
		[]string{"the harness starts no timers in the child (quiescence verdicts are state based)", "on an error return the framework legitimately leaves other tasks uncollected", "in eager mode tasks that do not feed END may be uncollected when the run returns"},
		100)
	defer func() {
		if err := rep.Flush(); err != nil {
			t.Fatalf("flush: %v", err)
		}
	}()
	compose.SetVerifTaskHook(hook)
	defer runtime.GOMAXPROCS(runtime.GOMAXPROCS(0))
	rep.Require("hook_events", 1000)
	rep.Require("window_recv_then_push_before_refill", 3)
	ctx := context.Background()
	n := int64(cfg.Pick(600, 4000))
	rep.Cases(n, func(idx int64, rng *mon.Rand) {
		if idx%16 == 5 {
			deadEndCase(ctx, rep, rng, cfg)
			return
		}
		if idx%8 == 7 {
			// edge_branch_test.go: a plain edge and a branch between the same pair of nodes
			edgeBranchCase(ctx, rep, rng, cfg, idx == 7)
			return
		}
		mode := gspec.Mode(idx % 3)
		spec := gspec.Gen(rng, genOpts(rng, cfg, mode))
		specCase(ctx, rep, rng, cfg, spec, idx < 3)
	})
}

func specCase(ctx context.Context, rep *mon.Reporter, rng *mon.Rand, cfg mon.Config, spec *gspec.GraphSpec, sample bool) {
	r, err := gspec.Build(ctx, spec, gspec.BuildOpts{})
	if err != nil {
		rep.Violation(ID+"/build-error", err.Error(), spec)
		return
	}
	in := gspec.V{"in": rng.Str(1, 5)}
	ref := gspec.EvalGraph(spec, in, nil)
	if ref.Err == "collision" || ref.Err == "keymissing" {
		return
	}
	bodies := map[string]bool{}
	bodyNodes(spec, bodies)
	nsched := cfg.Pick(6, 12)
	orders := map[string]bool{}
	for s := 0; s < nsched; s++ {
		var g *gate
		mode := "gated"
		switch {
		case s < nsched/2:
			g = newGate(uint64(s), nil) // enumerated schedule numbers
		case s%2 == 0:
			g = newGate(0, rng.Sub("gate")) // PRNG release order
		default:
			mode = "yield" // no gate: only perturbation
		}
		procs := []int{1, 2, 16}[rng.Intn(3)]
		runtime.GOMAXPROCS(procs)
		atomic.StoreUint64(&yieldState, rng.Uint64())
		atomic.StoreUint64(&yieldProb, uint64([]int{0, 30, 60, 90}[rng.Intn(4)]))
		// optionally a panicking body (must become that task's error)
		var faults map[string]gspec.Fault
		refS := ref
		if s == nsched-1 && len(ref.Execs) > 0 && ref.Err == "" {
			victim := ref.Execs[rng.Intn(len(ref.Execs))].Node
			faults = map[string]gspec.Fault{victim: gspec.PanicString}
			refS = gspec.EvalGraph(spec, in, &gspec.RefEnv{Faults: faults})
		}
		m := &monitor{mgrs: map[uint64]*mgr{}, bodyNode: bodies, gate: g, watermark: atomic.LoadUint64(&maxManager)}
		cur.Store(monBox{m})
		ctl := gspec.NewCtl("r")
		ctl.Faults = faults
		var maxParked int32
		var eagerViol []string
		var eagerMu sync.Mutex
		if g != nil && s < nsched/2 && spec.Mode == gspec.Workflow && flat(spec) && faults == nil && ref.Err == "" {
			g.eager = func(parked, released []string) {
				if miss := notStarted(spec, ref, parked, released); len(miss) > 0 {
					eagerMu.Lock()
					eagerViol = append(eagerViol, fmt.Sprintf("bodies finished so far %v, bodies still in flight (parked at the gate) %v, process quiescent: %v should have been started (every control predecessor has finished or been skipped) but no body of it has begun", released, parked, miss))
					eagerMu.Unlock()
				}
				rep.Count("eager_decision_points_checked", 1)
			}
		}
		if g != nil {
			go g.controller()
			ctl.OnBodyEnd = func(_ context.Context, node string) {
				g.mu.Lock()
				if int32(len(g.parked)+1) > atomic.LoadInt32(&maxParked) {
					atomic.StoreInt32(&maxParked, int32(len(g.parked)+1))
				}
				g.mu.Unlock()
				g.park(node)
			}
		}
		out, wres, dump := gspec.CallGuarded(gspec.WithCtl(ctx, ctl), r, "I", in, 0, -1)
		execs, _, _, _ := ctl.Log.Snapshot() // taken at the moment the run returned
		if g != nil {
			g.close()
		}
		cur.Store(monBox{nil})
		rep.AddEvaluations(1)
		if spec.Mode == gspec.Workflow || hasEagerSub(spec) {
			// let stragglers of an eager run finish before the next run starts
			if _, ok := mon.Settle(2, 400); !ok {
				rep.Count("settle_incomplete", 1)
			}
		}
		wit := map[string]any{"spec": spec, "input": in, "schedule": s, "mode": mode, "gomaxprocs": procs}
		if wres == mon.Stuck {
			where, detail := gspec.StuckSignature(dump)
			rep.Violation(ID+"/hang/"+where, "the run can never finish: every goroutine is parked ("+mode+" schedule)\n"+detail, wit)
			return
		}
		if wres == mon.Inconclusive {
			rep.Inconclusive("watchdog fired while goroutines were active")
			return
		}
		m.mu.Lock()
		events, windows, viol := m.events, m.windows, append([]gspec.Mismatch(nil), m.viol...)
		orderDigest := m.order.String()
		pushSeq := strings.Join(m.pushSeq, ",")
		for p, c := range m.points {
			rep.Count(fmt.Sprintf("hook_point_%d", p), c)
		}
		m.mu.Unlock()
		rep.Count("hook_events", events)
		rep.Count("window_recv_then_push_before_refill", windows)
		rep.Count("runs_"+mode, 1)
		rep.Distinct("interleavings", orderDigest)
		rep.Distinct("completion_orders", spec.Digest()+"|"+pushSeq)
		orders[pushSeq] = true
		extra := fmt.Sprintf("schedule=%d mode=%s GOMAXPROCS=%d input=%s\nreference: %s\ncompletion order: %s", s, mode, procs, gspec.Canon(in), refS.String(), pushSeq)
		for _, v := range viol {
			rep.Violation(ID+"/"+v.Class, v.Detail+"\n"+extra, wit)
		}
		if len(viol) > 0 {
			return
		}
		eagerMu.Lock()
		ev := append([]string(nil), eagerViol...)
		eagerMu.Unlock()
		if len(ev) > 0 {
			rep.Violation(ID+"/eager/successor-not-started-while-others-in-flight", ev[0]+"\n"+extra, wit)
			return
		}
		if mm := gspec.CompareResult(refS, out); mm != nil {
			rep.Violation(ID+"/result/"+mm.Class, mm.Detail+"\n"+extra, wit)
			return
		}
		if refS.Err == "" || refS.Err == "maxsteps" {
			var mm *gspec.Mismatch
			if spec.Mode == gspec.Pregel {
				mm = gspec.CompareExecsExact(refS, execs)
			} else {
				mm = gspec.CompareExecsAllPred(refS, execs)
				if mm == nil && refS.Err == "" {
					mm = gspec.MissingMustRun(spec, refS, execs)
				}
			}
			if mm != nil {
				rep.Violation(ID+"/executions/"+mm.Class, mm.Detail+"\n"+extra, wit)
				return
			}
		}
		if refS.Err == "" {
			// the run must not return before the bodies feeding END have returned
			for _, e := range execs {
				feeds := spec.Mode == gspec.Pregel || refS.MustRun[e.Node]
				if feeds && e.EndSeq == 0 {
					rep.Violation(ID+"/returned-before-node-finished", fmt.Sprintf("the run returned while the body of %s (which feeds END) had not returned\n%s\n%s", e.Path, extra, gspec.RenderExecs(execs)), wit)
					return
				}
			}
		}
		must := refS.MustRun
		m.finish(out.Err == nil && out.Panic == nil, must)
		m.mu.Lock()
		viol = append([]gspec.Mismatch(nil), m.viol...)
		m.mu.Unlock()
		for _, v := range viol {
			rep.Violation(ID+"/"+v.Class, v.Detail+"\n"+extra, wit)
		}
		if atomic.LoadInt32(&maxParked) >= 2 || windows > 0 {
			rep.NonTrivial(spec.Digest() + "|" + pushSeq)
		}
		if sample && s == 0 {
			rep.Sample(map[string]any{"spec": spec, "input": in, "completion_order": pushSeq, "hook_events": events})
		}
	}
	rep.Count("distinct_completion_orders_per_spec_sum", int64(len(orders)))
}
