package c05

// The "parked" focus of the typed sub-workload: values that wait in the channel of a node which may never read them.
//
// In a workflow a node behind a branch takes its data through inputs declared WithNoDirectDependency: the value of
// the data predecessor is written to its channel when the predecessor finishes, long before the branch decides
// whether the node runs at all. When the edge is checked at run time (any -> T, a field of a map[string]any -> T)
// and the value does not pass, what is parked is a failure: in value form a marker, in stream form a stream whose
// reader meets an error item. It fails the run if and only if the node gets to read its input. An interrupt
// anywhere between the predecessor and the branch puts that parked failure into the checkpoint, to be written in
// one form and read back in the other.
//
// Generated: workflows (top level or nested in a pregel / dag / workflow graph, with or without state) of
//   sources (any holding string / tRec / *tRec / *Message, or a map[string]any whose key is mapped), also START
//   itself -> 0-2 delay nodes -> a node with a branch (single / multi, value / stream condition) over
//   victims (data-only input from a source through an edge that fails or passes at run time; lambda forms i s c t;
//   optionally followed by another node) and selected nodes (one of which may carry a second branch level),
//   all meeting at END through field mappings.
// Oracle: the uninterrupted run in both forms. If the branch selects no failing victim it succeeds, and every
// history (every single interrupt point, sampled pairs, all Invoke/Stream combinations of interrupted call and
// resume, entered through Collect/Transform) must succeed with the same output and executions (typedHistory).
// If the branch selects a failing victim the uninterrupted run fails in both forms and every history has to end
// in an ordinary error as well (parkedControl).

import (
	"context"
	"fmt"
	"strconv"

	"github.com/cloudwego/eino/compose"

	"verifharness/internal/mon"
)

// edgeRel: what the edge from a value described by src to an input of kind in does: "" = refused at compile time.
func edgeRel(src vd, in kind) string {
	dyn := src.dyn()
	switch {
	case src.K == in:
		return "exact"
	case in == kAny:
		return "upcast"
	case in == kIface && src.K.rec():
		return "upcast"
	case src.K.iface():
		if dyn == nil {
			return ""
		}
		if dyn.K == in || (in == kIface && dyn.K.rec()) {
			return "rtcheck"
		}
		return "rtfail"
	}
	return ""
}

type parkedSrc struct {
	key   string
	eff   vd       // what a whole-value input sees
	field []string // non-nil: the mapped field of a map source
	seen  vd       // what the consumer sees (eff, or the field as an any)
}

type parkedGen struct {
	r       *mon.Rand
	g       *tGraph
	n       int
	sources []parkedSrc // any-typed values of nodes that certainly run before the current branch
	tails   []string
	failing int // failing victims
	picked  int // failing victims selected by their branch
	wantBad bool
}

func (p *parkedGen) key(prefix string) string {
	p.n++
	return p.g.Name + prefix + strconv.Itoa(p.n)
}

func (p *parkedGen) form(n *tNode) {
	n.Form, n.Chunks = "i", 1
	if p.r.Prob(0.4) {
		n.Form = mon.PickOne(p.r, []string{"s", "c", "t"})
		if n.Out.K == kStr {
			n.Chunks = p.r.Range(1, 3)
		}
	}
	n.Out.Multi = n.multi()
	if p.g.State {
		n.Pre, n.Post = p.r.Prob(0.3), p.r.Prob(0.25)
	}
}

var parkedHeld = []kind{kStr, kRec, kPRec, kMsg}
var parkedIns = []kind{kStr, kRec, kPRec, kMsg, kMsgs, kIface, kAny}

// source: a node (fed whole by from) whose output is an any-typed value or a map holding one.
func (p *parkedGen) source(from string, src vd) tNode {
	r := p.r
	in := src.K
	if src.K != kAny && r.Prob(0.3) {
		in = kAny
	}
	n := tNode{Key: p.key("A"), In: in, Inputs: []tEdge{{From: from, Mode: "whole", Rel: edgeRel(src, in)}}}
	held := vd{K: mon.PickOne(r, parkedHeld)}
	if r.Prob(0.3) {
		n.Out = vd{K: kMap, Key: "k" + strconv.Itoa(r.Intn(2)), D: &held}
	} else {
		n.Out = vd{K: kAny, D: &held}
	}
	p.form(&n)
	n.Chunks = 1
	n.Out.Multi = false
	p.addSource(n.Key, n.Out)
	return n
}

func (p *parkedGen) addSource(key string, eff vd) {
	switch {
	case eff.K == kAny && eff.dyn() != nil:
		p.sources = append(p.sources, parkedSrc{key: key, eff: eff, seen: eff})
	case eff.K == kMap && eff.D != nil && eff.D.dyn() != nil:
		p.sources = append(p.sources, parkedSrc{key: key, eff: eff, field: []string{eff.Key}, seen: vd{K: kAny, D: eff.D.dyn()}})
	}
}

// consumer: a node that takes the value of a source through a data-only input. fail: the edge fails at run time.
func (p *parkedGen) consumer(prefix string, fail bool) tNode {
	r := p.r
	s := mon.PickOne(r, p.sources)
	var ins []kind
	for _, k := range parkedIns {
		rel := edgeRel(s.seen, k)
		if (fail && rel == "rtfail") || (!fail && rel != "" && rel != "rtfail") {
			ins = append(ins, k)
		}
	}
	in := mon.PickOne(r, ins)
	ed := tEdge{From: s.key, Mode: "whole", Rel: edgeRel(s.seen, in), DataOnly: true}
	if s.field != nil {
		ed.Mode, ed.Src = "field", s.field
	}
	n := tNode{Key: p.key(prefix), In: in, Inputs: []tEdge{ed}, Out: vd{K: mon.PickOne(r, []kind{kStr, kStr, kRec})}}
	p.form(&n)
	return n
}

// follower: an ordinary successor (control and data) of a branch target.
func (p *parkedGen) follower(of *tNode) tNode {
	e := of.eff()
	n := tNode{Key: p.key("F"), In: e.K, Inputs: []tEdge{{From: of.Key, Mode: "whole", Rel: "exact"}}, Out: vd{K: kStr}}
	p.form(&n)
	return n
}

// level generates the targets of the branch behind the node at index bi of g.Nodes.
func (p *parkedGen) level(bi int, depth int) {
	r, g := p.r, p.g
	br := &tBranch{Multi: r.Prob(0.4), Stream: r.Prob(0.3)}
	nVict, nOk := r.Range(1, 2), r.Range(1, 2)
	type tgt struct {
		node    tNode
		failing bool
		ok      bool
	}
	var ts []tgt
	for i := 0; i < nVict; i++ {
		fail := r.Prob(0.8)
		ts = append(ts, tgt{node: p.consumer("V", fail), failing: fail})
		if fail {
			p.failing++
		}
	}
	for i := 0; i < nOk; i++ {
		ts = append(ts, tgt{node: p.consumer("U", false), ok: true})
	}
	// declaration order of the targets
	perm := r.Perm(len(ts))
	var oks, bad []int
	for _, i := range perm {
		br.Targets = append(br.Targets, ts[i].node.Key)
		if ts[i].ok {
			oks = append(oks, i)
		} else if ts[i].failing {
			bad = append(bad, i)
		}
	}
	sel := map[int]bool{oks[r.Intn(len(oks))]: true}
	if br.Multi {
		for _, i := range oks {
			if r.Bool() {
				sel[i] = true
			}
		}
		// a victim whose edge passes may be selected as well
		for i := range ts {
			if !ts[i].ok && !ts[i].failing && r.Prob(0.3) {
				sel[i] = true
			}
		}
	}
	if p.wantBad && len(bad) > 0 && p.picked == 0 {
		b := bad[r.Intn(len(bad))]
		if !br.Multi {
			sel = map[int]bool{}
		}
		sel[b] = true
		p.picked++
	}
	for _, i := range perm {
		if sel[i] {
			br.Pick = append(br.Pick, ts[i].node.Key)
		}
	}
	g.Nodes[bi].Branch = br
	nextLevel := -1
	for _, i := range perm {
		t := ts[i]
		g.Nodes = append(g.Nodes, t.node)
		ti := len(g.Nodes) - 1
		tail := t.node.Key
		if sel[i] && t.ok {
			p.addSource(t.node.Key, t.node.eff())
			if nextLevel < 0 && depth < 2 && r.Prob(0.4) {
				nextLevel = ti
				continue // its own targets are the tails
			}
		}
		if r.Prob(0.4) {
			f := p.follower(&g.Nodes[ti])
			g.Nodes = append(g.Nodes, f)
			tail = f.Key
		}
		p.tails = append(p.tails, tail)
	}
	if nextLevel >= 0 {
		p.level(nextLevel, depth+1)
	}
}

// genParkedWorkflow: see the head of the file. wantBad: the branch selects a failing victim.
func genParkedWorkflow(r *mon.Rand, name, path string, in vd, wantBad bool) (*tGraph, bool) {
	g := &tGraph{Name: name, Path: path, Mode: "workflow", In: in, State: r.Prob(0.3)}
	p := &parkedGen{r: r, g: g, wantBad: wantBad}
	// START itself holds an any-typed value for the victims
	p.addSource(compose.START, in)
	nSrc := r.Range(1, 2)
	if len(p.sources) > 0 && r.Prob(0.4) {
		nSrc = 0
	}
	prev, prevEff := compose.START, in
	var others []string
	for i := 0; i < nSrc; i++ {
		from, src := compose.START, in
		if i > 0 && r.Bool() {
			from, src = prev, prevEff // the second source behind the first
		}
		n := p.source(from, src)
		g.Nodes = append(g.Nodes, n)
		if from == compose.START && i > 0 {
			others = append(others, prev) // parallel sources: the branch node waits for both
		}
		prev, prevEff = n.Key, n.eff()
	}
	// delay nodes and the node with the branch: a chain behind the last source
	nDelay := r.Range(0, 2)
	for i := 0; i <= nDelay; i++ {
		var ins []kind
		for _, k := range []kind{kStr, kRec, kPRec, kMsg, kAny, kMap} {
			if rel := edgeRel(prevEff, k); rel != "" && rel != "rtfail" {
				ins = append(ins, k)
			}
		}
		in := mon.PickOne(r, ins)
		prefix := "D"
		if i == nDelay {
			prefix = "B"
		}
		n := tNode{Key: p.key(prefix), In: in, Inputs: []tEdge{{From: prev, Mode: "whole", Rel: edgeRel(prevEff, in)}}}
		if i == nDelay {
			for _, o := range others {
				n.Inputs = append(n.Inputs, tEdge{From: o, Mode: "ctrl", Rel: "ctrl"})
			}
		}
		held := vd{K: mon.PickOne(r, parkedHeld)}
		switch {
		case r.Prob(0.3):
			n.Out = vd{K: kAny, D: &held}
		default:
			n.Out = vd{K: mon.PickOne(r, []kind{kStr, kStr, kRec})}
		}
		p.form(&n)
		if n.Out.K == kAny {
			n.Chunks, n.Out.Multi = 1, false
			p.addSource(n.Key, n.Out)
		}
		g.Nodes = append(g.Nodes, n)
		prev, prevEff = n.Key, n.eff()
	}
	if len(p.sources) == 0 {
		// cannot happen with nSrc >= 1; a START-only spec always has its source
		panic("verif: parked spec without a source")
	}
	// the node with the first branch reports the state: everything before it has finished, nothing else runs
	// (the branch targets run side by side: what one of them would see of the others' handlers is a matter of timing)
	g.Nodes[len(g.Nodes)-1].ReadsState = g.State
	p.level(len(g.Nodes)-1, 1)
	for i, t := range p.tails {
		g.End = append(g.End, tEdge{From: t, Mode: "field", Dst: []string{"L" + strconv.Itoa(i)}, Rel: "fieldmap"})
	}
	inner := vd{K: kAny, D: &vd{K: kStr}}
	g.Out = vd{K: kMap, Key: "L0", D: &inner, NoPad: true, Multi: true}
	return g, p.picked > 0
}

// genParked: the workflow at the top level or nested in another graph. The second result: a failing victim is
// selected (the uninterrupted run has to fail).
func genParked(r *mon.Rand, wantBad bool) (*tGraph, bool) {
	if !r.Prob(0.4) {
		in := vd{K: kStr}
		if r.Prob(0.4) {
			in = vd{K: kAny, D: &vd{K: mon.PickOne(r, parkedHeld)}}
		}
		in.Multi = in.K == kStr
		return genParkedWorkflow(r, "", "", in, wantBad)
	}
	top := &tGraph{Mode: mon.PickOne(r, []string{"pregel", "dag", "workflow"}), In: vd{K: kStr, Multi: true}, State: r.Prob(0.3)}
	p := &parkedGen{r: r, g: top}
	from, src := compose.START, top.In
	if r.Prob(0.5) {
		h := tNode{Key: "H", In: kStr, Inputs: []tEdge{{From: from, Mode: "whole", Rel: "exact"}}, Out: vd{K: kStr}}
		p.form(&h)
		h.Chunks, h.Out.Multi = 1, false
		top.Nodes = append(top.Nodes, h)
		from, src = h.Key, h.eff()
	}
	sub, bad := genParkedWorkflow(r, "W", "W", vd{K: kStr}, wantBad)
	w := tNode{Key: "W", Form: "g", In: kStr, Chunks: 1, Sub: sub, Out: sub.Out, Inputs: []tEdge{{From: from, Mode: "whole", Rel: edgeRel(src, kStr)}}}
	top.Nodes = append(top.Nodes, w)
	from, src = w.Key, w.eff()
	if r.Prob(0.6) {
		z := tNode{Key: "Z", In: kMap, Inputs: []tEdge{{From: from, Mode: "whole", Rel: "exact"}}, Out: vd{K: kStr}, ReadsState: top.State}
		p.form(&z)
		top.Nodes = append(top.Nodes, z)
		from, src = z.Key, z.eff()
	}
	top.End = []tEdge{{From: from, Mode: "whole", Rel: "exact"}}
	top.Out = src
	return top, bad
}

func parkedStats(rep *mon.Reporter, g *tGraph) {
	g.walk(func(x *tGraph) {
		for i := range x.Nodes {
			for _, ed := range x.Nodes[i].Inputs {
				if ed.Rel == "rtfail" {
					rep.Count("parked_failing_data_only_edges", 1)
					if ed.Mode == "field" {
						rep.Count("parked_failing_field_mappings", 1)
					}
					if ed.From == compose.START {
						rep.Count("parked_failing_edges_from_START", 1)
					}
				}
			}
			if b := x.Nodes[i].Branch; b != nil {
				rep.Count("parked_branches", 1)
			}
		}
	})
}

// parkedCase: one spec of the parked focus.
func parkedCase(ctx context.Context, rep *mon.Reporter, rng *mon.Rand, cfg mon.Config, j int64) {
	wantBad := j%5 == 4
	g, bad := genParked(rng, wantBad)
	rep.Count("parked_specs", 1)
	parkedStats(rep, g)
	if g.depth() > 0 {
		rep.Count("parked_specs_nested", 1)
	}
	if bad {
		parkedControl(ctx, rep, rng, cfg, g)
		return
	}
	v := typedVariant{focus: "parked"}
	if j%4 == 2 {
		v.spans = "graph+node"
	}
	typedSpecCase(ctx, rep, rng, cfg, g, v, j < 1)
}

// parkedControl: the branch selects a victim whose edge fails. The uninterrupted run fails in both forms; so does
// every interrupted and resumed one.
func parkedControl(ctx context.Context, rep *mon.Reporter, rng *mon.Rand, cfg mon.Config, g *tGraph) {
	seed := rng.Str(2, 6)
	chunks := rng.Range(1, 3)
	rep.Count("parked_control_specs", 1)
	for _, para := range []string{"I", "S"} {
		h := runTyped(ctx, g, nil, histOpts{Paras: []string{para}, MaxCalls: 1, InputSeed: seed, InChunks: chunks})
		rep.AddEvaluations(1)
		if h.BuildErr != nil || h.Stuck != "" || h.Inconclusive || h.Completed || len(h.Calls) == 0 || h.Calls[0].Panic != nil {
			// the uninterrupted run does not simply fail: not what this control is about
			rep.Count("parked_control_skipped_baseline_"+para, 1)
			typedDebug("SKIP parked control para=%s: %s\n  spec=%s", para, h.render(), mon.Canon(g))
			return
		}
	}
	rep.Count("parked_control_specs_judged", 1)
	sig := typedPrefix + "parked/"
	for pi, pt := range allTypedPoints(g) {
		plan := tPlan{pt}
		combos := [][]string{{"I", "I"}, {"I", "S"}, {"S", "I"}, {"S", "S"}}
		for qi, paras := range combos {
			if (pi+qi)%2 == 1 {
				continue
			}
			maxCalls := 2*g.bodies() + 8
			h := runTyped(ctx, g, plan, histOpts{Paras: paras, WithID: true, Reruns: true, MaxCalls: maxCalls, InputSeed: seed, InChunks: chunks, IgnoredIn: true})
			rep.AddEvaluations(int64(len(h.Calls)))
			rep.Count("parked_control_histories", 1)
			wit := map[string]any{"spec": g, "input_seed": seed, "plan": plan.String(), "paradigms": paras}
			switch {
			case h.BuildErr != nil:
				rep.Violation(sig+"build-error/with-interrupts", h.BuildErr.Error(), wit)
				return
			case h.Stuck != "":
				rep.Violation(sig+"hang/"+h.Stuck, "a call of the history can never finish\n"+h.StuckDetail+"\n"+h.render(), wit)
				return
			case h.Inconclusive:
				rep.Inconclusive("watchdog fired while goroutines were active")
				return
			case h.NoProgress:
				rep.Violation(sig+"no-progress", fmt.Sprintf("not finished after %d calls\n%s", len(h.Calls), h.render()), wit)
				return
			case h.Completed:
				rep.Violation(sig+"failure-lost/"+formsUpTo(h, len(h.Calls)-1),
					fmt.Sprintf("the uninterrupted run fails in both forms (the branch selects a node whose parked input did not pass the checks of its edge), the interrupted and resumed run succeeds with %s\n%s", render(h.final().Out), h.render()), wit)
				return
			}
			if len(h.Calls) > 1 {
				rep.Count("parked_control_histories_failed_after_resume", 1)
			}
		}
	}
}
