// Package c05: interrupting and resuming a run is equivalent to running it uninterrupted.
package c05

import (
	"context"
	"fmt"
	"os"
	"runtime/debug"
	"sort"
	"strings"
	"testing"

	"verifharness/internal/gspec"
	"verifharness/internal/mon"
)

const ID = "C05"

func genOpts(r *mon.Rand, cfg mon.Config, mode gspec.Mode) gspec.GenOpts {
	o := gspec.GenOpts{
		Mode: mode, MinNodes: 2, MaxNodes: cfg.Pick(5, 7),
		Branches: 0.5, Multi: 0.4, StreamCond: 0.3, AllowEmpty: 0.15,
		Nest: cfg.Pick(1, 2), NestProb: 0.2, State: 0.5, StreamState: 0.2,
		Streamy: r.Prob(0.35), Keys: 0.15, Renames: 0.1, Passthrough: 0.1, Wide: 0.2,
		CtrlOnly: 0.2, DataOnly: 0.3, Fields: 0.4, TwoBranches: 0.15,
	}
	if mode == gspec.Pregel {
		o.Cycles = 0.5
	}
	return o
}

// addReruns marks some stateful Hash nodes (with a non-empty input) as rerun nodes.
func addReruns(r *mon.Rand, g *gspec.GraphSpec) {
	if g.State {
		for i := range g.Nodes {
			n := &g.Nodes[i]
			if n.Kind == gspec.Hash && n.InputKey == "" && !n.StreamPre && r.Prob(0.2) {
				n.Pre = true
				n.Rerun = true
				n.Lazy = false // the request to be interrupted is returned from the call, never sent as a stream item
			}
		}
	}
	for i := range g.Nodes {
		if g.Nodes[i].Sub != nil {
			addReruns(r, g.Nodes[i].Sub)
		}
	}
}

func hasRerun(g *gspec.GraphSpec) bool {
	for i := range g.Nodes {
		if g.Nodes[i].Rerun || (g.Nodes[i].Sub != nil && hasRerun(g.Nodes[i].Sub)) {
			return true
		}
	}
	return false
}

// plans enumerates every subset of the interrupt points up to size k.
func plans(points []gspec.IntPoint, k int) []gspec.Plan {
	var out []gspec.Plan
	var rec func(start int, cur gspec.Plan)
	rec = func(start int, cur gspec.Plan) {
		if len(cur) > 0 {
			out = append(out, append(gspec.Plan(nil), cur...))
		}
		if len(cur) == k {
			return
		}
		for i := start; i < len(points); i++ {
			rec(i+1, append(cur, points[i]))
		}
	}
	rec(0, nil)
	return out
}

func TestCheck(t *testing.T) {
	cfg := mon.Load(ID)
	rep := mon.NewReporter(cfg, "fault_enumeration",
		"generated specs (Pregel incl. cycles, graph-AllPredecessor, Workflow; nested graphs; state with pre/post handlers; nodes that return InterruptAndRerun on their first attempt and rebuild their input from state) × for each spec EVERY subset of <=2 (quick) / <=3 (thorough, capped at 400 per spec) interrupt points (each node of every nesting level, before or after) is configured, the run is driven to completion through a byte-only checkpoint store (copies on Set/Get) with an ignored input on every resume, alternating Invoke/Stream in the thorough tier. Oracle: differential against the uninterrupted run of the same spec and the reference interpreter: final output, multiset of (node path, input) executions over all calls (minus the aborted attempt of a self-interrupting node), multiset of state-handler invocations, per-state-object counter continuity (no roll-back, no loss), bounded number of resumes (no progress = violation), quiescence monitor for hangs. Non-trivial: a history with >=1 interrupt that executed bodies in >=2 calls; distinct = (spec, input, plan) digests. PLUS a typed sub-workload (the last 21 (quick) / 42 (thorough) cases of every shard, typed_test.go): graphs and workflows generated directly against the public API around seven foci (struct values behind field mappings, any->T edges checked at run time, nodes / nested graphs / self-interrupting nodes added WithInputKey, interface-typed outputs holding nil, schema.Message values with every optional part, stateful sibling graphs nested 4-6 deep, a mix) in parallel lanes that meet in a join (fan-in of maps, field mappings onto a map or a struct, control-only dependencies), so that values are parked in channels behind converting edges when the checkpoint is taken; every single interrupt point, sampled pairs and the self-interrupting nodes alone; all four Invoke/Stream combinations of interrupted call and first resume (further resumes cycle), sometimes entered through Collect/Transform; a state modifier on every resume. Oracle: the uninterrupted run of the same spec (value and stream form must agree): no call fails, same final output, same multiset of (node, input) executions; the state modifier is called with exactly the path of the graph owning the state it is handed. PLUS a span sub-workload (the next 9 (quick) / 21 (thorough) cases, spans_test.go): typed specs of every focus (preferring specs with nested graphs) run with caller-supplied callback handlers whose OnStart derives the context - one span per graph / workflow, in two of three modes also a value per node, in one mode a second handler designated to a nested graph by path; every body records what it finds in its context, every node-level OnStart handler what it finds; oracle: the multiset of (node, input, context) of the bodies and the set of (node, context) of the handlers equal those of the uninterrupted run with the same handlers (value and stream form must agree), whatever was restored from the checkpoint. PLUS the parked focus (the last 10 (quick) / 25 (thorough) cases, parked_test.go): workflows (top level or nested in a pregel / dag / workflow graph) in which any-typed values (of nodes, of map fields, of START) are written through data-only inputs checked at run time into the channels of nodes behind a one- or two-level branch (single / multi, value / stream condition) that mostly does not select them: a value that fails its edge is parked as a failure only a reader would meet; every single interrupt point, sampled pairs, all Invoke/Stream combinations. Oracle: the uninterrupted run (both forms): if no failing node is selected every history succeeds with the same output and executions; if one is selected (every fifth case) the uninterrupted run fails and every history has to end in an ordinary error as well. PLUS the rerun-deadend focus (the last 120 (quick) / 480 (thorough) cases, rerun_deadend_test.go): layered any-predecessor graphs over map[string]any (fan-out from START into 2-4 nodes, 1-4 layers, top level / nested graph nodes / wrapped in a chain) in which a random subset of nodes returns InterruptAndRerun on the first attempt (blind, or rebuilding the input from state) and every non-spine node draws its tail: no outgoing edge, multi-way branch (value / stream condition) selecting nothing, edges, branch selecting a subset; histories cycle through a generated list of Invoke / Stream forms until the run finishes. Oracle: the uninterrupted run of the same graph with the re-run requests switched off (both forms must agree): every call interrupts or finishes, same final output, same multiset of executed bodies.",
		[]string{"the superstep budget is per call, so specs whose uninterrupted run ends in the step-limit error are skipped", "eager mode may reorder executions: multisets, not sequences, are compared"},
		300)
	defer func() {
		if err := rep.Flush(); err != nil {
			t.Fatalf("flush: %v", err)
		}
	}()
	gspec.EnableInterruptHook()
	// thousands of small graphs are compiled and run: with the default GC target most of the CPU time goes
	// into collection cycles of a tiny heap
	debug.SetGCPercent(800)
	ctx := context.Background()
	n := int64(cfg.Pick(48, 240))
	// the last cases of every shard belong to the typed sub-workload (typed_test.go)
	rep.Require("typed_histories_equal_to_uninterrupted_run", 50)
	rep.Require("spans_histories_equal_to_uninterrupted_run", 50)
	rep.Require("spans_histories_interrupted_in_nested_graph", 10)
	rep.Require("parked_failing_data_only_edges", 10)
	rep.Require("typed_nontrivial_parked", 20)
	rep.Require("parked_control_histories_failed_after_resume", 5)
	nt, ns, np := typedCasesPerShard(cfg), spansCasesPerShard(cfg), parkedCasesPerShard(cfg)
	// the cases behind the parked ones: re-run nodes that hand nothing on next to siblings that do (rerun_deadend_test.go)
	nr := rerunDeadEndCasesPerShard(cfg)
	rep.Require("rerun_deadend_histories_with_silent_rerun_next_to_sending_sibling", 20)
	rep.Cases(n+nt+ns+np+nr, func(idx int64, rng *mon.Rand) {
		which := "gspec"
		switch {
		case idx >= n+nt+ns+np:
			which = "rerun-deadend"
		case idx >= n+nt+ns:
			which = "parked"
		case idx >= n+nt:
			which = "spans"
		case idx >= n:
			which = "typed"
		}
		if only := os.Getenv("VERIF_TYPED_ONLY"); only != "" && only != "1" && only != which {
			return // debugging aid: typed | spans | parked | rerun-deadend
		}
		switch which {
		case "rerun-deadend":
			rerunDeadEndCase(ctx, rep, rng, cfg, idx-n-nt-ns-np)
			return
		case "parked":
			parkedCase(ctx, rep, rng, cfg, idx-n-nt-ns)
			return
		case "spans":
			spansCase(ctx, rep, rng, cfg, idx-n-nt)
			return
		case "typed":
			typedCase(ctx, rep, rng, cfg, idx-n)
			return
		}
		if os.Getenv("VERIF_TYPED_ONLY") != "" {
			return // debugging aid: only the typed cases
		}
		mode := gspec.Mode(idx % 3)
		if idx%9 == 6 {
			// a cyclic any-predecessor spec whose step limit is lower than what the run needs
			o := genOpts(rng, cfg, gspec.Pregel)
			o.Cycles = 0.7
			spec := gspec.Gen(rng, o)
			in := gspec.V{"in": rng.Str(1, 5)}
			if ref := gspec.EvalGraph(spec, in, nil); ref.Err == "" && ref.NSteps >= 2 {
				spec.MaxSteps = 1 + rng.Intn(ref.NSteps-1)
			}
			if ref := gspec.EvalGraph(spec, in, nil); ref.Err == "maxsteps" {
				stepLimitCase(ctx, rep, rng, cfg, spec, in, ref)
			}
			return
		}
		spec := gspec.Gen(rng, genOpts(rng, cfg, mode))
		addReruns(rng, spec)
		specCase(ctx, rep, rng, cfg, spec, idx < 2)
	})
}

func isRerunAbort(e gspec.Exec) bool { return strings.Contains(e.Err, "interrupt and rerun") }

func specCase(ctx context.Context, rep *mon.Reporter, rng *mon.Rand, cfg mon.Config, spec *gspec.GraphSpec, sample bool) {
	in := gspec.V{"in": rng.Str(1, 5)}
	ref := gspec.EvalGraph(spec, in, nil)
	if ref.Err == "maxsteps" && spec.Mode == gspec.Pregel && !hasRerun(spec) {
		stepLimitCase(ctx, rep, rng, cfg, spec, in, ref)
		return
	}
	if ref.Err != "" {
		rep.Count("skipped_reference_fails_"+ref.Err, 1)
		return
	}
	// uninterrupted baseline of the real engine (rerun nodes disabled)
	base, err := gspec.Build(ctx, spec, gspec.BuildOpts{})
	if err != nil {
		rep.Violation(ID+"/build-error", err.Error(), spec)
		return
	}
	bctl := gspec.NewCtl("base")
	bout, wres, _ := gspec.CallGuarded(gspec.WithCtl(ctx, bctl), base, "I", in, 0, -1)
	if wres != mon.Finished || bout.Failed() || !gspec.EqualV(bout.Out, ref.Out) {
		// C01/C02 territory: not judged here
		rep.Count("skipped_baseline_disagrees_with_reference", 1)
		return
	}
	rep.Distinct("shapes", spec.Shape())
	pts := gspec.AllPoints(spec)
	k := cfg.Pick(2, 3)
	ps := plans(pts, k)
	if hasRerun(spec) {
		ps = append([]gspec.Plan{{}}, ps...)
	}
	limit := cfg.Pick(150, 400)
	if len(ps) > limit {
		// keep all singletons, sample the rest deterministically
		var keep []gspec.Plan
		var rest []gspec.Plan
		for _, p := range ps {
			if len(p) <= 1 {
				keep = append(keep, p)
			} else {
				rest = append(rest, p)
			}
		}
		perm := rng.Perm(len(rest))
		for i := 0; len(keep) < limit && i < len(rest); i++ {
			keep = append(keep, rest[perm[i]])
		}
		ps = keep
		rep.Count("specs_with_sampled_plans", 1)
	} else {
		rep.Count("specs_with_all_plans", 1)
	}
	for pi, plan := range ps {
		paras := []string{"I"}
		if cfg.Thorough() && pi%2 == 1 {
			paras = []string{"I", "S"}
		} else if pi%5 == 4 {
			paras = []string{"S"}
		}
		onePlan(ctx, rep, spec, in, ref, plan, paras, sample && pi == 0)
	}
	// a few plans are also replayed: every checkpoint of the history is resumed twice
	for i, k := 0, cfg.Pick(6, 20); i < k && len(ps) > 0; i++ {
		replayCase(ctx, rep, rng, spec, in, ref, ps[rng.Intn(len(ps))])
	}
}

func onePlan(ctx context.Context, rep *mon.Reporter, spec *gspec.GraphSpec, in gspec.V, ref *gspec.RefResult, plan gspec.Plan, paras []string, sample bool) {
	ps := gspec.ApplyPlan(spec, plan)
	store := gspec.NewByteStore()
	r, err := gspec.Build(ctx, ps, gspec.BuildOpts{Store: store})
	if err != nil {
		rep.Violation(ID+"/build-error/with-interrupts", err.Error(), map[string]any{"spec": ps, "plan": plan.String()})
		return
	}
	maxCalls := 4*(len(ref.Execs)+len(plan)+2) + 4
	h := gspec.RunHistory(ctx, ps, r, store, in, plan, gspec.HistoryOpts{Paras: paras, CheckPoint: true, MaxCalls: maxCalls})
	rep.AddEvaluations(int64(len(h.Calls)))
	rep.Count("plans_run", 1)
	rep.Count("calls", int64(len(h.Calls)))
	wit := map[string]any{"spec": ps, "input": in, "plan": plan.String(), "paradigms": paras}
	cls := classify(spec, ref, plan)
	extra := func() string {
		return fmt.Sprintf("input=%s paradigms=%v\nreference (uninterrupted): %s\n%s", gspec.Canon(in), paras, ref.String(), h.Render())
	}
	if h.Stuck != "" {
		rep.Violation(ID+"/"+cls+"/hang/"+h.Stuck, "a call of the history can never finish\n"+h.StuckDetail+"\n"+extra(), wit)
		return
	}
	if h.Inconclusive {
		rep.Inconclusive("watchdog fired while goroutines were active")
		return
	}
	if h.NoProgress {
		rep.Violation(ID+"/"+cls+"/no-progress", fmt.Sprintf("not finished after %d calls\n%s", len(h.Calls), extra()), wit)
		return
	}
	final := h.Final()
	interrupts := len(h.Calls) - 1
	rep.Count("interrupts", int64(interrupts))
	if m := gspec.CompareResult(ref, final); m != nil {
		rep.Violation(ID+"/"+cls+"/final-output/"+m.Class, m.Detail+"\n"+extra(), wit)
		return
	}
	// executions over all calls, without the aborted attempts of self-interrupting nodes
	var execs []gspec.Exec
	aborted := map[string]int{}
	for _, e := range h.AllExecs() {
		if isRerunAbort(e) {
			aborted[e.Node]++
			continue
		}
		execs = append(execs, e)
	}
	var m *gspec.Mismatch
	if spec.Mode == gspec.Pregel {
		m = gspec.CompareExecsExact(ref, execs)
	} else {
		m = gspec.CompareExecsAllPred(ref, execs)
		if m == nil {
			m = gspec.MissingMustRun(spec, ref, execs)
		}
	}
	if m != nil {
		rep.Violation(ID+"/"+cls+"/executions/"+m.Class, m.Detail+"\n"+extra(), wit)
		return
	}
	// state handler invocations: the reference's multiset (+ one extra pre per aborted attempt)
	if spec.Mode == gspec.Pregel {
		want := map[string]int{}
		for _, l := range ref.StateLog {
			for _, s := range l {
				want[s]++
			}
		}
		for n, c := range aborted {
			want["pre:"+n] += c
		}
		got := map[string]int{}
		for _, s := range h.AllStates() {
			if s.Kind != "gen" {
				got[s.Kind+":"+s.Node]++
			}
		}
		if d := diffCounts(want, got); d != "" {
			rep.Violation(ID+"/"+cls+"/state-handlers/"+d[:strings.IndexByte(d, ' ')], "state handler invocations differ from the uninterrupted run: "+d+"\n"+extra(), wit)
			return
		}
	}
	// per state object: the counter seen by successive handlers never rolls back or jumps
	last := map[int64]int64{}
	for _, s := range h.AllStates() {
		if s.Kind == "gen" {
			continue
		}
		prev, ok := last[s.Serial]
		if (!ok && s.Val != 0) || (ok && s.Val != prev+1) {
			rep.Violation(ID+"/"+cls+"/state-continuity", fmt.Sprintf("state object %d: handler %s:%s saw counter %d after %d (state lost or rolled back across interrupt/resume)\n%s", s.Serial, s.Kind, s.Node, s.Val, prev, extra()), wit)
			return
		}
		last[s.Serial] = s.Val
	}
	callsWithExecs := 0
	for _, c := range h.Calls {
		if len(c.Execs) > 0 {
			callsWithExecs++
		}
	}
	if interrupts >= 1 && callsWithExecs >= 2 {
		rep.NonTrivial(spec.Digest() + "|" + gspec.Canon(in) + "|" + plan.String() + fmt.Sprint(paras))
	}
	if sample {
		rep.Sample(map[string]any{"spec": ps, "input": in, "plan": plan.String(), "history": h.Render()})
	}
}

func diffCounts(want, got map[string]int) string {
	keys := map[string]bool{}
	for k := range want {
		keys[k] = true
	}
	for k := range got {
		keys[k] = true
	}
	var ks []string
	for k := range keys {
		ks = append(ks, k)
	}
	sort.Strings(ks)
	for _, k := range ks {
		if got[k] > want[k] {
			return fmt.Sprintf("extra %s: %d invocations, expected %d", k, got[k], want[k])
		}
		if got[k] < want[k] {
			return fmt.Sprintf("missing %s: %d invocations, expected %d", k, got[k], want[k])
		}
	}
	return ""
}

// classify gives violations of different situations different signatures.
func classify(spec *gspec.GraphSpec, ref *gspec.RefResult, plan gspec.Plan) string {
	nested, repeated := false, false
	for _, p := range plan {
		if p.Graph != "" {
			nested = true
			// top-level ancestor sub-graph node of this point
			top := p.Graph
			if len(ref.SubIn[top]) >= 2 {
				repeated = true
			}
		}
	}
	switch {
	case nested && repeated:
		return "nested-interrupt-in-repeated-subgraph"
	case nested:
		return "nested-interrupt"
	default:
		return "flat"
	}
}
