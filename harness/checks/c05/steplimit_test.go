package c05

import (
	"context"
	"fmt"

	"verifharness/internal/gspec"
	"verifharness/internal/mon"
)

// stepLimitCase: the uninterrupted run of this spec fails with the max-steps error. "Interrupting and
// resuming a run is equivalent to running it uninterrupted": however the run is cut into calls, it must
// end with the max-steps error too (the step limit bounds the run, not the single call) — a value, or
// an endless sequence of resumes, is a violation.
func stepLimitCase(ctx context.Context, rep *mon.Reporter, rng *mon.Rand, cfg mon.Config, spec *gspec.GraphSpec, in gspec.V, ref *gspec.RefResult) {
	base, err := gspec.Build(ctx, spec, gspec.BuildOpts{})
	if err != nil {
		return
	}
	bout, wres, _ := gspec.CallGuarded(gspec.WithCtl(ctx, gspec.NewCtl("base")), base, "I", in, 0, -1)
	if wres != mon.Finished || bout.Err == nil || !gspec.IsMaxSteps(bout.Err) {
		rep.Count("skipped_baseline_disagrees_with_reference", 1) // C01's business
		return
	}
	pts := gspec.AllPoints(spec)
	if len(pts) == 0 {
		return
	}
	for t, k := 0, cfg.Pick(6, 16); t < k; t++ {
		plan := gspec.Plan{pts[rng.Intn(len(pts))]}
		if rng.Bool() {
			plan = append(plan, pts[rng.Intn(len(pts))])
		}
		ps := gspec.ApplyPlan(spec, plan)
		store := gspec.NewByteStore()
		r, err := gspec.Build(ctx, ps, gspec.BuildOpts{Store: store})
		if err != nil {
			rep.Violation(ID+"/build-error/with-interrupts", err.Error(), map[string]any{"spec": ps, "plan": plan.String()})
			return
		}
		paras := [][]string{{"I"}, {"S"}, {"I", "S"}}[rng.Intn(3)]
		maxCalls := 6*(len(ref.Execs)+len(plan)+4) + 8
		h := gspec.RunHistory(ctx, ps, r, store, in, plan, gspec.HistoryOpts{Paras: paras, CheckPoint: true, MaxCalls: maxCalls})
		rep.AddEvaluations(int64(len(h.Calls)))
		rep.Count("step_limit_histories", 1)
		wit := map[string]any{"spec": ps, "input": in, "plan": plan.String(), "paradigms": paras}
		extra := fmt.Sprintf("input=%s paradigms=%v\nuninterrupted run: %s\nreference: %s\n%s", gspec.Canon(in), paras, bout.String(), ref.String(), h.Render())
		if h.Stuck != "" {
			rep.Violation(ID+"/step-limit/hang/"+h.Stuck, h.StuckDetail+"\n"+extra, wit)
			return
		}
		if h.Inconclusive {
			rep.Inconclusive("watchdog")
			return
		}
		if h.NoProgress {
			rep.Violation(ID+"/step-limit/run-never-ends", fmt.Sprintf("the uninterrupted run fails with the max-steps error; cut into calls by interrupts it is still going after %d calls\n%s", len(h.Calls), extra), wit)
			return
		}
		final := h.Final()
		switch {
		case final.Panic != nil:
			rep.Violation(ID+"/step-limit/panic", final.Panic.Value+"\n"+extra, wit)
			return
		case final.Err == nil:
			rep.Violation(ID+"/step-limit/interrupted-run-returns-a-value", fmt.Sprintf("the uninterrupted run fails with the max-steps error, the interrupted and resumed run returned %s\n%s", gspec.Canon(final.Out), extra), wit)
			return
		case !gspec.IsMaxSteps(final.Err):
			rep.Violation(ID+"/step-limit/other-error", fmt.Sprintf("the uninterrupted run fails with the max-steps error, the interrupted and resumed run failed with: %v\n%s", final.Err, extra), wit)
			return
		}
		if len(h.Calls) > 1 {
			rep.Count("step_limit_histories_with_resume", 1)
			rep.NonTrivial(fmt.Sprintf("steplimit|%s|%s|%s", spec.Digest(), gspec.Canon(in), plan))
		}
	}
}
