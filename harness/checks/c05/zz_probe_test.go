package c05

import (
	"context"
	"fmt"
	"testing"

	"github.com/cloudwego/eino/compose"
	"github.com/cloudwego/eino/schema"
	"verifharness/internal/gspec"
)

func probeStream[O any](r compose.Runnable[string, O], opts ...compose.Option) (any, error) {
	sr, err := r.Stream(context.Background(), "in", opts...)
	if err != nil {
		return nil, err
	}
	var out []any
	for {
		c, err := sr.Recv()
		if err != nil {
			break
		}
		out = append(out, c)
	}
	return out, nil
}

func TestProbe(t *testing.T) {
	ctx := context.Background()
	// (a) pending nil interface input, written by Invoke, resumed by Stream
	{
		g := compose.NewGraph[string, string]()
		_ = g.AddLambdaNode("A", compose.InvokableLambda(func(ctx context.Context, in string) (any, error) { return nil, nil }))
		_ = g.AddLambdaNode("B", compose.InvokableLambda(func(ctx context.Context, in any) (string, error) { return fmt.Sprintf("B got %v", in), nil }))
		_ = g.AddEdge(compose.START, "A")
		_ = g.AddEdge("A", "B")
		_ = g.AddEdge("B", compose.END)
		for _, seq := range []string{"II", "IS", "SI", "SS"} {
			r, err := g.Compile(ctx, compose.WithCheckPointStore(gspec.NewByteStore()), compose.WithInterruptBeforeNodes([]string{"B"}))
			if err != nil {
				t.Fatal(err)
			}
			var res []string
			for _, p := range seq {
				var out any
				var err error
				if p == 'I' {
					out, err = r.Invoke(ctx, "in", compose.WithCheckPointID("x"))
				} else {
					out, err = probeStream(r, compose.WithCheckPointID("x"))
				}
				_, isInt := compose.ExtractInterruptInfo(err)
				res = append(res, fmt.Sprintf("%c: out=%v interrupt=%v err=%v", p, out, isInt, err != nil && !isInt))
				if err != nil && !isInt {
					res = append(res, err.Error())
				}
			}
			t.Logf("(a) %s: %v", seq, res)
		}
	}
	// (c) rerun node with a map input and a plain pre-handler, no input rebuilt
	{
		type st struct{ N int }
		_ = compose.RegisterSerializableType[st]("probe_st")
		for _, seq := range []string{"II", "IS", "SI", "SS"} {
			first := true
			g := compose.NewGraph[string, string](compose.WithGenLocalState(func(ctx context.Context) *st { return &st{} }))
			_ = g.AddLambdaNode("A", compose.InvokableLambda(func(ctx context.Context, in string) (map[string]any, error) { return map[string]any{"k": in}, nil }))
			_ = g.AddLambdaNode("R", compose.CollectableLambda(func(ctx context.Context, in *schema.StreamReader[map[string]any]) (string, error) {
				n := 0
				for {
					_, err := in.Recv()
					if err != nil {
						break
					}
					n++
				}
				if first {
					first = false
					return "", compose.InterruptAndRerun
				}
				return fmt.Sprintf("R saw %d chunks", n), nil
			}), compose.WithStatePreHandler(func(ctx context.Context, in map[string]any, s *st) (map[string]any, error) { s.N++; return in, nil }))
			_ = g.AddEdge(compose.START, "A")
			_ = g.AddEdge("A", "R")
			_ = g.AddEdge("R", compose.END)
			r, err := g.Compile(ctx, compose.WithCheckPointStore(gspec.NewByteStore()))
			if err != nil {
				t.Fatal(err)
			}
			var res []string
			for _, p := range seq {
				var out any
				var err error
				if p == 'I' {
					out, err = r.Invoke(ctx, "in", compose.WithCheckPointID("x"))
				} else {
					out, err = probeStream(r, compose.WithCheckPointID("x"))
				}
				_, isInt := compose.ExtractInterruptInfo(err)
				res = append(res, fmt.Sprintf("%c: out=%v interrupt=%v", p, out, isInt))
				if err != nil && !isInt {
					res = append(res, err.Error())
				}
			}
			t.Logf("(c) %s: %v", seq, res)
		}
	}
}
