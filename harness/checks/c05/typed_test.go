package c05

// The typed sub-workload of C05 (engine: typed_engine_test.go).
//
// For each generated typed spec: the uninterrupted run (value form and stream form, which must agree) is the
// oracle. Then every single interrupt point (each node of every nesting level, before / after), a sample of
// pairs, and the self-interrupting nodes alone are configured; each history is driven to completion through a
// byte-only store, with every combination of Invoke/Stream for the interrupted call and the first resume
// (further resumes cycle), sometimes entered through Collect/Transform, always with a different (ignored)
// input and a state modifier on every resume. Judged: no call fails, the final output and the multiset of
// (node, input) executions equal the uninterrupted run's, the state modifier is called with the path of the
// graph that owns the state it is handed - once per state and call - and its modification is later seen
// in exactly that state.

import (
	"context"
	"fmt"
	"os"
	"strings"

	"verifharness/internal/mon"
)

const typedPrefix = ID + "/typed/"

// typedCasesPerShard: how many of the cases of a shard belong to the typed sub-workload.
func typedCasesPerShard(cfg mon.Config) int64 { return int64(cfg.Pick(21, 42)) }

// spansCasesPerShard / parkedCasesPerShard: the cases of the span workload (spans_test.go) and of the parked focus
// (parked_test.go) follow the typed ones.
func spansCasesPerShard(cfg mon.Config) int64  { return int64(cfg.Pick(9, 21)) }
func parkedCasesPerShard(cfg mon.Config) int64 { return int64(cfg.Pick(10, 25)) }

func typedDebug(format string, a ...any) {
	if os.Getenv("VERIF_TYPED_DEBUG") != "" {
		fmt.Fprintf(os.Stderr, format+"\n", a...)
	}
}

type typedBase struct {
	out        string
	execs      []string
	bodyCtx    []string // span workload: (node, input, context) of the bodies
	handlerCtx []string // span workload: (node, context) of the node-level OnStart handlers
}

// typedVariant: what a case of the typed engine is run with.
type typedVariant struct {
	focus string
	spans string // "" or a mode of the span workload (spans_test.go)
}

// typedBaseline runs the spec uninterrupted in one paradigm.
func typedBaseline(ctx context.Context, g *tGraph, para, seed string, chunks int, spans string) (*typedBase, string) {
	h := runTyped(ctx, g, nil, histOpts{Paras: []string{para}, MaxCalls: 1, InputSeed: seed, InChunks: chunks, Spans: spans})
	switch {
	case h.BuildErr != nil:
		return nil, "build-error: " + h.BuildErr.Error()
	case h.Stuck != "" || h.Inconclusive:
		return nil, "hang"
	case !h.Completed:
		return nil, "fails: " + h.final().String()
	}
	return &typedBase{out: render(h.final().Out), execs: execMultiset(h.execs()), bodyCtx: bodyContexts(h.execs()), handlerCtx: handlerContexts(h.execs())}, ""
}

func typedPlans(r *mon.Rand, cfg mon.Config, g *tGraph, focus string) []tPlan {
	pts := allTypedPoints(g)
	var ps []tPlan
	hasRerun := false
	g.walk(func(x *tGraph) {
		for i := range x.Nodes {
			if x.Nodes[i].Rerun != "" {
				hasRerun = true
			}
		}
	})
	if hasRerun {
		ps = append(ps, tPlan{})
	}
	for _, p := range pts {
		ps = append(ps, tPlan{p})
	}
	if focus == "deep-state" {
		// both of two sibling stateful graphs interrupted: one point in each
		var leaves []*tGraph
		g.walk(func(x *tGraph) {
			if x.State && x.depth() == 0 && x.Name != "" {
				leaves = append(leaves, x)
			}
		})
		for n := 0; n < cfg.Pick(10, 24) && len(leaves) >= 2; n++ {
			perm := r.Perm(len(leaves))
			var plan tPlan
			for _, li := range perm[:r.Range(2, len(leaves))] {
				l := leaves[li]
				// not before the first node and not after the last: the graph must be mid-way
				k := r.Intn(len(l.Nodes))
				after := r.Bool()
				if k == 0 {
					after = true
				}
				if k == len(l.Nodes)-1 {
					after = false
				}
				plan = append(plan, tPoint{Graph: l.Name, Node: l.Nodes[k].Key, After: after})
			}
			ps = append(ps, plan)
		}
	}
	for n := 0; n < cfg.Pick(20, 60) && len(pts) >= 2; n++ {
		a := r.Intn(len(pts))
		b := r.Intn(len(pts) - 1)
		if b >= a {
			b++
		}
		ps = append(ps, tPlan{pts[a], pts[b]})
	}
	return ps
}

func typedParadigms(r *mon.Rand, plan tPlan) [][]string {
	is := []string{"I", "S"}
	if len(plan) <= 1 {
		out := [][]string{{"I", "I"}, {"I", "S"}, {"S", "I"}, {"S", "S"}}
		out = append(out, []string{mon.PickOne(r, []string{"C", "T"}), mon.PickOne(r, is), mon.PickOne(r, is)})
		return out
	}
	var out [][]string
	for i := 0; i < 2; i++ {
		first := mon.PickOne(r, is)
		if r.Prob(0.2) {
			first = mon.PickOne(r, []string{"C", "T"})
		}
		out = append(out, []string{first, mon.PickOne(r, is), mon.PickOne(r, is), mon.PickOne(r, is)})
	}
	return out
}

func typedCase(ctx context.Context, rep *mon.Reporter, rng *mon.Rand, cfg mon.Config, j int64) {
	focus := focuses[int(j)%len(focuses)]
	g := genTyped(rng, focus, cfg.Thorough())
	typedSpecCase(ctx, rep, rng, cfg, g, typedVariant{focus: focus}, j < 2)
}

// spansCase: a typed spec run with callback handlers that derive the context (spans_test.go).
func spansCase(ctx context.Context, rep *mon.Reporter, rng *mon.Rand, cfg mon.Config, j int64) {
	focus := focuses[int(j)%len(focuses)]
	mode := spanModes[int(j)%len(spanModes)] // 3 modes x 7 focuses: every pair within 21 cases
	var g *tGraph
	for try := 0; ; try++ {
		g = genTyped(rng, focus, cfg.Thorough())
		// a handler designated to a nested graph needs one; nested graphs are what every mode is about
		if g.depth() > 0 || (mode != "designated" && try >= 2) || try >= 12 {
			break
		}
	}
	rep.Count("spans_specs", 1)
	rep.Count("spans_specs_"+mode, 1)
	typedSpecCase(ctx, rep, rng, cfg, g, typedVariant{focus: focus, spans: mode}, j < 1)
}

func typedSpecCase(ctx context.Context, rep *mon.Reporter, rng *mon.Rand, cfg mon.Config, g *tGraph, v typedVariant, sample bool) {
	focus := v.focus
	seed := rng.Str(2, 6)
	chunks := rng.Range(1, 3)
	rep.Count("typed_specs", 1)
	rep.Count("typed_specs_"+focus, 1)
	bases := map[string]*typedBase{}
	base := func(para string) *typedBase {
		if b, ok := bases[para]; ok {
			return b
		}
		b, why := typedBaseline(ctx, g, para, seed, chunks, v.spans)
		rep.AddEvaluations(1)
		if b == nil {
			rep.Count("typed_skipped_baseline_"+para+"_"+strings.SplitN(why, ":", 2)[0], 1)
			typedDebug("SKIP focus=%s para=%s: %s\n  spec=%s", focus, para, why, mon.Canon(g))
		}
		bases[para] = b
		return b
	}
	bi, bs := base("I"), base("S")
	if bi == nil || bs == nil {
		// the uninterrupted run itself fails: not C05's business
		return
	}
	if v.spans != "" && (strings.Join(bi.bodyCtx, "\n") != strings.Join(bs.bodyCtx, "\n") || strings.Join(bi.handlerCtx, "\n") != strings.Join(bs.handlerCtx, "\n")) {
		rep.Count("spans_skipped_baseline_forms_disagree", 1)
		typedDebug("SKIP spans focus=%s forms disagree:\n  I: %v %v\n  S: %v %v\n  spec=%s", focus, bi.bodyCtx, bi.handlerCtx, bs.bodyCtx, bs.handlerCtx, mon.Canon(g))
		return
	}
	if bi.out != bs.out || strings.Join(bi.execs, "\n") != strings.Join(bs.execs, "\n") {
		rep.Count("typed_skipped_baseline_forms_disagree", 1)
		typedDebug("SKIP focus=%s forms disagree:\n  I: %s\n  S: %s\n  spec=%s", focus, bi.out, bs.out, mon.Canon(g))
		return
	}
	rep.Count("typed_specs_judged", 1)
	rep.Distinct("typed_shapes", focus+"|"+g.digest())
	if v.spans != "" {
		rep.Count("spans_specs_judged", 1)
		if g.depth() > 0 {
			rep.Count("spans_specs_judged_nested", 1)
		}
	}
	for pi, plan := range typedPlans(rng, cfg, g, focus) {
		for qi, paras := range typedParadigms(rng, plan) {
			if v.spans != "" && qi >= 2 && (pi+qi)%3 != 0 {
				continue // the span workload runs a share of the paradigm combinations
			}
			if b := base(paras[0]); b == nil || b.out != bi.out {
				continue // entering through Collect / Transform does not work for this spec even uninterrupted
			}
			typedHistory(ctx, rep, g, v, seed, chunks, plan, paras, bi, pi == 0 && qi == 0 && sample)
		}
	}
}

func typedHistory(ctx context.Context, rep *mon.Reporter, g *tGraph, v typedVariant, seed string, chunks int, plan tPlan, paras []string, base *typedBase, sample bool) {
	focus := v.focus
	maxCalls := 2*g.bodies() + 2*len(plan) + 6
	h := runTyped(ctx, g, plan, histOpts{Paras: paras, WithID: true, Modifier: true, Reruns: true, MaxCalls: maxCalls, InputSeed: seed, InChunks: chunks, IgnoredIn: true, Spans: v.spans})
	rep.AddEvaluations(int64(len(h.Calls)))
	rep.Count("typed_histories", 1)
	rep.Count("typed_calls", int64(len(h.Calls)))
	sig := typedPrefix + focus + "/"
	wit := map[string]any{"spec": g, "input_seed": seed, "plan": plan.String(), "paradigms": paras}
	if v.spans != "" {
		wit["callback_handlers"] = v.spans
	}
	extra := func() string {
		return fmt.Sprintf("input=%s\nuninterrupted run: %s\n  executions: %v\n%s", render(mk(g.In, seed)), base.out, base.execs, h.render())
	}
	if h.BuildErr != nil {
		rep.Violation(sig+"build-error/with-interrupts", h.BuildErr.Error(), wit)
		return
	}
	if h.Stuck != "" {
		rep.Violation(sig+"hang/"+h.Stuck, "a call of the history can never finish\n"+h.StuckDetail+"\n"+extra(), wit)
		return
	}
	if h.Inconclusive {
		rep.Inconclusive("watchdog fired while goroutines were active")
		return
	}
	for i := range h.Calls {
		c := &h.Calls[i]
		if !c.failed() {
			continue
		}
		how := "failed"
		if c.Panic != nil {
			how = "panicked"
		}
		if i == 0 {
			rep.Violation(sig+"interrupted-call-"+how+"/"+formOf(c.Para),
				fmt.Sprintf("the uninterrupted run succeeds, but with interrupt points configured the first call (%s) neither finished nor returned an interrupt: %s\n%s", c.Para, c.String(), extra()), wit)
		} else {
			rep.Violation(sig+"resume-"+how+"/"+formsUpTo(h, i),
				fmt.Sprintf("call %d (%s) resumed the checkpoint written by call %d (%s) and failed: %s\n%s", i, c.Para, i-1, h.Calls[i-1].Para, c.String(), extra()), wit)
		}
		return
	}
	if h.NoProgress {
		rep.Violation(sig+"no-progress", fmt.Sprintf("not finished after %d calls\n%s", len(h.Calls), extra()), wit)
		return
	}
	interrupts := len(h.Calls) - 1
	rep.Count("typed_interrupts", int64(interrupts))
	forms := formsUpTo(h, len(h.Calls)-1)
	if got := render(h.final().Out); got != base.out {
		rep.Violation(sig+"wrong-output/"+forms, fmt.Sprintf("final output differs from the uninterrupted run\n  want %s\n  got  %s\n%s", base.out, got, extra()), wit)
		return
	}
	if missing, extraE := diffMultiset(base.execs, execMultiset(h.execs())); len(missing)+len(extraE) > 0 {
		cl := "missing"
		if len(missing) == 0 {
			cl = "extra"
		}
		rep.Violation(sig+"executions/"+cl, fmt.Sprintf("node executions differ from the uninterrupted run: missing %v, extra %v\n%s", missing, extraE, extra()), wit)
		return
	}
	// what the bodies and the node-level handlers found in their context
	if v.spans != "" && len(h.Calls) > 1 {
		if judgeSpans(rep, g, base, h, wit, extra) {
			return
		}
		nested := false
		for _, p := range plan {
			nested = nested || p.Graph != ""
		}
		if nested {
			rep.Count("spans_histories_interrupted_in_nested_graph", 1)
		}
	}
	// the caller's state modifier
	for i := range h.Calls {
		seen := map[string]bool{}
		for _, m := range h.Calls[i].Mods {
			rep.Count("typed_state_modifier_calls", 1)
			if strings.Count(m.Path, "/") >= 3 {
				rep.Count("typed_state_modifier_calls_depth4plus", 1)
			}
			if m.Type != "*c05.tState" && !strings.HasSuffix(m.Type, ".tState") {
				rep.Violation(sig+"state-modifier/wrong-type", fmt.Sprintf("the state modifier was handed a %s\n%s", m.Type, extra()), wit)
				return
			}
			if m.Path != m.Owner {
				rep.Violation(sig+"state-modifier/wrong-path", fmt.Sprintf("call %d: the state modifier was called with path %q for the state of the graph at %q\n%s", i, m.Path, m.Owner, extra()), wit)
				return
			}
			if seen[m.Path] {
				rep.Violation(sig+"state-modifier/same-path-twice", fmt.Sprintf("call %d: the state modifier was called twice with path %q\n%s", i, m.Path, extra()), wit)
				return
			}
			seen[m.Path] = true
		}
	}
	for _, s := range h.Seen {
		for _, m := range s.Mods {
			if m != s.Owner {
				rep.Violation(sig+"state-modifier/reached-wrong-state", fmt.Sprintf("the state of the graph at %q carries a modification addressed to %q\n%s", s.Owner, m, extra()), wit)
				return
			}
		}
	}
	rep.Count("typed_histories_equal_to_uninterrupted_run", 1)
	callsWithExecs := 0
	for _, c := range h.Calls {
		for _, e := range c.Execs {
			if !e.OnStart {
				callsWithExecs++
				break
			}
		}
	}
	if interrupts >= 1 && callsWithExecs >= 2 {
		rep.NonTrivial("typed|" + v.spans + "|" + g.digest() + "|" + seed + "|" + plan.String() + fmt.Sprint(paras))
		rep.Count("typed_nontrivial_"+focus, 1)
	}
	if sample {
		rep.Sample(map[string]any{"typed_spec": g, "plan": plan.String(), "history": h.render()})
	}
}

// formsUpTo: in which forms the graph ran in calls 0..i: value-only, stream-only or mixed-forms (a checkpoint
// written in one form was resumed in the other somewhere on the way).
func formsUpTo(h *tHistory, i int) string {
	seen := map[string]bool{}
	for k := 0; k <= i && k < len(h.Calls); k++ {
		seen[formOf(h.Calls[k].Para)] = true
	}
	switch {
	case seen["value"] && seen["stream"]:
		return "mixed-forms"
	case seen["stream"]:
		return "stream-only"
	}
	return "value-only"
}
