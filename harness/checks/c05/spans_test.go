package c05

// The span sub-workload of C05: what the nodes of a resumed run observe of the caller's callback handlers.
//
// A callback handler may derive the context in OnStart (that is what its return value is for: trace spans,
// request-scoped values, eino's own message-future marker). In an uninterrupted run every node of a graph runs
// under the context the graph-level OnStart handlers handed back, every body under what the node-level OnStart
// handlers handed back. "The same node invocations" of the resumed run includes the context they are invoked
// with: a task restored from a checkpoint (a pending node, a nested graph that was interrupted mid-way, a node
// that asked to be re-run) is the same invocation as the one the uninterrupted run makes.
//
// The typed specs of typed_engine_test.go (every focus, every mode, nested graphs) are run with handlers that
//   - open a "span" per graph / workflow: OnStart (OnStartWithStreamInput) of a graph component returns a context
//     whose span is parent + "/" + tag + name of the graph;
//   - in the mode graph+node also derive a second value at the OnStart of every other component (lambdas);
//   - in the mode designated a second handler with another tag is designated to one nested graph by its path;
//   - record at every node-level OnStart which span the handler found.
// Every body records the span (and node value) it finds in its context. Oracle: the uninterrupted run of the same
// spec with the same handlers, in value and in stream form (which must agree): the multiset of (node, input,
// context) of the bodies and the set of (node, context) of the node-level OnStart handlers are equal.

import (
	"context"
	"fmt"
	"sort"
	"strings"

	"github.com/cloudwego/eino/callbacks"
	"github.com/cloudwego/eino/compose"
	"github.com/cloudwego/eino/schema"
)

const spansPrefix = ID + "/spans/"

var spanModes = []string{"graph", "graph+node", "designated"}

type spanKey struct{}
type nodeSpanKey struct{}

// spanOf renders what a body (or a handler) finds in its context.
func spanOf(ctx context.Context) string {
	s, _ := ctx.Value(spanKey{}).(string)
	n, _ := ctx.Value(nodeSpanKey{}).(string)
	if s == "" {
		s = "-"
	}
	if n != "" {
		s += " node=" + n
	}
	return s
}

func isGraphComponent(info *callbacks.RunInfo) bool {
	if info == nil {
		return false
	}
	switch info.Component {
	case compose.ComponentOfGraph, compose.ComponentOfWorkflow, compose.ComponentOfChain:
		return true
	}
	return false
}

// spanHandler: see the head of the file. tag tells the handlers of one call apart.
func spanHandler(hc *hist, tag string, nodeLevel bool) callbacks.Handler {
	derive := func(ctx context.Context, info *callbacks.RunInfo) context.Context {
		if info == nil {
			return ctx
		}
		if isGraphComponent(info) {
			parent, _ := ctx.Value(spanKey{}).(string)
			return context.WithValue(ctx, spanKey{}, parent+"/"+tag+info.Name)
		}
		hc.log(tExec{Key: info.Name, OnStart: true, Ctx: tag + ":" + spanOf(ctx)})
		if nodeLevel {
			prev, _ := ctx.Value(nodeSpanKey{}).(string)
			return context.WithValue(ctx, nodeSpanKey{}, prev+tag+info.Name)
		}
		return ctx
	}
	return callbacks.NewHandlerBuilder().
		OnStartFn(func(ctx context.Context, info *callbacks.RunInfo, _ callbacks.CallbackInput) context.Context {
			return derive(ctx, info)
		}).
		OnStartWithStreamInputFn(func(ctx context.Context, info *callbacks.RunInfo, in *schema.StreamReader[callbacks.CallbackInput]) context.Context {
			in.Close()
			return derive(ctx, info)
		}).Build()
}

// designatedTarget: the nested graph (deterministically: the first in the walk order with the longest path) a
// second handler is designated to.
func designatedTarget(g *tGraph) []string {
	var best []string
	g.walk(func(x *tGraph) {
		if x.Path == "" {
			return
		}
		p := strings.Split(x.Path, "/")
		if len(p) > len(best) {
			best = p
		}
	})
	return best
}

func spanOptions(g *tGraph, hc *hist, mode string) []compose.Option {
	opts := []compose.Option{compose.WithCallbacks(spanHandler(hc, "a", mode == "graph+node"))}
	if mode == "designated" {
		if p := designatedTarget(g); len(p) > 0 {
			opts = append(opts, compose.WithCallbacks(spanHandler(hc, "b", true)).DesignateNodeWithPath(compose.NewNodePath(p...)))
		}
	}
	return opts
}

// bodyContexts: the multiset of (node, input, context) of the completed bodies.
func bodyContexts(es []tExec) []string {
	var out []string
	for _, e := range es {
		if !e.Aborted && !e.OnStart {
			out = append(out, e.Key+"("+e.In+") context "+e.Ctx)
		}
	}
	sort.Strings(out)
	return out
}

// handlerContexts: the set of (node, context) the node-level OnStart handlers found. A set: the handler of a node
// that asks to be re-run is called once per attempt.
func handlerContexts(es []tExec) []string {
	seen := map[string]bool{}
	var out []string
	for _, e := range es {
		if e.OnStart {
			s := e.Key + " context " + e.Ctx
			if !seen[s] {
				seen[s] = true
				out = append(out, s)
			}
		}
	}
	sort.Strings(out)
	return out
}

// nestedKeys: the keys of the nodes that are not in the top-level graph.
func nestedKeys(g *tGraph) map[string]bool {
	out := map[string]bool{}
	g.walk(func(x *tGraph) {
		if x.Name == "" {
			return
		}
		for i := range x.Nodes {
			out[x.Nodes[i].Key] = true
		}
	})
	return out
}

// spanClass names what differs between two renderings of the same node invocation.
func spanClass(g *tGraph, missing, extra []string) string {
	key := func(s string) string {
		if i := strings.IndexAny(s, "( "); i > 0 {
			return s[:i]
		}
		return s
	}
	where := "top-level-node"
	what := "graph-onstart-context"
	nested := nestedKeys(g)
	for _, m := range missing {
		if nested[key(m)] {
			where = "nested-node"
		}
		// is it only the node-level value that differs?
		mi := strings.Index(m, " node=")
		for _, x := range extra {
			if key(x) != key(m) {
				continue
			}
			xi := strings.Index(x, " node=")
			mb, xb := m, x
			if mi >= 0 {
				mb = m[:mi]
			}
			if xi >= 0 {
				xb = x[:xi]
			}
			if mb == xb {
				what = "node-onstart-context"
			}
		}
	}
	return what + "/" + where
}

// judgeSpans compares what the bodies and the node-level handlers of a history observed with the uninterrupted
// run. True: a violation was reported.
func judgeSpans(rep reporter, g *tGraph, base *typedBase, h *tHistory, wit any, extra func() string) bool {
	es := h.execs()
	if missing, ext := diffMultiset(base.bodyCtx, bodyContexts(es)); len(missing)+len(ext) > 0 {
		rep.Violation(spansPrefix+"body/"+spanClass(g, missing, ext),
			fmt.Sprintf("the bodies of the resumed run do not run under the context they run under in the uninterrupted run (what the OnStart handlers of the caller's callbacks returned)\n  uninterrupted only: %v\n  interrupted/resumed only: %v\n%s", missing, ext, extra()), wit)
		return true
	}
	if missing, ext := diffMultiset(base.handlerCtx, handlerContexts(es)); len(missing)+len(ext) > 0 {
		rep.Violation(spansPrefix+"node-handler/"+spanClass(g, missing, ext),
			fmt.Sprintf("the node-level OnStart handlers of the resumed run do not find the context they find in the uninterrupted run\n  uninterrupted only: %v\n  interrupted/resumed only: %v\n%s", missing, ext, extra()), wit)
		return true
	}
	rep.Count("spans_histories_equal_to_uninterrupted_run", 1)
	return false
}

// reporter: what judgeSpans needs of *mon.Reporter.
type reporter interface {
	Violation(signature, detail string, witness any)
	Count(key string, n int64)
}
