package c05

import (
	"context"
	"fmt"
	"sort"
	"strings"
	"sync"

	"github.com/cloudwego/eino/compose"

	"verifharness/internal/gspec"
	"verifharness/internal/mon"
)

// replayCase: a checkpoint is data. Resuming twice from the same stored bytes (a retry after a failed
// resume, a replay, a second consumer of the store) must give the same call both times: the same
// result or the same interrupt, the same node invocations with the same inputs. Anything a resumed
// run keeps from an earlier resume of the same checkpoint (a cached decoded checkpoint, state aliased
// into the compiled runnable, consumed channel values) shows as a difference.
func replayCase(ctx context.Context, rep *mon.Reporter, rng *mon.Rand, spec *gspec.GraphSpec, in gspec.V, ref *gspec.RefResult, plan gspec.Plan) {
	ps := gspec.ApplyPlan(spec, plan)
	store := gspec.NewByteStore()
	r, err := gspec.Build(ctx, ps, gspec.BuildOpts{Store: store})
	if err != nil {
		return // reported by onePlan
	}
	type callOut struct {
		out         gspec.Outcome
		interrupted bool
		info        string
		execs       []string
	}
	call := func(i int, callIn gspec.V, para string, rerun *sync.Map) (*callOut, bool) {
		ctl := gspec.NewCtl(fmt.Sprintf("replay%d", i))
		ctl.RerunSeen = rerun
		ctl.RerunEnabled = true
		out, wres, dump := gspec.CallGuarded(gspec.WithCtl(ctx, ctl), r, para, callIn, 0, -1, compose.WithCheckPointID("cp"))
		rep.AddEvaluations(1)
		if wres == mon.Stuck {
			where, detail := gspec.StuckSignature(dump)
			rep.Violation(ID+"/replay/hang/"+where, detail, map[string]any{"spec": ps, "plan": plan.String()})
			return nil, false
		}
		if wres != mon.Finished {
			rep.Inconclusive("watchdog")
			return nil, false
		}
		co := &callOut{out: out}
		if out.Err != nil {
			if info, ok := compose.ExtractInterruptInfo(out.Err); ok {
				co.interrupted, co.info = true, gspec.RenderInfo(info)
			}
		}
		execs, _, _, _ := ctl.Log.Snapshot()
		for _, e := range execs {
			co.execs = append(co.execs, e.Path+"("+e.In+")"+e.Err)
		}
		sort.Strings(co.execs)
		return co, true
	}
	cloneMap := func(m *sync.Map) *sync.Map {
		c := &sync.Map{}
		m.Range(func(k, v any) bool { c.Store(k, v); return true })
		return c
	}
	rerun := &sync.Map{}
	paras := []string{"I", "S"}
	first, ok := call(0, in, paras[rng.Intn(2)], rerun)
	if !ok || !first.interrupted {
		return
	}
	// advance 0-2 resumes, then take the checkpoint that is in the store and continue from it twice
	ign := gspec.V{"in": "IGNORED-ON-RESUME"}
	for i, k := 0, rng.Intn(3); i < k; i++ {
		c, ok := call(1+i, ign, paras[rng.Intn(2)], rerun)
		if !ok || !c.interrupted {
			return
		}
	}
	snap := store.Snapshot()
	rerunSnap := cloneMap(rerun)
	maxCalls := 4*(len(ref.Execs)+len(plan)+2) + 4
	var trace [2][]string
	for cont := 0; cont < 2; cont++ {
		store.Restore(snap)
		rr := cloneMap(rerunSnap)
		var last *callOut
		done := false
		for i := 0; i < maxCalls; i++ {
			para := paras[rng.Intn(2)]
			c, ok := call(100*(cont+1)+i, ign, para, rr)
			if !ok {
				return
			}
			trace[cont] = append(trace[cont], fmt.Sprintf("    call %d [%s]: interrupted=%v %s %s\n      executions: %s", i, para, c.interrupted, c.info, c.out.String(), strings.Join(c.execs, " ")))
			last = c
			if !c.interrupted {
				done = true
				break
			}
		}
		rep.Count("continuations_from_a_replayed_checkpoint", 1)
		wit := map[string]any{"spec": ps, "input": in, "plan": plan.String(), "continuation": cont}
		extra := fmt.Sprintf("plan: %s input=%s\nreference (uninterrupted): %s\ncontinuation 1 from the checkpoint:\n%s\ncontinuation 2 from the same stored bytes:\n%s", plan.String(), gspec.Canon(in), ref.String(), strings.Join(trace[0], "\n"), strings.Join(trace[1], "\n"))
		which := []string{"first", "second"}[cont]
		if !done {
			rep.Violation(ID+"/replay/"+which+"-continuation/no-progress", "a continuation from a stored checkpoint does not finish\n"+extra, wit)
			return
		}
		if m := gspec.CompareResult(ref, last.out); m != nil {
			rep.Violation(ID+"/replay/"+which+"-continuation/"+m.Class, "the same checkpoint (same stored bytes) was continued twice; the "+which+" continuation does not end like the uninterrupted run: "+m.Detail+"\n"+extra, wit)
			return
		}
	}
	rep.Count("checkpoints_continued_twice", 1)
	rep.NonTrivial(fmt.Sprintf("replay|%s|%s|%s", spec.Digest(), gspec.Canon(in), plan))
}
