package c05

// The "rerun next to a dead end" sub-workload of C05.
//
// In an any-predecessor graph a superstep may hold, side by side, a node that asks to be interrupted and re-run
// (it returns compose.InterruptAndRerun on its first attempt, or it is a nested graph one of whose nodes does)
// and sibling nodes that complete and send their values on. The values of the siblings are parked in the channels
// of their successors, travel through the checkpoint, and have to be read when the re-run nodes finally complete
// the superstep - also when the re-run nodes themselves hand NOTHING on: a node without outgoing edge (a
// side-effect node), or a node whose multi-way branch selects no target. Whatever was sent before the interrupt
// is delivered in the next step, and the run reaches END with what the uninterrupted run returns.
//
// Generated (pure function of the mon.Rand): layered any-predecessor graphs over map[string]any.
//   START fans out into k>=2 nodes of layer 1; 1-4 layers; every edge / branch target goes to the next layer or
//   to END, so that all nodes of a layer run in the same superstep. One node per layer (the spine) leads on to the
//   next layer and finally to END; every other node draws its tail: dead end (no outgoing edge), multi-way branch
//   (value or stream condition) selecting nothing, edges, branch selecting a subset, edge plus a branch selecting
//   nothing. A random subset of the nodes (spine nodes as well) are re-run-once nodes, either "blind" (their
//   re-run gets the zero input and does not look at it) or, in graphs with state, rebuilding their input in the
//   state pre-handler. Nodes are invokable or streamable lambdas or - at the top level - nested graphs of the same
//   family (with or without state of their own), which re-run as a whole when a node inside interrupts and may be
//   dead ends of the outer graph themselves. Two wrappers: the family at the top level, or as the only graph node
//   of a chain START -> [pre] -> W -> [post] -> END.
// Histories: the first call and the resumes cycle through a generated list of forms (Invoke / Stream), every
//   resume with another (ignored) input, through a byte-only checkpoint store, until the run finishes.
// Oracle: the uninterrupted run of the same compiled graph with the re-run requests switched off (value and stream
//   form, which have to agree): every call of a history either interrupts or finishes; the final output and the
//   multiset of executed bodies (node, input - for blind re-run nodes the node only) equal the uninterrupted
//   run's.

import (
	"context"
	"errors"
	"fmt"
	"io"
	"sort"
	"strconv"
	"strings"
	"sync"
	"time"

	"github.com/cloudwego/eino/compose"
	"github.com/cloudwego/eino/schema"

	"verifharness/internal/gspec"
	"verifharness/internal/mon"
)

const rdPrefix = ID + "/rerun-deadend/"

// rerunDeadEndCasesPerShard: the cases of this workload follow the parked ones.
func rerunDeadEndCasesPerShard(cfg mon.Config) int64 { return int64(cfg.Pick(120, 480)) }

type rdM = map[string]any

// rdState: the state of generated stateful graphs: the inputs that re-run nodes rebuild.
type rdState struct {
	Saved map[string]any
}

func init() {
	_ = compose.RegisterSerializableType[rdState]("verif_c05_rerun_deadend_state")
}

// ---------------------------------------------------------------- spec

type rdBranch struct {
	Targets []string `json:"targets"`
	Pick    []string `json:"pick"` // what the condition selects: may be empty
	Stream  bool     `json:"stream,omitempty"`
}

type rdNode struct {
	Key    string    `json:"key"` // unique over all nesting levels
	Layer  int       `json:"layer"`
	Form   string    `json:"form"`            // i: invokable, s: streamable (one chunk), g: nested graph
	Rerun  string    `json:"rerun,omitempty"` // "" | blind | state
	Edges  []string  `json:"edges,omitempty"`
	Branch *rdBranch `json:"branch,omitempty"`
	Sub    *rdGraph  `json:"sub,omitempty"`
}

// handsOn: does the node send its output to anybody once it completes.
func (n *rdNode) handsOn() bool {
	return len(n.Edges) > 0 || (n.Branch != nil && len(n.Branch.Pick) > 0)
}

type rdGraph struct {
	Name   string   `json:"name,omitempty"`
	State  bool     `json:"state,omitempty"`
	Layers [][]int  `json:"-"`
	Nodes  []rdNode `json:"nodes"`
}

func (g *rdGraph) hasRerun() bool {
	for i := range g.Nodes {
		if g.Nodes[i].Rerun != "" || (g.Nodes[i].Sub != nil && g.Nodes[i].Sub.hasRerun()) {
			return true
		}
	}
	return false
}

func (g *rdGraph) reruns() int {
	n := 0
	for i := range g.Nodes {
		if g.Nodes[i].Rerun != "" {
			n++
		}
		if g.Nodes[i].Sub != nil {
			n += g.Nodes[i].Sub.reruns()
		}
	}
	return n
}

func (g *rdGraph) nested() bool {
	for i := range g.Nodes {
		if g.Nodes[i].Sub != nil {
			return true
		}
	}
	return false
}

// ---------------------------------------------------------------- generation

type rdGenOpts struct {
	maxLayers, maxFan, maxWidth int
	nest                        float64
	rerun                       float64
}

func rdGen(r *mon.Rand, prefix string, o rdGenOpts, depth int) *rdGraph {
	g := &rdGraph{Name: strings.TrimSuffix(prefix, "_"), State: r.Prob(0.4)}
	nLayers := r.Range(1, o.maxLayers)
	for d := 0; d < nLayers; d++ {
		w := r.Range(1, o.maxWidth)
		if d == 0 {
			w = r.Range(2, o.maxFan)
		}
		var idx []int
		for j := 0; j < w; j++ {
			n := rdNode{Key: prefix + string(rune('a'+d)) + strconv.Itoa(j), Layer: d + 1, Form: "i"}
			if r.Prob(0.3) {
				n.Form = "s"
			}
			g.Nodes = append(g.Nodes, n)
			idx = append(idx, len(g.Nodes)-1)
		}
		g.Layers = append(g.Layers, idx)
	}
	spine := make([]int, nLayers)
	for d := range spine {
		spine[d] = g.Layers[d][r.Intn(len(g.Layers[d]))]
	}
	// next: the possible targets of a node of layer d (0-based)
	next := func(d int) []string {
		if d == nLayers-1 {
			return []string{compose.END}
		}
		var out []string
		for _, i := range g.Layers[d+1] {
			out = append(out, g.Nodes[i].Key)
		}
		if r.Prob(0.25) {
			out = append(out, compose.END)
		}
		return out
	}
	pickSome := func(xs []string, lo, hi int) (picked, rest []string) {
		if hi > len(xs) {
			hi = len(xs)
		}
		if lo > hi {
			lo = hi
		}
		k := r.Range(lo, hi)
		perm := r.Perm(len(xs))
		for i, p := range perm {
			if i < k {
				picked = append(picked, xs[p])
			} else {
				rest = append(rest, xs[p])
			}
		}
		sort.Strings(picked)
		sort.Strings(rest)
		return
	}
	// a branch has at least two targets: where the next layer is too small a node that is never selected fills in
	never := prefix + "never"
	needNever := false
	mkBranch := func(targets, pick []string) *rdBranch {
		if len(targets) < 2 {
			targets = append(targets, never)
			needNever = true
		}
		sort.Strings(targets)
		return &rdBranch{Targets: targets, Pick: pick, Stream: r.Prob(0.3)}
	}
	for d := 0; d < nLayers; d++ {
		for _, i := range g.Layers[d] {
			n := &g.Nodes[i]
			cand := next(d)
			if i == spine[d] {
				to := compose.END
				if d < nLayers-1 {
					to = g.Nodes[spine[d+1]].Key
				}
				var others []string
				for _, c := range cand {
					if c != to {
						others = append(others, c)
					}
				}
				if r.Prob(0.3) {
					// the way on leads through a branch
					extra, _ := pickSome(others, 0, 2)
					n.Branch = mkBranch(append([]string{to}, extra...), []string{to})
				} else {
					n.Edges = []string{to}
					if r.Prob(0.3) {
						extra, _ := pickSome(others, 0, 1)
						n.Edges = append(n.Edges, extra...)
						sort.Strings(n.Edges)
					}
				}
				continue
			}
			switch p := r.Float(); {
			case p < 0.35:
				// dead end: a node that only has a side effect
			case p < 0.55:
				t, _ := pickSome(cand, 1, 2)
				n.Branch = mkBranch(t, nil)
			case p < 0.75:
				n.Edges, _ = pickSome(cand, 1, 2)
			case p < 0.9:
				t, _ := pickSome(cand, 1, 3)
				pk, _ := pickSome(t, 1, len(t))
				n.Branch = mkBranch(t, pk)
			default:
				e, rest := pickSome(cand, 1, 1)
				n.Edges = e
				if len(rest) > 0 {
					t, _ := pickSome(rest, 1, 2)
					n.Branch = mkBranch(t, nil)
				}
			}
		}
		// every node of the next layer is the target of somebody (an edge of the spine node if need be)
		if d < nLayers-1 {
			declared := map[string]bool{}
			for _, i := range g.Layers[d] {
				for _, e := range g.Nodes[i].Edges {
					declared[e] = true
				}
				if b := g.Nodes[i].Branch; b != nil {
					for _, t := range b.Targets {
						declared[t] = true
					}
				}
			}
			sp := &g.Nodes[spine[d]]
			for _, i := range g.Layers[d+1] {
				if k := g.Nodes[i].Key; !declared[k] {
					sp.Edges = append(sp.Edges, k)
				}
			}
			sort.Strings(sp.Edges)
		}
	}
	// nested graphs (top level only), then the re-run nodes
	defer func() {
		if needNever {
			g.Nodes = append(g.Nodes, rdNode{Key: never, Form: "i", Edges: []string{compose.END}})
		}
	}()
	for i := range g.Nodes {
		n := &g.Nodes[i]
		if depth == 0 && r.Prob(o.nest) {
			n.Form = "g"
			n.Sub = rdGen(r, n.Key+"_", rdGenOpts{maxLayers: 2, maxFan: 3, maxWidth: 2, rerun: 0.4}, depth+1)
			continue
		}
		if r.Prob(o.rerun) {
			n.setRerun(r, g)
		}
	}
	// most of the time one layer is given a re-run node that hands nothing on, next to a sibling that does
	if r.Prob(0.6) {
		d := r.Intn(nLayers)
		var cands []int
		for _, i := range g.Layers[d] {
			if i != spine[d] && g.Nodes[i].Sub == nil {
				cands = append(cands, i)
			}
		}
		if len(cands) > 0 {
			n := &g.Nodes[cands[r.Intn(len(cands))]]
			n.setRerun(r, g)
			n.Edges = nil
			if n.Branch != nil {
				n.Branch.Pick = nil
			}
		}
	}
	return g
}

func (n *rdNode) setRerun(r *mon.Rand, g *rdGraph) {
	n.Rerun, n.Form = "blind", "i"
	if g.State && r.Bool() {
		n.Rerun = "state"
	}
}

// rdGenTop: the family at the top level, or wrapped into the only graph node of a chain.
func rdGenTop(r *mon.Rand) *rdGraph {
	o := rdGenOpts{maxLayers: 4, maxFan: 4, maxWidth: 3, nest: 0.15, rerun: 0.3}
	if !r.Prob(0.3) {
		g := rdGen(r, "", o, 0)
		if !g.hasRerun() {
			i := g.Layers[0][r.Intn(len(g.Layers[0]))]
			if g.Nodes[i].Sub == nil {
				g.Nodes[i].setRerun(r, g)
			}
		}
		return g
	}
	o.nest = 0
	sub := rdGen(r, "W_", o, 1)
	if !sub.hasRerun() {
		sub.Nodes[sub.Layers[0][0]].setRerun(r, sub)
	}
	top := &rdGraph{State: r.Prob(0.3)}
	var chain []string
	if r.Bool() {
		chain = append(chain, "pre")
	}
	chain = append(chain, "W")
	if r.Bool() {
		chain = append(chain, "post")
	}
	for i, k := range chain {
		n := rdNode{Key: k, Layer: i + 1, Form: "i", Edges: []string{compose.END}}
		if i+1 < len(chain) {
			n.Edges = []string{chain[i+1]}
		}
		if k == "W" {
			n.Form, n.Sub = "g", sub
		} else if r.Prob(0.3) {
			n.Form = "s"
		}
		top.Nodes = append(top.Nodes, n)
		top.Layers = append(top.Layers, []int{i})
	}
	return top
}

// ---------------------------------------------------------------- run-time

type rdRun struct {
	mu      sync.Mutex
	rerunOn bool
	seen    map[string]bool
	execs   []string
	aborted int
}

type rdRunKey struct{}

func rdRunFrom(ctx context.Context) *rdRun { r, _ := ctx.Value(rdRunKey{}).(*rdRun); return r }

func rdRender(m rdM) string {
	parts := make([]string, 0, len(m))
	for _, k := range mon.SortedKeys(m) {
		parts = append(parts, fmt.Sprintf("%s=%v", k, m[k]))
	}
	return "{" + strings.Join(parts, ",") + "}"
}

func rdCopy(m rdM) rdM {
	out := make(rdM, len(m))
	for k, v := range m {
		out[k] = v
	}
	return out
}

func rdBody(n *rdNode) func(ctx context.Context, in rdM) (rdM, error) {
	key, rerun := n.Key, n.Rerun
	return func(ctx context.Context, in rdM) (rdM, error) {
		run := rdRunFrom(ctx)
		if run == nil {
			return nil, errors.New("verif: no run in context")
		}
		run.mu.Lock()
		defer run.mu.Unlock()
		if rerun != "" && run.rerunOn && !run.seen[key] {
			run.seen[key] = true
			run.aborted++
			return nil, compose.InterruptAndRerun
		}
		if rerun == "blind" {
			run.execs = append(run.execs, key+"(*)")
			return rdM{key: "blind"}, nil
		}
		s := rdRender(in)
		run.execs = append(run.execs, key+s)
		return rdM{key: mon.H8(key + "|" + s)}, nil
	}
}

func rdLambda(n *rdNode) *compose.Lambda {
	body := rdBody(n)
	if n.Form == "s" {
		return compose.StreamableLambda(func(ctx context.Context, in rdM) (*schema.StreamReader[rdM], error) {
			out, err := body(ctx, in)
			if err != nil {
				return nil, err
			}
			return schema.StreamReaderFromArray([]rdM{out}), nil
		})
	}
	return compose.InvokableLambda(body)
}

func rdBranchOf(b *rdBranch) *compose.GraphBranch {
	ends := map[string]bool{}
	for _, t := range b.Targets {
		ends[t] = true
	}
	pick := func() map[string]bool {
		out := map[string]bool{}
		for _, p := range b.Pick {
			out[p] = true
		}
		return out
	}
	if b.Stream {
		return compose.NewStreamGraphMultiBranch(func(_ context.Context, sr *schema.StreamReader[rdM]) (map[string]bool, error) {
			defer sr.Close()
			for {
				_, err := sr.Recv()
				if err == io.EOF {
					break
				}
				if err != nil {
					return nil, err
				}
			}
			return pick(), nil
		}, ends)
	}
	return compose.NewGraphMultiBranch(func(_ context.Context, _ rdM) (map[string]bool, error) { return pick(), nil }, ends)
}

func rdBuild(g *rdGraph) (*compose.Graph[rdM, rdM], error) {
	var opts []compose.NewGraphOption
	if g.State {
		opts = append(opts, compose.WithGenLocalState(func(context.Context) *rdState { return &rdState{Saved: map[string]any{}} }))
	}
	cg := compose.NewGraph[rdM, rdM](opts...)
	for i := range g.Nodes {
		n := &g.Nodes[i]
		nopts := []compose.GraphAddNodeOpt{compose.WithNodeName(n.Key)}
		if n.Rerun == "state" {
			key := n.Key
			nopts = append(nopts, compose.WithStatePreHandler(func(_ context.Context, in rdM, st *rdState) (rdM, error) {
				if len(in) == 0 {
					// the re-run is handed the zero input: rebuild it from what the aborted attempt saved
					if saved, ok := st.Saved[key].(map[string]any); ok {
						return rdCopy(saved), nil
					}
					return in, nil
				}
				if st.Saved == nil {
					st.Saved = map[string]any{}
				}
				st.Saved[key] = map[string]any(rdCopy(in))
				return in, nil
			}))
		}
		var err error
		if n.Sub != nil {
			var sub *compose.Graph[rdM, rdM]
			if sub, err = rdBuild(n.Sub); err != nil {
				return nil, err
			}
			err = cg.AddGraphNode(n.Key, sub, append(nopts, compose.WithGraphCompileOptions(compose.WithGraphName(n.Key)))...)
		} else {
			err = cg.AddLambdaNode(n.Key, rdLambda(n), nopts...)
		}
		if err != nil {
			return nil, fmt.Errorf("add node %s: %w", n.Key, err)
		}
	}
	for _, i := range g.Layers[0] {
		if err := cg.AddEdge(compose.START, g.Nodes[i].Key); err != nil {
			return nil, err
		}
	}
	for i := range g.Nodes {
		n := &g.Nodes[i]
		for _, e := range n.Edges {
			if err := cg.AddEdge(n.Key, e); err != nil {
				return nil, fmt.Errorf("add edge %s->%s: %w", n.Key, e, err)
			}
		}
		if n.Branch != nil {
			if err := cg.AddBranch(n.Key, rdBranchOf(n.Branch)); err != nil {
				return nil, fmt.Errorf("add branch %s: %w", n.Key, err)
			}
		}
	}
	return cg, nil
}

type rdCall struct {
	Form        string
	Out         string
	Err         error
	Panic       *mon.Panic
	Interrupted bool
	Where       string // where the interrupting nodes sit: top-level | nested-graph | both
	Rerun       []string
}

func (c *rdCall) String() string {
	switch {
	case c.Panic != nil:
		return c.Form + ": PANIC " + c.Panic.Value
	case c.Interrupted:
		return fmt.Sprintf("%s: interrupted (%s, rerun nodes %v)", c.Form, c.Where, c.Rerun)
	case c.Err != nil:
		return c.Form + ": ERROR " + c.Err.Error()
	}
	return c.Form + ": " + c.Out
}

// rdRerunNodes: the node paths that asked for a re-run, over all nesting levels.
func rdRerunNodes(info *compose.InterruptInfo, prefix string, out *[]string) (top, nested bool) {
	for _, n := range info.RerunNodes {
		*out = append(*out, prefix+n)
		top = true
	}
	for _, k := range mon.SortedKeys(info.SubGraphs) {
		rdRerunNodes(info.SubGraphs[k], prefix+k+"/", out)
		nested = true
	}
	return
}

// rdInvoke: one call in the given form. stuck != "": the call can never finish.
func rdInvoke(ctx context.Context, r compose.Runnable[rdM, rdM], form string, in rdM, opts ...compose.Option) (c rdCall, stuck, stuckDetail string, inconclusive bool) {
	c.Form = form
	done := make(chan struct{})
	go func() {
		defer close(done)
		c.Panic = mon.Safe(func() {
			var out rdM
			if form == "S" {
				var sr *schema.StreamReader[rdM]
				sr, c.Err = r.Stream(ctx, in, opts...)
				if c.Err != nil {
					return
				}
				defer sr.Close()
				var items []string
				for {
					chunk, err := sr.Recv()
					if err == io.EOF {
						break
					}
					if err != nil {
						c.Err = err
						return
					}
					for _, k := range mon.SortedKeys(chunk) {
						items = append(items, fmt.Sprintf("%s=%v", k, chunk[k]))
					}
				}
				sort.Strings(items)
				c.Out = "{" + strings.Join(items, ",") + "}"
				return
			}
			out, c.Err = r.Invoke(ctx, in, opts...)
			if c.Err == nil {
				c.Out = rdRender(out)
			}
		})
	}()
	wres, dump := mon.WaitDone(done, 120*time.Second)
	if wres == mon.Stuck {
		stuck, stuckDetail = gspec.StuckSignature(dump)
		return
	}
	if wres != mon.Finished {
		inconclusive = true
		return
	}
	if c.Err != nil {
		if info, ok := compose.ExtractInterruptInfo(c.Err); ok {
			c.Interrupted = true
			top, nested := rdRerunNodes(info, "", &c.Rerun)
			switch {
			case top && nested:
				c.Where = "both"
			case nested:
				c.Where = "nested-graph"
			default:
				c.Where = "top-level"
			}
		}
	}
	return
}

func rdMultiset(es []string) []string {
	out := append([]string(nil), es...)
	sort.Strings(out)
	return out
}

// rdInClass: does some layer (of some nesting level) hold re-run nodes / interrupting nested graphs none of which
// hands anything on, next to a node that does. Only a statistic: which of the nodes run is up to the engine.
func rdInClass(g *rdGraph) bool {
	for _, layer := range g.Layers {
		reruns, silent, others := 0, 0, 0
		for _, i := range layer {
			n := &g.Nodes[i]
			switch {
			case n.Rerun != "" || (n.Sub != nil && n.Sub.hasRerun()):
				reruns++
				if !n.handsOn() {
					silent++
				}
			case n.handsOn():
				others++
			}
		}
		if reruns > 0 && silent == reruns && others > 0 {
			return true
		}
	}
	for i := range g.Nodes {
		if g.Nodes[i].Sub != nil && rdInClass(g.Nodes[i].Sub) {
			return true
		}
	}
	return false
}

var rdForms = [][]string{{"I"}, {"S"}, {"I", "S"}, {"S", "I"}}

// rerunDeadEndCase: one generated graph, its uninterrupted runs and its interrupted histories.
func rerunDeadEndCase(ctx context.Context, rep *mon.Reporter, rng *mon.Rand, cfg mon.Config, j int64) {
	g := rdGenTop(rng)
	in := rdM{"in": rng.Str(1, 5)}
	// which form lists are run: two of the four, all four in the thorough tier
	formSets := rdForms
	if !cfg.Thorough() {
		p := rng.Perm(len(rdForms))
		formSets = [][]string{rdForms[p[0]], rdForms[p[1]]}
	}
	rep.Count("rerun_deadend_specs", 1)
	wit := map[string]any{"spec": g, "input": in}
	store := gspec.NewByteStore()
	var r compose.Runnable[rdM, rdM]
	var err error
	if p := mon.Safe(func() {
		var cg *compose.Graph[rdM, rdM]
		if cg, err = rdBuild(g); err == nil {
			r, err = cg.Compile(ctx, compose.WithCheckPointStore(store), compose.WithGraphName("top"))
		}
	}); p != nil {
		err = errors.New("panic: " + p.Value)
	}
	if err != nil {
		// whether such a graph may be built is not what this property is about
		rep.Count("rerun_deadend_skipped_build_error", 1)
		typedDebug("SKIP rerun-deadend build: %v\n  spec=%s", err, mon.Canon(g))
		return
	}
	// the uninterrupted runs: re-run requests switched off
	var base *rdCall
	var baseExecs []string
	for _, form := range []string{"I", "S"} {
		run := &rdRun{seen: map[string]bool{}}
		c, stuck, _, inc := rdInvoke(context.WithValue(ctx, rdRunKey{}, run), r, form, rdCopy(in))
		rep.AddEvaluations(1)
		if stuck != "" || inc || c.Panic != nil || c.Err != nil {
			// C01/C02 territory: not judged here
			rep.Count("rerun_deadend_skipped_baseline_fails", 1)
			typedDebug("SKIP rerun-deadend baseline %s\n  spec=%s", c.String(), mon.Canon(g))
			return
		}
		ex := rdMultiset(run.execs)
		if base == nil {
			cc := c
			base, baseExecs = &cc, ex
		} else if c.Out != base.Out || strings.Join(ex, " ") != strings.Join(baseExecs, " ") {
			rep.Count("rerun_deadend_skipped_baseline_forms_disagree", 1)
			typedDebug("SKIP rerun-deadend baseline forms disagree: %s vs %s\n  spec=%s", base.String(), c.String(), mon.Canon(g))
			return
		}
	}
	rep.Count("rerun_deadend_specs_judged", 1)
	inClass := rdInClass(g)
	if inClass {
		rep.Count("rerun_deadend_specs_with_silent_rerun_next_to_sending_sibling", 1)
	}
	if g.nested() {
		rep.Count("rerun_deadend_specs_nested", 1)
	}
	maxCalls := g.reruns() + 3
	for fi, forms := range formSets {
		run := &rdRun{rerunOn: true, seen: map[string]bool{}}
		rctx := context.WithValue(ctx, rdRunKey{}, run)
		id := "cp" + strconv.Itoa(fi)
		var calls []rdCall
		render := func() string {
			var b strings.Builder
			fmt.Fprintf(&b, "input=%s forms=%v\nuninterrupted run: %s\n  executed: %v\n", rdRender(in), forms, base.String(), baseExecs)
			for i := range calls {
				fmt.Fprintf(&b, "call %d %s\n", i, calls[i].String())
			}
			run.mu.Lock()
			fmt.Fprintf(&b, "  executed over all calls: %v\n", rdMultiset(run.execs))
			run.mu.Unlock()
			return b.String()
		}
		where := "no-interrupt"
		finished := false
		for i := 0; i < maxCalls; i++ {
			form := forms[i%len(forms)]
			cin := rdCopy(in)
			if i > 0 {
				cin = rdM{"in": "IGNORED-ON-RESUME"}
			}
			c, stuck, detail, inc := rdInvoke(rctx, r, form, cin, compose.WithCheckPointID(id))
			rep.AddEvaluations(1)
			rep.Count("rerun_deadend_calls", 1)
			if stuck != "" {
				rep.Violation(rdPrefix+"hang/"+stuck, "a call of the history can never finish\n"+detail+"\n"+render(), wit)
				return
			}
			if inc {
				rep.Inconclusive("watchdog fired while goroutines were active")
				return
			}
			calls = append(calls, c)
			if c.Panic != nil {
				rep.Violation(rdPrefix+"panic/"+c.Panic.FirstFrame("github.com/cloudwego/eino/"), c.Panic.Value+"\n"+render()+c.Panic.Stack, wit)
				return
			}
			if c.Interrupted {
				where = c.Where
				continue
			}
			if c.Err != nil {
				class := "resume-failed/after-interrupt-at-" + where
				if i == 0 {
					class = "first-call-failed"
				}
				rep.Violation(rdPrefix+class,
					fmt.Sprintf("the uninterrupted run succeeds; cut into calls by nodes that ask to be re-run, call %d fails with an ordinary error: %v\n%s", i, c.Err, render()), wit)
				return
			}
			finished = true
			break
		}
		if !finished {
			rep.Violation(rdPrefix+"no-progress/after-interrupt-at-"+where, fmt.Sprintf("not finished after %d calls (%d re-run nodes)\n%s", len(calls), g.reruns(), render()), wit)
			return
		}
		rep.Count("rerun_deadend_histories", 1)
		final := calls[len(calls)-1]
		if final.Out != base.Out {
			rep.Violation(rdPrefix+"final-output/after-interrupt-at-"+where,
				fmt.Sprintf("the interrupted and resumed run returns %s, the uninterrupted run %s\n%s", final.Out, base.Out, render()), wit)
			return
		}
		run.mu.Lock()
		got := rdMultiset(run.execs)
		run.mu.Unlock()
		if missing, extra := diffMultiset(baseExecs, got); len(missing)+len(extra) > 0 {
			class := "executions-extra"
			if len(missing) > 0 {
				class = "executions-missing"
			}
			rep.Violation(rdPrefix+class+"/after-interrupt-at-"+where,
				fmt.Sprintf("bodies executed over all calls differ from the uninterrupted run: missing %v, extra %v\n%s", missing, extra, render()), wit)
			return
		}
		if len(calls) >= 2 {
			rep.Count("rerun_deadend_histories_interrupted", 1)
			rep.Count("rerun_deadend_interrupts_"+where, 1)
			if inClass {
				rep.Count("rerun_deadend_histories_with_silent_rerun_next_to_sending_sibling", 1)
			}
			rep.NonTrivial("rerun-deadend|" + mon.Canon(g) + "|" + rdRender(in) + "|" + strings.Join(forms, ""))
		}
		if j < 1 && fi == 0 {
			rep.Sample(map[string]any{"spec": g, "input": in, "forms": forms, "history": render()})
		}
	}
}
