// Package dbg: developer helper (not a registered check): runs one spec from a
// witness file and prints the reference and the observed log.
package dbg

import (
	"context"
	"encoding/json"
	"fmt"
	"os"
	"testing"

	"verifharness/internal/gspec"
)

func TestDebug(t *testing.T) {
	f := os.Getenv("DBG_FILE")
	if f == "" {
		t.Skip("no DBG_FILE")
	}
	b, err := os.ReadFile(f)
	if err != nil {
		t.Fatal(err)
	}
	var w struct {
		Spec  *gspec.GraphSpec `json:"spec"`
		Input gspec.V          `json:"input"`
	}
	if err := json.Unmarshal(b, &w); err != nil {
		t.Fatal(err)
	}
	spec := w.Spec
	if sub := os.Getenv("DBG_SUB"); sub != "" {
		for i := range spec.Nodes {
			if spec.Nodes[i].Key == sub {
				spec = spec.Nodes[i].Sub
			}
		}
	}
	if in := os.Getenv("DBG_IN"); in != "" {
		w.Input = gspec.V{}
		json.Unmarshal([]byte(in), &w.Input)
	}
	ctx := context.Background()
	r, err := gspec.Build(ctx, spec, gspec.BuildOpts{})
	if err != nil {
		t.Fatal(err)
	}
	ref := gspec.EvalGraph(spec, w.Input, nil)
	fmt.Println("REF:", ref.String(), "branch", ref.Branch)
	paras := os.Getenv("DBG_PARA")
	if paras == "" {
		paras = "IS"
	}
	for _, p := range paras {
		ctl := gspec.NewCtl("dbg")
		out := gspec.Call(gspec.WithCtl(ctx, ctl), r, string(p), w.Input, 0, -1)
		execs, _, brs, _ := ctl.Log.Snapshot()
		fmt.Printf("PARA %c: %s\n%s branches=%v\n", p, out.String(), gspec.RenderExecs(execs), brs)
	}
}

// TestDebugHistory: DBG_FILE witness with "spec" (plan already applied), "input"; runs an interrupt/resume history.
func TestDebugHistory(t *testing.T) {
	f := os.Getenv("DBG_FILE")
	if f == "" {
		t.Skip("no DBG_FILE")
	}
	b, err := os.ReadFile(f)
	if err != nil {
		t.Fatal(err)
	}
	var w struct {
		Spec      *gspec.GraphSpec `json:"spec"`
		Input     gspec.V          `json:"input"`
		Paradigms []string         `json:"paradigms"`
	}
	if err := json.Unmarshal(b, &w); err != nil {
		t.Fatal(err)
	}
	gspec.EnableInterruptHook()
	ctx := context.Background()
	store := gspec.NewByteStore()
	r, err := gspec.Build(ctx, w.Spec, gspec.BuildOpts{Store: store})
	if err != nil {
		t.Fatal(err)
	}
	base := gspec.CloneSpec(w.Spec)
	ref := gspec.EvalGraph(base, w.Input, nil)
	fmt.Println("REF:", ref.String())
	h := gspec.RunHistory(ctx, w.Spec, r, store, w.Input, nil, gspec.HistoryOpts{Paras: w.Paradigms, CheckPoint: true, MaxCalls: 12})
	fmt.Println(h.Render())
	if os.Getenv("DBG_CP") != "" {
		bs, _, _ := store.Get(ctx, "cp")
		fmt.Println("CHECKPOINT:", string(bs))
	}
}
