package dbg

import (
	"context"
	"fmt"
	"sync"
	"testing"

	"github.com/cloudwego/eino/callbacks"
	"github.com/cloudwego/eino/compose"
)

func TestLambdaProbe(t *testing.T) {
	ctx := context.Background()
	l := compose.InvokableLambda(func(ctx context.Context, in string) (string, error) { return in + "x", nil })
	g := compose.NewGraph[string, string]()
	g.AddLambdaNode("a", l, compose.WithNodeName("A"))
	g.AddLambdaNode("b", l, compose.WithNodeName("B"))
	g.AddEdge(compose.START, "a")
	g.AddEdge("a", "b")
	g.AddEdge("b", compose.END)
	r, err := g.Compile(ctx, compose.WithGraphName("G"))
	if err != nil {
		t.Fatal(err)
	}
	var mu sync.Mutex
	var names []string
	h := callbacks.NewHandlerBuilder().OnStartFn(func(ctx context.Context, info *callbacks.RunInfo, in callbacks.CallbackInput) context.Context {
		mu.Lock()
		names = append(names, info.Name)
		mu.Unlock()
		return ctx
	}).Build()
	out, err := r.Invoke(ctx, "i", compose.WithCallbacks(h))
	fmt.Println(out, err, names)
}
