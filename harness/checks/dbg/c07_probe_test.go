package dbg

import (
	"context"
	"fmt"
	"testing"

	"github.com/cloudwego/eino/compose"

	"verifharness/internal/mon"
)

type pst struct{ N int }

func TestC07Probe(t *testing.T) {
	ctx := context.Background()
	run := func(name string, build func() (compose.Runnable[string, map[string]any], error)) {
		r, err := build()
		if err != nil {
			fmt.Println(name, "compile:", err)
			return
		}
		p := mon.Safe(func() {
			out, err := r.Invoke(ctx, "x")
			fmt.Println(name, "invoke:", out, err)
		})
		if p != nil {
			fmt.Println(name, "invoke PANIC:", p.Value)
		}
		p = mon.Safe(func() {
			sr, err := r.Stream(ctx, "x")
			if err != nil {
				fmt.Println(name, "stream err:", err)
				return
			}
			for {
				c, err := sr.Recv()
				if err != nil {
					fmt.Println(name, "stream end:", err)
					break
				}
				fmt.Println(name, "stream chunk:", c)
			}
		})
		if p != nil {
			fmt.Println(name, "stream PANIC:", p.Value)
		}
	}
	// 1: keyed pass-through with any pre handler
	run("keyed-pt-pre", func() (compose.Runnable[string, map[string]any], error) {
		g := compose.NewGraph[string, map[string]any](compose.WithGenLocalState(func(ctx context.Context) *pst { return &pst{} }))
		g.AddPassthroughNode("p", compose.WithOutputKey("k"), compose.WithStatePreHandler(func(ctx context.Context, in any, s *pst) (any, error) { return in, nil }))
		g.AddEdge(compose.START, "p")
		g.AddEdge("p", compose.END)
		return g.Compile(ctx)
	})
	run("keyed-pt-post", func() (compose.Runnable[string, map[string]any], error) {
		g := compose.NewGraph[string, map[string]any](compose.WithGenLocalState(func(ctx context.Context) *pst { return &pst{} }))
		g.AddPassthroughNode("p", compose.WithOutputKey("k"), compose.WithStatePostHandler(func(ctx context.Context, in any, s *pst) (any, error) { return in, nil }))
		g.AddEdge(compose.START, "p")
		g.AddEdge("p", compose.END)
		return g.Compile(ctx)
	})
	// 2: any handler changes the dynamic type
	run("pt-pre-changes-type", func() (compose.Runnable[string, map[string]any], error) {
		g := compose.NewGraph[string, map[string]any](compose.WithGenLocalState(func(ctx context.Context) *pst { return &pst{} }))
		g.AddPassthroughNode("p", compose.WithStatePreHandler(func(ctx context.Context, in any, s *pst) (any, error) { return 5, nil }))
		g.AddLambdaNode("l", compose.InvokableLambda(func(ctx context.Context, in string) (map[string]any, error) { return map[string]any{"v": in}, nil }))
		g.AddEdge(compose.START, "p")
		g.AddEdge("p", "l")
		g.AddEdge("l", compose.END)
		return g.Compile(ctx)
	})
	// 3: nil any -> any
	g := compose.NewGraph[any, any]()
	g.AddLambdaNode("l", compose.InvokableLambda(func(ctx context.Context, in any) (any, error) { return in, nil }))
	g.AddEdge(compose.START, "l")
	g.AddEdge("l", compose.END)
	r, err := g.Compile(ctx)
	fmt.Println("nil-any compile", err)
	p := mon.Safe(func() {
		out, err := r.Invoke(ctx, nil)
		fmt.Println("nil-any invoke:", out, err)
	})
	if p != nil {
		fmt.Println("nil-any invoke PANIC:", p.Value)
	}
	// 3b: a node producing nil for an any consumer
	g2 := compose.NewGraph[string, any]()
	g2.AddLambdaNode("a", compose.InvokableLambda(func(ctx context.Context, in string) (any, error) { return nil, nil }))
	g2.AddLambdaNode("b", compose.InvokableLambda(func(ctx context.Context, in any) (any, error) { return fmt.Sprint("got ", in), nil }))
	g2.AddEdge(compose.START, "a")
	g2.AddEdge("a", "b")
	g2.AddEdge("b", compose.END)
	r2, err := g2.Compile(ctx)
	fmt.Println("nil-mid compile", err)
	p = mon.Safe(func() {
		out, err := r2.Invoke(ctx, "x")
		fmt.Println("nil-mid invoke:", out, err)
	})
	if p != nil {
		fmt.Println("nil-mid invoke PANIC:", p.Value)
	}
	p = mon.Safe(func() {
		sr, err := r2.Stream(ctx, "x")
		if err != nil {
			fmt.Println("nil-mid stream err:", err)
			return
		}
		for {
			c, err := sr.Recv()
			if err != nil {
				fmt.Println("nil-mid stream end:", err)
				break
			}
			fmt.Println("nil-mid stream chunk:", c)
		}
	})
	if p != nil {
		fmt.Println("nil-mid stream PANIC:", p.Value)
	}
}
