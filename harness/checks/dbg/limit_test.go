package dbg

import (
	"context"
	"encoding/json"
	"fmt"
	"os"
	"testing"

	"github.com/cloudwego/eino/compose"

	"verifharness/internal/gspec"
)

func TestLimitDbg(t *testing.T) {
	b, _ := os.ReadFile(os.Getenv("REPLAY"))
	var rf struct {
		Witness struct {
			Spec  *gspec.GraphSpec `json:"spec"`
			Input gspec.V          `json:"input"`
		} `json:"witness"`
	}
	if err := json.Unmarshal(b, &rf); err != nil {
		t.Fatal(err)
	}
	spec, in := rf.Witness.Spec, rf.Witness.Input
	ctx := context.Background()
	r, err := gspec.Build(ctx, spec, gspec.BuildOpts{})
	if err != nil {
		t.Fatal(err)
	}
	for _, path := range [][]string{{"b"}, {"b", "b_a"}, {"b", "b_b"}} {
		for lim := 1; lim <= 4; lim++ {
			name := path[len(path)-1]
			ref := gspec.EvalGraph(spec, in, &gspec.RefEnv{SubMaxSteps: map[string]int{findName(spec, name): lim}})
			ctl := gspec.NewCtl("x")
			out := gspec.Call(gspec.WithCtl(ctx, ctl), r, "I", in, 0, -1, compose.WithRuntimeMaxSteps(lim).DesignateNodeWithPath(compose.NewNodePath(path...)))
			execs, _, _, _ := ctl.Log.Snapshot()
			var es []string
			for _, e := range execs {
				es = append(es, e.Path)
			}
			fmt.Printf("path=%v lim=%d ref.err=%q ref.execs=%v | real err=%v execs=%v\n", path, lim, ref.Err, ref.ExecMultiset(), out.Err != nil, es)
		}
	}
}

func findName(g *gspec.GraphSpec, key string) string {
	for i := range g.Nodes {
		if g.Nodes[i].Sub != nil {
			if g.Nodes[i].Key == key {
				return g.Nodes[i].Sub.Name
			}
			if n := findName(g.Nodes[i].Sub, key); n != "" {
				return n
			}
		}
	}
	return ""
}
