package dbg

import (
	"encoding/json"
	"fmt"
	"os"
	"testing"

	"verifharness/internal/gspec"
)

func TestRef(t *testing.T) {
	f := os.Getenv("DBG_FILE")
	if f == "" {
		t.Skip()
	}
	b, _ := os.ReadFile(f)
	var w struct {
		Spec    *gspec.GraphSpec    `json:"spec"`
		Input   gspec.V             `json:"input"`
		Choices map[string][]string `json:"choices"`
	}
	json.Unmarshal(b, &w)
	ref := gspec.EvalGraph(w.Spec, w.Input, &gspec.RefEnv{Choices: w.Choices})
	fmt.Println("REF:", ref.String(), "skipped", ref.Skipped, "ran", ref.Ran)
}
