package dbg

import (
	"context"
	"fmt"
	"testing"
	"time"

	"github.com/cloudwego/eino/compose"
	"github.com/cloudwego/eino/schema"
)

func TestLeakProbe(t *testing.T) {
	for _, noDirect := range []bool{false, true} {
		for _, readAll := range []bool{false, true} {
			ctx := context.Background()
			released := make(chan struct{})
			wf := compose.NewWorkflow[string, map[string]any]()
			wf.AddLambdaNode("src", compose.StreamableLambda(func(ctx context.Context, in string) (*schema.StreamReader[string], error) {
				sr, sw := schema.Pipe[string](0)
				go func() {
					defer close(released)
					defer sw.Close()
					for i := 0; i < 50; i++ {
						if sw.Send(fmt.Sprint(i), nil) {
							return
						}
					}
				}()
				return sr, nil
			})).AddInput(compose.START)
			mk := func(tag string) *compose.Lambda {
				return compose.TransformableLambda(func(ctx context.Context, in *schema.StreamReader[string]) (*schema.StreamReader[string], error) {
					return schema.StreamReaderWithConvert(in, func(s string) (string, error) { return tag + s, nil }), nil
				})
			}
			var o []compose.WorkflowAddInputOpt
			if noDirect {
				o = append(o, compose.WithNoDirectDependency())
			}
			wf.AddLambdaNode("y", mk("y")).AddInputWithOptions("src", nil, o...)
			wf.AddLambdaNode("z", mk("z")).AddInputWithOptions("src", nil, o...)
			wf.AddBranch("src", compose.NewStreamGraphBranch(func(ctx context.Context, in *schema.StreamReader[string]) (string, error) {
				in.Close()
				return "y", nil
			}, map[string]bool{"y": true, "z": true}))
			wf.End().AddInput("y", compose.ToField("y")).AddInput("z", compose.ToField("z"))
			r, err := wf.Compile(ctx)
			if err != nil {
				fmt.Println("compile:", noDirect, err)
				continue
			}
			sr, err := r.Stream(ctx, "i")
			if err != nil {
				fmt.Println("run:", err)
				continue
			}
			n := 0
			for {
				_, err := sr.Recv()
				if err != nil {
					break
				}
				n++
				if !readAll && n == 2 {
					break
				}
			}
			sr.Close()
			select {
			case <-released:
				fmt.Println("noDirect", noDirect, "readAll", readAll, "chunks", n, "producer released")
			case <-time.After(2 * time.Second):
				fmt.Println("noDirect", noDirect, "readAll", readAll, "chunks", n, "PRODUCER STILL BLOCKED")
			}
		}
	}
}
