package dbg

import (
	"context"
	"fmt"
	"testing"

	"verifharness/internal/gspec"
	"verifharness/internal/mon"
)

func TestLeakWF(t *testing.T) {
	mk := func(k string, kind gspec.Kind) gspec.NodeSpec {
		p := gspec.PS
		if kind == gspec.Rename {
			p = gspec.PT
		}
		return gspec.NodeSpec{Key: k, Kind: kind, Para: p, PipeCap: 0, Pad: 6, Chunk: 7}
	}
	spec := &gspec.GraphSpec{Mode: gspec.Workflow, Nodes: []gspec.NodeSpec{mk("a", gspec.Hash), mk("b", gspec.Rename), mk("c", gspec.Rename)},
		Edges: []gspec.EdgeSpec{{From: gspec.START, To: "a"}, {From: "a", To: "b", NoControl: true}, {From: "a", To: "c", NoControl: true},
			{From: "b", To: gspec.END}},
		Branches: []gspec.BranchSpec{{ID: "s1", From: "a", Targets: []string{"b", "c"}, Stream: true, Prefix: true}}}
	ctx := context.Background()
	gspec.FixNames(spec, "")
	r, err := gspec.Build(ctx, spec, gspec.BuildOpts{})
	if err != nil {
		t.Fatal(err)
	}
	for _, ch := range [][]string{{"b"}} {
		ctl := gspec.NewCtl("x")
		ctl.Choices = map[string][]string{"s1": ch}
		sr, err := r.Stream(gspec.WithCtl(ctx, ctl), gspec.V{"in": "hello"})
		if err != nil {
			t.Fatal(err)
		}
		c, err := sr.Recv()
		fmt.Println("first chunk", c, err)
		sr.Close()
		gs, ok := mon.Settle(4, 2000)
		fmt.Println("choice", ch, "settled", ok)
		for _, g := range mon.Parked(gs, "cloudwego/eino", "verifProducer", "verifRenameForward") {
			fmt.Println("PARKED:", g.Signature())
		}
		_, prods, _, _ := ctl.Log.Snapshot()
		fmt.Printf("%+v\n", prods)
	}
}
