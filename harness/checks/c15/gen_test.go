package c15

// Case generator: declared types, mapping sets (with or without overlapping
// targets), predecessor output values (benign, with nil pointers / absent keys
// off the used paths, and at most one hostile element on a used path), stream
// chunkings and declaration orders. Everything is a pure function of *mon.Rand.

import (
	"fmt"
	"reflect"
	"sort"
	"strings"

	"verifharness/internal/mon"
)

var mapKeys = []string{"k1", "k2"}

// ---- path enumeration over declared types ------------------------------------------

type pathCand struct {
	Path []string
	Leaf reflect.Type // declared type at the end; for Dyn paths the type the benign dynamic value will have
	// source side
	Dyn     bool           // the path continues below an interface-typed position: only checkable at run time
	IfaceT  reflect.Type   // declared type of the first interface-typed position
	IfaceAt int            // len of the prefix that ends at the first interface-typed position the path passes through or ends at (-1: none)
	Ifaces  []int          // Dyn: len of every prefix that ends at an interface-typed position which the path continues through
	IfaceTs []reflect.Type // Dyn: declared (interface) type of each of them
	Roles   []roleReq      // dynamic types that interface-typed positions must hold for the path to exist / the value to fit the target
	PtrAt   int            // len of the first prefix that ends at a pointer which the path continues through (-1: none); 0 = the root value
	MapAt   int            // len of the first prefix that ends at a map in which the path looks up a key (-1: none); 0 = the root value
	Nested  bool           // passes through a pointer to pointer
	EmbPtrs [][]string     // the embedded pointers behind which a promoted field of the path lies: their own paths, spelled through the embedded fields
	HidEmb  bool           // one of them has an unexported type: it cannot be set from outside the package
	// target side
	StructEntry string // joined prefix that ends at an entry of a map with struct (non-pointer) elements below which the path continues
	Shape       string // container kinds along the path: S struct field, M map key, A any hole, P pointer deref
}

// roleReq: the interface-typed position At (a path inside the predecessor output,
// possibly through the dynamic values of outer interface positions) holds a value of
// dynamic type Typ in the benign case.
type roleReq struct {
	At  []string
	Typ reflect.Type
}

func joinPath(p []string) string { return strings.Join(p, ".") }

func clonePath(p []string, more ...string) []string {
	out := make([]string, 0, len(p)+len(more))
	out = append(out, p...)
	return append(out, more...)
}

var enumCache = map[string][]pathCand{}

// enumPaths lists the paths of a declared type up to maxDepth elements.
func enumPaths(t reflect.Type, source bool, maxDepth int) []pathCand {
	key := fmt.Sprintf("%v/%v/%d", t, source, maxDepth)
	if c, ok := enumCache[key]; ok {
		return c
	}
	var out []pathCand
	var walk func(t reflect.Type, cur pathCand)
	walk = func(t reflect.Type, cur pathCand) {
		if len(cur.Path) >= maxDepth {
			return
		}
		levels := 0
		shape := cur.Shape
		for t.Kind() == reflect.Ptr {
			t = t.Elem()
			levels++
			shape += "P"
		}
		if levels > 0 && cur.PtrAt < 0 {
			cur.PtrAt = len(cur.Path)
		}
		if levels > 1 {
			cur.Nested = true
		}
		emit := func(name string, leaf reflect.Type, kind string, c pathCand) {
			c.Path = clonePath(cur.Path, name)
			c.Leaf = leaf
			c.Shape = shape + kind
			out = append(out, c)
			walk(leaf, c)
		}
		switch {
		case t.Kind() == reflect.Struct:
			// direct fields and the fields promoted from embedded structs (E), each under its own name
			for _, f := range reflect.VisibleFields(t) {
				if !f.IsExported() {
					continue
				}
				if len(f.Index) == 1 {
					emit(f.Name, f.Type, "S", cur)
					continue
				}
				c := cur
				chain, _ := fieldChain(t, f.Name)
				at := clonePath(cur.Path)
				for _, ef := range chain[:len(chain)-1] {
					at = append(at, ef.Name)
					if ef.Type.Kind() == reflect.Ptr {
						c.EmbPtrs = append(append([][]string(nil), c.EmbPtrs...), clonePath(at))
						if !ef.IsExported() {
							c.HidEmb = true
						}
					}
				}
				emit(f.Name, f.Type, "E", c)
			}
		case t.Kind() == reflect.Map && t.Key().Kind() == reflect.String:
			c := cur
			if c.MapAt < 0 {
				c.MapAt = len(cur.Path)
			}
			for _, k := range mapKeys {
				cc := c
				if !source && t.Elem().Kind() == reflect.Struct && cc.StructEntry == "" {
					cc.StructEntry = joinPath(clonePath(cur.Path, k))
				}
				emit(k, t.Elem(), "M", cc)
			}
		case t == tAny && !source:
			for _, k := range mapKeys {
				emit(k, tAny, "A", cur)
			}
		}
	}
	walk(t, pathCand{IfaceAt: -1, PtrAt: -1, MapAt: -1})
	// StructEntry only matters when the path continues below the entry
	for i := range out {
		if out[i].StructEntry != "" && len(strings.Split(out[i].StructEntry, ".")) >= len(out[i].Path) {
			out[i].StructEntry = ""
		}
		if out[i].IfaceAt < 0 && out[i].Leaf.Kind() == reflect.Interface && source {
			out[i].IfaceAt = len(out[i].Path) // ends at an interface-typed field
			out[i].IfaceT = out[i].Leaf
		}
	}
	enumCache[key] = out
	return out
}

// ---- case description -----------------------------------------------------------------

type mapping struct {
	Pred int      // index into Case.Preds
	From []string // empty: the whole predecessor output
	To   []string // empty: the whole successor input
	Form int      // 0: *Path constructors, 1: single-field constructors where possible

	src pathCand
	tgt pathCand
	lt  reflect.Type // declared type at the target path
}

type staticVal struct {
	To  []string
	Val any
	tgt pathCand
}

type pred struct {
	Start bool // the workflow's START node (otherwise a lambda node)
	Type  reflect.Type
	Key   string
	Value any     // the full output
	Whole bool    // AddInput(pred) without mappings: the entire output becomes the entire input
	Chunk [][]any // chunkings used for stream runs; Chunk[0] is always the single full value
	Mode  int     // how the successor declares this predecessor (mDirect ...)
	Relay bool    // mIndirectRelay: the relay node takes the predecessor's entire output (else only depends on it)
}

// ways of declaring a predecessor of the successor node
const (
	mDirect         = iota // succ.AddInput(pred, mappings...)
	mDirectOpts            // succ.AddInputWithOptions(pred, mappings) without options
	mIndirectDep           // succ.AddInputWithOptions(pred, mappings, WithNoDirectDependency()) and succ.AddDependency(pred)
	mIndirectRelay         // ... WithNoDirectDependency(); control reaches succ through a relay node: pred -> relay, succ.AddDependency(relay)
	mIndirectBranch        // ... WithNoDirectDependency(); control reaches succ through a branch below pred that selects succ
	mAddEnd                // the deprecated wf.AddEnd(pred, mappings...) (successor END only)
)

var modeNames = [...]string{"AddInput", "AddInputWithOptions", "AddInputWithOptions+NoDirectDependency+AddDependency",
	"AddInputWithOptions+NoDirectDependency+relay-node", "AddInputWithOptions+NoDirectDependency+branch", "AddEnd"}

func (p *pred) indirect() bool { return p.Mode >= mIndirectDep && p.Mode <= mIndirectBranch }

func pickMode(r *mon.Rand, succEnd bool) int {
	switch k := r.Intn(100); {
	case k < 36:
		return mDirect
	case k < 44:
		return mDirectOpts
	case k < 62:
		return mIndirectDep
	case k < 78:
		return mIndirectRelay
	case k < 92:
		return mIndirectBranch
	case succEnd:
		return mAddEnd
	}
	return mDirect
}

type Case struct {
	Tgt      reflect.Type
	SuccEnd  bool // successor is END (else a lambda node followed by END)
	Preds    []*pred
	Maps     []mapping
	Statics  []staticVal
	Overlap  bool   // by the reference predicate
	Ill      string // one path of one mapping was made to leave the declared types ("" none): see corruptPath
	Inj      string // the kind of the one declaration that was added last to make the targets overlap ("" none)
	Hazard   string // the single hostile element put on a used path ("" none)
	Struct   string // structural feature of the mapping set that is known to be delicate ("" none)
	Seed     string // input of START when START is not a typed predecessor
	Gate     *gate  // some lambda predecessors only run when a branch selects them (nil: all run)
	SuccInv  bool   // the successor lambda has the Invoke form only (streaming runs need one assembled value)
	invokeOK bool   // the Invoke runs of the workflow under test did not fail (set while running)
}

// gate: a node "gate" below START carries a branch whose end nodes are the gated lambda
// predecessors (and, CtlKind 0, a control-only node "ctl"); the predecessors it does not
// select are skipped. The successor still runs because one control predecessor finishes.
type gate struct {
	Gated    []bool // per predecessor: runs only when selected
	Picked   []bool // per predecessor: selected
	Form     int    // see mkGate
	CtlKind  int    // the control predecessor of the successor that always finishes: 0 node "ctl" selected by the same branch, 1 node "ctl" below START, 2 START itself, 3 the gate node
	CtlData  bool   // ctl takes the gate's / START's output as data (else it only has the control dependency)
	PredFrom int    // gated predecessors take their input from 0: the gate node, 1: START (both without direct dependency)
}

// skipped: predecessor pi does not run.
func (c *Case) skipped(pi int) bool {
	return c.Gate != nil && c.Gate.Gated[pi] && !c.Gate.Picked[pi]
}

// skipClass: "" when every predecessor runs, else how many of the data predecessors are skipped.
func (c *Case) skipClass() string {
	n := 0
	for i := range c.Preds {
		if c.skipped(i) {
			n++
		}
	}
	switch {
	case n == 0:
		return ""
	case n == len(c.Preds):
		return "all-mapped-predecessors-skipped-by-a-branch"
	}
	return "some-mapped-predecessors-skipped-by-a-branch"
}

func (c *Case) genGate(r *mon.Rand) {
	var lambdas []int
	for i, p := range c.Preds {
		if !p.Start {
			lambdas = append(lambdas, i)
		}
	}
	if len(lambdas) == 0 {
		return
	}
	g := &gate{Gated: make([]bool, len(c.Preds)), Picked: make([]bool, len(c.Preds))}
	for _, i := range lambdas {
		g.Gated[i] = r.Prob(0.75)
	}
	g.Gated[lambdas[r.Intn(len(lambdas))]] = true
	allSkipped := r.Prob(0.5)
	npicked := 0
	for _, i := range lambdas {
		if g.Gated[i] && !allSkipped && r.Prob(0.4) {
			g.Picked[i] = true
			npicked++
		}
	}
	g.CtlKind = r.Intn(4)
	if g.CtlKind == 2 && c.startPred() != nil {
		g.CtlKind = 1
	}
	if g.CtlKind != 0 && npicked == 0 {
		// a branch has to select something: only "ctl" remains
		g.CtlKind = 0
	}
	sel := npicked
	if g.CtlKind == 0 {
		sel++
	}
	if sel == 1 {
		g.Form = r.Intn(4)
	} else {
		g.Form = r.Intn(2)
	}
	g.CtlData = r.Bool()
	g.PredFrom = r.Intn(2)
	c.Gate = g
}

func (c *Case) startPred() *pred {
	for _, p := range c.Preds {
		if p.Start {
			return p
		}
	}
	return nil
}

// skeleton: the case without the declaration that was added to make the targets
// overlap (nil if there is none): a non-overlapping set in the same types, with the
// same ways of declaring the predecessors. It tells whether Compile refuses the
// overlapping set for another reason than the overlap.
func (c *Case) skeleton() *Case {
	c2 := *c
	c2.Overlap, c2.Inj = false, ""
	c2.Maps = append([]mapping(nil), c.Maps...)
	c2.Statics = append([]staticVal(nil), c.Statics...)
	preds := append([]*pred(nil), c.Preds...)
	switch c.Inj {
	case "mapping":
		c2.Maps = c2.Maps[:len(c2.Maps)-1]
	case "static":
		c2.Statics = c2.Statics[:len(c2.Statics)-1]
	case "whole-input":
		if n := len(preds) - 1; n >= 0 && preds[n].Whole {
			preds = preds[:n]
		} else {
			return nil
		}
	default:
		return nil
	}
	used := map[int]bool{}
	for _, m := range c2.Maps {
		used[m.Pred] = true
	}
	remap := map[int]int{}
	c2.Preds = nil
	for i, p := range preds {
		if used[i] || p.Whole {
			remap[i] = len(c2.Preds)
			c2.Preds = append(c2.Preds, p)
		}
	}
	for i := range c2.Maps {
		c2.Maps[i].Pred = remap[c2.Maps[i].Pred]
	}
	if len(c2.Preds) == 0 || c2.computeOverlap() {
		return nil
	}
	return &c2
}

// targets lists every declared target with its kind, in a fixed order: mappings,
// whole-input groups, static values.
type target struct {
	Path []string
	Kind string // "mapping" | "whole-input" | "static"
	Pred int
	Idx  int
}

func (c *Case) targets() []target {
	var ts []target
	for i, m := range c.Maps {
		ts = append(ts, target{Path: m.To, Kind: "mapping", Pred: m.Pred, Idx: i})
	}
	for i, p := range c.Preds {
		if p.Whole {
			ts = append(ts, target{Path: nil, Kind: "whole-input", Pred: i})
		}
	}
	for i, s := range c.Statics {
		ts = append(ts, target{Path: s.To, Kind: "static", Idx: i, Pred: -1})
	}
	return ts
}

func (c *Case) computeOverlap() bool {
	ts := c.targets()
	for i := range ts {
		for j := i + 1; j < len(ts); j++ {
			if overlapsIn(c.Tgt, ts[i].Path, ts[j].Path) {
				return true
			}
		}
	}
	return false
}

// ---- values ---------------------------------------------------------------------------

func nillable(t reflect.Type) bool {
	switch t.Kind() {
	case reflect.Ptr, reflect.Map, reflect.Slice, reflect.Interface:
		return true
	}
	return false
}

// genValue builds a fully populated value of type t: every pointer non-nil, every
// map with keys k1,k2, every interface-typed field holding a benign container
// that offers S (string) and N (int).
func genValue(r *mon.Rand, t reflect.Type, depth int) reflect.Value {
	v := reflect.New(t).Elem()
	switch t.Kind() {
	case reflect.String:
		v.SetString(r.Str(1, 3))
	case reflect.Int:
		v.SetInt(int64(r.Range(1, 99)))
	case reflect.Ptr:
		p := reflect.New(t.Elem())
		p.Elem().Set(genValue(r, t.Elem(), depth))
		v.Set(p)
	case reflect.Struct:
		for i := 0; i < t.NumField(); i++ {
			setRO(v.Field(i), genValue(r, t.Field(i).Type, depth+1))
		}
	case reflect.Map:
		m := reflect.MakeMap(t)
		for _, k := range mapKeys {
			m.SetMapIndex(reflect.ValueOf(k), genValue(r, t.Elem(), depth+1))
		}
		v.Set(m)
	case reflect.Interface:
		v.Set(genContainer(r, t, depth))
	case reflect.Array:
		for i := 0; i < t.Len(); i++ {
			v.Index(i).Set(genValue(r, t.Elem(), depth+1))
		}
	case reflect.Slice:
		sl := reflect.MakeSlice(t, 2, 2)
		for i := 0; i < 2; i++ {
			sl.Index(i).Set(genValue(r, t.Elem(), depth+1))
		}
		v.Set(sl)
	}
	return v
}

// genContainer: a benign dynamic value for an interface-typed position.
func genContainer(r *mon.Rand, t reflect.Type, depth int) reflect.Value {
	n := 3
	if t == tShape {
		n = 2
	}
	if depth <= 1 {
		n++ // allow *Mid (implements Shape) near the top only
	}
	switch k := r.Intn(n); {
	case k == 0:
		return reflect.ValueOf(Leaf{S: r.Str(1, 3), N: r.Range(1, 99)})
	case k == 1:
		return reflect.ValueOf(&Leaf{S: r.Str(1, 3), N: r.Range(1, 99)})
	case k == 2 && t != tShape:
		return reflect.ValueOf(map[string]any{"S": r.Str(1, 3), "N": r.Range(1, 99)})
	default:
		m := genValue(r, tMid, 3)
		return m.Addr()
	}
}

// genTyped: a value whose dynamic type is exactly t (for interface-typed sources
// feeding a typed target, and for static values).
func genTyped(r *mon.Rand, t reflect.Type) any {
	if t.Kind() == reflect.Interface {
		if t == tShape {
			return genContainer(r, tShape, 3).Interface()
		}
		switch r.Intn(3) {
		case 0:
			return r.Str(1, 3)
		case 1:
			return r.Range(1, 99)
		default:
			return Leaf{S: r.Str(1, 3), N: r.Range(1, 99)}
		}
	}
	return genValue(r, t, 2).Interface()
}

// deleteKey removes the last path element (a map key) from the map found at path[:n-1].
// ok=false if that map cannot be reached without copying (inside a struct-valued map entry).
func deleteKey(root reflect.Value, path []string) bool {
	cur := root
	for i, el := range path {
		for cur.Kind() == reflect.Ptr || cur.Kind() == reflect.Interface {
			if cur.IsNil() {
				return false
			}
			cur = cur.Elem()
		}
		last := i == len(path)-1
		switch cur.Kind() {
		case reflect.Struct:
			if last {
				return false
			}
			f, found, nilEmb := getField(cur, el)
			if !found || nilEmb {
				return false
			}
			cur = f
		case reflect.Map:
			if last {
				cur.SetMapIndex(reflect.ValueOf(el), reflect.Value{})
				return true
			}
			cur = cur.MapIndex(reflect.ValueOf(el))
			if !cur.IsValid() {
				return false
			}
		default:
			return false
		}
	}
	return false
}

// srcPlace stores val at path inside the predecessor output root (addressable). Pointers
// and interfaces are looked through; struct values held by an interface or stored in a
// map are copied, changed and written back. Nothing is instantiated on the way.
func srcPlace(root reflect.Value, path []string, val any) error {
	nv, err := placed(root, path, val)
	if err != nil {
		return err
	}
	root.Set(nv)
	return nil
}

func placed(cur reflect.Value, path []string, val any) (reflect.Value, error) {
	t := cur.Type()
	if len(path) == 0 {
		if val == nil {
			if !nillable(t) {
				return cur, fmt.Errorf("nil cannot be held by %v", t)
			}
			return reflect.Zero(t), nil
		}
		vv := reflect.ValueOf(val)
		if !vv.Type().AssignableTo(t) {
			return cur, fmt.Errorf("value of type %v cannot be held by %v", vv.Type(), t)
		}
		out := reflect.New(t).Elem()
		out.Set(vv)
		return out, nil
	}
	switch cur.Kind() {
	case reflect.Interface:
		if cur.IsNil() {
			return cur, fmt.Errorf("nil interface before %v", path)
		}
		inner, err := placed(cur.Elem(), path, val)
		if err != nil {
			return cur, err
		}
		out := reflect.New(t).Elem()
		out.Set(inner)
		return out, nil
	case reflect.Ptr:
		if cur.IsNil() {
			return cur, fmt.Errorf("nil pointer before %v", path)
		}
		inner, err := placed(cur.Elem(), path, val)
		if err != nil {
			return cur, err
		}
		cur.Elem().Set(inner)
		return cur, nil
	case reflect.Struct:
		cp := reflect.New(t).Elem()
		cp.Set(cur)
		f, found, nilEmb := getField(cp, path[0])
		if !found {
			return cur, fmt.Errorf("no field %s in %v", path[0], t)
		}
		if nilEmb {
			return cur, fmt.Errorf("nil embedded pointer before %s", path[0])
		}
		inner, err := placed(f, path[1:], val)
		if err != nil {
			return cur, err
		}
		setRO(f, inner)
		return cp, nil
	case reflect.Map:
		if t.Key().Kind() != reflect.String || cur.IsNil() {
			return cur, fmt.Errorf("cannot descend into %v", t)
		}
		k := reflect.ValueOf(path[0]).Convert(t.Key())
		e := cur.MapIndex(k)
		if !e.IsValid() {
			return cur, fmt.Errorf("no key %s", path[0])
		}
		inner, err := placed(e, path[1:], val)
		if err != nil {
			return cur, err
		}
		cur.SetMapIndex(k, inner)
		return cur, nil
	}
	return cur, fmt.Errorf("cannot descend into %v", t)
}

// ---- generation ------------------------------------------------------------------------

// dynUniverse: the dynamic types a benign interface-typed source position may hold
// when a path continues below it.
func dynUniverse(it reflect.Type) []reflect.Type {
	if it == tShape {
		return []reflect.Type{tLeaf, tPLeaf, tPMid, tPEmbP}
	}
	return []reflect.Type{tLeaf, tPLeaf, tMid, tPMid, tTop, tPTop, tMapAny, tMapStr, tMapL, tMapPL, tMapM, tMapPM, tEmbP, tPEmbP, tEmbD, tEmbV, tEmbH, tArr, tPArr, tMapA2}
}

var shapeImpls = []reflect.Type{tLeaf, tPLeaf, tPMid, tPEmbP}

func walkable(t reflect.Type) bool {
	if t.Kind() == reflect.Ptr {
		t = t.Elem()
	}
	return t.Kind() == reflect.Struct || (t.Kind() == reflect.Map && t.Key().Kind() == reflect.String)
}

func roleKey(pi int, at []string) string { return fmt.Sprintf("%d#%s", pi, joinPath(at)) }

// canonRole spells the position `at` of an output of declared type root with every promoted
// field name written out through its embedded fields (one position, one key), looking through
// interface-typed positions with the dynamic types that `lookup` knows for them.
func canonRole(pi int, root reflect.Type, at []string, lookup func(key string) (reflect.Type, bool)) []string {
	out := make([]string, 0, len(at)+2)
	t := root
	for i, el := range at {
		if t != nil && t.Kind() == reflect.Interface {
			if d, ok := lookup(roleKey(pi, out)); ok {
				t = d
			} else {
				t = nil
			}
		}
		for t != nil && t.Kind() == reflect.Ptr {
			t = t.Elem()
		}
		switch {
		case t != nil && t.Kind() == reflect.Struct:
			chain, ok := fieldChain(t, el)
			if !ok {
				return append(out, at[i:]...)
			}
			for _, sf := range chain {
				out = append(out, sf.Name)
			}
			t = chain[len(chain)-1].Type
		case t != nil && t.Kind() == reflect.Map:
			out = append(out, el)
			t = t.Elem()
		default:
			out = append(out, el)
			t = nil
		}
	}
	return out
}

// composeDyn: the source candidate that follows base (which ends at an interface-typed
// position) and continues with sub inside a dynamic value of type d held there.
func composeDyn(base pathCand, d reflect.Type, sub pathCand) pathCand {
	c := base
	n := len(base.Path)
	c.Path = clonePath(base.Path, sub.Path...)
	c.Leaf = sub.Leaf
	if !base.Dyn {
		c.IfaceAt = n
		c.IfaceT = base.Leaf
	}
	c.Dyn = true
	c.Ifaces = append(append([]int(nil), base.Ifaces...), n)
	c.IfaceTs = append(append([]reflect.Type(nil), base.IfaceTs...), base.Leaf)
	c.Roles = append(append([]roleReq(nil), base.Roles...), roleReq{At: clonePath(base.Path), Typ: d})
	c.Shape = base.Shape + "I" + sub.Shape
	c.EmbPtrs = append([][]string(nil), base.EmbPtrs...)
	for _, ep := range sub.EmbPtrs {
		c.EmbPtrs = append(c.EmbPtrs, clonePath(base.Path, ep...))
	}
	c.HidEmb = base.HidEmb || sub.HidEmb
	if c.PtrAt < 0 && sub.PtrAt > 0 {
		c.PtrAt = n + sub.PtrAt
	}
	if c.MapAt < 0 && sub.MapAt >= 0 {
		c.MapAt = n + sub.MapAt
	}
	return c
}

func assignableStatic(st, lt reflect.Type) bool {
	if st == lt {
		return true
	}
	if lt.Kind() == reflect.Interface && st.Implements(lt) {
		return true
	}
	if st.Kind() == reflect.Interface && lt.Kind() != reflect.Interface && lt.Implements(st) {
		return true // only decidable at run time
	}
	return false
}

const maxDepthSrc, maxDepthTgt = 4, 5

// maxDynLen: longest source path that continues below interface-typed positions.
const maxDynLen = 6

func genCase(r *mon.Rand) *Case {
	for {
		if c := tryGenCase(r); c != nil {
			return c
		}
	}
}

func tryGenCase(r *mon.Rand) *Case {
	c := &Case{Seed: r.Str(2, 4)}
	// successor type: containers most of the time
	switch {
	case r.Prob(0.06):
		c.Tgt = tString
	case r.Prob(0.2):
		c.Tgt = embTypes[r.Intn(len(embTypes))]
	case r.Prob(0.1):
		c.Tgt = arrTgtTypes[r.Intn(len(arrTgtTypes))]
	default:
		c.Tgt = tgtTypes[r.Intn(len(tgtTypes)-1)]
	}
	arrFamily := inTypes(arrTgtTypes, c.Tgt)
	c.SuccEnd = r.Bool()
	np := r.Range(1, 3)
	useStart := r.Prob(0.55)
	for i := 0; i < np; i++ {
		p := &pred{Key: fmt.Sprintf("p%d", i)}
		if arrFamily && r.Prob(0.75) || r.Prob(0.04) {
			// values of array types only come from positions of array types (or interface-typed ones)
			p.Type = arrSrcTypes[r.Intn(len(arrSrcTypes))]
		} else if r.Prob(0.12) {
			p.Type = mon.PickOne(r, []reflect.Type{tString, tInt, tLeaf, tPLeaf, tMapStr})
		} else if r.Prob(0.2) {
			p.Type = embTypes[r.Intn(len(embTypes))]
		} else {
			p.Type = srcTypes[r.Intn(len(srcTypes)-2)]
		}
		if i == 0 && useStart {
			p.Start = true
			p.Key = "start"
			if c.SuccEnd {
				// Workflow[S,T] exists for the core pairs only
				okS, okT := false, false
				for _, s := range coreSrc {
					okS = okS || s == p.Type
				}
				for _, t := range coreTgt {
					okT = okT || t == c.Tgt
				}
				if !okS {
					p.Type = coreSrc[r.Intn(len(coreSrc))]
				}
				if !okT {
					c.SuccEnd = false
				}
			}
		}
		c.Preds = append(c.Preds, p)
	}

	wantOverlap := r.Prob(0.4)
	nm := r.Range(1, 5)
	if c.Tgt == tString {
		nm = 1
	}
	tcs := enumPaths(c.Tgt, false, maxDepthTgt)
	roles := map[string]reflect.Type{} // pred#path of an interface-typed position -> the dynamic type it holds

	// finish: may source candidate sc (of predecessor pi) feed a target of declared type lt? Adds the
	// role of the interface-typed position the candidate ends at and checks every role against those
	// already fixed by earlier mappings.
	// roleKeys: one key per role request of a candidate (outer positions first; an inner position is
	// spelled through the dynamic types the outer requests ask for), and the key of one more position
	roleKeys := func(pi int, reqs []roleReq, more []string) ([]string, string) {
		pending := map[string]reflect.Type{}
		lookup := func(k string) (reflect.Type, bool) {
			if d, ok := pending[k]; ok {
				return d, true
			}
			d, ok := roles[k]
			return d, ok
		}
		keys := make([]string, len(reqs))
		for i, rq := range reqs {
			keys[i] = roleKey(pi, canonRole(pi, c.Preds[pi].Type, rq.At, lookup))
			if _, ok := pending[keys[i]]; !ok {
				pending[keys[i]] = rq.Typ
			}
		}
		return keys, roleKey(pi, canonRole(pi, c.Preds[pi].Type, more, lookup))
	}
	finish := func(pi int, sc pathCand, lt reflect.Type) (pathCand, bool) {
		leaf := sc.Leaf
		if leaf.Kind() != reflect.Interface {
			if !assignableStatic(leaf, lt) {
				return sc, false
			}
		} else {
			_, endKey := roleKeys(pi, sc.Roles, sc.Path)
			have, fixed := roles[endKey]
			switch {
			case lt.Kind() != reflect.Interface:
				if !lt.Implements(leaf) {
					return sc, false
				}
				sc.Roles = append(append([]roleReq(nil), sc.Roles...), roleReq{At: clonePath(sc.Path), Typ: lt})
			case lt == leaf || leaf.Implements(lt):
				// whatever the position holds fits
			case fixed:
				if !have.Implements(lt) {
					return sc, false
				}
			default:
				// an `any` position feeding a Shape target: it has to hold an implementation
				sc.Roles = append(append([]roleReq(nil), sc.Roles...), roleReq{At: clonePath(sc.Path), Typ: shapeImpls[r.Intn(len(shapeImpls))]})
			}
		}
		keys, _ := roleKeys(pi, sc.Roles, nil)
		seen := map[string]reflect.Type{}
		for i, rq := range sc.Roles {
			if have, ok := roles[keys[i]]; ok && have != rq.Typ {
				return sc, false
			}
			if have, ok := seen[keys[i]]; ok && have != rq.Typ {
				return sc, false
			}
			seen[keys[i]] = rq.Typ
		}
		return sc, true
	}
	// dynExtend continues base (ending at an interface-typed position) inside a dynamic value, through
	// at most `levels` interface-typed positions, until a position that can feed lt.
	var dynExtend func(pi int, base pathCand, lt reflect.Type, levels int) (pathCand, bool)
	dynExtend = func(pi int, base pathCand, lt reflect.Type, levels int) (pathCand, bool) {
		budget := maxDynLen - len(base.Path)
		if budget < 1 {
			return base, false
		}
		var d reflect.Type
		bkeys, bkey := roleKeys(pi, base.Roles, base.Path)
		if have, ok := roles[bkey]; ok {
			d = have
		} else {
			for i, rq := range base.Roles {
				if bkeys[i] == bkey {
					d = rq.Typ
				}
			}
		}
		if d == nil {
			u := dynUniverse(base.Leaf)
			d = u[r.Intn(len(u))]
		}
		if !walkable(d) {
			return base, false
		}
		depth := r.Range(1, 3)
		if depth > budget {
			depth = budget
		}
		var ends, nests []pathCand
		for _, sub := range enumPaths(d, true, depth) {
			if sub.Nested {
				continue
			}
			cc := composeDyn(base, d, sub)
			if fin, ok := finish(pi, cc, lt); ok {
				ends = append(ends, fin)
			}
			if sub.Leaf.Kind() == reflect.Interface && levels > 1 && len(cc.Path) < maxDynLen {
				nests = append(nests, cc)
			}
		}
		if len(nests) > 0 && (len(ends) == 0 || r.Prob(0.3)) {
			for try := 0; try < 4; try++ {
				if dc, ok := dynExtend(pi, nests[r.Intn(len(nests))], lt, levels-1); ok {
					return dc, true
				}
			}
		}
		if len(ends) == 0 {
			return base, false
		}
		k := ends[r.Intn(len(ends))]
		if k2 := ends[r.Intn(len(ends))]; len(k2.Path) > len(k.Path) {
			k = k2
		}
		return k, true
	}
	pickSource := func(lt reflect.Type, wholeTarget bool) (int, pathCand, bool) {
		type cand struct {
			p int
			c pathCand
		}
		var cands, stubs []cand
		for pi, p := range c.Preds {
			if p.Whole {
				continue
			}
			// the whole predecessor output as the source
			if !wholeTarget && assignableStatic(p.Type, lt) {
				cands = append(cands, cand{pi, pathCand{Leaf: p.Type, IfaceAt: -1, PtrAt: -1, MapAt: -1}})
			}
			if p.Type.Kind() == reflect.String || p.Type.Kind() == reflect.Int {
				continue
			}
			for _, sc := range enumPaths(p.Type, true, maxDepthSrc) {
				if sc.Leaf.Kind() == reflect.Interface && !sc.Nested {
					stubs = append(stubs, cand{pi, sc})
				}
				if fin, ok := finish(pi, sc, lt); ok {
					cands = append(cands, cand{pi, fin})
				}
			}
		}
		// below an interface-typed position: a path that only exists in the dynamic value
		if len(stubs) > 0 && r.Prob(0.45) {
			for try := 0; try < 6; try++ {
				st := stubs[r.Intn(len(stubs))]
				if dc, ok := dynExtend(st.p, st.c, lt, 2); ok {
					return st.p, dc, true
				}
			}
		}
		if len(cands) == 0 {
			return 0, pathCand{}, false
		}
		// prefer nested / interface / map sources a little: pick among a random window
		k := cands[r.Intn(len(cands))]
		for try := 0; try < 2; try++ {
			k2 := cands[r.Intn(len(cands))]
			if len(k2.c.Path) > len(k.c.Path) || (k2.c.IfaceAt >= 0 && k.c.IfaceAt < 0) {
				k = k2
			}
		}
		return k.p, k.c, true
	}
	noteRole := func(pi int, sc pathCand) {
		keys, _ := roleKeys(pi, sc.Roles, nil)
		for i, rq := range sc.Roles {
			roles[keys[i]] = rq.Typ
		}
	}
	conflictsWithChosen := func(p []string) bool {
		for _, t := range c.targets() {
			if overlapsIn(c.Tgt, t.Path, p) {
				return true
			}
		}
		return false
	}
	addMapping := func(tc pathCand, whole bool) bool {
		lt := tc.Leaf
		if whole {
			lt = c.Tgt
		}
		pi, sc, ok := pickSource(lt, whole)
		if !ok {
			return false
		}
		if whole && len(sc.Path) == 0 {
			return false
		}
		noteRole(pi, sc)
		m := mapping{Pred: pi, From: sc.Path, To: tc.Path, Form: r.Intn(2), src: sc, tgt: tc, lt: lt}
		c.Maps = append(c.Maps, m)
		return true
	}

	// the whole successor input taken from one position of a predecessor output (FromField / FromFieldPath)
	// as the only mapping: all that makes sense for a string, now and then for every other type
	wholeOnly := c.Tgt == tString || len(tcs) == 0 || r.Prob(0.07)
	if wholeOnly {
		if !addMapping(pathCand{}, true) {
			return nil
		}
	} else {
		for len(c.Maps) < nm {
			placed := false
			for try := 0; try < 30 && !placed; try++ {
				tc := tcs[r.Intn(len(tcs))]
				// bias towards deeper targets
				if len(tc.Path) == 1 && r.Prob(0.4) {
					continue
				}
				if conflictsWithChosen(tc.Path) {
					continue
				}
				placed = addMapping(tc, false)
			}
			if !placed {
				break
			}
		}
		if len(c.Maps) == 0 {
			return nil
		}
		// static values on further non-overlapping paths
		if r.Prob(0.25) {
			ns := r.Range(1, 2)
			for i := 0; i < ns; i++ {
				for try := 0; try < 20; try++ {
					tc := tcs[r.Intn(len(tcs))]
					if conflictsWithChosen(tc.Path) || tc.Nested || tc.HidEmb {
						continue
					}
					c.Statics = append(c.Statics, staticVal{To: tc.Path, Val: genTyped(r, tc.Leaf), tgt: tc})
					break
				}
			}
		}
	}

	if wantOverlap && c.Tgt != tString && len(tcs) > 0 {
		nm0, np0, ns0 := len(c.Maps), len(c.Preds), len(c.Statics)
		if !injectOverlap(r, c, tcs, addMapping) {
			return nil
		}
		switch {
		case len(c.Maps) == nm0+1 && len(c.Preds) == np0 && len(c.Statics) == ns0:
			c.Inj = "mapping"
		case len(c.Preds) == np0+1 && len(c.Maps) == nm0 && len(c.Statics) == ns0:
			c.Inj = "whole-input"
		case len(c.Statics) == ns0+1 && len(c.Maps) == nm0 && len(c.Preds) == np0:
			c.Inj = "static"
		}
	}
	c.Overlap = c.computeOverlap()

	// every lambda predecessor must be used (a lambda node without successor is not a valid workflow)
	used := map[int]bool{}
	for _, m := range c.Maps {
		used[m.Pred] = true
	}
	var keep []*pred
	remap := map[int]int{}
	for i, p := range c.Preds {
		if used[i] || p.Whole {
			remap[i] = len(keep)
			keep = append(keep, p)
		}
	}
	if len(keep) == 0 {
		return nil
	}
	c.Preds = keep
	for i := range c.Maps {
		c.Maps[i].Pred = remap[c.Maps[i].Pred]
	}
	newRoles := map[string]reflect.Type{}
	for k, v := range roles {
		var pi int
		var rest string
		fmt.Sscanf(k, "%d#", &pi)
		rest = k[strings.IndexByte(k, '#')+1:]
		if ni, ok := remap[pi]; ok {
			newRoles[fmt.Sprintf("%d#%s", ni, rest)] = v
		}
	}
	roles = newRoles
	if c.startPred() == nil && c.SuccEnd {
		// Workflow[string,T] is registered for every T: fine
	}
	if sp := c.startPred(); sp != nil && c.SuccEnd {
		if wfPair[[2]reflect.Type{sp.Type, c.Tgt}] == nil {
			c.SuccEnd = false
		}
	}

	for _, p := range c.Preds {
		p.Mode = pickMode(r, c.SuccEnd)
		p.Relay = r.Bool()
	}
	switch fs := c.features(); len(fs) {
	case 0:
	case 1:
		c.Struct = fs[0]
	default:
		return nil // keep delicate features apart: at most one per case
	}
	if !c.Overlap && c.Tgt != tString && c.Struct == "" && r.Prob(0.04) {
		c.corruptPath(r)
		if c.computeOverlap() {
			return nil
		}
	}
	if !c.Overlap && c.Ill == "" {
		for _, m := range c.Maps {
			if m.tgt.HidEmb {
				// nobody outside the package can allocate the embedded pointer: Compile should refuse the path
				c.Ill = "target-field-promoted-through-unexported-embedded-pointer"
			}
		}
	}
	if !c.Overlap && c.Ill == "" && r.Prob(0.3) {
		c.genGate(r)
	}
	if !c.SuccEnd && !c.Overlap && r.Prob(0.2) {
		c.SuccInv = true
	}
	genValues(r, c, roles)
	return c
}

// corruptPath makes one path of one mapping leave the declared types: one more
// element below a string / int / Shape-typed position, or a last element that is not
// a field of the struct it is looked up in. Compile should refuse such a set; if it
// accepts it, no run can deliver a value and only an error is right.
func (c *Case) corruptPath(r *mon.Rand) {
	for try := 0; try < 12; try++ {
		mi := r.Intn(len(c.Maps))
		m := &c.Maps[mi]
		parentIsStruct := func(root reflect.Type, path []string, source bool) bool {
			var t reflect.Type
			var ok bool
			if source {
				t, ok = leafTypeSrc(root, path[:len(path)-1])
			} else {
				t, ok = leafType(root, path[:len(path)-1])
			}
			if !ok {
				return false
			}
			for t.Kind() == reflect.Ptr {
				t = t.Elem()
			}
			return t.Kind() == reflect.Struct
		}
		scalarOrShape := func(t reflect.Type) bool {
			return t != nil && (t.Kind() == reflect.String || t.Kind() == reflect.Int || t == tShape)
		}
		switch r.Intn(4) {
		case 0:
			if len(m.From) > 0 && !m.src.Dyn && m.src.IfaceAt < 0 && (m.src.Leaf.Kind() == reflect.String || m.src.Leaf.Kind() == reflect.Int) {
				m.From = clonePath(m.From, mon.PickOne(r, []string{"S", "k1", "x"}))
				c.Ill = "source-path-continues-below-a-scalar"
				return
			}
		case 1:
			if len(m.From) > 0 && !m.src.Dyn && m.src.IfaceAt < 0 && parentIsStruct(c.Preds[m.Pred].Type, m.From, true) {
				m.From = clonePath(m.From[:len(m.From)-1], "Zz")
				c.Ill = "source-field-not-in-declared-struct"
				return
			}
		case 2:
			if len(m.To) > 0 && scalarOrShape(m.lt) && !strings.Contains(m.tgt.Shape, "A") {
				m.To = clonePath(m.To, mon.PickOne(r, []string{"S", "k1", "x"}))
				c.Ill = "target-path-continues-below-a-scalar-or-non-empty-interface"
				return
			}
		case 3:
			if len(m.To) > 0 && !strings.Contains(m.tgt.Shape, "A") && parentIsStruct(c.Tgt, m.To, false) {
				m.To = clonePath(m.To[:len(m.To)-1], "Zz")
				c.Ill = "target-field-not-in-declared-struct"
				return
			}
		}
	}
}

// injectOverlap adds one declaration whose target overlaps an existing one.
func injectOverlap(r *mon.Rand, c *Case, tcs []pathCand, addMapping func(tc pathCand, whole bool) bool) bool {
	kind := r.Intn(10)
	switch {
	case kind == 0:
		// the entire output of one more predecessor as the entire input
		var ts []reflect.Type
		for _, s := range srcTypes {
			if s == c.Tgt {
				ts = append(ts, s)
			}
		}
		if len(ts) == 0 || len(c.Preds) >= 4 {
			return false
		}
		c.Preds = append(c.Preds, &pred{Key: fmt.Sprintf("p%d", len(c.Preds)), Type: c.Tgt, Whole: true})
		return true
	case kind == 1:
		// a whole-target mapping (FromField) next to field mappings
		return addMapping(pathCand{}, true)
	case kind <= 3:
		// a static value on an overlapping path
		base := c.Maps[r.Intn(len(c.Maps))].To
		var cands []pathCand
		for _, tc := range tcs {
			if overlapsIn(c.Tgt, tc.Path, base) && !tc.Nested && !tc.HidEmb {
				cands = append(cands, tc)
			}
		}
		if len(cands) == 0 {
			return false
		}
		tc := cands[r.Intn(len(cands))]
		for _, s := range c.Statics {
			if joinPath(s.To) == joinPath(tc.Path) {
				return false
			}
		}
		c.Statics = append(c.Statics, staticVal{To: tc.Path, Val: genTyped(r, tc.Leaf), tgt: tc})
		return true
	default:
		// a mapping whose target equals / is a prefix of / extends an existing target
		base := c.Maps[r.Intn(len(c.Maps))].To
		var cands []pathCand
		var alias []pathCand
		for _, tc := range tcs {
			if overlapsIn(c.Tgt, tc.Path, base) {
				cands = append(cands, tc)
				if !overlaps(tc.Path, base) {
					alias = append(alias, tc)
				}
			}
		}
		if len(alias) > 0 && r.Prob(0.5) {
			// the same position spelled differently (promoted field name / through the embedded field)
			cands = alias
		}
		for try := 0; try < 12 && len(cands) > 0; try++ {
			if addMapping(cands[r.Intn(len(cands))], false) {
				return true
			}
		}
		return false
	}
}

// rtChecked: the mapping's source type is only known at run time (the source path
// passes through, or ends at, an interface-typed field while the target position has
// another declared type).
func (m mapping) rtChecked(c *Case) bool {
	if strings.Contains(m.tgt.Shape, "AA") {
		// the target lies two or more levels below an `any` hole: the levels are created at request time
		// and anything can be stored there
		return false
	}
	st := m.src.Leaf
	if m.src.Dyn {
		if len(m.From)-m.src.IfaceAt >= 2 {
			return true
		}
		// one element below the interface-typed field: the declared interface type decides
		st = m.src.IfaceT
	}
	if st == nil || st.Kind() != reflect.Interface {
		return false
	}
	if st == m.lt || (m.lt.Kind() == reflect.Interface && st.Implements(m.lt)) {
		return false
	}
	return true
}

func (c *Case) hasRtChecked() bool {
	for _, m := range c.Maps {
		if m.rtChecked(c) {
			return true
		}
	}
	return false
}

const (
	fTwoBelowEntry  = "two-targets-below-one-map-of-struct-entry"
	fBelowEmbedded  = "target-below-embedded-struct-or-any-hole-of-a-map-of-struct-entry"
	fTgtNestedPtr   = "target-path-through-pointer-to-pointer"
	fSrcNestedPtr   = "source-path-through-pointer-to-pointer"
	fRtWithOthers   = "runtime-checked-mapping-with-other-target-types-on-the-edge"
	fRtInStreamMode = "runtime-checked-mapping-in-stream-mode"
	fStaticNested   = "static-value-path-through-pointer-to-pointer"
)

// features: delicate structural properties of a mapping set (independent of values).
func (c *Case) features() []string {
	set := map[string]bool{}
	entries := map[string]int{}
	look := func(tc pathCand, path []string) {
		if tc.Nested {
			set[fTgtNestedPtr] = true
		}
		if tc.StructEntry == "" {
			return
		}
		entries[tc.StructEntry]++
		n := len(strings.Split(tc.StructEntry, "."))
		if len(path)-n >= 2 {
			if ft, ok := leafType(c.Tgt, path[:n+1]); ok && (ft.Kind() == reflect.Struct || ft == tAny) {
				set[fBelowEmbedded] = true
			}
		}
	}
	for _, m := range c.Maps {
		look(m.tgt, m.To)
		if m.src.Nested {
			set[fSrcNestedPtr] = true
		}
	}
	for _, s := range c.Statics {
		nested := set[fTgtNestedPtr]
		look(s.tgt, s.To)
		if s.tgt.Nested {
			// static value paths are not looked at when compiling: a class of its own
			set[fStaticNested] = true
			if !nested {
				delete(set, fTgtNestedPtr)
			}
		}
	}
	for _, n := range entries {
		if n >= 2 {
			set[fTwoBelowEntry] = true
		}
	}
	for _, m := range c.Maps {
		if !m.rtChecked(c) {
			continue
		}
		for _, m2 := range c.Maps {
			if m2.Pred == m.Pred && m2.lt != m.lt {
				set[fRtWithOthers] = true
			}
		}
	}
	return mon.SortedKeys(set)
}

// genValues builds the predecessor outputs, thins them off the used paths, puts at
// most one hostile element on a used path and derives the stream chunkings.
func genValues(r *mon.Rand, c *Case, roles map[string]reflect.Type) {
	roots := make([]reflect.Value, len(c.Preds))
	for i, p := range c.Preds {
		roots[i] = reflect.New(p.Type).Elem()
		roots[i].Set(genValue(r, p.Type, 0))
	}
	// interface-typed positions with a role hold a value of exactly that dynamic type (outer positions first)
	type placedRole struct {
		pi   int
		path []string
		typ  reflect.Type
	}
	var prs []placedRole
	for _, k := range mon.SortedKeys(roles) {
		var pi int
		fmt.Sscanf(k, "%d#", &pi)
		rest := k[strings.IndexByte(k, '#')+1:]
		var path []string
		if rest != "" {
			path = strings.Split(rest, ".")
		}
		prs = append(prs, placedRole{pi, path, roles[k]})
	}
	sort.SliceStable(prs, func(i, j int) bool { return len(prs[i].path) < len(prs[j].path) })
	for _, pr := range prs {
		if err := srcPlace(roots[pr.pi], pr.path, genTyped(r, pr.typ)); err != nil {
			panic(fmt.Sprintf("harness: cannot place a %v at %v of predecessor %d: %v", pr.typ, pr.path, pr.pi, err))
		}
	}
	// thinning inside the dynamic values: nil pointers / maps / interfaces and absent keys off the used paths
	for _, pr := range prs {
		if !walkable(pr.typ) {
			continue
		}
		for _, sub := range enumPaths(pr.typ, true, 2) {
			if !r.Prob(0.1) {
				continue
			}
			full := clonePath(pr.path, sub.Path...)
			onUsed := false
			cf := canonInValue(roots[pr.pi], full)
			for _, m := range c.Maps {
				if m.Pred != pr.pi {
					continue
				}
				if cm := canonInValue(roots[pr.pi], m.From); isPrefix(cf, cm) || isPrefix(cm, cf) {
					onUsed = true
				}
			}
			if onUsed {
				continue
			}
			if r.Bool() && deleteKey(roots[pr.pi], full) {
				continue
			}
			if nillable(sub.Leaf) {
				_ = srcPlace(roots[pr.pi], full, nil)
			}
		}
	}
	// thinning: nil pointers, nil maps, nil interfaces and absent keys off the used paths
	for pi, p := range c.Preds {
		if p.Type.Kind() == reflect.String || p.Type.Kind() == reflect.Int {
			continue
		}
		var usedPaths [][]string
		for _, m := range c.Maps {
			if m.Pred == pi {
				usedPaths = append(usedPaths, m.From)
			}
		}
		for _, sc := range enumPaths(p.Type, true, 3) {
			if sc.Dyn || !r.Prob(0.12) {
				continue
			}
			strict, equal := false, false
			cs := canonPath(p.Type, sc.Path)
			for _, u := range usedPaths {
				if cu := canonPath(p.Type, u); isPrefix(cs, cu) {
					if len(cs) < len(cu) {
						strict = true
					} else {
						equal = true
					}
				}
			}
			if strict {
				continue
			}
			if _, st := refGet(roots[pi].Interface(), sc.Path); st != gOK {
				continue
			}
			if equal {
				// a used source leaf may hold a typed nil (pointer / map), nothing else changes
				if k := sc.Leaf.Kind(); k == reflect.Ptr || k == reflect.Map {
					_ = refSet(roots[pi], sc.Path, nil)
				}
				continue
			}
			if r.Bool() && deleteKey(roots[pi], sc.Path) {
				continue
			}
			if nillable(sc.Leaf) {
				_ = refSet(roots[pi], sc.Path, nil)
			}
		}
	}
	// at most one hostile element, and only if the set has no delicate structure already
	if (c.Struct == "" || c.Struct == fRtWithOthers) && !c.Overlap && c.Ill == "" && r.Prob(0.5) {
		injectHazard(r, c, roots)
	}
	for i, p := range c.Preds {
		p.Value = roots[i].Interface()
		p.Chunk = chunkings(r, p)
	}
}

func exportedName(s string) bool { return s != "" && s[0] >= 'A' && s[0] <= 'Z' }

// nest builds a value in which the steps exist one below the other, as fields of
// run-time made structs (or pointers to them) or as keys of typed maps, and lead to x.
// Every level has a concrete (non-interface) type.
func nest(r *mon.Rand, steps []string, x reflect.Value) reflect.Value {
	v := x
	for i := len(steps) - 1; i >= 0; i-- {
		name := steps[i]
		if exportedName(name) && r.Prob(0.6) {
			st := reflect.StructOf([]reflect.StructField{{Name: name, Type: v.Type()}})
			sv := reflect.New(st).Elem()
			sv.Field(0).Set(v)
			if r.Bool() {
				v = sv.Addr()
			} else {
				v = sv
			}
			continue
		}
		mv := reflect.MakeMap(reflect.MapOf(tString, v.Type()))
		mv.SetMapIndex(reflect.ValueOf(name), v)
		v = mv
	}
	return v
}

// hostileLeaves: concretely typed values below which the step `next` does not exist.
func hostileLeaves(r *mon.Rand, next string) []reflect.Value {
	out := []reflect.Value{
		reflect.ValueOf(NoS{X: 1}),
		reflect.ValueOf(&NoS{X: 2}),
		reflect.ValueOf(7),
		reflect.ValueOf("text"),
		reflect.ValueOf((*Leaf)(nil)),
		reflect.ValueOf(map[int]string{1: "x"}),
		reflect.ValueOf(map[string]string{"other": "x"}),
		reflect.ValueOf(map[string]Leaf{"other": {S: "x"}}),
	}
	if next != "S" && next != "N" {
		out = append(out, reflect.ValueOf(Leaf{S: r.Str(1, 3), N: 3}), reflect.ValueOf(&Leaf{S: r.Str(1, 3), N: 4}))
	}
	return out
}

// classOf: what the reference finds for mapping m on the present predecessor output
// ("" if the value exists and fits): the name of the hostile element.
func (c *Case) classOf(m mapping, root reflect.Value) string {
	e := &expectation{}
	tgt := reflect.New(c.Tgt).Elem()
	c.apply(e, tgt, m, root.Interface())
	return e.Class
}

func injectHazard(r *mon.Rand, c *Case, roots []reflect.Value) {
	order := r.Perm(len(c.Maps))
	if r.Prob(0.6) {
		// mappings whose source path continues two or more steps below an interface-typed position first
		sort.SliceStable(order, func(i, j int) bool {
			deep := func(k int) bool {
				sc := c.Maps[order[k]].src
				return sc.Dyn && len(sc.Path)-sc.IfaceAt >= 2
			}
			return deep(i) && !deep(j)
		})
	}
	for _, mi := range order {
		m := c.Maps[mi]
		sc := m.src
		root := roots[m.Pred]
		var opts []func() string
		// put v at the interface-typed position `at`; the name is what the reference then finds
		set := func(at []string, v any, fallback string) func() string {
			return func() string {
				if err := srcPlace(root, at, v); err != nil {
					return ""
				}
				if cls := c.classOf(m, root); cls != "" {
					return cls
				}
				return fallback
			}
		}
		for k, n := range sc.Ifaces {
			at := sc.Path[:n]
			steps := sc.Path[n:]
			isShape := sc.IfaceTs[k] == tShape
			opts = append(opts,
				set(at, NoS{X: 1}, "interface-source-holds-struct-without-the-field"),
				set(at, nil, "interface-source-holds-nil"),
				set(at, (*Leaf)(nil), "interface-source-holds-nil-pointer"),
				set(at, Odd{S: 5, N: "n", PL: &NoS{X: 3}, PM: &Leaf{S: "o"}, MS: map[string]int{"k1": 1, "k2": 2}, MA: map[string]string{"k1": "a", "k2": "b"},
					ML: map[string]NoS{"k1": {}, "k2": {}}, MP: map[string]*NoS{"k1": {}, "k2": nil}, MM: map[string]Leaf{"k1": {S: "m"}, "k2": {}}, MPM: map[string]*Leaf{"k1": {S: "p"}, "k2": nil}},
					"dynamic-value-is-a-look-alike-struct"),
				set(at, &Odd{S: 6, N: "m", M: Leaf{S: "q", N: 1}, MS: map[string]int{"k1": 1}, MM: map[string]Leaf{"k1": {S: "m"}, "k2": {}}, MPM: map[string]*Leaf{"k1": {S: "p"}, "k2": {}}},
					"dynamic-value-is-a-look-alike-struct"))
			if isShape {
				continue
			}
			opts = append(opts,
				set(at, "text", "interface-source-holds-non-container"),
				set(at, map[int]string{1: "x"}, "interface-source-holds-map-with-non-string-key"),
				set(at, map[string]any{"other": 1}, "interface-source-holds-map-without-the-key"))
			// the first j steps exist below the interface (all concretely typed), step j+1 does not
			for rep := 0; rep < 6 && len(steps) >= 2; rep++ {
				j := r.Range(1, len(steps)-1)
				hl := hostileLeaves(r, steps[j])
				x := hl[r.Intn(len(hl))]
				v := nest(r, steps[:j], x)
				opts = append(opts, set(at, v.Interface(), "dynamic-value-lacks-a-deeper-step"))
			}
			// the whole path exists, its end holds a value of another type / nil
			wrong := reflect.ValueOf(7)
			if m.lt == tInt {
				wrong = reflect.ValueOf("seven")
			}
			if m.lt.Kind() == reflect.Array && r.Bool() {
				wrong = otherLenArray(r, m.lt)
			}
			last := steps[len(steps)-1]
			opts = append(opts,
				set(at, nest(r, steps, wrong).Interface(), "interface-source-path-yields-wrong-type"),
				set(at, nest(r, steps[:len(steps)-1], reflect.ValueOf(map[string]any{last: wrong.Interface()})).Interface(), "interface-source-path-yields-wrong-type"),
				set(at, nest(r, steps[:len(steps)-1], reflect.ValueOf(map[string]any{last: nil})).Interface(), "interface-source-path-yields-nil"),
				set(at, nest(r, steps[:len(steps)-1], reflect.ValueOf(map[string]*Leaf{last: nil})).Interface(), "interface-source-path-yields-nil-pointer"))
		}
		if sc.Leaf.Kind() == reflect.Interface && len(sc.Path) > 0 && m.lt.Kind() != reflect.Interface {
			// interface-typed source position feeding a typed target
			wrong := any(7)
			if m.lt == tInt {
				wrong = "seven"
			}
			if sc.Leaf == tShape {
				wrong = NoS{X: 2}
				if m.lt == tNoS {
					wrong = Leaf{}
				}
			} else if m.lt.Kind() == reflect.Array && r.Bool() {
				wrong = otherLenArray(r, m.lt).Interface()
			}
			opts = append(opts,
				set(sc.Path, wrong, "interface-source-value-of-wrong-type"),
				set(sc.Path, nil, "interface-source-value-nil"))
		}
		if sc.PtrAt >= 0 && sc.PtrAt < len(sc.Path) {
			opts = append(opts, set(sc.Path[:sc.PtrAt], nil, "nil-pointer-on-source-path"))
		}
		// an embedded pointer behind which a promoted field of the path lies is nil in this output
		for _, ep := range sc.EmbPtrs {
			opts = append(opts, set(ep, nil, "nil-embedded-pointer-on-source-path"), set(ep, nil, "nil-embedded-pointer-on-source-path"))
		}
		if len(m.To) == 0 && sc.Leaf.Kind() == reflect.Interface && len(sc.Path) > 0 {
			// the whole successor input is taken from an interface-typed position that holds nil
			opts = append(opts, set(sc.Path, nil, "nil-interface-value-for-whole-input"), set(sc.Path, nil, "nil-interface-value-for-whole-input"))
		}
		if sc.MapAt >= 0 && sc.MapAt < len(sc.Path) {
			at := sc.Path[:sc.MapAt+1]
			opts = append(opts, func() string {
				if !deleteKey(root, at) {
					return ""
				}
				if cls := c.classOf(m, root); cls != "" {
					return cls
				}
				return "absent-map-key-on-source-path"
			})
		}
		if len(opts) == 0 {
			continue
		}
		if h := opts[r.Intn(len(opts))](); h != "" {
			c.Hazard = h
			return
		}
	}
	// a static value of the wrong type
	if len(c.Statics) > 0 && r.Prob(0.5) {
		s := &c.Statics[0]
		if s.tgt.Leaf.Kind() != reflect.Interface {
			if s.tgt.Leaf == tInt {
				s.Val = "seven"
			} else {
				s.Val = 7
			}
			c.Hazard = "static-value-of-wrong-type"
		}
	}
}

// otherLenArray: a populated array with the element type of t and one element more (not assignable to t).
func otherLenArray(r *mon.Rand, t reflect.Type) reflect.Value {
	return genValue(r, reflect.ArrayOf(t.Len()+1, t.Elem()), 2)
}

// leafTypeSrc: declared type at a source path (no `any` expansion).
func leafTypeSrc(t reflect.Type, path []string) (reflect.Type, bool) {
	for _, el := range path {
		for t.Kind() == reflect.Ptr {
			t = t.Elem()
		}
		switch t.Kind() {
		case reflect.Struct:
			f, ok := t.FieldByName(el)
			if !ok {
				return nil, false
			}
			t = f.Type
		case reflect.Map:
			t = t.Elem()
		default:
			return nil, false
		}
	}
	return t, true
}

// chunkings: Chunk[0] is the full value alone; further chunkings split a struct by
// top-level fields or a map by keys into 2..3 chunks (partial values).
func chunkings(r *mon.Rand, p *pred) [][]any {
	out := [][]any{{p.Value}}
	v := reflect.ValueOf(p.Value)
	t := p.Type
	isPtr := t.Kind() == reflect.Ptr
	if isPtr {
		if v.IsNil() {
			return out
		}
		v = v.Elem()
		t = t.Elem()
	}
	if t.Kind() == reflect.Struct {
		v = addressableCopy(v)
	}
	for n := 0; n < 2; n++ {
		parts := r.Range(2, 3)
		var chunks []reflect.Value
		switch t.Kind() {
		case reflect.Struct:
			for i := 0; i < parts; i++ {
				chunks = append(chunks, reflect.New(t).Elem())
			}
			for i := 0; i < t.NumField(); i++ {
				setRO(chunks[r.Intn(parts)].Field(i), readable(v.Field(i)))
			}
		case reflect.Map:
			if v.IsNil() {
				return out
			}
			for i := 0; i < parts; i++ {
				chunks = append(chunks, reflect.MakeMap(t))
			}
			keys := make([]string, 0, v.Len())
			for _, k := range v.MapKeys() {
				keys = append(keys, k.String())
			}
			sort.Strings(keys)
			for _, k := range keys {
				chunks[r.Intn(parts)].SetMapIndex(reflect.ValueOf(k), v.MapIndex(reflect.ValueOf(k)))
			}
		default:
			return out
		}
		var cs []any
		for _, ch := range chunks {
			if isPtr {
				pp := reflect.New(t)
				pp.Elem().Set(ch)
				cs = append(cs, pp.Interface())
			} else {
				cs = append(cs, ch.Interface())
			}
		}
		out = append(out, cs)
	}
	return out
}

// ---- witness / digest --------------------------------------------------------------------

type witness struct {
	Target    string   `json:"successor_type"`
	Successor string   `json:"successor"`
	Preds     []string `json:"predecessors"`
	Mappings  []string `json:"mappings"`
	Statics   []string `json:"static_values,omitempty"`
	Overlap   bool     `json:"targets_overlap"`
	Hazard    string   `json:"hostile_element,omitempty"`
	Struct    string   `json:"structure,omitempty"`
	Ill       string   `json:"path_outside_the_declared_types,omitempty"`
	Values    []string `json:"predecessor_outputs"`
	Order     string   `json:"declaration_order,omitempty"`
	Gate      string   `json:"branch_skipping_predecessors,omitempty"`
	Extra     string   `json:"extra,omitempty"`
}

func (m mapping) String(c *Case) string {
	from, to := "<whole>", "<whole>"
	if len(m.From) > 0 {
		from = joinPath(m.From)
	}
	if len(m.To) > 0 {
		to = joinPath(m.To)
	}
	return fmt.Sprintf("%s:%s -> %s", c.Preds[m.Pred].Key, from, to)
}

func (c *Case) witness(order string, extra string) witness {
	w := witness{Target: typeName(c.Tgt), Overlap: c.Overlap, Hazard: c.Hazard, Struct: c.Struct, Ill: c.Ill, Order: order, Extra: extra}
	w.Successor = "lambda"
	if c.SuccEnd {
		w.Successor = "END"
	}
	if c.SuccInv {
		w.Successor = "lambda (Invoke form only)"
	}
	if g := c.Gate; g != nil {
		var gs, ps []string
		for i, p := range c.Preds {
			if g.Gated[i] {
				gs = append(gs, p.Key)
				if g.Picked[i] {
					ps = append(ps, p.Key)
				}
			}
		}
		w.Gate = fmt.Sprintf("branch (form %d) below node gate over {%s}%s selects {%s}%s; gated predecessors take their input from %s; the successor's finishing control predecessor: %s",
			g.Form, strings.Join(gs, ","), map[bool]string{true: "+ctl", false: ""}[g.CtlKind == 0], strings.Join(ps, ","), map[bool]string{true: "+ctl", false: ""}[g.CtlKind == 0],
			[]string{"gate", "START"}[g.PredFrom], []string{"ctl (selected by the branch)", "ctl (below START)", "START", "gate"}[g.CtlKind])
	}
	for _, p := range c.Preds {
		s := p.Key + ":" + typeName(p.Type)
		s += " declared by " + modeNames[p.Mode]
		if p.Whole {
			s += " (without mappings)"
		}
		w.Preds = append(w.Preds, s)
		w.Values = append(w.Values, p.Key+"="+treeOf(p.Value).String())
	}
	for _, m := range c.Maps {
		w.Mappings = append(w.Mappings, m.String(c))
	}
	for _, s := range c.Statics {
		w.Statics = append(w.Statics, fmt.Sprintf("%s = %s", joinPath(s.To), treeOf(s.Val).String()))
	}
	return w
}

// digest identifies the shape of a case (types, mapping set, statics), not its values.
func (c *Case) digest() string {
	var b strings.Builder
	fmt.Fprintf(&b, "%v|%v|%v|", c.Tgt, c.SuccEnd, c.SuccInv)
	if g := c.Gate; g != nil {
		fmt.Fprintf(&b, "gate%v%v%d%d|", g.Gated, g.Picked, g.Form, g.CtlKind)
	}
	for _, p := range c.Preds {
		fmt.Fprintf(&b, "%v,%v,%v,%d;", p.Type, p.Start, p.Whole, p.Mode)
	}
	for _, m := range c.Maps {
		b.WriteString(m.String(c) + ";")
	}
	for _, s := range c.Statics {
		b.WriteString("static " + joinPath(s.To) + ";")
	}
	return b.String()
}

// canonInValue spells a path inside the value v with every promoted field name written out
// through its embedded fields, following the dynamic types actually held (interfaces and
// pointers are looked through); the rest of the path is kept as it is where the walk ends.
func canonInValue(v reflect.Value, path []string) []string {
	out := make([]string, 0, len(path)+2)
	cur := v
	for i, el := range path {
		for cur.IsValid() && (cur.Kind() == reflect.Ptr || cur.Kind() == reflect.Interface) {
			if cur.IsNil() {
				cur = reflect.Value{}
				break
			}
			cur = cur.Elem()
		}
		if !cur.IsValid() {
			return append(out, path[i:]...)
		}
		switch cur.Kind() {
		case reflect.Struct:
			chain, ok := fieldChain(cur.Type(), el)
			if !ok {
				return append(out, path[i:]...)
			}
			for _, sf := range chain {
				out = append(out, sf.Name)
			}
			f, _, nilEmb := getField(cur, el)
			if nilEmb {
				return append(out, path[i+1:]...)
			}
			cur = f
		case reflect.Map:
			out = append(out, el)
			if cur.Type().Key().Kind() != reflect.String {
				return append(out, path[i+1:]...)
			}
			cur = cur.MapIndex(reflect.ValueOf(el).Convert(cur.Type().Key()))
		default:
			return append(out, path[i:]...)
		}
	}
	return out
}
