package c15

// Struct fields by name for the check's own walkers (generator and reference): a
// path element may name a field that is promoted from an embedded struct, possibly
// through embedded pointers. reflect.Value.FieldByName panics when such a pointer is
// nil, so the chain of embedded fields is resolved on the type and walked by hand:
// on the source side a nil embedded pointer means "no value at this path", on the
// target side it is allocated (which is impossible from outside the package when the
// embedded pointer's type is unexported). Shares no code with compose/field_mapping.go.

import (
	"fmt"
	"reflect"
	"unsafe"
)

// fieldChain: the struct fields to go through, outermost first, to reach field `name`
// of struct type t; the last one is the field itself. A direct field has a chain of 1.
func fieldChain(t reflect.Type, name string) ([]reflect.StructField, bool) {
	sf, ok := t.FieldByName(name)
	if !ok {
		return nil, false
	}
	var chain []reflect.StructField
	cur := t
	for _, idx := range sf.Index {
		if cur.Kind() == reflect.Ptr {
			cur = cur.Elem()
		}
		f := cur.Field(idx)
		chain = append(chain, f)
		cur = f.Type
	}
	return chain, true
}

// getField reads field `name` of the struct value v. nilEmb: the field lies behind an
// embedded pointer that is nil in this value.
func getField(v reflect.Value, name string) (f reflect.Value, found bool, nilEmb bool) {
	chain, ok := fieldChain(v.Type(), name)
	if !ok {
		return reflect.Value{}, false, false
	}
	cur := v
	for i, sf := range chain {
		if i > 0 && cur.Kind() == reflect.Ptr {
			if cur.IsNil() {
				return reflect.Value{}, true, true
			}
			cur = cur.Elem()
		}
		cur = cur.Field(sf.Index[0])
	}
	return cur, true, false
}

// setField returns the settable field `name` of the addressable struct value v,
// allocating nil embedded pointers on the way.
func setField(v reflect.Value, name string) (reflect.Value, error) {
	chain, ok := fieldChain(v.Type(), name)
	if !ok {
		return reflect.Value{}, fmt.Errorf("no field %s in %v", name, v.Type())
	}
	cur := v
	for i, sf := range chain {
		if i > 0 && cur.Kind() == reflect.Ptr {
			if cur.IsNil() {
				if !cur.CanSet() {
					return reflect.Value{}, fmt.Errorf("field %s of %v lies behind an embedded pointer that cannot be set", name, v.Type())
				}
				cur.Set(reflect.New(cur.Type().Elem()))
			}
			cur = cur.Elem()
		}
		cur = cur.Field(sf.Index[0])
	}
	if !cur.CanSet() {
		return reflect.Value{}, fmt.Errorf("field %s of %v cannot be set", name, v.Type())
	}
	return cur, nil
}

// settableTarget: may a value be stored in field `name` of a fresh value of struct type t
// through the public reflect API? Not if it is unexported or lies behind an embedded pointer
// of an unexported type.
func settableTarget(t reflect.Type, name string) bool {
	chain, ok := fieldChain(t, name)
	if !ok || !chain[len(chain)-1].IsExported() {
		return false
	}
	for _, sf := range chain[:len(chain)-1] {
		if sf.Type.Kind() == reflect.Ptr && !sf.IsExported() {
			return false
		}
	}
	return true
}

// canonPath rewrites a path over declared type t so that promoted field names are spelled
// out through their embedded fields: two paths denote the same (or nested) positions of
// the value iff their canonical forms are equal (or one is a prefix of the other).
func canonPath(t reflect.Type, path []string) []string {
	out := make([]string, 0, len(path)+2)
	for i, el := range path {
		for t != nil && t.Kind() == reflect.Ptr {
			t = t.Elem()
		}
		switch {
		case t != nil && t.Kind() == reflect.Struct:
			chain, ok := fieldChain(t, el)
			if !ok {
				return append(out, path[i:]...)
			}
			for _, sf := range chain {
				out = append(out, sf.Name)
			}
			t = chain[len(chain)-1].Type
		case t != nil && t.Kind() == reflect.Map:
			out = append(out, el)
			t = t.Elem()
		default:
			out = append(out, el)
			t = nil
		}
	}
	return out
}

// overlapsIn: two target paths of declared type t denote overlapping positions.
func overlapsIn(t reflect.Type, a, b []string) bool {
	return overlaps(canonPath(t, a), canonPath(t, b))
}

// aliased: the two paths overlap as positions but not as spelled (one of them uses a
// promoted field name).
func aliased(t reflect.Type, a, b []string) bool {
	return overlapsIn(t, a, b) && !overlaps(a, b)
}

// setRO stores src in dst even if dst was reached through an unexported field (the
// generator has to populate the embedded pointer of an unexported type).
func setRO(dst, src reflect.Value) {
	if dst.CanSet() {
		dst.Set(src)
		return
	}
	reflect.NewAt(dst.Type(), unsafe.Pointer(dst.UnsafeAddr())).Elem().Set(src)
}

// addressableCopy: a settable copy of v.
func addressableCopy(v reflect.Value) reflect.Value {
	cp := reflect.New(v.Type()).Elem()
	cp.Set(v)
	return cp
}

// readable: v without the read-only mark of an unexported field (v must be addressable).
func readable(v reflect.Value) reflect.Value {
	if v.CanInterface() {
		return v
	}
	return reflect.NewAt(v.Type(), unsafe.Pointer(v.UnsafeAddr())).Elem()
}
