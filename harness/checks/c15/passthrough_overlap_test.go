package c15

// Sub-workload "target paths of a pass-through node" (hunt/promoted-overlap-late-typed-passthrough).
//
// A pass-through node p has no type of its own: it gets the input type T of the node it feeds (a lambda X,
// END, or a second pass-through node q in between) when that whole-output input is declared. Field mappings
// and static values may be declared on p all the same; their target paths are paths of T. Whether two of them
// denote the same or nested positions (the same spelling, a promoted field name next to the path through the
// embedded field, a prefix next to a longer path) must not depend on whether p already had its type when
// they were declared.
//
// A case: T (structs with embedded structs by value / by pointer / two pointers deep, plain structs, maps)
// x 1..3 sources (lambda nodes returning strings, START) x 1..4 declarations on p (mappings in one AddInput
// call per source, static values). 60 % get one more declaration that overlaps an earlier one. Declaration
// orders: every order of creating p, q, X / the first use of END (the sources before or after them) x the
// declarations on p forwards / backwards (static values first / last), each compiled twice.
//
// Oracle: an overlapping set (both sets without one of the two overlapping declarations compile) must be refused
// in every order; a set without overlap that is accepted must hand X / END zero value + mapped values in Invoke
// x3, Stream, Transform (Collect when one value does not have to be assembled from several sources).

import (
	"context"
	"fmt"
	"reflect"
	"sort"
	"strings"

	"github.com/cloudwego/eino/compose"

	"verifharness/internal/mon"
)

const clsPass = "pass-through-node-with-field-mappings"

type poDecl struct {
	Static bool
	Src    int // source index; -1: START
	To     []string
	Val    string // static value
	lt     reflect.Type
}

type poCase struct {
	T       reflect.Type
	Sources int
	Via     bool // p -> q -> X
	End     bool // X is END
	Inv     bool // X has the Invoke form only (one source, no static value)
	Decls   []poDecl
	Overlap bool
	A, B    int // indices of the overlapping pair (B was injected)
	Rel     string
	SrcLast bool
}

var poTypes = []reflect.Type{tEmbV, tEmbP, tPEmbP, tEmbD, tPEmbD, tEmbV, tEmbP, tPEmbD, tMapEP, tMid, tPMid, tTop, tMapAny, tMapL}

func genPassCase(r *mon.Rand) *poCase {
	for {
		if c := tryGenPassCase(r); c != nil {
			return c
		}
	}
}

func tryGenPassCase(r *mon.Rand) *poCase {
	c := &poCase{T: poTypes[r.Intn(len(poTypes))], Sources: 1 + r.Intn(3), Via: r.Prob(0.25), End: r.Prob(0.3), SrcLast: r.Bool()}
	var tcs []pathCand
	for _, tc := range enumPaths(c.T, false, 3) {
		if tc.Nested || tc.HidEmb || tc.StructEntry != "" {
			continue
		}
		if tc.Leaf == tString || tc.Leaf == tAny {
			tcs = append(tcs, tc)
		}
	}
	if len(tcs) == 0 {
		return nil
	}
	n := 1 + r.Intn(3)
	free := func(p []string) bool {
		for _, d := range c.Decls {
			if overlapsIn(c.T, p, d.To) {
				return false
			}
		}
		return true
	}
	mk := func(tc pathCand) poDecl {
		d := poDecl{To: tc.Path, lt: tc.Leaf, Src: r.Intn(c.Sources+1) - 1}
		if r.Prob(0.3) {
			d.Static, d.Val = true, "st"+r.Str(1, 2)
		}
		return d
	}
	for i := 0; i < n; i++ {
		tc := tcs[r.Intn(len(tcs))]
		if !free(tc.Path) {
			continue
		}
		c.Decls = append(c.Decls, mk(tc))
	}
	if len(c.Decls) == 0 {
		return nil
	}
	if r.Prob(0.6) {
		a := r.Intn(len(c.Decls))
		var cands []pathCand
		for _, tc := range tcs {
			if !overlapsIn(c.T, tc.Path, c.Decls[a].To) {
				continue
			}
			ok := true
			for i, d := range c.Decls {
				if i != a && overlapsIn(c.T, tc.Path, d.To) {
					ok = false
				}
			}
			if ok {
				cands = append(cands, tc)
			}
		}
		// the other spelling of the same position is what this sub-workload is about: preferred when there is one
		var alias []pathCand
		for _, tc := range cands {
			if aliased(c.T, tc.Path, c.Decls[a].To) {
				alias = append(alias, tc)
			}
		}
		if len(alias) > 0 && r.Prob(0.6) {
			cands = alias
		}
		if len(cands) > 0 {
			tc := cands[r.Intn(len(cands))]
			d := mk(tc)
			if d.Static && c.Decls[a].Static && joinPath(d.To) == joinPath(c.Decls[a].To) {
				d.Static = false // SetStaticValue twice on one spelling is a setter, not an overlap
			}
			c.Decls = append(c.Decls, d)
			c.Overlap, c.A, c.B = true, a, len(c.Decls)-1
			// each half of the pair is compiled without the other one: a mapping must be left then (a workflow
			// needs something below START), so a set whose only mapping is one of the two gets one more
			others := 0
			for i, x := range c.Decls {
				if i != c.A && i != c.B && !x.Static {
					others++
				}
			}
			if others == 0 && (d.Static || c.Decls[a].Static) {
				var fr []pathCand
				for _, tc := range tcs {
					if free(tc.Path) {
						fr = append(fr, tc)
					}
				}
				if len(fr) == 0 {
					return nil
				}
				anchor := mk(fr[r.Intn(len(fr))])
				anchor.Static = false
				// keep the pair's indices: the anchor goes last
				c.Decls = append(c.Decls, anchor)
			}
			switch {
			case aliased(c.T, d.To, c.Decls[a].To):
				c.Rel = "same-or-nested-position-through-promoted-field-name-and-embedded-field"
			case joinPath(d.To) == joinPath(c.Decls[a].To):
				c.Rel = "duplicate-target"
			default:
				c.Rel = "prefix-and-longer-path"
			}
		}
	}
	// every lambda source must be used by p or it still runs harmlessly below START; fine either way
	nsrc := map[int]bool{}
	statics := 0
	for _, d := range c.Decls {
		if d.Static {
			statics++
		} else {
			nsrc[d.Src] = true
		}
	}
	if len(nsrc) == 0 {
		return nil // p needs at least one input (nodes fed by static values only: static_only_test.go)
	}
	c.Inv = !c.End && len(nsrc) == 1 && statics == 0 && r.Prob(0.3)
	return c
}

func (c *poCase) pairKind() string {
	a, b := c.Decls[c.A], c.Decls[c.B]
	switch {
	case a.Static && b.Static:
		return "static-vs-static"
	case a.Static || b.Static:
		return "static-vs-mapping"
	}
	return "mapping-vs-mapping"
}

// without returns the case without declaration i (no overlap left).
func (c *poCase) without(i int) *poCase {
	c2 := *c
	c2.Decls = nil
	for k, d := range c.Decls {
		if k != i {
			c2.Decls = append(c2.Decls, d)
		}
	}
	c2.Overlap = false
	return &c2
}

func srcKey(i int) string {
	if i < 0 {
		return compose.START
	}
	return fmt.Sprintf("s%d", i)
}

type poOrder struct {
	Nodes []string // creation order of "p", "q", "X" (X = first use of END when c.End)
	Back  bool     // declarations on p backwards
}

func (o poOrder) String() string {
	return fmt.Sprintf("nodes created in the order %s; declarations on p %s", strings.Join(o.Nodes, ","), map[bool]string{false: "as listed", true: "backwards"}[o.Back])
}

// typedLate: p is created before one of the nodes through which its type arrives (q, X / END).
func (o poOrder) typedLate(c *poCase) bool {
	return o.Nodes[len(o.Nodes)-1] != "p"
}

func (c *poCase) orders() []poOrder {
	items := []string{"p", "X"}
	if c.Via {
		items = []string{"p", "q", "X"}
	}
	var out []poOrder
	for _, perm := range permutations(len(items)) {
		ns := make([]string, len(items))
		for i, k := range perm {
			ns[i] = items[k]
		}
		out = append(out, poOrder{Nodes: ns}, poOrder{Nodes: ns, Back: true})
	}
	return out
}

type poBuilt struct {
	run  *runHandle
	cerr error
	rec  *succRec
}

func (c *poCase) build(ctx context.Context, o poOrder) *poBuilt {
	b := &poBuilt{rec: &succRec{}}
	var h *wfHandle
	if c.End {
		h = wfTo[c.T]()
	} else {
		h = wfFrom[tString]()
	}
	used := map[int]bool{}
	for _, d := range c.Decls {
		if !d.Static {
			used[d.Src] = true
		}
	}
	sources := func() {
		for i := 0; i < c.Sources; i++ {
			if !used[i] {
				continue // a node that leads nowhere is not this sub-workload's subject
			}
			v := fmt.Sprintf("v%d", i)
			h.addLambda(srcKey(i), mkPred[string](&predNode{full: v, chunks: []any{v}})).AddInput(compose.START)
		}
	}
	if !c.SrcLast {
		sources()
	}
	feedsX := "p"
	if c.Via {
		feedsX = "q"
	}
	for _, k := range o.Nodes {
		switch k {
		case "p":
			p := h.addPass("p")
			decls := append([]poDecl(nil), c.Decls...)
			if o.Back {
				for i, j := 0, len(decls)-1; i < j; i, j = i+1, j-1 {
					decls[i], decls[j] = decls[j], decls[i]
				}
			}
			// one AddInput call per source, at the position of its first mapping; static values where they stand
			done := map[int]bool{}
			for _, d := range decls {
				if d.Static {
					p.SetStaticValue(compose.FieldPath(clonePath(d.To)), d.Val)
					continue
				}
				if done[d.Src] {
					continue
				}
				done[d.Src] = true
				var fms []*compose.FieldMapping
				for _, d2 := range decls {
					if !d2.Static && d2.Src == d.Src {
						if len(d2.To) == 1 && len(fms)%2 == 0 {
							fms = append(fms, compose.ToField(d2.To[0]))
						} else {
							fms = append(fms, compose.ToFieldPath(compose.FieldPath(clonePath(d2.To))))
						}
					}
				}
				p.AddInput(srcKey(d.Src), fms...)
			}
		case "q":
			h.addPass("q").AddInput("p")
		case "X":
			switch {
			case c.End:
				h.end().AddInput(feedsX)
			case c.Inv:
				h.addLambda("X", sinvOf[c.T](b.rec)).AddInput(feedsX)
			default:
				h.addLambda("X", succOf[c.T](b.rec)).AddInput(feedsX)
			}
		}
	}
	if c.SrcLast {
		sources()
	}
	if !c.End {
		h.end().AddInput("X")
	}
	b.run, b.cerr = h.compile(ctx)
	return b
}

func (c *poCase) expect() (*tree, int) {
	root := reflect.New(c.T).Elem()
	srcs := map[int]bool{}
	chunks := 0
	for _, d := range c.Decls {
		v := d.Val
		if !d.Static {
			v = "in"
			if d.Src >= 0 {
				v = fmt.Sprintf("v%d", d.Src)
			}
			if !srcs[d.Src] {
				srcs[d.Src] = true
				chunks++
			}
		}
		if err := refSet(root, d.To, v); err != nil {
			panic(fmt.Sprintf("pass-through reference: %v", err))
		}
	}
	for _, d := range c.Decls {
		if d.Static {
			chunks++
			break
		}
	}
	return toTree(root), chunks
}

type poWitness struct {
	T       string   `json:"type_p_gets"`
	Shape   string   `json:"shape"`
	Decls   []string `json:"declarations_on_p"`
	Overlap string   `json:"overlapping_pair,omitempty"`
	Order   string   `json:"order,omitempty"`
	Note    string   `json:"note,omitempty"`
}

func (c *poCase) witness(order, note string) poWitness {
	w := poWitness{T: c.T.String(), Order: order, Note: note}
	x := "lambda X (Invoke and Transform forms)"
	if c.Inv {
		x = "lambda X (Invoke form only)"
	}
	if c.End {
		x = "END"
	}
	via := "p"
	if c.Via {
		via = "p -> pass-through q"
	}
	w.Shape = fmt.Sprintf("%d lambda sources below START; %s -> %s (whole output)", c.Sources, via, x)
	for _, d := range c.Decls {
		if d.Static {
			w.Decls = append(w.Decls, fmt.Sprintf("SetStaticValue(%s, %q)", joinPath(d.To), d.Val))
		} else {
			w.Decls = append(w.Decls, fmt.Sprintf("AddInput(%s, -> %s)", srcKey(d.Src), joinPath(d.To)))
		}
	}
	if c.Overlap {
		w.Overlap = fmt.Sprintf("%s / %s (%s, %s)", joinPath(c.Decls[c.A].To), joinPath(c.Decls[c.B].To), c.Rel, c.pairKind())
	}
	return w
}

func (c *poCase) digest() string {
	var ds []string
	for _, d := range c.Decls {
		ds = append(ds, fmt.Sprintf("%v:%d:%s", d.Static, d.Src, joinPath(d.To)))
	}
	if !c.Overlap {
		sort.Strings(ds)
	}
	return fmt.Sprintf("po|%v|%d|%v|%v|%v|%v|%s", c.T, c.Sources, c.Via, c.End, c.Inv, c.Overlap, strings.Join(ds, ";"))
}

func runPassCase(ctx context.Context, rep *mon.Reporter, rng *mon.Rand, c *poCase, idx int64) {
	rep.Count("pass_through/sets_total", 1)
	if idx < 40 {
		rep.Sample(c.witness("", ""))
	}
	orders := c.orders()
	compile := func(cc *poCase, o poOrder) *poBuilt {
		var b *poBuilt
		p := mon.Safe(func() { b = cc.build(ctx, o) })
		rep.AddEvaluations(1)
		if p != nil {
			rep.Violation("C15/panic/compile/"+clsPass, "Compile panicked: "+short(p.Value, 300)+"\n"+short(p.Stack, 1500), cc.witness(o.String(), ""))
			return nil
		}
		return b
	}
	if c.Overlap {
		// each of the two overlapping declarations is fine without the other one (in the plainest order)
		plain := poOrder{Nodes: []string{"X", "p"}}
		if c.Via {
			plain = poOrder{Nodes: []string{"X", "q", "p"}}
		}
		for _, i := range []int{c.B, c.A} {
			if b := compile(c.without(i), plain); b == nil || b.cerr != nil {
				rep.Count("pass_through/overlap_sets_skipped_because_one_half_does_not_compile", 1)
				if debug && b != nil {
					fmt.Printf("SKIPPED pass-through case %d: %v\n  %+v\n", idx, b.cerr, c.witness("", ""))
				}
				return
			}
		}
		rep.Count("pass_through/overlap_sets", 1)
		rep.Count("pass_through/overlap_sets/"+c.Rel+"/"+c.pairKind(), 1)
		type acc struct {
			o poOrder
			b *poBuilt
		}
		var late, early []acc
		total := 0
		for _, o := range orders {
			for k := 0; k < 2; k++ {
				b := compile(c, o)
				total++
				if b == nil || b.cerr != nil {
					continue
				}
				if o.typedLate(c) {
					late = append(late, acc{o, b})
				} else {
					early = append(early, acc{o, b})
				}
			}
		}
		rep.Count("pass_through/compilations_of_overlapping_sets", int64(total))
		if len(late)+len(early) == 0 {
			rep.Count("pass_through/overlap_sets_rejected_in_every_order", 1)
			rep.NonTrivial(c.digest())
			return
		}
		report := func(as []acc, sig string) {
			if len(as) == 0 {
				return
			}
			// consequences: what the accepted workflow does
			seen := map[string]int{}
			rec := as[0].b.rec
			if c.End {
				rec = nil
			}
			for i := 0; i < 6; i++ {
				o := r4Run(ctx, as[0].b.run, 0, "in", rec, c.T)
				rep.AddEvaluations(1)
				k := o.Kind + " " + short(o.Err, 200)
				if o.Kind == "value" {
					k = short(treesString(o.Seen), 300)
				}
				if o.Kind == "panic" {
					k = "panic " + short(o.Panic.Value, 200)
				}
				seen[k]++
			}
			var ks []string
			for _, k := range mon.SortedKeys(seen) {
				ks = append(ks, fmt.Sprintf("%dx %s", seen[k], k))
			}
			rep.Violation(sig, fmt.Sprintf("the declarations on the pass-through node p assign overlapping targets (%s and %s: %s), yet Compile accepted the workflow in %d of %d compilations (%d accepted with p created before a node through which its type arrives, %d with p created last). First accepted order: %s. Six Invoke runs of it: %s",
				joinPath(c.Decls[c.A].To), joinPath(c.Decls[c.B].To), c.Rel, len(late)+len(early), total, len(late), len(early), as[0].o, strings.Join(ks, " | ")), c.witness(as[0].o.String(), ""))
		}
		// one signature per kind of pair: which creation orders let the set through is in the detail
		report(append(late, early...), "C15/overlap-accepted/declared-on-a-pass-through-node/"+c.pairKind())
		return
	}

	// ---- no overlap
	var accepted []struct {
		o poOrder
		b *poBuilt
	}
	rejected := 0
	firstErr := ""
	for _, o := range orders {
		b := compile(c, o)
		if b == nil {
			continue
		}
		if b.cerr != nil {
			rejected++
			if firstErr == "" {
				firstErr = b.cerr.Error()
			}
			continue
		}
		accepted = append(accepted, struct {
			o poOrder
			b *poBuilt
		}{o, b})
	}
	if rejected > 0 && len(accepted) > 0 {
		rep.Count("pass_through/nonoverlap_sets_accepted_in_some_orders_only", 1)
		rep.Distinct("pass_through_reject_reasons", short(firstErr, 60))
	}
	if len(accepted) == 0 {
		rep.Count("pass_through/nonoverlap_sets_rejected", 1)
		rep.Distinct("pass_through_reject_reasons", short(firstErr, 60))
		if debug {
			fmt.Printf("REJECTED pass-through case %d: %s\n  %+v\n", idx, firstErr, c.witness("", ""))
		}
		return
	}
	rep.Count("pass_through/nonoverlap_sets_accepted_and_run", 1)
	want, chunks := c.expect()
	// run the first and the last accepted order
	pick := accepted[:1]
	if len(accepted) > 1 {
		pick = append(pick, accepted[len(accepted)-1])
	}
	runs := 0
	for _, a := range pick {
		if a.o.typedLate(c) {
			rep.Count("pass_through/runs_of_orders_in_which_p_is_typed_late", 1)
		}
		rec := a.b.rec
		if c.End {
			rec = nil
		}
		apis := []int{0, 0, 0, 1, 2}
		if !c.End || chunks <= 1 || c.T.Kind() == reflect.Map {
			apis = append(apis, 3)
		}
		var keys []string
		for _, api := range apis {
			o := r4Run(ctx, a.b.run, api, "in", rec, c.T)
			runs++
			switch o.Kind {
			case "panic":
				rep.Violation("C15/run-failed/"+clsPass, fmt.Sprintf("%s panicked through the public API (at %s): %s\n%s", apiNames[api], panicFrame(o.Panic), short(o.Panic.Value, 400), short(o.Panic.Stack, 2000)), c.witness(a.o.String(), apiNames[api]))
				continue
			case "error":
				rep.Violation("C15/run-failed/"+clsPass, fmt.Sprintf("%s returned an error although the accepted declarations do not overlap and every value fits: %s", apiNames[api], short(o.Err, 600)), c.witness(a.o.String(), apiNames[api]))
				continue
			}
			if api == 0 {
				keys = append(keys, treesString(o.Seen))
			}
			if ok, got := r4Same(o.Seen, want); !ok {
				rep.Violation("C15/wrong-value/"+clsPass, fmt.Sprintf("%s handed the node below the pass-through node\n  %s\nthe reference says\n  %s", apiNames[api], short(got, 1000), short(want.String(), 1000)), c.witness(a.o.String(), apiNames[api]))
				continue
			}
			rep.Count("pass_through/inputs_equal_to_reference", 1)
		}
		for i := 1; i < len(keys); i++ {
			if keys[i] != keys[0] {
				rep.Violation("C15/nondeterministic/invoke/"+clsPass, "Invoke runs of the same compiled workflow on the same input differ:\n"+strings.Join(keys, "\n"), c.witness(a.o.String(), ""))
				break
			}
		}
	}
	rep.AddEvaluations(int64(runs))
	rep.Count("pass_through/runs", int64(runs))
	rep.NonTrivial(c.digest())
	rep.Distinct("type_pairs", fmt.Sprintf("pass-through>%v", c.T))
}
