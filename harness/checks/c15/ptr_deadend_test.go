package c15

// Sub-workload "paths through a pointer to something that is not a struct" (hunt/ptr-to-interface-path-panic).
//
// The request-time walks of field_mapping.go follow a pointer only into a struct. A declared path that goes
// on below a pointer to an interface (*any, *Shape), to a map (*map[string]any, *map[string]string), to a
// scalar (*string) or to a slice (*[]string) - as a field of a struct, of a nested / pointed-to / map-held
// struct, or as the element of a map[string]*any - is therefore a dead end for them, whatever the compile-time
// check thinks. It is generated on all three sides: as a source path (predecessor = lambda or START), as a
// target path of a mapping, and as the path of SetStaticValue; next to the control positions *Leaf (pointer to
// a struct) and `any` (an interface-typed field itself), below which paths do work.
//
// Oracle: Compile may refuse the path (counted per kind). If it accepts, every run (Invoke x2, Stream,
// Transform, Collect) must hand the successor the value the reference finds (it looks through pointers and
// interfaces) at the reference's position - or, where the reference cannot walk / store either (scalar, slice,
// non-empty interface on the target side), return an error; a nil pointer / nil interface on a source path is
// "no value" (error or unset). A panic through the public API is never right.

import (
	"context"
	"fmt"
	"reflect"

	"github.com/cloudwego/eino/compose"

	"verifharness/internal/mon"
)

type PBox struct {
	S   string
	PA  *any
	PI  *Shape
	PM  *map[string]any
	PMS *map[string]string
	PS  *string
	PSl *[]string
	PL  *Leaf
	MPA map[string]*any
	A   any
}

type PBoxO struct {
	S  string
	B  PBox
	PB *PBox
	MB map[string]*PBox
}

var (
	tPBox   = reflect.TypeOf(PBox{})
	tPPBox  = reflect.TypeOf(&PBox{})
	tPBoxO  = reflect.TypeOf(PBoxO{})
	tMapPA  = reflect.TypeOf(map[string]*any{})
	pdRoots = []reflect.Type{tPBox, tPPBox, tPBoxO, tPBoxO, tMapPA}
)

func init() {
	regSrc[PBox]()
	regSrc[*PBox]()
	regSrc[PBoxO]()
	regSrc[map[string]*any]()
	regTgt[PBox]()
	regTgt[*PBox]()
	regTgt[PBoxO]()
	regTgt[map[string]*any]()
}

type pdCase struct {
	Side    int // 0 source path, 1 target path of a mapping, 2 static value path
	R       reflect.Type
	Prefix  []string // path to the PBox inside R
	Field   []string // the position of the pointer
	Kind    string   // what the pointer points to
	Tail    []string
	Control bool
	Start   bool // source side: START is the predecessor
	Succ    int  // 0 lambda both forms, 1 invoke-only lambda, 2 END
	Second  bool // a second, ordinary declaration on the S field next to it
	Form    int
	Val     any    // source side: the predecessor's output
	Hostile string // source side: nil pointer / pointer to a nil interface
}

func (c *pdCase) path() []string { return clonePath(clonePath(c.Prefix, c.Field...), c.Tail...) }
func (c *pdCase) sPath() []string {
	return clonePath(c.Prefix, "S")
}

var pdSides = [...]string{"source", "target", "static-value"}

func (c *pdCase) class() string {
	return pdSides[c.Side] + "-path-through-" + c.Kind
}

func genPtrDeadEndCase(r *mon.Rand) *pdCase {
	c := &pdCase{Side: r.Intn(3), R: pdRoots[r.Intn(len(pdRoots))], Form: r.Intn(2)}
	content := func(tail []string, leaf any) any {
		v := leaf
		for i := len(tail) - 1; i >= 0; i-- {
			v = map[string]any{tail[i]: v}
		}
		return v
	}
	var ptr any // the pointer stored at Field (source side)
	if c.R == tMapPA {
		c.Field, c.Kind = []string{"k1"}, "pointer-to-interface"
		c.Tail = [][]string{{"x"}, {"x", "y"}}[r.Intn(2)]
		a := content(c.Tail, "v")
		ptr = &a
	} else {
		switch c.R {
		case tPBoxO:
			c.Prefix = [][]string{{"B"}, {"PB"}, {"MB", "k1"}}[r.Intn(3)]
		}
		switch k := r.Intn(10); k {
		case 0, 1, 2:
			c.Field, c.Kind = []string{"PA"}, "pointer-to-interface"
			if r.Prob(0.3) {
				c.Tail = []string{"S"}
				var a any = Leaf{S: "v", N: 1}
				if c.Side != 0 {
					c.Tail = []string{"x"}
				}
				if c.Side == 0 {
					ptr = &a
				}
			} else {
				c.Tail = [][]string{{"x"}, {"x", "y"}}[r.Intn(2)]
				a := content(c.Tail, "v")
				ptr = &a
			}
		case 3:
			c.Field, c.Kind, c.Tail = []string{"MPA", "k2"}, "pointer-to-interface", []string{"x"}
			a := content(c.Tail, "v")
			ptr = &a
		case 4:
			c.Field, c.Kind, c.Tail = []string{"PI"}, "pointer-to-interface", []string{"S"}
			var s Shape = Leaf{S: "v", N: 2}
			ptr = &s
		case 5:
			c.Field, c.Kind = []string{"PM"}, "pointer-to-map"
			c.Tail = [][]string{{"x"}, {"x", "y"}}[r.Intn(2)]
			m := content(c.Tail, "v").(map[string]any)
			ptr = &m
		case 6:
			c.Field, c.Kind, c.Tail = []string{"PMS"}, "pointer-to-map", []string{"x"}
			m := map[string]string{"x": "v"}
			ptr = &m
		case 7:
			if r.Bool() {
				c.Field, c.Kind, c.Tail = []string{"PS"}, "pointer-to-scalar", []string{"x"}
				s := "str"
				ptr = &s
			} else {
				c.Field, c.Kind, c.Tail = []string{"PSl"}, "pointer-to-slice", []string{"x"}
				s := []string{"x"}
				ptr = &s
			}
		case 8:
			c.Field, c.Kind, c.Tail, c.Control = []string{"PL"}, "pointer-to-struct", []string{"S"}, true
			ptr = &Leaf{S: "v", N: 3}
		default:
			c.Field, c.Kind, c.Control = []string{"A"}, "interface-typed-field", true
			c.Tail = [][]string{{"x"}, {"x", "y"}}[r.Intn(2)]
			ptr = content(c.Tail, "v")
		}
	}
	c.Succ = r.Intn(3)
	c.Second = c.R != tMapPA && r.Prob(0.5)
	switch c.Side {
	case 0:
		c.Start = c.Succ != 2 && r.Bool()
		root := reflect.New(c.R).Elem()
		at := clonePath(c.Prefix, c.Field...)
		if r.Prob(0.25) && !c.Control {
			// no value: the pointer is nil, or points to a nil interface / nil map
			if r.Bool() || c.Kind == "pointer-to-scalar" || c.Kind == "pointer-to-slice" {
				c.Hostile = "nil-pointer"
				ptr = reflect.Zero(reflect.TypeOf(ptr)).Interface()
			} else {
				c.Hostile = "pointer-to-nil"
				ptr = reflect.New(reflect.TypeOf(ptr).Elem()).Interface()
			}
		}
		if err := refSet(root, at, ptr); err != nil {
			panic(fmt.Sprintf("ptr dead end: cannot place %T at %v of %v: %v", ptr, at, c.R, err))
		}
		if c.R != tMapPA {
			if err := refSet(root, c.sPath(), "sv"); err != nil {
				panic(err)
			}
		}
		c.Val = root.Interface()
	case 2:
		c.Second = c.R != tMapPA // a node needs an input besides its static values here (static-only nodes: static_only_test.go)
		if c.Succ == 1 {
			c.Succ = 0 // two sources: no assembled value (open fan-in finding)
		}
	}
	if c.Side == 2 && c.R == tMapPA {
		c.Side = 1
	}
	return c
}

type pdBuilt struct {
	run  *runHandle
	cerr error
	rec  *succRec
}

func (c *pdCase) fp(p []string) compose.FieldPath { return compose.FieldPath(clonePath(p)) }

func (c *pdCase) succT() reflect.Type {
	if c.Side == 0 {
		return tMapAny
	}
	return c.R
}

func (c *pdCase) build(ctx context.Context, rev bool) *pdBuilt {
	b := &pdBuilt{rec: &succRec{}}
	T := c.succT()
	var h *wfHandle
	switch {
	case c.Side == 0 && c.Start:
		h = wfFrom[c.R]()
	case c.Succ == 2:
		h = wfTo[T]()
	default:
		h = wfFrom[tString]()
	}
	from := compose.START
	if c.Side == 0 && !c.Start {
		from = "p"
		h.addLambda("p", predOf[c.R](&predNode{full: c.Val, chunks: []any{c.Val}})).AddInput(compose.START)
	}
	var node *compose.WorkflowNode
	switch c.Succ {
	case 0:
		node = h.addLambda("n", succOf[T](b.rec))
	case 1:
		node = h.addLambda("n", sinvOf[T](b.rec))
	default:
		node = h.end()
	}
	var fms []*compose.FieldMapping
	static := func() {}
	switch c.Side {
	case 0:
		if c.Form == 1 && len(c.path()) == 1 {
			fms = append(fms, compose.MapFields(c.path()[0], "v"))
		} else {
			fms = append(fms, compose.MapFieldPaths(c.fp(c.path()), compose.FieldPath{"v"}))
		}
		if c.Second {
			fms = append(fms, compose.MapFieldPaths(c.fp(c.sPath()), compose.FieldPath{"s"}))
		}
	case 1:
		fms = append(fms, compose.ToFieldPath(c.fp(c.path())))
		if c.Second {
			fms = append(fms, compose.ToFieldPath(c.fp(c.sPath())))
		}
	case 2:
		fms = append(fms, compose.ToFieldPath(c.fp(c.sPath())))
		static = func() { node.SetStaticValue(c.fp(c.path()), "st") }
	}
	if rev {
		for i, j := 0, len(fms)-1; i < j; i, j = i+1, j-1 {
			fms[i], fms[j] = fms[j], fms[i]
		}
		static()
		node.AddInput(from, fms...)
	} else {
		node.AddInput(from, fms...)
		static()
	}
	if c.Succ != 2 {
		h.end().AddInput("n")
	}
	b.run, b.cerr = h.compile(ctx)
	return b
}

type pdExpect struct {
	Must, May bool
	Why       string
	Want      *tree
}

func (c *pdCase) expect() pdExpect {
	var e pdExpect
	root := reflect.New(c.succT()).Elem()
	switch c.Side {
	case 0:
		x, st := refGet(c.Val, c.path())
		switch st {
		case gOK:
			_ = refSet(root, []string{"v"}, x)
		case gNoField, gNotContainer, gBadKey:
			e.Must, e.Why = true, fmt.Sprintf("%s on the source path", st)
		default:
			e.May, e.Why = true, fmt.Sprintf("%s on the source path", st)
		}
		if c.Second {
			_ = refSet(root, []string{"s"}, "sv")
		}
	case 1:
		if err := refSet(root, c.path(), "in"); err != nil {
			e.Must, e.Why = true, err.Error()
		}
		if c.Second {
			_ = refSet(root, c.sPath(), "in")
		}
	case 2:
		if err := refSet(root, c.path(), "st"); err != nil {
			e.Must, e.Why = true, err.Error()
		}
		_ = refSet(root, c.sPath(), "in")
	}
	e.Want = toTree(root)
	return e
}

type pdWitness struct {
	Side    string `json:"side"`
	Root    string `json:"declared_type"`
	Path    string `json:"path"`
	Second  string `json:"second_declaration,omitempty"`
	Pred    string `json:"predecessor"`
	Succ    string `json:"successor"`
	Value   string `json:"predecessor_output,omitempty"`
	Hostile string `json:"hostile,omitempty"`
	Note    string `json:"note,omitempty"`
}

func (c *pdCase) witness(note string) pdWitness {
	w := pdWitness{Side: pdSides[c.Side] + " path", Root: c.R.String(), Path: joinPath(c.path()) + " (" + c.Kind + " at " + joinPath(clonePath(c.Prefix, c.Field...)) + ")", Hostile: c.Hostile, Note: note}
	w.Pred = "START (string)"
	if c.Side == 0 {
		w.Pred = "lambda p"
		if c.Start {
			w.Pred = "START"
		}
		w.Value = short(treeOf(c.Val).String(), 500)
	}
	w.Succ = fmt.Sprintf("%s, input type %v", []string{"lambda (Invoke and Transform forms)", "lambda (Invoke form only)", "END"}[c.Succ], c.succT())
	if c.Second {
		w.Second = "mapping on " + joinPath(c.sPath())
	}
	return w
}

func (c *pdCase) digest() string {
	return fmt.Sprintf("pd|%d|%v|%s|%v|%d|%v|%d|%s", c.Side, c.R, joinPath(c.path()), c.Start, c.Succ, c.Second, c.Form, c.Hostile)
}

func runPtrDeadEndCase(ctx context.Context, rep *mon.Reporter, rng *mon.Rand, c *pdCase, idx int64) {
	rep.Count("ptr_deadend/sets_total", 1)
	if idx < 40 {
		rep.Sample(c.witness(""))
	}
	cls := c.class()
	var accepted []*pdBuilt
	compiles := 0
	for _, rev := range []bool{false, true} {
		var b *pdBuilt
		p := mon.Safe(func() { b = c.build(ctx, rev) })
		compiles++
		if p != nil {
			rep.Violation("C15/panic/compile/"+cls, "Compile panicked: "+short(p.Value, 300)+"\n"+short(p.Stack, 1500), c.witness(""))
			continue
		}
		if b.cerr == nil {
			accepted = append(accepted, b)
		} else if debug && c.Control {
			fmt.Printf("REJECTED ptr-dead-end control case %d: %v\n  %+v\n", idx, b.cerr, c.witness(""))
		}
	}
	rep.AddEvaluations(int64(compiles))
	if len(accepted) == 0 {
		rep.Count("ptr_deadend/sets_rejected/"+cls, 1)
		rep.NonTrivial(c.digest())
		return
	}
	rep.Count("ptr_deadend/sets_accepted_and_run/"+cls, 1)
	if c.Control {
		rep.Count("ptr_deadend/control_sets_accepted_and_run", 1)
	}
	e := c.expect()
	in := any("in")
	if c.Side == 0 && c.Start {
		in = c.Val
	}
	before := hashAny(c.Val)
	runs := 0
	for _, b := range accepted {
		rec := b.rec
		if c.Succ == 2 {
			rec = nil
		}
		apis := []int{0, 0, 1, 2, 3}
		if c.Succ == 2 && c.Side == 2 {
			apis = apis[:4] // END under Collect would have to assemble one value from two sources (open fan-in finding)
		}
		var inv, str r4Out
		for ri, api := range apis {
			o := r4Run(ctx, b.run, api, in, rec, c.succT())
			runs++
			if ri == 0 {
				inv = o
			}
			if api == 1 {
				str = o
			}
			if c.Side == 0 {
				if h := hashAny(c.Val); h != before {
					rep.Violation("C15/predecessor-output-mutated/"+cls, fmt.Sprintf("%s changed the predecessor's output: now %s", apiNames[api], short(treeOf(c.Val).String(), 500)), c.witness(apiNames[api]))
					before = h
				}
			}
			switch o.Kind {
			case "panic":
				sig := "C15/run-failed/" + cls
				if e.Must || e.May {
					sig = "C15/panic/" + cls
				}
				rep.Violation(sig, fmt.Sprintf("Compile accepted the path; %s panicked through the public API (at %s): %s\n%s\n%s", apiNames[api], panicFrame(o.Panic), short(o.Panic.Value, 400), e.Why, short(o.Panic.Stack, 2000)), c.witness(apiNames[api]))
				continue
			case "error":
				if e.Must || e.May {
					rep.Count("ptr_deadend/errors_observed", 1)
					continue
				}
				rep.Violation("C15/run-failed/"+cls, fmt.Sprintf("Compile accepted the path and the reference finds the value, but %s returned an error: %s", apiNames[api], short(o.Err, 600)), c.witness(apiNames[api]))
				continue
			}
			if e.Must {
				rep.Violation("C15/missing-error/"+cls, fmt.Sprintf("%s delivered %s although %s", apiNames[api], short(treesString(o.Seen), 400), e.Why), c.witness(apiNames[api]))
				continue
			}
			if ok, got := r4Same(o.Seen, e.Want); !ok {
				rep.Violation("C15/wrong-value/"+cls, fmt.Sprintf("%s handed the successor\n  %s\nthe reference says\n  %s", apiNames[api], short(got, 1000), short(e.Want.String(), 1000)), c.witness(apiNames[api]))
				continue
			}
			rep.Count("ptr_deadend/successor_inputs_equal_to_reference", 1)
		}
		if e.May && inv.Kind != "panic" && str.Kind != "panic" && (inv.Kind == "error") != (str.Kind == "error") {
			rep.Violation("C15/invoke-stream-differ/"+cls, fmt.Sprintf("the same compiled workflow on the same input: Invoke -> %s %s, Stream -> %s %s (%s)", inv.Kind, short(inv.Err, 300), str.Kind, short(str.Err, 300), e.Why), c.witness(""))
		}
	}
	rep.AddEvaluations(int64(runs))
	rep.Count("ptr_deadend/runs", int64(runs))
	rep.NonTrivial(c.digest())
}
