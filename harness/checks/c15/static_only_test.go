package c15

// Sub-workload "nodes fed by static values only" (hunt/static-value-only-node).
//
// The main workload gives a successor static values only NEXT TO field mappings. Here a Workflow
// node (a lambda with the Invoke and Transform forms, a lambda with the Invoke form only, or END)
// has SetStaticValue declarations and NO field mapping: it only waits for a control predecessor
// (AddDependency on START / on a node / on a relay node, or being selected by a branch). Its input
// must be the zero value of its input type with the static values stored at their paths, in Invoke,
// Stream, Transform and Collect. Two more kinds of nodes live in the same workflows: the ordinary
// mapped neighbour (a field mapping from START, with or without static values) and the node whose
// only mapped predecessor is never selected by a branch and which has static values. The workflow
// has one to three such nodes, alone and mixed; END is one of them, or takes their outputs (as a
// whole, or through field mappings of its own).
//
// Everything is a pure function of the *mon.Rand; the reference is refSet / toTree of ref_test.go.

import (
	"context"
	"fmt"
	"reflect"
	"sort"
	"strings"

	"github.com/cloudwego/eino/compose"
	"verifharness/internal/mon"
)

const (
	svStatic  = iota // static values only + a control trigger
	svMapped         // one field mapping from START (+ static values now and then): the ordinary neighbour
	svSkipped        // one field mapping from a node that the branch never selects + static values + a control trigger
)

const (
	clsStaticOnly = "node-fed-by-static-values-only"
	clsSkipped    = "static-values-and-all-mapped-predecessors-skipped"
	clsNeighbour  = "mapped-node-next-to-a-node-fed-by-static-values-only"
)

var svClass = [...]string{clsStaticOnly, clsNeighbour, clsSkipped}

const (
	trStart  = iota // AddDependency(START)
	trSetup         // AddDependency("setup")
	trBranch        // selected by the branch below "setup"
	trRelay         // AddDependency(relay), the relay depends on "setup"
)

var trNames = [...]string{"AddDependency(START)", "AddDependency(setup)", "selected-by-a-branch", "AddDependency(relay-node)"}

type svNode struct {
	Key         string
	Typ         reflect.Type
	End         bool
	Inv         bool
	Kind        int
	Trigger     int
	StaticFirst bool
	Statics     []staticVal
	MapTo       []string // svMapped / svSkipped: the target path of the one mapping (source: the whole string output)
	MapForm     int
	MapMode     int // svMapped: 0 AddInput(START, m); 1 AddInputWithOptions(START, m, WithNoDirectDependency()) + AddDependency("setup")
}

func (n *svNode) class() string { return svClass[n.Kind] }

type svCase struct {
	Seed     string
	Nodes    []*svNode
	Order    []int // declaration order of the nodes
	EndForm  int   // no node is END: 0 = END takes the first node's output, the others by dependency; 1 = END is map[string]any with ToField(key) per node
	GateForm int
	Ill      string // one static value of one static-only node does not fit its node's input type ("" none)
	IllNode  int
}

// svTypes: node input types that have paths (structs, pointers, maps, any, embedded structs, the array family)
var svTypes = []reflect.Type{tTop, tPTop, tMid, tPMid, tLeaf, tPLeaf, tMapAny, tMapStr, tMapL, tMapPL, tMapM, tMapPM,
	tEmbV, tEmbP, tPEmbP, tEmbD, tPEmbD, tMapEP, tAny, tArr, tPArr, tMapA2}

func (c *svCase) endNode() *svNode {
	for _, n := range c.Nodes {
		if n.End {
			return n
		}
	}
	return nil
}

func (c *svCase) needsSetup() bool {
	for _, n := range c.Nodes {
		if n.Kind == svSkipped || (n.Kind == svMapped && n.MapMode == 1) {
			return true
		}
		if n.Kind != svMapped && n.Trigger != trStart {
			return true
		}
	}
	return false
}

func (c *svCase) needsBranch() bool {
	for _, n := range c.Nodes {
		if n.Kind == svSkipped || (n.Kind == svStatic && n.Trigger == trBranch) {
			return true
		}
	}
	return false
}

// caseClass: the most delicate kind of node in the workflow names a failure of the whole run.
func (c *svCase) caseClass() string {
	has := map[int]bool{}
	for _, n := range c.Nodes {
		has[n.Kind] = true
	}
	switch {
	case has[svStatic]:
		return clsStaticOnly
	case has[svSkipped]:
		return clsSkipped
	}
	return clsNeighbour
}

func genStaticPaths(r *mon.Rand, t reflect.Type, taken [][]string, n int) []staticVal {
	tcs := enumPaths(t, false, maxDepthTgt)
	var out []staticVal
	for len(out) < n {
		placed := false
		for try := 0; try < 30 && !placed; try++ {
			tc := tcs[r.Intn(len(tcs))]
			if tc.Nested || tc.HidEmb {
				continue
			}
			if len(tc.Path) == 1 && r.Prob(0.35) {
				continue // a little bias towards nested paths
			}
			clash := false
			for _, p := range taken {
				clash = clash || overlapsIn(t, p, tc.Path)
			}
			if clash {
				continue
			}
			var val any
			switch {
			case nillable(tc.Leaf) && r.Prob(0.07):
				val = nil // an untyped nil for a nillable position
			case (tc.Leaf.Kind() == reflect.Ptr || tc.Leaf.Kind() == reflect.Map) && r.Prob(0.07):
				val = reflect.Zero(tc.Leaf).Interface() // a typed nil
			default:
				val = genTyped(r, tc.Leaf)
			}
			out = append(out, staticVal{To: tc.Path, Val: val, tgt: tc})
			taken = append(taken, tc.Path)
			placed = true
		}
		if !placed {
			break
		}
	}
	return out
}

// stringTargets: the paths of t that can hold the string START emits
func stringTargets(t reflect.Type) []pathCand {
	var out []pathCand
	for _, tc := range enumPaths(t, false, 4) {
		if tc.Nested || tc.HidEmb {
			continue
		}
		if tc.Leaf == tString || tc.Leaf == tAny {
			out = append(out, tc)
		}
	}
	return out
}

func genStaticCase(r *mon.Rand) *svCase {
	for {
		if c := tryGenStaticCase(r); c != nil {
			return c
		}
	}
}

func tryGenStaticCase(r *mon.Rand) *svCase {
	c := &svCase{Seed: r.Str(2, 4), EndForm: r.Intn(2), GateForm: r.Intn(2)}
	// composition: alone, two of a kind, next to a mapped neighbour, next to a node with a skipped predecessor
	var kinds []int
	switch k := r.Intn(100); {
	case k < 34:
		kinds = []int{svStatic}
	case k < 52:
		kinds = []int{svStatic, svMapped}
	case k < 62:
		kinds = []int{svStatic, svStatic}
	case k < 72:
		kinds = []int{svStatic, svMapped, svStatic}
	case k < 80:
		kinds = []int{svStatic, svSkipped}
	case k < 90:
		kinds = []int{svSkipped}
	case k < 96:
		kinds = []int{svSkipped, svMapped}
	default:
		kinds = []int{svMapped, svStatic, svSkipped}
	}
	perm := r.Perm(len(kinds))
	endAt := -1
	if r.Prob(0.4) {
		endAt = r.Intn(len(kinds))
	}
	for i, pi := range perm {
		n := &svNode{Key: fmt.Sprintf("n%d", i), Kind: kinds[pi], StaticFirst: r.Bool(), MapForm: r.Intn(2), MapMode: r.Intn(2)}
		n.Typ = svTypes[r.Intn(len(svTypes))]
		if i == endAt {
			n.End, n.Key = true, compose.END
		} else {
			n.Inv = r.Prob(0.25)
		}
		n.Trigger = r.Intn(4)
		var taken [][]string
		if n.Kind != svStatic {
			sts := stringTargets(n.Typ)
			if len(sts) == 0 {
				return nil
			}
			tc := sts[r.Intn(len(sts))]
			n.MapTo = tc.Path
			taken = append(taken, tc.Path)
		}
		ns := r.Range(1, 4)
		if n.Kind == svMapped && r.Prob(0.5) {
			ns = 0
		}
		n.Statics = genStaticPaths(r, n.Typ, taken, ns)
		if len(n.Statics) == 0 && n.Kind != svMapped {
			return nil
		}
		c.Nodes = append(c.Nodes, n)
	}
	c.Order = r.Perm(len(c.Nodes))
	// the branch forms with a single selected node need exactly one branch-triggered node
	nb := 0
	for _, n := range c.Nodes {
		if n.Kind != svMapped && n.Trigger == trBranch {
			nb++
		}
	}
	if nb <= 1 && r.Bool() {
		c.GateForm = 2 + r.Intn(2)
	}
	if r.Prob(0.08) {
		c.corruptStatic(r)
	}
	return c
}

// corruptStatic makes one static value of a static-only node unfit for the node's input type: a value of
// another type, a last path element that is no field of its struct, or one more element below a scalar.
// Compile should refuse; if it accepts, only an error is right for every run.
func (c *svCase) corruptStatic(r *mon.Rand) {
	for try := 0; try < 8; try++ {
		ni := r.Intn(len(c.Nodes))
		n := c.Nodes[ni]
		if n.Kind != svStatic {
			continue
		}
		s := &n.Statics[r.Intn(len(n.Statics))]
		if strings.Contains(s.tgt.Shape, "A") {
			continue // below an `any` hole every path exists and every value fits
		}
		switch r.Intn(3) {
		case 0:
			if s.tgt.Leaf.Kind() == reflect.Interface {
				continue
			}
			if s.tgt.Leaf == tInt {
				s.Val = "seven"
			} else {
				s.Val = 7
			}
			c.Ill = "static-value-of-wrong-type"
		case 1:
			parent, ok := leafType(n.Typ, s.To[:len(s.To)-1])
			if !ok {
				continue
			}
			for parent.Kind() == reflect.Ptr {
				parent = parent.Elem()
			}
			if parent.Kind() != reflect.Struct {
				continue
			}
			s.To = clonePath(s.To[:len(s.To)-1], "Zz")
			c.Ill = "static-value-path-with-a-field-that-does-not-exist"
		default:
			if k := s.tgt.Leaf.Kind(); k != reflect.String && k != reflect.Int && k != reflect.Array {
				continue
			}
			s.To = clonePath(s.To, mon.PickOne(r, []string{"S", "k1", "x"}))
			c.Ill = "static-value-path-continues-below-a-scalar-or-array"
		}
		// the corrupted path must not run into another static value of the node
		for i := range n.Statics {
			if &n.Statics[i] != s && overlapsIn(n.Typ, n.Statics[i].To, s.To) {
				return
			}
		}
		c.IllNode = ni
		return
	}
}

// ---- construction ------------------------------------------------------------------------------------

type svBuilt struct {
	h    *wfHandle
	recs []*succRec
	run  *runHandle
	cerr error
}

func svMapping(to []string, form int) *compose.FieldMapping {
	if form == 1 && len(to) == 1 {
		return compose.ToField(to[0])
	}
	return compose.ToFieldPath(compose.FieldPath(clonePath(to)))
}

// build declares the workflow (flip: the other order of the declarations of every node, the nodes
// in reverse order) and compiles it.
func (c *svCase) build(ctx context.Context, flip bool) *svBuilt {
	b := &svBuilt{recs: make([]*succRec, len(c.Nodes))}
	en := c.endNode()
	switch {
	case en != nil:
		b.h = wfTo[en.Typ]()
	case c.EndForm == 1 && len(c.Nodes) > 0:
		b.h = wfTo[tMapAny]()
	default:
		b.h = wfFrom[tString]()
	}
	end := b.h.end()
	if c.needsSetup() {
		b.h.addLambda("setup", mkRelay[any]()).AddInput(compose.START)
	}
	order := append([]int(nil), c.Order...)
	if flip {
		for i, j := 0, len(order)-1; i < j; i, j = i+1, j-1 {
			order[i], order[j] = order[j], order[i]
		}
	}
	var ends, picked []string
	for _, ni := range order {
		n := c.Nodes[ni]
		var node *compose.WorkflowNode
		if n.End {
			node = end
		} else {
			rec := &succRec{}
			b.recs[ni] = rec
			if n.Inv {
				node = b.h.addLambda(n.Key, sinvOf[n.Typ](rec))
			} else {
				node = b.h.addLambda(n.Key, succOf[n.Typ](rec))
			}
		}
		statics := func() {
			ss := n.Statics
			for i := range ss {
				s := ss[i]
				if flip {
					s = ss[len(ss)-1-i]
				}
				node.SetStaticValue(compose.FieldPath(clonePath(s.To)), s.Val)
			}
		}
		trigger := func() {
			switch n.Trigger {
			case trStart:
				node.AddDependency(compose.START)
			case trSetup:
				node.AddDependency("setup")
			case trBranch:
				ends, picked = append(ends, n.Key), append(picked, n.Key)
			case trRelay:
				rk := "relay" + n.Key
				b.h.addLambda(rk, mkRelay[string]()).AddDependency("setup")
				node.AddDependency(rk)
			}
		}
		inputs := func() {
			switch n.Kind {
			case svStatic:
				trigger()
			case svMapped:
				fm := svMapping(n.MapTo, n.MapForm)
				if n.MapMode == 0 {
					node.AddInput(compose.START, fm)
				} else {
					if flip {
						node.AddDependency("setup")
					}
					node.AddInputWithOptions(compose.START, []*compose.FieldMapping{fm}, compose.WithNoDirectDependency())
					if !flip {
						node.AddDependency("setup")
					}
				}
			case svSkipped:
				gk := "gp" + n.Key
				b.h.addLambda(gk, mkRelay[string]())
				ends = append(ends, gk)
				if flip {
					trigger()
				}
				node.AddInput(gk, svMapping(n.MapTo, n.MapForm))
				if !flip {
					trigger()
				}
			}
		}
		if n.StaticFirst != flip {
			statics()
			inputs()
		} else {
			inputs()
			statics()
		}
	}
	// END
	if en == nil {
		first := true
		for _, n := range c.Nodes {
			switch {
			case c.EndForm == 1:
				end.AddInput(n.Key, compose.ToField(n.Key))
			case first:
				end.AddInput(n.Key)
			default:
				end.AddDependency(n.Key)
			}
			first = false
		}
	} else {
		for _, n := range c.Nodes {
			if !n.End {
				end.AddDependency(n.Key)
			}
		}
	}
	if c.needsBranch() {
		b.h.addLambda("alt", mkRelay[string]())
		end.AddDependency("alt")
		ends = append(ends, "alt")
		if len(picked) == 0 {
			picked = []string{"alt"}
		}
		form := c.GateForm
		if len(picked) != 1 && form >= 2 {
			form -= 2
		}
		b.h.addBranch("setup", mkGate(form, picked, ends))
	}
	b.run, b.cerr = b.h.compile(ctx)
	return b
}

// ---- reference --------------------------------------------------------------------------------------------

type svExpect struct {
	Invoke *tree   // the one input value
	Chunks []*tree // the chunks of a streaming run (one per source: the mapping, the static values)
	Must   bool    // only an error is right (a static value that does not fit)
}

func (c *svCase) expect(n *svNode) svExpect {
	var e svExpect
	root := reflect.New(n.Typ).Elem()
	apply := func(dst reflect.Value, s staticVal) {
		lt, ok := leafType(n.Typ, s.To)
		if !ok || (s.Val != nil && !reflect.TypeOf(s.Val).AssignableTo(lt)) || (s.Val == nil && !nillable(lt)) {
			e.Must = true
			return
		}
		if err := refSet(dst, s.To, s.Val); err != nil {
			e.Must = true
		}
	}
	if n.Kind == svMapped {
		_ = refSet(root, n.MapTo, c.Seed)
		ch := reflect.New(n.Typ).Elem()
		_ = refSet(ch, n.MapTo, c.Seed)
		e.Chunks = append(e.Chunks, toTree(ch))
	}
	if len(n.Statics) > 0 {
		ch := reflect.New(n.Typ).Elem()
		for _, s := range n.Statics {
			apply(root, s)
			apply(ch, s)
		}
		e.Chunks = append(e.Chunks, toTree(ch))
	}
	e.Invoke = toTree(root)
	return e
}

func chunkKey(ts []*tree) string {
	ss := make([]string, 0, len(ts))
	for _, t := range ts {
		if !t.empty() {
			ss = append(ss, t.String())
		}
	}
	sort.Strings(ss)
	return "value:" + strings.Join(ss, " || ")
}

// ---- runs ---------------------------------------------------------------------------------------------------

type svOutcome struct {
	Kind  string // "value" | "error" | "panic"
	Err   string
	Panic *mon.Panic
	Seen  [][]*tree // per node: what it was handed
	Calls []int
}

func (o svOutcome) key() string {
	if o.Kind != "value" {
		return "failed"
	}
	var ss []string
	for _, s := range o.Seen {
		ss = append(ss, chunkKey(s))
	}
	return strings.Join(ss, " ## ")
}

// api: 0 Invoke, 1 Stream, 2 Transform, 3 Collect
func (c *svCase) runOnce(ctx context.Context, b *svBuilt, api int) svOutcome {
	for _, rec := range b.recs {
		if rec != nil {
			rec.reset()
		}
	}
	var outs []any
	var err error
	p := mon.Safe(func() {
		switch api {
		case 0:
			var one any
			one, err = b.run.invoke(ctx, c.Seed)
			outs = []any{one}
		case 1:
			outs, err = b.run.stream(ctx, c.Seed)
		case 2:
			outs, err = b.run.transform(ctx, []any{c.Seed})
		default:
			var one any
			one, err = b.run.collect(ctx, []any{c.Seed})
			outs = []any{one}
		}
	})
	o := svOutcome{Seen: make([][]*tree, len(c.Nodes)), Calls: make([]int, len(c.Nodes))}
	switch {
	case p != nil:
		o.Kind, o.Panic = "panic", p
	case err != nil:
		o.Kind, o.Err = "error", err.Error()
	default:
		o.Kind = "value"
		for i, n := range c.Nodes {
			if n.End {
				for _, x := range outs {
					o.Seen[i] = append(o.Seen[i], treeAs(x, n.Typ))
				}
				o.Calls[i] = 1
				continue
			}
			o.Seen[i] = append(o.Seen[i], b.recs[i].trees...)
			o.Calls[i] = b.recs[i].calls
		}
	}
	return o
}

var apiNames = [...]string{"Invoke", "Stream", "Transform", "Collect"}

// ---- witness --------------------------------------------------------------------------------------------------

type svWitness struct {
	Nodes []string `json:"nodes"`
	End   string   `json:"end"`
	Ill   string   `json:"static_value_that_does_not_fit,omitempty"`
	Input string   `json:"workflow_input"`
	Extra string   `json:"extra,omitempty"`
}

func (c *svCase) witness(extra string) svWitness {
	w := svWitness{Ill: c.Ill, Input: c.Seed, Extra: extra}
	for _, ni := range c.Order {
		n := c.Nodes[ni]
		form := "lambda (Invoke and Transform forms)"
		if n.Inv {
			form = "lambda (Invoke form only)"
		}
		if n.End {
			form = "END"
		}
		s := fmt.Sprintf("%s: %s, input type %v", n.Key, form, n.Typ)
		switch n.Kind {
		case svStatic:
			s += "; no field mapping; " + trNames[n.Trigger]
		case svMapped:
			s += fmt.Sprintf("; START -> %s (%s)", joinPath(n.MapTo), []string{"AddInput", "AddInputWithOptions+WithNoDirectDependency, AddDependency(setup)"}[n.MapMode])
		case svSkipped:
			s += fmt.Sprintf("; gp%s -> %s, gp%s is an end node of the branch below setup that is never selected; %s", n.Key, joinPath(n.MapTo), n.Key, trNames[n.Trigger])
		}
		var ss []string
		for _, st := range n.Statics {
			ss = append(ss, fmt.Sprintf("%s = %s", joinPath(st.To), treeOf(st.Val).String()))
		}
		if len(ss) > 0 {
			s += "; SetStaticValue: " + strings.Join(ss, ", ")
			if n.StaticFirst {
				s += " (declared first)"
			}
		}
		w.Nodes = append(w.Nodes, s)
	}
	switch {
	case c.endNode() != nil:
		w.End = "END is one of the nodes; it depends on the others"
	case c.EndForm == 1:
		w.End = "END (map[string]any) takes every node's output with ToField(key)"
	default:
		w.End = "END takes the first node's output, depends on the others"
	}
	if c.needsBranch() {
		w.End += fmt.Sprintf("; branch form %d below setup", c.GateForm)
	}
	return w
}

func (c *svCase) digest() string {
	var b strings.Builder
	fmt.Fprintf(&b, "sv|%d|%d|", c.EndForm, c.GateForm)
	for _, n := range c.Nodes {
		fmt.Fprintf(&b, "%v,%v,%v,%d,%d,%v,%s,%d;", n.Typ, n.End, n.Inv, n.Kind, n.Trigger, n.StaticFirst, joinPath(n.MapTo), n.MapMode)
		for _, s := range n.Statics {
			b.WriteString(joinPath(s.To) + ",")
		}
	}
	return b.String() + c.Ill
}

func typeKind(t reflect.Type) string {
	switch {
	case t == tAny:
		return "any"
	case t.Kind() == reflect.Ptr:
		return "pointer"
	case t.Kind() == reflect.Map:
		return "map"
	}
	return "struct"
}

// ---- the case ----------------------------------------------------------------------------------------------------

func runStaticCase(ctx context.Context, rep *mon.Reporter, rng *mon.Rand, c *svCase, idx int64) {
	rep.Count("static_only/sets_total", 1)
	if idx < 16 {
		rep.Sample(c.witness(""))
	}
	cls := c.caseClass()
	// static values are hashed before and after every run
	type sref struct {
		n, i int
	}
	var hashes []uint64
	var texts []string
	var refs []sref
	for ni, n := range c.Nodes {
		for i, s := range n.Statics {
			hashes = append(hashes, hashAny(s.Val))
			texts = append(texts, treeOf(s.Val).String())
			refs = append(refs, sref{ni, i})
		}
	}
	checkStatics := func(extra string) {
		for k, rf := range refs {
			if h := hashAny(c.Nodes[rf.n].Statics[rf.i].Val); h != hashes[k] {
				after := treeOf(c.Nodes[rf.n].Statics[rf.i].Val).String()
				rep.Violation("C15/static-value-modified/"+c.Nodes[rf.n].class(), fmt.Sprintf("a static value changed during a run:\nbefore %s\nafter  %s", texts[k], after), c.witness(extra))
				hashes[k], texts[k] = h, after
			}
		}
	}

	// ---- compile: two declaration orders, twice each (Workflow.compile ranges over the static values of a node)
	var accepted []*svBuilt
	compiles := 0
	var firstErr string
	for _, flip := range []bool{false, true} {
		var keep *svBuilt
		for k := 0; k < 2; k++ {
			var b *svBuilt
			p := mon.Safe(func() { b = c.build(ctx, flip) })
			compiles++
			if p != nil {
				rep.Violation("C15/panic/compile/"+cls, "Compile panicked: "+short(p.Value, 300)+"\n"+short(p.Stack, 1500), c.witness(""))
				continue
			}
			if b.cerr == nil {
				keep = b
			} else if firstErr == "" {
				firstErr = b.cerr.Error()
			}
		}
		if keep != nil {
			accepted = append(accepted, keep)
		}
	}
	rep.AddEvaluations(int64(compiles))
	rep.Count("static_only/compiles", int64(compiles))
	if c.Ill != "" {
		if len(accepted) == 0 {
			rep.Count("static_only/sets_with_a_static_value_that_does_not_fit_rejected", 1)
			return
		}
		rep.Count("static_only/sets_with_a_static_value_that_does_not_fit_accepted_and_run", 1)
	}
	if len(accepted) == 0 {
		rep.Count("static_only/sets_rejected", 1)
		rep.Distinct("static_only_reject_reasons", short(firstErr, 40))
		if debug {
			fmt.Printf("REJECTED static case %d: %s\n  %+v\n", idx, firstErr, c.witness(""))
		}
		return
	}
	if len(accepted) == 1 {
		rep.Count("static_only/sets_accepted_in_one_declaration_order_only", 1)
	}
	rep.Count("static_only/sets_accepted_and_run", 1)
	for _, n := range c.Nodes {
		rep.Count("static_only/nodes_run/"+n.class(), 1)
		if n.Kind == svMapped {
			continue
		}
		form := "lambda"
		if n.Inv {
			form = "invoke-only-lambda"
		}
		if n.End {
			form = "END"
		}
		rep.Count("static_only/nodes_run/"+n.class()+"/"+form, 1)
		rep.Count("static_only/nodes_run/"+n.class()+"/input-type-"+typeKind(n.Typ), 1)
		rep.Count("static_only/nodes_run/"+n.class()+"/"+trNames[n.Trigger], 1)
		for _, s := range n.Statics {
			if len(s.To) > 1 {
				rep.Count("static_only/static_values_on_nested_paths", 1)
			}
			if strings.Contains(s.tgt.Shape, "A") {
				rep.Count("static_only/static_values_below_any_holes", 1)
			}
			rep.Distinct("path_shapes", "static>"+s.tgt.Shape)
		}
	}
	if len(c.Nodes) == 1 {
		rep.Count("static_only/sets_run/one-node-alone", 1)
	} else {
		rep.Count("static_only/sets_run/several-nodes", 1)
	}

	exps := make([]svExpect, len(c.Nodes))
	must := false
	for i, n := range c.Nodes {
		exps[i] = c.expect(n)
		must = must || exps[i].Must
	}
	runs := 0
	conform := true
	for _, b := range accepted {
		// plan: Invoke x3, Stream x2, Transform, Collect
		var invKeys []string
		var inv svOutcome
		streamKeys := map[int][]string{}
		var full *svOutcome
		concatFailed := false
		for ri, api := range []int{0, 0, 0, 1, 1, 2, 3} {
			o := c.runOnce(ctx, b, api)
			runs++
			checkStatics(apiNames[api])
			mode := "stream"
			if api == 0 {
				mode = "invoke"
				inv = o
				invKeys = append(invKeys, o.key())
			} else {
				streamKeys[api] = append(streamKeys[api], o.key())
				if ri == 3 {
					oo := o
					full = &oo
				}
			}
			switch o.Kind {
			case "panic":
				sig := "C15/run-failed/" + cls
				if must {
					sig = "C15/panic/" + c.Ill + "/" + clsStaticOnly
				}
				rep.Violation(sig, fmt.Sprintf("%s panicked through the public API (at %s): %s\n%s", apiNames[api], panicFrame(o.Panic), short(o.Panic.Value, 400), short(o.Panic.Stack, 2500)), c.witness(apiNames[api]))
				conform = false
				continue
			case "error":
				if must {
					rep.Count("static_only/errors_for_a_static_value_that_does_not_fit", 1)
					continue
				}
				// one value has to be assembled for an invoke-only lambda (every streaming run) and for END under Collect
				if api != 0 && inv.Kind == "value" {
					needed := false
					for i, n := range c.Nodes {
						if (n.Inv || (n.End && api == 3)) && concatNeeded(n.Typ, exps[i].Chunks, n.Kind != svMapped) {
							needed = true
						}
					}
					if needed {
						concatFailed = true
						rep.Violation("C15/invoke-stream-differ/successor-input-assembled-from-per-predecessor-chunks",
							fmt.Sprintf("Invoke delivers; the streaming run (%s) of the same compiled workflow on the same input fails: %s\nthe static values (and the 'no input' chunk of a node without a data predecessor that ran) become a value of the input type on their own", apiNames[api], short(o.Err, 500)),
							c.witness(apiNames[api]))
						conform = false
						continue
					}
				}
				rep.Violation("C15/run-failed/"+cls, fmt.Sprintf("%s returned an error although every node's input is the zero value plus its static values (plus the mapped input string): %s", apiNames[api], short(o.Err, 700)), c.witness(apiNames[api]))
				conform = false
				continue
			}
			if must {
				rep.Violation("C15/missing-error/"+c.Ill+"/"+clsStaticOnly, fmt.Sprintf("%s delivered %s although a static value does not fit the input type of its node", apiNames[api], short(o.key(), 400)), c.witness(apiNames[api]))
				conform = false
				continue
			}
			for i, n := range c.Nodes {
				if !n.End && o.Calls[i] != 1 {
					rep.Violation("C15/successor-call-count", fmt.Sprintf("%s: node %s was called %d times", apiNames[api], n.Key, o.Calls[i]), c.witness(apiNames[api]))
					conform = false
					continue
				}
				want := exps[i].Chunks
				got := o.Seen[i]
				assembled := api != 0 && (n.Inv || (n.End && api == 3))
				if api == 0 || assembled {
					want = []*tree{exps[i].Invoke}
				}
				if assembled {
					want = []*tree{emptyForNilMaps(exps[i].Invoke)}
					gg := make([]*tree, len(got))
					for k := range got {
						gg[k] = emptyForNilMaps(got[k])
					}
					got = gg
					rep.Count("static_only/stream_runs_in_which_one_input_value_is_assembled", 1)
				}
				if chunkKey(got) != chunkKey(want) {
					rep.Violation("C15/wrong-value/"+n.class(), fmt.Sprintf("%s handed node %s (input type %v)\n  %s\nthe reference says\n  %s", apiNames[api], n.Key, n.Typ, chunkKey(got), chunkKey(want)), c.witness(apiNames[api]))
					conform = false
					continue
				}
				rep.Count("static_only/node_inputs_equal_to_reference", 1)
				rep.Count("static_only/node_inputs_equal_to_reference/"+mode, 1)
				if mode == "stream" && !assembled {
					// the overlay of the chunks is the Invoke value
					var merged *tree
					conflict := false
					for _, ch := range got {
						if merged == nil {
							merged = ch
							continue
						}
						var cf bool
						merged, cf = mergeTrees(merged, ch)
						conflict = conflict || cf
					}
					if merged != nil && inv.Kind == "value" && len(inv.Seen[i]) == 1 {
						iv := inv.Seen[i][0]
						if (conflict || merged.String() != iv.String()) && !(iv.empty() && merged.empty()) {
							rep.Violation("C15/invoke-stream-differ/"+n.class(), fmt.Sprintf("node %s under Invoke: %s\noverlay of its chunks under %s: %s (conflict=%v)", n.Key, iv, apiNames[api], merged, conflict), c.witness(apiNames[api]))
							conform = false
						}
					}
				}
			}
		}
		if invKeys[0] != invKeys[1] || invKeys[1] != invKeys[2] {
			rep.Violation("C15/nondeterministic/invoke/"+cls, "three Invoke runs of the same compiled workflow on the same input differ:\n"+strings.Join(invKeys, "\n"), c.witness(""))
			conform = false
		}
		if ks := streamKeys[1]; len(ks) == 2 && ks[0] != ks[1] {
			rep.Violation("C15/nondeterministic/stream/"+cls, "two Stream runs of the same compiled workflow on the same input differ:\n"+strings.Join(ks, "\n"), c.witness(""))
			conform = false
		}
		if must && full != nil && !concatFailed && inv.Kind != "panic" && full.Kind != "panic" && (inv.Kind == "error") != (full.Kind == "error") {
			rep.Violation("C15/invoke-stream-differ/"+c.Ill+"/"+clsStaticOnly, fmt.Sprintf("the same compiled workflow on the same input: Invoke -> %s, Stream -> %s", inv.Kind, full.Kind), c.witness(""))
			conform = false
		}
	}
	rep.AddEvaluations(int64(runs))
	rep.Count("static_only/runs", int64(runs))
	if conform {
		rep.Count("static_only/sets_conforming_in_every_run", 1)
	}
	rep.NonTrivial(c.digest())
	for _, n := range c.Nodes {
		rep.Distinct("type_pairs", fmt.Sprintf("static>%v", n.Typ))
	}

	// ---- one more static value on an overlapping path: must be refused however the declarations are ordered
	if c.Ill == "" && rng.Prob(0.25) {
		c.overlapVariant(ctx, rep, rng)
	}
}

// overlapVariant adds to one node a static value whose path overlaps one of its static paths (a prefix,
// an extension, or the same position spelled through the embedded field / the promoted name) and
// compiles the set in both declaration orders, three times each. The set without it was accepted.
func (c *svCase) overlapVariant(ctx context.Context, rep *mon.Reporter, rng *mon.Rand) {
	ni := rng.Intn(len(c.Nodes))
	n := c.Nodes[ni]
	if len(n.Statics) == 0 {
		return
	}
	base := n.Statics[rng.Intn(len(n.Statics))]
	var cands []pathCand
	for _, tc := range enumPaths(n.Typ, false, maxDepthTgt) {
		if tc.Nested || tc.HidEmb || !overlapsIn(n.Typ, tc.Path, base.To) {
			continue
		}
		same := false
		for _, s := range n.Statics {
			same = same || joinPath(s.To) == joinPath(tc.Path) // the same spelling is one declaration made twice: the later value replaces the earlier
		}
		if !same {
			cands = append(cands, tc)
		}
	}
	if len(cands) == 0 {
		return
	}
	tc := cands[rng.Intn(len(cands))]
	rel := "prefix-and-longer-path"
	if aliased(n.Typ, tc.Path, base.To) {
		rel = "same-position-through-promoted-field-name-and-embedded-field"
	}
	c2 := *c
	c2.Nodes = append([]*svNode(nil), c.Nodes...)
	n2 := *n
	n2.Statics = append(append([]staticVal(nil), n.Statics...), staticVal{To: tc.Path, Val: genTyped(rng, tc.Leaf), tgt: tc})
	if rng.Bool() {
		// declared first
		last := len(n2.Statics) - 1
		n2.Statics[0], n2.Statics[last] = n2.Statics[last], n2.Statics[0]
	}
	c2.Nodes[ni] = &n2
	rep.Count("static_only/overlapping_static_sets", 1)
	acc, total := 0, 0
	for _, flip := range []bool{false, true} {
		for k := 0; k < 3; k++ {
			var b *svBuilt
			p := mon.Safe(func() { b = c2.build(ctx, flip) })
			total++
			if p != nil {
				rep.Violation("C15/panic/compile/"+n.class(), "Compile panicked: "+short(p.Value, 300)+"\n"+short(p.Stack, 1500), c2.witness("overlapping static values"))
				continue
			}
			if b.cerr == nil {
				acc++
			}
		}
	}
	rep.AddEvaluations(int64(total))
	if acc == 0 {
		rep.Count("static_only/overlapping_static_sets_rejected_in_every_order", 1)
		return
	}
	rep.Violation("C15/overlap-accepted/static-value-vs-static-value/"+rel,
		fmt.Sprintf("two static values of node %s on overlapping paths (%s and %s) compiled in %d of %d compilations", n.Key, joinPath(base.To), joinPath(tc.Path), acc, total),
		c2.witness("overlapping static values"))
}
