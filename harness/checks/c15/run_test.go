package c15

// Driving the real code: declaration orders, workflow construction through the
// public API, Invoke / Stream / Transform runs, and the reference expectation for
// each run.

import (
	"context"
	"fmt"
	"reflect"
	"sort"
	"strings"

	"github.com/cloudwego/eino/compose"
	"verifharness/internal/mon"
)

// ---- declaration orders ----------------------------------------------------------------

type order struct {
	Groups      []int         // predecessor indices in the order of the AddInput calls
	Within      map[int][]int // predecessor index -> indices into Case.Maps in declaration order
	StaticFirst bool          // SetStaticValue before (true) or after the AddInput calls
	DepFirst    bool          // AddDependency before (true) or after the AddInputWithOptions call it belongs to
}

func (o order) String(c *Case) string {
	var parts []string
	if o.StaticFirst && len(c.Statics) > 0 {
		parts = append(parts, "static-values")
	}
	for _, g := range o.Groups {
		p := c.Preds[g]
		call := modeNames[p.Mode]
		if p.indirect() && p.Mode != mIndirectBranch && o.DepFirst {
			call = "AddDependency+" + strings.TrimSuffix(strings.Replace(call, "+AddDependency", "", 1), "+")
		}
		if p.Whole {
			parts = append(parts, call+"("+p.Key+")")
			continue
		}
		var ms []string
		for _, mi := range o.Within[g] {
			ms = append(ms, c.Maps[mi].String(c))
		}
		parts = append(parts, call+"("+p.Key+": "+strings.Join(ms, ", ")+")")
	}
	if !o.StaticFirst && len(c.Statics) > 0 {
		parts = append(parts, "static-values")
	}
	return strings.Join(parts, " ; ")
}

func permutations(n int) [][]int {
	if n == 0 {
		return [][]int{{}}
	}
	var out [][]int
	var rec func(cur []int, used []bool)
	rec = func(cur []int, used []bool) {
		if len(cur) == n {
			out = append(out, append([]int(nil), cur...))
			return
		}
		for i := 0; i < n; i++ {
			if !used[i] {
				used[i] = true
				rec(append(cur, i), used)
				used[i] = false
			}
		}
	}
	rec(nil, make([]bool, n))
	return out
}

// orders: every declaration order (order of the AddInput calls × order of the
// mappings inside each call) when the set has at most 4 declarations, 24 random
// ones otherwise.
func (c *Case) orders(r *mon.Rand) []order {
	groups := map[int][]int{}
	for i, m := range c.Maps {
		groups[m.Pred] = append(groups[m.Pred], i)
	}
	var gidx []int
	for i := range c.Preds {
		gidx = append(gidx, i)
	}
	decls := len(c.Maps)
	for _, p := range c.Preds {
		if p.Whole {
			decls++
		}
	}
	var out []order
	if decls <= 4 {
		var rec func(gi int, within map[int][]int, gp []int)
		for _, gp := range permutations(len(gidx)) {
			rec = func(gi int, within map[int][]int, gp []int) {
				if gi == len(gidx) {
					w := map[int][]int{}
					for k, v := range within {
						w[k] = v
					}
					gs := make([]int, len(gp))
					for i, x := range gp {
						gs[i] = gidx[x]
					}
					out = append(out, order{Groups: gs, Within: w, StaticFirst: len(out)%2 == 1, DepFirst: len(out)/2%2 == 1})
					return
				}
				g := gidx[gi]
				ms := groups[g]
				for _, wp := range permutations(len(ms)) {
					seq := make([]int, len(ms))
					for i, x := range wp {
						seq[i] = ms[x]
					}
					within[g] = seq
					rec(gi+1, within, gp)
				}
			}
			rec(0, map[int][]int{}, gp)
		}
		return out
	}
	for n := 0; n < 24; n++ {
		gp := r.Perm(len(gidx))
		gs := make([]int, len(gp))
		for i, x := range gp {
			gs[i] = gidx[x]
		}
		w := map[int][]int{}
		for _, g := range gidx {
			ms := groups[g]
			wp := r.Perm(len(ms))
			seq := make([]int, len(ms))
			for i, x := range wp {
				seq[i] = ms[x]
			}
			w[g] = seq
		}
		out = append(out, order{Groups: gs, Within: w, StaticFirst: r.Bool(), DepFirst: r.Bool()})
	}
	return out
}

// plainOrder: the declarations in the order in which they were generated.
func (c *Case) plainOrder() order {
	o := order{Within: map[int][]int{}}
	for i := range c.Preds {
		o.Groups = append(o.Groups, i)
	}
	for i, m := range c.Maps {
		o.Within[m.Pred] = append(o.Within[m.Pred], i)
	}
	return o
}

// ---- construction --------------------------------------------------------------------------

func (m mapping) build() *compose.FieldMapping {
	short := m.Form == 1 && len(m.From) <= 1 && len(m.To) <= 1
	switch {
	case len(m.From) == 0:
		if short {
			return compose.ToField(m.To[0])
		}
		return compose.ToFieldPath(compose.FieldPath(clonePath(m.To)))
	case len(m.To) == 0:
		if short {
			return compose.FromField(m.From[0])
		}
		return compose.FromFieldPath(compose.FieldPath(clonePath(m.From)))
	default:
		if short {
			return compose.MapFields(m.From[0], m.To[0])
		}
		return compose.MapFieldPaths(compose.FieldPath(clonePath(m.From)), compose.FieldPath(clonePath(m.To)))
	}
}

type built struct {
	h    *wfHandle
	rec  *succRec
	pns  []*predNode
	run  *runHandle
	cerr error
}

// build declares the workflow in the given order and compiles it.
func (c *Case) build(ctx context.Context, o order) *built {
	b := &built{rec: &succRec{}, pns: make([]*predNode, len(c.Preds))}
	sp := c.startPred()
	switch {
	case sp != nil && c.SuccEnd:
		b.h = wfPair[[2]reflect.Type{sp.Type, c.Tgt}]()
	case sp != nil:
		b.h = wfFrom[sp.Type]()
	case c.SuccEnd:
		b.h = wfTo[c.Tgt]()
	default:
		b.h = wfFrom[tString]()
	}
	for i, p := range c.Preds {
		if p.Start {
			continue
		}
		pn := &predNode{full: p.Value, chunks: p.Chunk[0]}
		b.pns[i] = pn
		node := b.h.addLambda(p.Key, predOf[p.Type](pn))
		if g := c.Gate; g != nil && g.Gated[i] {
			// runs only when the branch below the gate node selects it; its input comes without a control dependency
			from := "gate"
			if g.PredFrom == 1 {
				from = compose.START
			}
			node.AddInputWithOptions(from, nil, compose.WithNoDirectDependency())
		} else {
			node.AddInput(compose.START)
		}
	}
	if g := c.Gate; g != nil {
		b.h.addLambda("gate", mkRelay[any]()).AddInput(compose.START)
		var ends, picked []string
		for i, p := range c.Preds {
			if g.Gated[i] {
				ends = append(ends, p.Key)
				if g.Picked[i] {
					picked = append(picked, p.Key)
				}
			}
		}
		switch g.CtlKind {
		case 0:
			if g.CtlData {
				b.h.addLambda("ctl", mkRelay[any]()).AddInputWithOptions("gate", nil, compose.WithNoDirectDependency())
			} else {
				b.h.addLambda("ctl", mkRelay[string]())
			}
			ends, picked = append(ends, "ctl"), append(picked, "ctl")
		case 1:
			if g.CtlData {
				b.h.addLambda("ctl", mkRelay[any]()).AddInput(compose.START)
			} else {
				b.h.addLambda("ctl", mkRelay[string]()).AddDependency(compose.START)
			}
		}
		if len(ends) == 1 {
			// a branch needs two end nodes
			b.h.addLambda("gatealt", mkRelay[string]())
			b.h.end().AddDependency("gatealt")
			ends = append(ends, "gatealt")
		}
		b.h.addBranch("gate", mkGate(g.Form, picked, ends))
	}
	var succ *compose.WorkflowNode
	succKey := "succ"
	if c.SuccEnd {
		succ = b.h.end()
		succKey = compose.END
	} else {
		if c.SuccInv {
			succ = b.h.addLambda("succ", sinvOf[c.Tgt](b.rec))
		} else {
			succ = b.h.addLambda("succ", succOf[c.Tgt](b.rec))
		}
		b.h.end().AddInput("succ")
	}
	// the control predecessor of the successor that finishes whatever the gate selects
	ctlDep := func() {
		if c.Gate == nil {
			return
		}
		switch c.Gate.CtlKind {
		case 0, 1:
			succ.AddDependency("ctl")
		case 2:
			succ.AddDependency(compose.START)
		case 3:
			succ.AddDependency("gate")
		}
	}
	if o.DepFirst {
		ctlDep()
	}
	statics := func() {
		for _, s := range c.Statics {
			succ.SetStaticValue(compose.FieldPath(clonePath(s.To)), s.Val)
		}
	}
	if o.StaticFirst {
		statics()
	}
	for _, g := range o.Groups {
		p := c.Preds[g]
		key := p.Key
		if p.Start {
			key = compose.START
		}
		var fms []*compose.FieldMapping
		for _, mi := range o.Within[g] {
			fms = append(fms, c.Maps[mi].build())
		}
		noDirect := func(controlFrom string) {
			if controlFrom != "" && o.DepFirst {
				succ.AddDependency(controlFrom)
			}
			succ.AddInputWithOptions(key, fms, compose.WithNoDirectDependency())
			if controlFrom != "" && !o.DepFirst {
				succ.AddDependency(controlFrom)
			}
		}
		switch p.Mode {
		case mDirect:
			succ.AddInput(key, fms...)
		case mDirectOpts:
			succ.AddInputWithOptions(key, fms)
		case mIndirectDep:
			noDirect(key)
		case mIndirectRelay:
			rk := fmt.Sprintf("relay%d", g)
			if p.Relay {
				b.h.addLambda(rk, mkRelay[any]()).AddInput(key)
			} else {
				b.h.addLambda(rk, mkRelay[string]()).AddDependency(key)
			}
			noDirect(rk)
		case mIndirectBranch:
			// the branch below the predecessor selects the successor, never the other end node
			ak := fmt.Sprintf("alt%d", g)
			b.h.addLambda(ak, mkRelay[string]())
			b.h.end().AddDependency(ak)
			b.h.addBranch(key, brOf[p.Type](succKey, ak))
			if p.Start {
				// a workflow whose START is followed by a branch only is refused ("start node not set"): one more node below START
				kk := fmt.Sprintf("keep%d", g)
				b.h.addLambda(kk, mkRelay[any]()).AddInput(key)
				b.h.end().AddDependency(kk)
			}
			noDirect("")
		case mAddEnd:
			b.h.addEnd(key, fms...)
		}
	}
	if !o.StaticFirst {
		statics()
	}
	if !o.DepFirst {
		ctlDep()
	}
	b.run, b.cerr = b.h.compile(ctx)
	return b
}

// ---- runs --------------------------------------------------------------------------------------

type outcome struct {
	Kind   string // "value" | "error" | "panic"
	Err    string
	Panic  *mon.Panic
	Chunks []*tree // what the successor was handed: one value (Invoke) or the chunks (stream)
	Calls  int
}

func (o outcome) key() string {
	switch o.Kind {
	case "value":
		ss := make([]string, 0, len(o.Chunks))
		for _, t := range o.Chunks {
			if !t.empty() {
				ss = append(ss, t.String())
			}
		}
		sort.Strings(ss)
		return "value:" + strings.Join(ss, " || ")
	default:
		return "failed" // an error or a panic: no value was delivered
	}
}

func (o outcome) label() string {
	if o.Kind != "value" {
		return o.Kind
	}
	return o.key()
}

func (c *Case) observe(b *built, outs []any, err error, p *mon.Panic) outcome {
	o := outcome{Calls: b.rec.calls}
	switch {
	case p != nil:
		o.Kind, o.Panic = "panic", p
	case err != nil:
		o.Kind, o.Err = "error", err.Error()
	default:
		o.Kind = "value"
		if c.SuccEnd {
			for _, x := range outs {
				o.Chunks = append(o.Chunks, treeAs(x, c.Tgt))
			}
		} else {
			o.Chunks = append(o.Chunks, b.rec.trees...)
		}
	}
	return o
}

func (c *Case) runInvoke(ctx context.Context, b *built) outcome {
	b.rec.reset()
	var in any = c.Seed
	if sp := c.startPred(); sp != nil {
		in = sp.Value
	}
	var out any
	var err error
	p := mon.Safe(func() { out, err = b.run.invoke(ctx, in) })
	return c.observe(b, []any{out}, err, p)
}

// runStream: sel[i] selects the chunking of predecessor i. api: 0 = Transform with
// the chunked START input, 1 = Stream (START emits its full value as one chunk),
// 2 = Collect with the chunked START input (the output stream is assembled into one value).
func (c *Case) runStream(ctx context.Context, b *built, sel []int, api int) outcome {
	b.rec.reset()
	for i, p := range c.Preds {
		if b.pns[i] != nil {
			b.pns[i].chunks = p.Chunk[sel[i]]
		}
	}
	ins := []any{c.Seed}
	for i, p := range c.Preds {
		if p.Start {
			ins = p.Chunk[sel[i]]
		}
	}
	var outs []any
	var err error
	p := mon.Safe(func() {
		switch api {
		case 1:
			outs, err = b.run.stream(ctx, ins[0])
		case 2:
			var one any
			one, err = b.run.collect(ctx, ins)
			outs = []any{one}
		default:
			outs, err = b.run.transform(ctx, ins)
		}
	})
	return c.observe(b, outs, err, p)
}

// ---- reference expectation -----------------------------------------------------------------------

type expectation struct {
	Chunks []*tree
	May    bool            // an error is acceptable as well (no value exists at a source path / untyped nil for a typed position)
	Must   bool            // an error is required (a run-time-only type check must fail)
	Why    string          // what the reference found
	Class  string          // input class of the first such finding (same vocabulary as Case.Hazard)
	All    map[string]bool // every class found in this run
}

func (e *expectation) note(class, why string, must bool) {
	if must {
		e.Must = true
	} else {
		e.May = true
	}
	if e.Class == "" {
		e.Class, e.Why = class, why
	}
	if e.All == nil {
		e.All = map[string]bool{}
	}
	e.All[class] = true
}

func (e *expectation) key() string {
	ss := make([]string, 0, len(e.Chunks))
	for _, t := range e.Chunks {
		if !t.empty() {
			ss = append(ss, t.String())
		}
	}
	sort.Strings(ss)
	return "value:" + strings.Join(ss, " || ")
}

// apply performs one mapping on the reference target.
func (c *Case) apply(e *expectation, root reflect.Value, m mapping, src any) {
	v, st, wh := refGetX(src, m.From)
	at := fmt.Sprintf(" on source path %s (step %d)", joinPath(m.From), wh.Step)
	// the class says where the walk stopped: at the immediate dynamic value of an interface-typed
	// position, deeper inside a dynamic value (below concretely typed fields / elements), or inside the
	// declared type of the predecessor output
	name := func(direct, deeper, declared string) string {
		switch {
		case wh.Direct:
			return direct
		case wh.Below:
			return deeper
		}
		return declared
	}
	switch st {
	case gOK:
	case gAbsentKey:
		// no value at the source path: nothing can be moved; the run may fail or leave the target unset
		e.note(name("interface-source-holds-map-without-the-key", "absent-map-key-deeper-below-interface-source", "absent-map-key-on-source-path"), st.String()+at, false)
		return
	case gNilPtr:
		e.note(name("interface-source-holds-nil-pointer", "nil-pointer-deeper-below-interface-source", "nil-pointer-on-source-path"), st.String()+at, false)
		return
	case gNilEmb:
		// the field is promoted through an embedded pointer which is nil in this value: no value at the source path
		e.note(name("interface-source-holds-struct-with-nil-embedded-pointer", "nil-embedded-pointer-deeper-below-interface-source", "nil-embedded-pointer-on-source-path"), st.String()+at, false)
		return
	case gNilIface:
		cls := "interface-source-holds-nil"
		if wh.Below {
			cls = "nil-interface-deeper-below-interface-source"
		}
		e.note(cls, st.String()+at, false)
		return
	case gNoField:
		e.note(name("interface-source-holds-struct-without-the-field", "field-missing-deeper-below-interface-source", "field-missing-in-declared-type"), st.String()+at, true)
		return
	case gBadKey:
		e.note(name("interface-source-holds-map-with-non-string-key", "non-string-key-map-deeper-below-interface-source", "non-string-key-map-in-declared-type"), st.String()+at, true)
		return
	default:
		// a value on the path that cannot be walked: only an error is right
		e.note(name("interface-source-holds-non-container", "non-container-deeper-below-interface-source", "non-container-in-declared-type"), st.String()+at, true)
		return
	}
	lt, ok := leafType(c.Tgt, m.To)
	if !ok {
		e.note("target-path-not-in-declared-type", "target path does not exist in the declared type", true)
		return
	}
	kind := "value"
	if m.src.Dyn {
		kind = "path-yields"
	}
	if v == nil {
		if lt.Kind() != reflect.Interface {
			cls := "interface-source-value-nil"
			if m.src.Dyn {
				cls = "interface-source-path-yields-nil"
			}
			if len(m.To) == 0 {
				cls = "nil-interface-value-for-whole-input"
			}
			if nillable(lt) {
				e.note(cls, "untyped nil for a typed nillable target", false)
			} else {
				e.note(cls, "untyped nil for a non-nillable target", true)
				return
			}
		}
	} else if !reflect.TypeOf(v).AssignableTo(lt) {
		cls := "interface-source-value-of-wrong-type"
		if kind == "path-yields" {
			cls = "interface-source-path-yields-wrong-type"
		}
		e.note(cls, fmt.Sprintf("dynamic type %v is not assignable to %v", reflect.TypeOf(v), lt), true)
		return
	}
	if err := refSet(root, m.To, v); err != nil {
		e.note("reference-set-failed", "reference set failed: "+err.Error(), true)
	}
}

func (c *Case) applyStatic(e *expectation, root reflect.Value, s staticVal) {
	lt, ok := leafType(c.Tgt, s.To)
	if !ok || (s.Val != nil && !reflect.TypeOf(s.Val).AssignableTo(lt)) {
		e.note("static-value-of-wrong-type", "static value not assignable to the target position", true)
		return
	}
	if err := refSet(root, s.To, s.Val); err != nil {
		e.note("reference-set-failed", "reference set failed: "+err.Error(), true)
	}
}

// expectInvoke: one value holding every mapping and every static value.
func (c *Case) expectInvoke() *expectation {
	e := &expectation{}
	root := reflect.New(c.Tgt).Elem()
	for pi, p := range c.Preds {
		if c.skipped(pi) {
			continue // did not run: contributes nothing
		}
		if p.Whole {
			root.Set(reflect.ValueOf(p.Value))
			continue
		}
		for _, m := range c.Maps {
			if m.Pred == pi {
				c.apply(e, root, m, p.Value)
			}
		}
	}
	for _, s := range c.Statics {
		c.applyStatic(e, root, s)
	}
	e.Chunks = []*tree{toTree(root)}
	return e
}

// expectStream: one target chunk per source chunk of every predecessor (holding
// that predecessor's mappings only) plus one chunk holding the static values.
func (c *Case) expectStream(sel []int) *expectation {
	e := &expectation{}
	for pi, p := range c.Preds {
		if c.skipped(pi) {
			continue
		}
		for _, chunk := range p.Chunk[sel[pi]] {
			root := reflect.New(c.Tgt).Elem()
			if p.Whole {
				root.Set(reflect.ValueOf(chunk))
			} else {
				for _, m := range c.Maps {
					if m.Pred == pi {
						c.apply(e, root, m, chunk)
					}
				}
			}
			e.Chunks = append(e.Chunks, toTree(root))
		}
	}
	if len(c.Statics) > 0 {
		root := reflect.New(c.Tgt).Elem()
		for _, s := range c.Statics {
			c.applyStatic(e, root, s)
		}
		e.Chunks = append(e.Chunks, toTree(root))
	}
	return e
}

// ---- locating a difference ----------------------------------------------------------------------------

func sub(t *tree, path []string) *tree {
	for _, el := range path {
		for t != nil && (t.K == "ptr" || t.K == "iface") {
			if t.Nil {
				return nil
			}
			t = t.Elem
		}
		if t == nil || t.Kids == nil {
			return nil
		}
		k, ok := t.Kids[el]
		if !ok && t.K == "struct" {
			k = promotedKid(t, el)
		}
		t = k
	}
	return t
}

// promotedKid: the field el of a struct tree that is promoted from one of its embedded fields.
func promotedKid(t *tree, el string) *tree {
	for _, name := range t.Emb {
		e := t.Kids[name]
		for e != nil && e.K == "ptr" {
			if e.Nil {
				e = nil
				break
			}
			e = e.Elem
		}
		if e == nil || e.K != "struct" {
			continue
		}
		if k, ok := e.Kids[el]; ok {
			return k
		}
		if k := promotedKid(e, el); k != nil {
			return k
		}
	}
	return nil
}

// belowEmbedded: the target continues at least two levels below an entry of a map
// with struct elements and the level right below the entry is an embedded struct
// value or an `any` hole.
func (c *Case) belowEmbedded(tc pathCand, path []string) bool {
	if tc.StructEntry == "" {
		return false
	}
	n := len(strings.Split(tc.StructEntry, "."))
	if len(path)-n < 2 {
		return false
	}
	ft, ok := leafType(c.Tgt, path[:n+1])
	return ok && (ft.Kind() == reflect.Struct || ft == tAny)
}

// kindsOf: which container kinds lie on a target path (S struct field, M map key, A any hole, P pointer).
func kindsOf(shape string) string {
	out := ""
	for _, k := range "AMPS" {
		if strings.ContainsRune(shape, k) {
			out += string(k)
		}
	}
	return out
}

// diffClass names the input class of the first declared target whose position
// differs between the expected and the observed value.
func (c *Case) diffClass(exp, obs *tree, fallback string) string {
	str := func(t *tree) string {
		if t == nil {
			return "<absent>"
		}
		return t.String()
	}
	cls := func(tc pathCand, path []string) string {
		switch {
		case len(path) == 0:
			return "whole-target"
		case c.belowEmbedded(tc, path):
			return fBelowEmbedded
		case fallback != "no-known-hazard":
			return fallback
		default:
			return "target-path-kinds-" + kindsOf(tc.Shape)
		}
	}
	for _, m := range c.Maps {
		if str(sub(exp, m.To)) != str(sub(obs, m.To)) {
			return cls(m.tgt, m.To)
		}
	}
	for _, s := range c.Statics {
		if str(sub(exp, s.To)) != str(sub(obs, s.To)) {
			return cls(s.tgt, s.To)
		}
	}
	if fallback != "no-known-hazard" {
		return fallback
	}
	return "unmapped-position"
}
