package c15

// The declared type universe of the check and the non-generic handles that let a
// randomly generated case pick workflow input/output types, predecessor output
// types and the successor input type at run time (Go generics need the types at
// compile time, so every combination used is instantiated here once).

import (
	"context"
	"fmt"
	"io"
	"reflect"

	"github.com/cloudwego/eino/compose"
	"github.com/cloudwego/eino/schema"
)

// ---- universe --------------------------------------------------------------

// Shape is a non-empty interface; Leaf, *Leaf and *Mid implement it.
type Shape interface{ Kind() string }

type Leaf struct {
	S string
	N int
}

func (Leaf) Kind() string { return "leaf" }

type Mid struct {
	S  string
	N  int
	PS *string
	L  Leaf
	PL *Leaf
	MS map[string]string
	MA map[string]any
	ML map[string]Leaf
	MP map[string]*Leaf
	A  any
	I  Shape
	PP **Leaf
}

func (*Mid) Kind() string { return "mid" }

type Top struct {
	S   string
	N   int
	M   Mid
	PM  *Mid
	MM  map[string]Mid
	MPM map[string]*Mid
	MA  map[string]any
	A   any
	I   Shape
}

// NoS is a struct without the fields S/N: a hostile dynamic value for
// interface-typed source fields.
type NoS struct{ X int }

func (NoS) Kind() string { return "nos" }

// Odd is a look-alike of Mid and Top: the same field names, but every field has a
// concrete type below which the next step of a path planned for Mid/Top does not
// exist (or ends in a value of another type). A hostile dynamic value for
// interface-typed source positions whose path continues two or more steps.
type Odd struct {
	S   int
	N   string
	PS  *int
	L   NoS
	PL  *NoS
	MS  map[string]int
	MA  map[string]string
	ML  map[string]NoS
	MP  map[string]*NoS
	A   int
	I   NoS
	M   Leaf
	PM  *Leaf
	MM  map[string]Leaf
	MPM map[string]*Leaf
}

func (Odd) Kind() string { return "odd" }

// Structs with embedded fields: the promoted field names (F, BL, BP, BA of Base; Q of hid)
// are path elements of their own, and so are the embedded fields (Base, EmbP).
//
//	EmbV embeds Base by value, EmbP through a pointer, EmbD embeds *EmbP (two embedded pointers
//	before F), EmbH embeds a pointer to an unexported struct type (its promoted field Q is exported,
//	the pointer itself cannot be set from outside the package).
type Base struct {
	F  string
	BL Leaf
	BP *Leaf
	BA any
}

type EmbV struct {
	Base
	G string
}

type EmbP struct {
	*Base
	G string
}

func (*EmbP) Kind() string { return "embp" }

type EmbD struct {
	*EmbP
	H  int
	ME map[string]EmbP
}

type hid struct {
	Q  string
	QL Leaf
}

// Arr: array-typed (and one slice-typed) fields. A path never continues into an array: arrays are
// values that are moved as a whole (from / to a field, a map element, an `any` position, or as the
// whole input of a node whose input type is an array or a pointer to one).
type Arr struct {
	A2 [2]string
	AL [2]Leaf
	AI [3]int
	PA *[2]string
	MA map[string][2]string
	SL []string
	AA any
}

type EmbH struct {
	*hid
	X string
}

var (
	tString = reflect.TypeOf("")
	tInt    = reflect.TypeOf(0)
	tAny    = reflect.TypeOf((*any)(nil)).Elem()
	tShape  = reflect.TypeOf((*Shape)(nil)).Elem()
	tLeaf   = reflect.TypeOf(Leaf{})
	tPLeaf  = reflect.TypeOf(&Leaf{})
	tMid    = reflect.TypeOf(Mid{})
	tPMid   = reflect.TypeOf(&Mid{})
	tTop    = reflect.TypeOf(Top{})
	tPTop   = reflect.TypeOf(&Top{})
	tMapAny = reflect.TypeOf(map[string]any{})
	tMapStr = reflect.TypeOf(map[string]string{})
	tMapL   = reflect.TypeOf(map[string]Leaf{})
	tMapPL  = reflect.TypeOf(map[string]*Leaf{})
	tMapM   = reflect.TypeOf(map[string]Mid{})
	tMapPM  = reflect.TypeOf(map[string]*Mid{})
	tNoS    = reflect.TypeOf(NoS{})
	tOdd    = reflect.TypeOf(Odd{})
	tBase   = reflect.TypeOf(Base{})
	tEmbV   = reflect.TypeOf(EmbV{})
	tEmbP   = reflect.TypeOf(EmbP{})
	tPEmbP  = reflect.TypeOf(&EmbP{})
	tEmbD   = reflect.TypeOf(EmbD{})
	tPEmbD  = reflect.TypeOf(&EmbD{})
	tEmbH   = reflect.TypeOf(EmbH{})
	tMapEP  = reflect.TypeOf(map[string]EmbP{})
	tArr    = reflect.TypeOf(Arr{})
	tPArr   = reflect.TypeOf(&Arr{})
	tA2     = reflect.TypeOf([2]string{})
	tPA2    = reflect.TypeOf(&[2]string{})
	tAL     = reflect.TypeOf([2]Leaf{})
	tAI     = reflect.TypeOf([3]int{})
	tMapA2  = reflect.TypeOf(map[string][2]string{})
)

// declared predecessor output types (sources) and successor input types (targets)
var srcTypes = []reflect.Type{tTop, tPTop, tMid, tPMid, tLeaf, tPLeaf, tMapAny, tMapStr, tMapL, tMapPL, tMapM, tMapPM,
	tEmbV, tEmbP, tPEmbP, tEmbD, tPEmbD, tEmbH, tMapEP, tString, tInt}
var tgtTypes = []reflect.Type{tTop, tPTop, tMid, tPMid, tLeaf, tPLeaf, tMapAny, tMapStr, tMapL, tMapPL, tMapM, tMapPM,
	tEmbV, tEmbP, tPEmbP, tEmbD, tPEmbD, tEmbH, tMapEP, tAny, tString}

// the array family: declared types with array-typed positions and array types as whole outputs / inputs
// (picked with a probability of their own, see tryGenCase)
var arrSrcTypes = []reflect.Type{tArr, tPArr, tMapA2, tA2, tAL}
var arrTgtTypes = []reflect.Type{tArr, tPArr, tMapA2, tA2, tPA2, tAL, tAI}

func inTypes(ts []reflect.Type, t reflect.Type) bool {
	for _, x := range ts {
		if x == t {
			return true
		}
	}
	return false
}

// arrayType: an array or a pointer to one (the whole input of a node, no path leads into it)
func arrayType(t reflect.Type) bool {
	if t.Kind() == reflect.Ptr {
		t = t.Elem()
	}
	return t.Kind() == reflect.Array
}

// embTypes: the declared types with embedded fields (picked more often than their share of the universe)
var embTypes = []reflect.Type{tEmbV, tEmbP, tPEmbP, tEmbD, tPEmbD, tEmbH, tMapEP}

// pairs instantiated as Workflow[S, T] (START is a typed predecessor and END the successor)
var coreSrc = []reflect.Type{tTop, tPTop, tMid, tMapAny, tLeaf, tMapM, tEmbP, tEmbD}
var coreTgt = []reflect.Type{tTop, tPMid, tMid, tMapAny, tAny, tMapL, tEmbP, tPEmbD}

func typeName(t reflect.Type) string {
	if t == nil {
		return "<nil>"
	}
	return t.String()
}

// ---- non-generic handles -----------------------------------------------------

// wfHandle is a Workflow[I,O] seen without its type parameters.
type wfHandle struct {
	in, out   reflect.Type
	addLambda func(key string, l *compose.Lambda) *compose.WorkflowNode
	addPass   func(key string) *compose.WorkflowNode // AddPassthroughNode
	end       func() *compose.WorkflowNode
	addBranch func(from string, b *compose.GraphBranch)
	addEnd    func(from string, fms ...*compose.FieldMapping) // the deprecated Workflow.AddEnd
	compile   func(ctx context.Context) (*runHandle, error)
}

// runHandle is a compiled Runnable[I,O] seen without its type parameters.
type runHandle struct {
	invoke    func(ctx context.Context, in any) (any, error)
	stream    func(ctx context.Context, in any) ([]any, error)
	transform func(ctx context.Context, chunks []any) ([]any, error)
	collect   func(ctx context.Context, chunks []any) (any, error)
}

func drain[T any](sr *schema.StreamReader[T]) ([]any, error) {
	defer sr.Close()
	var out []any
	for {
		c, err := sr.Recv()
		if err == io.EOF {
			return out, nil
		}
		if err != nil {
			return out, err
		}
		out = append(out, c)
	}
}

func newWF[I, O any]() *wfHandle {
	wf := compose.NewWorkflow[I, O]()
	h := &wfHandle{in: reflect.TypeOf((*I)(nil)).Elem(), out: reflect.TypeOf((*O)(nil)).Elem()}
	h.addLambda = func(key string, l *compose.Lambda) *compose.WorkflowNode { return wf.AddLambdaNode(key, l) }
	h.addPass = func(key string) *compose.WorkflowNode { return wf.AddPassthroughNode(key) }
	h.end = func() *compose.WorkflowNode { return wf.End() }
	h.addBranch = func(from string, b *compose.GraphBranch) { wf.AddBranch(from, b) }
	h.addEnd = func(from string, fms ...*compose.FieldMapping) { wf.AddEnd(from, fms...) }
	h.compile = func(ctx context.Context) (*runHandle, error) {
		r, err := wf.Compile(ctx)
		if err != nil {
			return nil, err
		}
		rh := &runHandle{}
		rh.invoke = func(ctx context.Context, in any) (any, error) {
			o, err := r.Invoke(ctx, in.(I))
			if err != nil {
				return nil, err
			}
			return o, nil
		}
		rh.stream = func(ctx context.Context, in any) ([]any, error) {
			sr, err := r.Stream(ctx, in.(I))
			if err != nil {
				return nil, err
			}
			return drain(sr)
		}
		rh.transform = func(ctx context.Context, chunks []any) ([]any, error) {
			xs := make([]I, len(chunks))
			for i, c := range chunks {
				xs[i] = c.(I)
			}
			sr, err := r.Transform(ctx, schema.StreamReaderFromArray(xs))
			if err != nil {
				return nil, err
			}
			return drain(sr)
		}
		rh.collect = func(ctx context.Context, chunks []any) (any, error) {
			xs := make([]I, len(chunks))
			for i, c := range chunks {
				xs[i] = c.(I)
			}
			o, err := r.Collect(ctx, schema.StreamReaderFromArray(xs))
			if err != nil {
				return nil, err
			}
			return o, nil
		}
		return rh, nil
	}
	return h
}

// predNode describes what a lambda predecessor returns in the current run.
type predNode struct {
	full   any   // value returned in Invoke mode
	chunks []any // values emitted in stream mode (set by the harness before each run)
}

// mkPred[S] builds a lambda `any -> S` with an invoke and a transform form.
func mkPred[S any](p *predNode) *compose.Lambda {
	l, err := compose.AnyLambda[any, S, any](
		func(ctx context.Context, in any, _ ...any) (S, error) { return p.full.(S), nil },
		nil, nil,
		func(ctx context.Context, in *schema.StreamReader[any], _ ...any) (*schema.StreamReader[S], error) {
			for {
				_, err := in.Recv()
				if err != nil {
					break
				}
			}
			in.Close()
			xs := make([]S, len(p.chunks))
			for i, c := range p.chunks {
				xs[i] = c.(S)
			}
			return schema.StreamReaderFromArray(xs), nil
		})
	if err != nil {
		panic(err)
	}
	return l
}

// mkBranch[S] builds a stream branch below a node with output type S that always
// selects the node `to` and never the node `alt` (it reads its copy of the output to
// the end first).
func mkBranch[S any](to, alt string) *compose.GraphBranch {
	return compose.NewStreamGraphBranch(func(ctx context.Context, in *schema.StreamReader[S]) (string, error) {
		defer in.Close()
		for {
			_, err := in.Recv()
			if err == io.EOF {
				return to, nil
			}
			if err != nil {
				return "", err
			}
		}
	}, map[string]bool{to: true, alt: true})
}

// mkRelay builds a lambda `In -> string` that only passes control on: it reads its
// input to the end and returns "r". In = any when the relay takes the entire output
// of a predecessor, In = string when it only depends on it (a node without data
// input is handed the zero value of its input type).
func mkRelay[In any]() *compose.Lambda {
	l, err := compose.AnyLambda[In, string, any](
		func(ctx context.Context, in In, _ ...any) (string, error) { return "r", nil },
		nil, nil,
		func(ctx context.Context, in *schema.StreamReader[In], _ ...any) (*schema.StreamReader[string], error) {
			for {
				_, err := in.Recv()
				if err != nil {
					break
				}
			}
			in.Close()
			return schema.StreamReaderFromArray([]string{"r"}), nil
		})
	if err != nil {
		panic(err)
	}
	return l
}

// succRec records what the successor lambda was handed.
type succRec struct {
	calls  int
	values []string // canonical rendering of every input value / chunk, taken immediately
	trees  []*tree
}

func (s *succRec) reset() { s.calls, s.values, s.trees = 0, nil, nil }

// mkSucc[T] builds the successor lambda `T -> string`: it renders its input on
// arrival (invoke: the value; transform: every chunk) and returns the rendering.
func mkSucc[T any](rec *succRec) *compose.Lambda {
	l, err := compose.AnyLambda[T, string, any](
		func(ctx context.Context, in T, _ ...any) (string, error) {
			rec.calls++
			tr := toTree(reflect.ValueOf(&in).Elem())
			rec.trees = append(rec.trees, tr)
			rec.values = append(rec.values, tr.String())
			return tr.String(), nil
		},
		nil, nil,
		func(ctx context.Context, in *schema.StreamReader[T], _ ...any) (*schema.StreamReader[string], error) {
			rec.calls++
			defer in.Close()
			var outs []string
			for {
				c, err := in.Recv()
				if err == io.EOF {
					break
				}
				if err != nil {
					return nil, err
				}
				tr := toTree(reflect.ValueOf(&c).Elem())
				rec.trees = append(rec.trees, tr)
				rec.values = append(rec.values, tr.String())
				outs = append(outs, tr.String())
			}
			if len(outs) == 0 {
				outs = []string{"<no-chunk>"}
			}
			return schema.StreamReaderFromArray(outs), nil
		})
	if err != nil {
		panic(err)
	}
	return l
}

// mkSuccInv[T] builds a successor that only has the Invoke form: in a streaming run the
// framework has to assemble one value of type T from the chunks meant for it.
func mkSuccInv[T any](rec *succRec) *compose.Lambda {
	return compose.InvokableLambda(func(ctx context.Context, in T) (string, error) {
		rec.calls++
		tr := toTree(reflect.ValueOf(&in).Elem())
		rec.trees = append(rec.trees, tr)
		rec.values = append(rec.values, tr.String())
		return tr.String(), nil
	})
}

// mkGate builds the branch below the gate node (output type string) that selects exactly the
// nodes of `picked` among `ends`. form 0: NewGraphMultiBranch, 1: NewStreamGraphMultiBranch,
// 2: NewGraphBranch, 3: NewStreamGraphBranch (the last two need exactly one picked node).
func mkGate(form int, picked []string, ends []string) *compose.GraphBranch {
	endSet := map[string]bool{}
	for _, e := range ends {
		endSet[e] = true
	}
	sel := func() map[string]bool {
		m := map[string]bool{}
		for _, k := range picked {
			m[k] = true
		}
		return m
	}
	readAll := func(in *schema.StreamReader[string]) error {
		defer in.Close()
		for {
			_, err := in.Recv()
			if err == io.EOF {
				return nil
			}
			if err != nil {
				return err
			}
		}
	}
	switch form {
	case 1:
		return compose.NewStreamGraphMultiBranch(func(ctx context.Context, in *schema.StreamReader[string]) (map[string]bool, error) {
			if err := readAll(in); err != nil {
				return nil, err
			}
			return sel(), nil
		}, endSet)
	case 2:
		return compose.NewGraphBranch(func(ctx context.Context, in string) (string, error) { return picked[0], nil }, endSet)
	case 3:
		return compose.NewStreamGraphBranch(func(ctx context.Context, in *schema.StreamReader[string]) (string, error) {
			if err := readAll(in); err != nil {
				return "", err
			}
			return picked[0], nil
		}, endSet)
	}
	return compose.NewGraphMultiBranch(func(ctx context.Context, in string) (map[string]bool, error) { return sel(), nil }, endSet)
}

var (
	wfFrom = map[reflect.Type]func() *wfHandle{}                          // Workflow[S, string]
	wfTo   = map[reflect.Type]func() *wfHandle{}                          // Workflow[string, T]
	wfPair = map[[2]reflect.Type]func() *wfHandle{}                       // Workflow[S, T]
	predOf = map[reflect.Type]func(p *predNode) *compose.Lambda{}         // any -> S
	brOf   = map[reflect.Type]func(to, alt string) *compose.GraphBranch{} // branch below a node with output S
	succOf = map[reflect.Type]func(r *succRec) *compose.Lambda{}          // T -> string
	sinvOf = map[reflect.Type]func(r *succRec) *compose.Lambda{}          // T -> string, Invoke form only
)

func rt[T any]() reflect.Type { return reflect.TypeOf((*T)(nil)).Elem() }

func regSrc[S any]() {
	wfFrom[rt[S]()] = newWF[S, string]
	predOf[rt[S]()] = mkPred[S]
	brOf[rt[S]()] = mkBranch[S]
}

func regTgt[T any]() {
	wfTo[rt[T]()] = newWF[string, T]
	succOf[rt[T]()] = mkSucc[T]
	sinvOf[rt[T]()] = mkSuccInv[T]
}

func regPair[S, T any]() { wfPair[[2]reflect.Type{rt[S](), rt[T]()}] = newWF[S, T] }

func regRow[S any]() {
	regPair[S, Top]()
	regPair[S, *Mid]()
	regPair[S, Mid]()
	regPair[S, map[string]any]()
	regPair[S, any]()
	regPair[S, map[string]Leaf]()
	regPair[S, EmbP]()
	regPair[S, *EmbD]()
}

func init() {
	regSrc[Top]()
	regSrc[*Top]()
	regSrc[Mid]()
	regSrc[*Mid]()
	regSrc[Leaf]()
	regSrc[*Leaf]()
	regSrc[map[string]any]()
	regSrc[map[string]string]()
	regSrc[map[string]Leaf]()
	regSrc[map[string]*Leaf]()
	regSrc[map[string]Mid]()
	regSrc[map[string]*Mid]()
	regSrc[EmbV]()
	regSrc[EmbP]()
	regSrc[*EmbP]()
	regSrc[EmbD]()
	regSrc[*EmbD]()
	regSrc[EmbH]()
	regSrc[map[string]EmbP]()
	regSrc[string]()
	regSrc[int]()
	regSrc[Arr]()
	regSrc[*Arr]()
	regSrc[map[string][2]string]()
	regSrc[[2]string]()
	regSrc[[2]Leaf]()

	regTgt[Top]()
	regTgt[*Top]()
	regTgt[Mid]()
	regTgt[*Mid]()
	regTgt[Leaf]()
	regTgt[*Leaf]()
	regTgt[map[string]any]()
	regTgt[map[string]string]()
	regTgt[map[string]Leaf]()
	regTgt[map[string]*Leaf]()
	regTgt[map[string]Mid]()
	regTgt[map[string]*Mid]()
	regTgt[EmbV]()
	regTgt[EmbP]()
	regTgt[*EmbP]()
	regTgt[EmbD]()
	regTgt[*EmbD]()
	regTgt[EmbH]()
	regTgt[map[string]EmbP]()
	regTgt[any]()
	regTgt[string]()
	regTgt[Arr]()
	regTgt[*Arr]()
	regTgt[map[string][2]string]()
	regTgt[[2]string]()
	regTgt[*[2]string]()
	regTgt[[2]Leaf]()
	regTgt[[3]int]()

	regRow[Top]()
	regRow[*Top]()
	regRow[Mid]()
	regRow[map[string]any]()
	regRow[Leaf]()
	regRow[map[string]Mid]()
	regRow[EmbP]()
	regRow[EmbD]()

	for _, s := range append(append([]reflect.Type(nil), srcTypes...), arrSrcTypes...) {
		if wfFrom[s] == nil || predOf[s] == nil {
			panic(fmt.Sprintf("source type %v not registered", s))
		}
	}
	for _, t := range append(append([]reflect.Type(nil), tgtTypes...), arrTgtTypes...) {
		if wfTo[t] == nil || succOf[t] == nil {
			panic(fmt.Sprintf("target type %v not registered", t))
		}
	}
	for _, s := range coreSrc {
		for _, t := range coreTgt {
			if wfPair[[2]reflect.Type{s, t}] == nil {
				panic(fmt.Sprintf("pair %v,%v not registered", s, t))
			}
		}
	}
}
