package c15

// Sub-workload "interface-typed predecessor" (hunt/iface-pred-mixed-mappings-panic).
//
// A predecessor whose OUTPUT TYPE is an interface (any / Shape): a lambda node or START itself.
// The successor takes, in one AddInput call, a mapping of the whole output (ToField / ToFieldPath,
// into an interface-typed position of its input) together with one or two field mappings
// (MapFields / MapFieldPaths) whose source paths can only be followed in the dynamic value of the
// request. Compile accepts such sets (a set without the whole-output mapping is refused; 12 % of the
// cases are of that kind and only counted). The dynamic value is a benign container of a planned
// type (12 shapes) or - 45 % - something else: a scalar, a slice, a struct without the field, an
// unexported look-alike field, a map with int keys, a map without the key, nil, a typed nil pointer,
// the look-alike struct Odd (the first step exists, the second does not).
//
// Oracle (reference walkers of ref_test.go): where the reference finds every source value, the successor
// (lambda with Invoke and Transform forms, lambda with the Invoke form only, END) must be handed exactly
// zero value + mapped values in Invoke x2, Stream, Transform, Collect; where a step cannot be taken in the
// dynamic value (not a container, no such field, non-string keys, value of another type for a typed
// target) every run must return an error; where no value exists (absent key, nil on the way) an error and
// "left unset" are both right, but Invoke and Stream must agree; a panic through the public API never is.

import (
	"context"
	"fmt"
	"reflect"
	"sort"
	"strings"

	"github.com/cloudwego/eino/compose"
	"github.com/cloudwego/eino/schema"

	"verifharness/internal/mon"
)

const clsIfacePred = "field-mappings-from-interface-typed-predecessor"

// mkIfacePred[S]: lambda `any -> S` for an interface type S (a nil value is a nil S).
func mkIfacePred[S any](p *predNode) *compose.Lambda {
	l, err := compose.AnyLambda[any, S, any](
		func(ctx context.Context, in any, _ ...any) (S, error) {
			v, _ := p.full.(S)
			return v, nil
		},
		nil, nil,
		func(ctx context.Context, in *schema.StreamReader[any], _ ...any) (*schema.StreamReader[S], error) {
			for {
				_, err := in.Recv()
				if err != nil {
					break
				}
			}
			in.Close()
			xs := make([]S, len(p.chunks))
			for i, c := range p.chunks {
				xs[i], _ = c.(S)
			}
			return schema.StreamReaderFromArray(xs), nil
		})
	if err != nil {
		panic(err)
	}
	return l
}

var ifacePredOf = map[reflect.Type]func(p *predNode) *compose.Lambda{}
var ifaceWfFrom = map[reflect.Type]func() *wfHandle{}

func init() {
	ifacePredOf[tAny] = mkIfacePred[any]
	ifacePredOf[tShape] = mkIfacePred[Shape]
	ifaceWfFrom[tAny] = newWF[any, string]
	ifaceWfFrom[tShape] = newWF[Shape, string]
}

type ipMap struct {
	From, To []string
	Form     int
	lt       reflect.Type
}

type ipCase struct {
	PredT   reflect.Type
	Start   bool
	D       reflect.Type
	T       reflect.Type
	Succ    int      // 0 lambda (Invoke+Transform), 1 lambda (Invoke only), 2 END
	Whole   []string // target path of the whole-output mapping (nil: none)
	NoWhole bool
	WForm   int
	Maps    []ipMap
	Extra   []string // target path fed by a second predecessor (lambda q, string); nil: none
	Val     any
	Hostile string
}

var ipDynAny = []reflect.Type{tMapAny, tMid, tPMid, tTop, tPTop, tLeaf, tPLeaf, tMapL, tMapPM, tMapStr, tEmbV, tPEmbP}
var ipDynShape = []reflect.Type{tLeaf, tPLeaf, tPMid, tPEmbP}
var ipTargets = []reflect.Type{tMapAny, tMid, tPMid, tTop, tAny, tEmbV, tPEmbP, tMapAny}

type unexportedLookAlike struct{ s, n, k1, l string }

func genIfacePredCase(r *mon.Rand) *ipCase {
	for {
		if c := tryGenIfacePredCase(r); c != nil {
			return c
		}
	}
}

func tryGenIfacePredCase(r *mon.Rand) *ipCase {
	c := &ipCase{PredT: tAny}
	if r.Prob(0.3) {
		c.PredT = tShape
	}
	c.T = ipTargets[r.Intn(len(ipTargets))]
	c.Succ = r.Intn(3)
	c.Start = c.Succ != 2 && r.Prob(0.3)
	if c.PredT == tAny {
		c.D = ipDynAny[r.Intn(len(ipDynAny))]
	} else {
		c.D = ipDynShape[r.Intn(len(ipDynShape))]
	}
	// target candidates
	var tcs []pathCand
	for _, tc := range enumPaths(c.T, false, 3) {
		if tc.Nested || tc.HidEmb {
			continue
		}
		tcs = append(tcs, tc)
	}
	var taken [][]string
	free := func(p []string) bool {
		for _, q := range taken {
			if overlapsIn(c.T, p, q) {
				return false
			}
		}
		return true
	}
	pick := func(ok func(tc pathCand) bool) *pathCand {
		var cs []pathCand
		for _, tc := range tcs {
			if ok(tc) && free(tc.Path) {
				cs = append(cs, tc)
			}
		}
		if len(cs) == 0 {
			return nil
		}
		tc := cs[r.Intn(len(cs))]
		taken = append(taken, tc.Path)
		return &tc
	}
	c.NoWhole = r.Prob(0.12)
	if !c.NoWhole {
		w := pick(func(tc pathCand) bool { return tc.Leaf == tAny || tc.Leaf == c.PredT })
		if w == nil {
			return nil
		}
		c.Whole = w.Path
		c.WForm = r.Intn(2)
	}
	// source candidates in the planned dynamic type
	var scs []pathCand
	for _, sc := range enumPaths(c.D, true, 3) {
		if sc.Dyn || sc.Nested || sc.HidEmb {
			continue
		}
		switch sc.Leaf {
		case tString, tInt, tLeaf, tPLeaf, tAny, tShape, tMapStr:
			scs = append(scs, sc)
		}
	}
	if len(scs) == 0 {
		return nil
	}
	n := 1 + r.Intn(2)
	for i := 0; i < n; i++ {
		sc := scs[r.Intn(len(scs))]
		typed := r.Prob(0.4) && sc.Leaf.Kind() != reflect.Interface
		tc := pick(func(tc pathCand) bool {
			if typed {
				return tc.Leaf == sc.Leaf
			}
			return tc.Leaf == tAny
		})
		if tc == nil {
			if i == 0 {
				return nil
			}
			break
		}
		c.Maps = append(c.Maps, ipMap{From: sc.Path, To: tc.Path, Form: r.Intn(2), lt: tc.Leaf})
	}
	if c.Succ == 0 && r.Prob(0.3) {
		if tc := pick(func(tc pathCand) bool { return tc.Leaf == tString || tc.Leaf == tAny }); tc != nil {
			c.Extra = tc.Path
		}
	}
	// the dynamic value
	c.Val = genValue(r, c.D, 1).Interface()
	if r.Prob(0.45) {
		first := c.Maps[0].From[0]
		var hs []any
		var names []string
		add := func(name string, v any) { names, hs = append(names, name), append(hs, v) }
		if c.PredT == tAny {
			add("int", 5)
			add("string", "s")
			add("slice", []string{first})
			add("struct-without-the-field", NoS{X: 1})
			add("pointer-to-struct-without-the-field", &NoS{X: 1})
			add("struct-with-unexported-fields", unexportedLookAlike{s: "u"})
			add("map-with-int-keys", map[int]string{1: "a"})
			add("map-without-the-key", map[string]any{"zz": 1})
			add("typed-map-without-the-key", map[string]Leaf{})
			add("nil-pointer", (*Mid)(nil))
			add("look-alike-struct", genValue(r, tOdd, 1).Interface())
			add("pointer-to-look-alike-struct", genValue(r, reflect.PointerTo(tOdd), 1).Interface())
			add("array", [2]string{"a", "b"})
			add("func-free-bool", true)
			if !c.Start {
				add("nil", nil)
			}
		} else {
			add("struct-without-the-field", NoS{X: 1})
			add("look-alike-struct", genValue(r, tOdd, 1).Interface())
			add("nil-pointer", (*Mid)(nil))
			add("nil-pointer", (*Leaf)(nil))
			if !c.Start {
				add("nil", nil)
			}
		}
		k := r.Intn(len(hs))
		c.Val, c.Hostile = hs[k], names[k]
	}
	return c
}

func ipFM(from, to []string, form int) *compose.FieldMapping {
	switch {
	case len(from) == 0 && form == 1 && len(to) == 1:
		return compose.ToField(to[0])
	case len(from) == 0:
		return compose.ToFieldPath(compose.FieldPath(clonePath(to)))
	case form == 1 && len(from) == 1 && len(to) == 1:
		return compose.MapFields(from[0], to[0])
	}
	return compose.MapFieldPaths(compose.FieldPath(clonePath(from)), compose.FieldPath(clonePath(to)))
}

type ipBuilt struct {
	run  *runHandle
	cerr error
	rec  *succRec
	pn   *predNode
}

func (c *ipCase) build(ctx context.Context, rev bool) *ipBuilt {
	b := &ipBuilt{rec: &succRec{}, pn: &predNode{full: c.Val, chunks: []any{c.Val}}}
	var h *wfHandle
	switch {
	case c.Start:
		h = ifaceWfFrom[c.PredT]()
	case c.Succ == 2:
		h = wfTo[c.T]()
	default:
		h = wfFrom[tString]()
	}
	from := compose.START
	if !c.Start {
		from = "p"
	}
	var fms []*compose.FieldMapping
	if c.Whole != nil {
		fms = append(fms, ipFM(nil, c.Whole, c.WForm))
	}
	for _, m := range c.Maps {
		fms = append(fms, ipFM(m.From, m.To, m.Form))
	}
	if rev {
		for i, j := 0, len(fms)-1; i < j; i, j = i+1, j-1 {
			fms[i], fms[j] = fms[j], fms[i]
		}
	}
	addPred := func() {
		if !c.Start {
			h.addLambda("p", ifacePredOf[c.PredT](b.pn)).AddInput(compose.START)
		}
	}
	addSucc := func() {
		var node *compose.WorkflowNode
		switch c.Succ {
		case 0:
			node = h.addLambda("n", succOf[c.T](b.rec))
		case 1:
			node = h.addLambda("n", sinvOf[c.T](b.rec))
		default:
			node = h.end()
		}
		extra := func() {
			if c.Extra != nil {
				h.addLambda("q", mkPred[string](&predNode{full: "qv", chunks: []any{"qv"}})).AddInput(compose.START)
				node.AddInput("q", compose.ToFieldPath(compose.FieldPath(clonePath(c.Extra))))
			}
		}
		if rev {
			extra()
		}
		node.AddInput(from, fms...)
		if !rev {
			extra()
		}
		if c.Succ != 2 {
			h.end().AddInput("n")
		}
	}
	if rev {
		addSucc()
		addPred()
	} else {
		addPred()
		addSucc()
	}
	b.run, b.cerr = h.compile(ctx)
	return b
}

// ---- reference ----------------------------------------------------------------------------------------------

type ipExpect struct {
	Must, May bool
	Class     string
	Why       string
	Want      *tree
}

func (c *ipCase) expect() ipExpect {
	var e ipExpect
	root := reflect.New(c.T).Elem()
	// the class names the case: a step that cannot be taken (rank 3) before a value that does not fit (2) before "no value" (1)
	rank := 0
	note := func(must bool, class, why string) {
		rk := 1
		if must {
			rk = 2
			e.Must = true
		} else {
			e.May = true
		}
		if class == gNoField.String() || class == gNotContainer.String() || class == gBadKey.String() {
			rk = 3
		}
		if rk > rank {
			rank, e.Class, e.Why = rk, class, why
		}
	}
	if c.Whole != nil {
		if err := refSet(root, c.Whole, c.Val); err != nil {
			note(true, "value-does-not-fit-the-target", err.Error())
		}
	}
	for _, m := range c.Maps {
		if rv := reflect.ValueOf(c.Val); rv.IsValid() && rv.Kind() == reflect.Struct {
			if sf, ok := rv.Type().FieldByName(m.From[0]); ok && !sf.IsExported() {
				// a field that exists but is not exported cannot be read from outside its package
				note(true, gNoField.String(), fmt.Sprintf("field %s of %v is not exported", m.From[0], rv.Type()))
				continue
			}
		}
		x, st, w := refGetX(c.Val, m.From)
		const depth = "" // how deep the walk got is in the detail (w.Step)
		switch st {
		case gOK:
			if x == nil {
				if m.lt.Kind() != reflect.Interface {
					note(false, "nil-for-a-typed-target", fmt.Sprintf("nil at %s for a target of type %v", joinPath(m.From), m.lt))
				}
				continue
			}
			if !reflect.TypeOf(x).AssignableTo(m.lt) {
				note(true, "value-of-another-type-for-a-typed-target", fmt.Sprintf("%T at %s for a target of type %v", x, joinPath(m.From), m.lt))
				continue
			}
			if err := refSet(root, m.To, x); err != nil {
				note(true, "value-does-not-fit-the-target", err.Error())
			}
		case gNoField, gNotContainer, gBadKey:
			note(true, st.String()+depth, fmt.Sprintf("%s at step %d of %s", st, w.Step, joinPath(m.From)))
		default:
			note(false, st.String()+depth, fmt.Sprintf("%s at step %d of %s", st, w.Step, joinPath(m.From)))
		}
	}
	if c.Extra != nil {
		_ = refSet(root, c.Extra, "qv")
	}
	e.Want = toTree(root)
	return e
}

// ---- runs -----------------------------------------------------------------------------------------------------

type r4Out struct {
	Kind  string // value | error | panic
	Err   string
	Panic *mon.Panic
	Seen  []*tree
	Calls int
}

// r4Run: api 0 Invoke, 1 Stream, 2 Transform, 3 Collect. rec == nil: the observed node is END (of type endT).
func r4Run(ctx context.Context, run *runHandle, api int, in any, rec *succRec, endT reflect.Type) r4Out {
	if rec != nil {
		rec.reset()
	}
	var outs []any
	var err error
	p := mon.Safe(func() {
		switch api {
		case 0:
			var one any
			one, err = run.invoke(ctx, in)
			outs = []any{one}
		case 1:
			outs, err = run.stream(ctx, in)
		case 2:
			outs, err = run.transform(ctx, []any{in})
		default:
			var one any
			one, err = run.collect(ctx, []any{in})
			outs = []any{one}
		}
	})
	var o r4Out
	switch {
	case p != nil:
		o.Kind, o.Panic = "panic", p
	case err != nil:
		o.Kind, o.Err = "error", err.Error()
	default:
		o.Kind = "value"
		if rec == nil {
			for _, x := range outs {
				o.Seen = append(o.Seen, treeAs(x, endT))
			}
			o.Calls = 1
		} else {
			o.Seen = append(o.Seen, rec.trees...)
			o.Calls = rec.calls
		}
	}
	return o
}

// r4Overlay puts the chunks a node was handed together (chunks without information dropped).
func r4Overlay(ts []*tree) (*tree, bool) {
	var merged *tree
	conflict := false
	for _, ch := range ts {
		if ch.empty() {
			continue
		}
		if merged == nil {
			merged = ch
			continue
		}
		var cf bool
		merged, cf = mergeTrees(merged, ch)
		conflict = conflict || cf
	}
	return merged, conflict
}

// r4Same: the node was handed the reference value (one value, or chunks whose overlay is the value).
func r4Same(seen []*tree, want *tree) (bool, string) {
	got, conflict := r4Overlay(seen)
	if got == nil {
		return want.empty(), "<nothing>"
	}
	if conflict {
		return false, got.String() + " (chunks conflict)"
	}
	w, g := emptyForNilMaps(want), emptyForNilMaps(got)
	return w.String() == g.String() || (w.empty() && g.empty()), got.String()
}

type ipWitness struct {
	Pred     string   `json:"predecessor"`
	Succ     string   `json:"successor"`
	Mappings []string `json:"mappings_of_one_AddInput_call"`
	Extra    string   `json:"second_predecessor,omitempty"`
	Value    string   `json:"predecessor_output"`
	Hostile  string   `json:"hostile,omitempty"`
	Note     string   `json:"note,omitempty"`
}

func (c *ipCase) witness(note string) ipWitness {
	w := ipWitness{Hostile: c.Hostile, Note: note, Value: short(treeOf(c.Val).String(), 600)}
	w.Pred = fmt.Sprintf("lambda p with output type %v", c.PredT)
	if c.Start {
		w.Pred = fmt.Sprintf("START of Workflow[%v, string]", c.PredT)
	}
	w.Succ = fmt.Sprintf("%s, input type %v", []string{"lambda (Invoke and Transform forms)", "lambda (Invoke form only)", "END"}[c.Succ], c.T)
	if c.Whole != nil {
		w.Mappings = append(w.Mappings, "<whole output> -> "+joinPath(c.Whole))
	}
	for _, m := range c.Maps {
		w.Mappings = append(w.Mappings, fmt.Sprintf("%s -> %s (%v)", joinPath(m.From), joinPath(m.To), m.lt))
	}
	if c.Extra != nil {
		w.Extra = "lambda q (string) -> " + joinPath(c.Extra)
	}
	return w
}

func (c *ipCase) digest() string {
	var b strings.Builder
	fmt.Fprintf(&b, "ip|%v|%v|%v|%v|%d|%s|%s|%s|", c.PredT, c.Start, c.D, c.T, c.Succ, joinPath(c.Whole), joinPath(c.Extra), c.Hostile)
	var ms []string
	for _, m := range c.Maps {
		ms = append(ms, joinPath(m.From)+">"+joinPath(m.To))
	}
	sort.Strings(ms)
	return b.String() + strings.Join(ms, ",")
}

func runIfacePredCase(ctx context.Context, rep *mon.Reporter, rng *mon.Rand, c *ipCase, idx int64) {
	rep.Count("iface_pred/sets_total", 1)
	if idx < 40 {
		rep.Sample(c.witness(""))
	}
	var accepted []*ipBuilt
	compiles := 0
	firstErr := ""
	for _, rev := range []bool{false, true} {
		var b *ipBuilt
		p := mon.Safe(func() { b = c.build(ctx, rev) })
		compiles++
		if p != nil {
			rep.Violation("C15/panic/compile/"+clsIfacePred, "Compile panicked: "+short(p.Value, 300)+"\n"+short(p.Stack, 1500), c.witness(""))
			continue
		}
		if b.cerr == nil {
			accepted = append(accepted, b)
		} else if firstErr == "" {
			firstErr = b.cerr.Error()
		}
	}
	rep.AddEvaluations(int64(compiles))
	if len(accepted) == 0 {
		if c.NoWhole {
			rep.Count("iface_pred/sets_without_a_whole_output_mapping_rejected", 1)
		} else {
			rep.Count("iface_pred/sets_rejected", 1)
			rep.Distinct("iface_pred_reject_reasons", short(firstErr, 60))
			if debug {
				fmt.Printf("REJECTED iface-pred case %d: %s\n  %+v\n", idx, firstErr, c.witness(""))
			}
		}
		return
	}
	rep.Count("iface_pred/sets_accepted_and_run", 1)
	if c.NoWhole {
		rep.Count("iface_pred/sets_without_a_whole_output_mapping_accepted_and_run", 1)
	}
	if c.Start {
		rep.Count("iface_pred/sets_run/START-is-the-predecessor", 1)
	}
	rep.Count("iface_pred/sets_run/successor-"+[]string{"lambda", "invoke-only-lambda", "END"}[c.Succ], 1)
	e := c.expect()
	sigClass := "interface-typed-predecessor-output/" + e.Class
	switch {
	case e.Must:
		rep.Count("iface_pred/sets_run/only-an-error-is-right", 1)
		rep.Count("iface_pred/sets_run/"+e.Class, 1)
	case e.May:
		rep.Count("iface_pred/sets_run/error-or-unset", 1)
		rep.Count("iface_pred/sets_run/"+e.Class, 1)
	default:
		rep.Count("iface_pred/sets_run/value-due", 1)
	}
	before := hashAny(c.Val)
	runs := 0
	conform := true
	for _, b := range accepted {
		rec := b.rec
		if c.Succ == 2 {
			rec = nil
		}
		var inv, str r4Out
		in := any("in")
		if c.Start {
			in = c.Val
		}
		for ri, api := range []int{0, 0, 1, 2, 3} {
			o := r4Run(ctx, b.run, api, in, rec, c.T)
			runs++
			if ri == 0 {
				inv = o
			}
			if api == 1 {
				str = o
			}
			if h := hashAny(c.Val); h != before {
				rep.Violation("C15/predecessor-output-mutated/"+clsIfacePred, fmt.Sprintf("%s changed the predecessor's output: now %s", apiNames[api], short(treeOf(c.Val).String(), 500)), c.witness(apiNames[api]))
				before = h
				conform = false
			}
			switch o.Kind {
			case "panic":
				sig := "C15/run-failed/" + clsIfacePred
				if e.Must || e.May {
					sig = "C15/panic/" + sigClass
				}
				rep.Violation(sig, fmt.Sprintf("%s panicked through the public API (at %s): %s\nreference: %s\n%s", apiNames[api], panicFrame(o.Panic), short(o.Panic.Value, 400), e.Why, short(o.Panic.Stack, 2000)), c.witness(apiNames[api]))
				conform = false
				continue
			case "error":
				if e.Must || e.May {
					rep.Count("iface_pred/errors_observed_where_the_dynamic_value_cannot_be_walked", 1)
					continue
				}
				rep.Violation("C15/run-failed/"+clsIfacePred, fmt.Sprintf("%s returned an error although every source path exists in the predecessor's output and every value fits its target: %s", apiNames[api], short(o.Err, 600)), c.witness(apiNames[api]))
				conform = false
				continue
			}
			if e.Must {
				rep.Violation("C15/missing-error/"+sigClass, fmt.Sprintf("%s delivered %s although %s", apiNames[api], short(treesString(o.Seen), 400), e.Why), c.witness(apiNames[api]))
				conform = false
				continue
			}
			if rec != nil && o.Calls != 1 {
				rep.Violation("C15/successor-call-count", fmt.Sprintf("%s: the successor was called %d times", apiNames[api], o.Calls), c.witness(apiNames[api]))
				conform = false
				continue
			}
			if ok, got := r4Same(o.Seen, e.Want); !ok {
				rep.Violation("C15/wrong-value/"+clsIfacePred, fmt.Sprintf("%s handed the successor\n  %s\nthe reference says\n  %s", apiNames[api], short(got, 1200), short(e.Want.String(), 1200)), c.witness(apiNames[api]))
				conform = false
				continue
			}
			rep.Count("iface_pred/successor_inputs_equal_to_reference", 1)
		}
		if e.May && inv.Kind != "panic" && str.Kind != "panic" && (inv.Kind == "error") != (str.Kind == "error") {
			rep.Violation("C15/invoke-stream-differ/"+sigClass, fmt.Sprintf("the same compiled workflow on the same input: Invoke -> %s %s, Stream -> %s %s (%s)", inv.Kind, short(inv.Err, 300), str.Kind, short(str.Err, 300), e.Why), c.witness(""))
			conform = false
		}
	}
	rep.AddEvaluations(int64(runs))
	rep.Count("iface_pred/runs", int64(runs))
	if conform {
		rep.Count("iface_pred/sets_conforming_in_every_run", 1)
	}
	rep.NonTrivial(c.digest())
	rep.Distinct("type_pairs", fmt.Sprintf("iface-pred %v(%v)>%v", c.PredT, c.D, c.T))
}
