package c15

// Independent reference for property C15, written from the property statement
// only: an overlap predicate on target paths, a path "get" over source values, a
// path "set" over a zero target value that instantiates pointers / maps /
// interface holes on the way, and a canonical tree rendering used to compare
// values and to snapshot predecessor outputs. It shares no code with
// compose/field_mapping.go.

import (
	"fmt"
	"reflect"
	"sort"
	"strings"
)

// ---- overlap predicate -------------------------------------------------------

// isPrefix: a is a (not necessarily strict) prefix of b.
func isPrefix(a, b []string) bool {
	if len(a) > len(b) {
		return false
	}
	for i := range a {
		if a[i] != b[i] {
			return false
		}
	}
	return true
}

// overlaps: two target paths are equal or one is a prefix of the other. The
// empty path (the whole successor input) is a prefix of every path.
func overlaps(a, b []string) bool { return isPrefix(a, b) || isPrefix(b, a) }

// ---- canonical tree ----------------------------------------------------------

// tree is a canonical, type-annotated picture of a Go value.
type tree struct {
	K    string // "str" "int" "struct" "ptr" "map" "iface" "other"
	T    string // type name (for iface: dynamic type)
	V    string // leaf text
	Nil  bool   // nil pointer / nil map / nil interface
	Kids map[string]*tree
	Elem *tree    // ptr / iface payload
	Emb  []string // struct: names of the embedded fields (their fields are promoted)
}

// toTree renders v; values nested deeper than 40 levels (only cyclic values are: an
// accepted overlapping mapping set can make a predecessor's map contain itself) are cut.
func toTree(v reflect.Value) *tree { return toTreeD(v, 0) }

func toTreeD(v reflect.Value, depth int) *tree {
	if depth > 40 {
		return &tree{K: "other", T: "cut", V: "deeper than 40 levels"}
	}
	if !v.IsValid() {
		return &tree{K: "iface", Nil: true}
	}
	switch v.Kind() {
	case reflect.String:
		return &tree{K: "str", V: v.String()}
	case reflect.Int, reflect.Int64, reflect.Int32:
		return &tree{K: "int", V: fmt.Sprint(v.Int())}
	case reflect.Bool:
		return &tree{K: "bool", V: fmt.Sprint(v.Bool())}
	case reflect.Struct:
		t := &tree{K: "struct", T: v.Type().String(), Kids: map[string]*tree{}}
		for i := 0; i < v.NumField(); i++ {
			sf := v.Type().Field(i)
			t.Kids[sf.Name] = toTreeD(v.Field(i), depth+1)
			if sf.Anonymous {
				t.Emb = append(t.Emb, sf.Name)
			}
		}
		return t
	case reflect.Ptr:
		if v.IsNil() {
			return &tree{K: "ptr", Nil: true}
		}
		return &tree{K: "ptr", Elem: toTreeD(v.Elem(), depth+1)}
	case reflect.Map:
		if v.IsNil() {
			return &tree{K: "map", Nil: true}
		}
		t := &tree{K: "map", Kids: map[string]*tree{}}
		it := v.MapRange()
		for it.Next() {
			k := it.Key()
			ks := ""
			if k.Kind() == reflect.String {
				ks = k.String()
			} else {
				ks = fmt.Sprint(k.Interface())
			}
			t.Kids[ks] = toTreeD(it.Value(), depth+1)
		}
		return t
	case reflect.Interface:
		if v.IsNil() {
			return &tree{K: "iface", Nil: true}
		}
		e := v.Elem()
		return &tree{K: "iface", T: e.Type().String(), Elem: toTreeD(e, depth+1)}
	case reflect.Array, reflect.Slice:
		// element i is kid "i"; an array is zero when all of its elements are, a slice when it is nil
		t := &tree{K: "arr", T: v.Type().String(), Kids: map[string]*tree{}}
		if v.Kind() == reflect.Slice {
			t.K = "slice"
			if v.IsNil() {
				t.Nil = true
				return t
			}
		}
		for i := 0; i < v.Len(); i++ {
			t.Kids[fmt.Sprintf("%03d", i)] = toTreeD(v.Index(i), depth+1)
		}
		return t
	default:
		return &tree{K: "other", T: v.Type().String(), V: fmt.Sprintf("%v", v.Interface())}
	}
}

// treeOf renders a value held in an `any` (the static type is the dynamic one).
func treeOf(x any) *tree {
	if x == nil {
		return &tree{K: "iface", Nil: true}
	}
	return toTree(reflect.ValueOf(x))
}

// treeAs renders x as a value of static type t (so that `any`-typed roots keep their
// interface wrapper).
func treeAs(x any, t reflect.Type) *tree {
	v := reflect.New(t).Elem()
	if x != nil {
		v.Set(reflect.ValueOf(x))
	}
	return toTree(v)
}

func (t *tree) String() string {
	var b strings.Builder
	t.write(&b)
	return b.String()
}

func (t *tree) write(b *strings.Builder) {
	switch t.K {
	case "str":
		fmt.Fprintf(b, "%q", t.V)
	case "int", "bool":
		b.WriteString(t.V)
	case "struct", "map":
		if t.Nil {
			b.WriteString("nilmap")
			return
		}
		if t.K == "map" {
			b.WriteString("map")
		}
		b.WriteByte('{')
		ks := make([]string, 0, len(t.Kids))
		for k := range t.Kids {
			ks = append(ks, k)
		}
		sort.Strings(ks)
		first := true
		for _, k := range ks {
			kid := t.Kids[k]
			if t.K == "struct" && kid.zero() {
				continue // zero struct fields are omitted: shorter, still canonical
			}
			if !first {
				b.WriteByte(' ')
			}
			first = false
			b.WriteString(k)
			b.WriteByte(':')
			kid.write(b)
		}
		b.WriteByte('}')
	case "arr", "slice":
		if t.Nil {
			b.WriteString("nilslice")
			return
		}
		b.WriteString(t.T + "[")
		ks := make([]string, 0, len(t.Kids))
		for k := range t.Kids {
			ks = append(ks, k)
		}
		sort.Strings(ks)
		for i, k := range ks {
			if i > 0 {
				b.WriteByte(' ')
			}
			t.Kids[k].write(b)
		}
		b.WriteByte(']')
	case "ptr":
		if t.Nil {
			b.WriteString("nilptr")
			return
		}
		b.WriteByte('&')
		t.Elem.write(b)
	case "iface":
		if t.Nil {
			b.WriteString("nil")
			return
		}
		b.WriteString("(" + t.T + ")")
		t.Elem.write(b)
	default:
		b.WriteString(t.T + "(" + t.V + ")")
	}
}

// zero: the tree of a Go zero value.
func (t *tree) zero() bool {
	switch t.K {
	case "str":
		return t.V == ""
	case "int":
		return t.V == "0"
	case "bool":
		return t.V == "false"
	case "struct":
		for _, k := range t.Kids {
			if !k.zero() {
				return false
			}
		}
		return true
	case "arr":
		for _, k := range t.Kids {
			if !k.zero() {
				return false
			}
		}
		return true
	case "ptr", "map", "iface", "slice":
		return t.Nil
	}
	return false
}

// empty: a value that carries no mapped information at all (zero, or containers
// that were instantiated but hold nothing): what a stream chunk looks like when
// all of its mappings were skipped.
func (t *tree) empty() bool {
	switch t.K {
	case "struct":
		for _, k := range t.Kids {
			if !k.zero() {
				return false
			}
		}
		return true
	case "ptr":
		return t.Nil || t.Elem.empty()
	case "map", "slice":
		return t.Nil || len(t.Kids) == 0
	case "iface":
		return t.Nil || t.Elem.empty()
	}
	return t.zero()
}

// mergeTrees overlays stream chunks: zero positions are filled from the other
// chunk, containers are merged recursively. conflict=true if both chunks carry
// different non-zero information at the same position.
func mergeTrees(a, b *tree) (*tree, bool) {
	if a.zero() {
		return b, false
	}
	if b.zero() {
		return a, false
	}
	if a.K != b.K {
		return a, true
	}
	switch a.K {
	case "struct", "map":
		out := &tree{K: a.K, T: a.T, Kids: map[string]*tree{}}
		conflict := false
		for k, v := range a.Kids {
			out.Kids[k] = v
		}
		for k, v := range b.Kids {
			if av, ok := out.Kids[k]; ok {
				m, c := mergeTrees(av, v)
				out.Kids[k] = m
				conflict = conflict || c
			} else {
				out.Kids[k] = v
			}
		}
		return out, conflict
	case "ptr":
		m, c := mergeTrees(a.Elem, b.Elem)
		return &tree{K: "ptr", Elem: m}, c
	case "iface":
		if a.T != b.T {
			return a, true
		}
		m, c := mergeTrees(a.Elem, b.Elem)
		return &tree{K: "iface", T: a.T, Elem: m}, c
	default:
		return a, a.String() != b.String()
	}
}

// ---- source side: path get -----------------------------------------------------

type getStatus int

const (
	gOK           getStatus = iota
	gAbsentKey              // a map on the path lacks the key
	gNilPtr                 // a nil pointer on the path (not at its end)
	gNilIface               // a nil interface on the path (not at its end)
	gNoField                // a struct on the path lacks the field
	gNotContainer           // a non-struct/map value on the path
	gBadKey                 // a map whose key type is not string
	gNilEmb                 // the field is promoted through an embedded pointer that is nil
)

func (s getStatus) String() string {
	return [...]string{"ok", "absent-map-key", "nil-pointer", "nil-interface", "no-such-field", "not-a-container", "non-string-key-map", "nil-embedded-pointer"}[s]
}

// refGet follows path inside v. Interfaces and pointers (any depth) are looked
// through; the value found at the end is returned as it is stored there.
func refGet(v any, path []string) (any, getStatus) {
	x, st, _ := refGetX(v, path)
	return x, st
}

// where describes the place at which a walk stopped: Step is the index of the path
// element that could not be followed, Direct says that the container (or nil) met
// there is the immediate dynamic value of an interface-typed position, Below that
// an interface-typed position was passed earlier on the path.
type where struct {
	Step   int
	Direct bool
	Below  bool
}

func refGetX(v any, path []string) (any, getStatus, where) {
	cur := reflect.ValueOf(v)
	below := false
	for i, el := range path {
		direct := false
		w := func() where { return where{Step: i, Direct: direct, Below: below} }
		for {
			if !cur.IsValid() {
				direct = true
				return nil, gNilIface, w()
			}
			if cur.Kind() == reflect.Interface {
				direct = true
				if cur.IsNil() {
					return nil, gNilIface, w()
				}
				cur = cur.Elem()
				continue
			}
			if cur.Kind() == reflect.Ptr {
				if cur.IsNil() {
					return nil, gNilPtr, w()
				}
				cur = cur.Elem()
				continue
			}
			break
		}
		switch cur.Kind() {
		case reflect.Struct:
			f, found, nilEmb := getField(cur, el)
			if !found {
				return nil, gNoField, w()
			}
			if nilEmb {
				return nil, gNilEmb, w()
			}
			cur = f
		case reflect.Map:
			if cur.Type().Key().Kind() != reflect.String {
				return nil, gBadKey, w()
			}
			e := cur.MapIndex(reflect.ValueOf(el).Convert(cur.Type().Key()))
			if !e.IsValid() {
				return nil, gAbsentKey, w()
			}
			cur = e
		default:
			return nil, gNotContainer, w()
		}
		if direct {
			below = true
		}
	}
	if !cur.IsValid() {
		return nil, gOK, where{Step: len(path), Below: below}
	}
	if cur.Kind() == reflect.Interface && cur.IsNil() {
		return nil, gOK, where{Step: len(path), Below: below}
	}
	return cur.Interface(), gOK, where{Step: len(path), Below: below}
}

// ---- target side: static leaf type and path set -----------------------------------

// leafType: the declared type found at path inside t; below an `any` everything is
// `any` (the hole is filled with map[string]any levels). ok=false if the path does
// not exist in the declared type.
func leafType(t reflect.Type, path []string) (reflect.Type, bool) {
	for _, el := range path {
		for t.Kind() == reflect.Ptr {
			t = t.Elem()
		}
		switch {
		case t.Kind() == reflect.Struct:
			f, ok := t.FieldByName(el)
			if !ok || !settableTarget(t, el) {
				return nil, false
			}
			t = f.Type
		case t.Kind() == reflect.Map && t.Key().Kind() == reflect.String:
			t = t.Elem()
		case t == tAny:
			t = tAny
		default:
			return nil, false
		}
	}
	return t, true
}

// refSet stores val at path inside cur (an addressable value of the successor's
// declared type, or an element copy that the caller writes back), creating nil
// pointers, nil maps and `any` holes (as map[string]any) on the way.
func refSet(cur reflect.Value, path []string, val any) error {
	if len(path) == 0 {
		if val == nil {
			cur.Set(reflect.Zero(cur.Type()))
			return nil
		}
		vv := reflect.ValueOf(val)
		if !vv.Type().AssignableTo(cur.Type()) {
			return fmt.Errorf("value of type %v cannot be held by %v", vv.Type(), cur.Type())
		}
		cur.Set(vv)
		return nil
	}
	for cur.Kind() == reflect.Ptr {
		if cur.IsNil() {
			cur.Set(reflect.New(cur.Type().Elem()))
		}
		cur = cur.Elem()
	}
	el, rest := path[0], path[1:]
	switch {
	case cur.Kind() == reflect.Struct:
		f, err := setField(cur, el)
		if err != nil {
			return err
		}
		return refSet(f, rest, val)
	case cur.Kind() == reflect.Map:
		if cur.IsNil() {
			cur.Set(reflect.MakeMap(cur.Type()))
		}
		return refSetMap(cur, el, rest, val)
	case cur.Kind() == reflect.Interface && cur.Type() == tAny:
		m, ok := cur.Interface().(map[string]any)
		if !ok {
			m = map[string]any{}
			cur.Set(reflect.ValueOf(m))
		}
		return refSetMap(reflect.ValueOf(m), el, rest, val)
	}
	return fmt.Errorf("cannot descend into %v", cur.Type())
}

func refSetMap(m reflect.Value, key string, rest []string, val any) error {
	k := reflect.ValueOf(key).Convert(m.Type().Key())
	tmp := reflect.New(m.Type().Elem()).Elem()
	if old := m.MapIndex(k); old.IsValid() {
		tmp.Set(old)
	}
	if err := refSet(tmp, rest, val); err != nil {
		return err
	}
	m.SetMapIndex(k, tmp)
	return nil
}
